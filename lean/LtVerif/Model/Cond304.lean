/-
  Model of the conditional-request evaluation (C15):
    http_etag_matches()  (src/http_etag.c)               -> `etagMatches`
    http_response_handle_cachable() (src/http-header-glue.c) -> `handleCachable`
  with http_date_if_modified_since() from Model/Date.lean.
  Header values are NUL-free byte strings.
-/
import LtVerif.Model.Date
set_option linter.unusedSimpArgs false
set_option linter.unusedVariables false
namespace LtVerif
namespace Cond
open B Date

/-- list separators skipped before an element: ' ', '\t', ',' -/
def isDelim (b : UInt8) : Bool := b = 32 || b = 9 || b = 44

/-- `*s != ','` (the NUL test is the end of the list) -/
def notComma (b : UInt8) : Bool := b != 44

/-- `*s == '\0' || *s == ' ' || *s == '\t' || *s == ','` -/
def atEnd : Bytes → Bool
  | [] => true
  | b :: _ => isDelim b

/-- optional weakness prefix `W/`: (present?, rest) -/
def stripWeak : Bytes → Bool × Bytes
  | 87 :: 47 :: t => (true, t)
  | s => (false, s)

/-- one iteration of the `while (*s)` loop of http_etag_matches() on a
    non-empty `s`: `none` = return 1, `some rest` = continue at `rest`.
    `tag` is the response ETag without its `W/` prefix. -/
def etagStep (tag : Bytes) (weakOk : Bool) (s : Bytes) : Option Bytes :=
  let (weak, s2) := stripWeak (s.dropWhile isDelim)
  if !weak || weakOk then
    if s2.head? = some 42 then                       -- '*' element
      if atEnd (s2.drop 1) then none
      else some ((s2.drop 1).dropWhile notComma)
    else if tag.isPrefixOf s2 then                   -- strncmp(s, etag, etag_sz) == 0
      if atEnd (s2.drop tag.length) then none
      else some ((s2.drop tag.length).dropWhile notComma)
    else some (s2.dropWhile notComma)
  else some (s2.dropWhile notComma)

theorem length_dropWhile_le {α : Type} (p : α → Bool) (l : List α) :
    (l.dropWhile p).length ≤ l.length := by
  induction l with
  | nil => simp
  | cons x xs ih =>
    simp only [List.dropWhile_cons]
    split
    · simp; omega
    · simp

theorem stripWeak_length_le (s : Bytes) : (stripWeak s).2.length ≤ s.length := by
  unfold stripWeak
  split <;> simp
  omega

theorem stripWeak_eq_or (s : Bytes) :
    (stripWeak s = (false, s)) ∨ (stripWeak s).2.length + 2 = s.length := by
  unfold stripWeak
  split
  · right; simp
  · left; rfl

theorem dropWhile_ne_comma_lt (b : UInt8) (t : Bytes) (h : isDelim b = false) :
    ((b :: t).dropWhile notComma).length < (b :: t).length := by
  have hb : notComma b = true := by
    simp only [isDelim, Bool.or_eq_false_iff, decide_eq_false_iff_not] at h
    simp [notComma, h.2]
  simp only [List.dropWhile_cons, hb, if_true]
  have := length_dropWhile_le notComma t
  simp only [List.length_cons]
  omega

theorem etagStep_lt (tag : Bytes) (weakOk : Bool) (s rest : Bytes) (hs : s ≠ [])
    (h : etagStep tag weakOk s = some rest) : rest.length < s.length := by
  cases s with
  | nil => exact absurd rfl hs
  | cons b t =>
    by_cases hb : isDelim b = true
    · -- at least the first byte is skipped, everything after is a suffix
      have h1 : ((b :: t).dropWhile isDelim).length ≤ t.length := by
        simp only [List.dropWhile_cons, hb, if_true]
        exact length_dropWhile_le _ _
      have h2 := stripWeak_length_le ((b :: t).dropWhile isDelim)
      have key : ∀ r : Bytes, r.length ≤ (stripWeak ((b :: t).dropWhile isDelim)).2.length →
          r.length < (b :: t).length := by
        intro r hr; simp only [List.length_cons]; omega
      unfold etagStep at h
      simp only at h
      split at h
      · split at h
        · split at h
          · simp at h
          · simp only [Option.some.injEq] at h; rw [← h]
            apply key
            exact Nat.le_trans (length_dropWhile_le _ _) (by simp)
        · split at h
          · split at h
            · simp at h
            · simp only [Option.some.injEq] at h; rw [← h]
              apply key
              exact Nat.le_trans (length_dropWhile_le _ _) (by simp)
          · simp only [Option.some.injEq] at h; rw [← h]
            exact key _ (length_dropWhile_le _ _)
      · simp only [Option.some.injEq] at h; rw [← h]
        exact key _ (length_dropWhile_le _ _)
    · have hb' : isDelim b = false := by simpa using hb
      have h0 : (b :: t).dropWhile isDelim = b :: t := by
        simp [hb']
      unfold etagStep at h
      rw [h0] at h
      rcases stripWeak_eq_or (b :: t) with e | e
      · rw [e] at h
        simp only at h
        split at h
        · split at h
          · split at h
            · simp at h
            · simp only [Option.some.injEq] at h; rw [← h]
              have := length_dropWhile_le notComma (List.drop 1 (b :: t))
              simp only [List.drop_succ_cons, List.drop_zero] at this
              simp only [List.drop_succ_cons, List.drop_zero, List.length_cons]
              omega
          · split at h
            · split at h
              · simp at h
              · simp only [Option.some.injEq] at h; rw [← h]
                by_cases ht : tag.length = 0
                · rw [ht, List.drop_zero]
                  exact dropWhile_ne_comma_lt b t hb'
                · have := length_dropWhile_le notComma (List.drop tag.length (b :: t))
                  have h3 : (List.drop tag.length (b :: t)).length < (b :: t).length := by
                    simp only [List.length_drop, List.length_cons]; omega
                  omega
            · simp only [Option.some.injEq] at h; rw [← h]
              exact dropWhile_ne_comma_lt b t hb'
        · simp only [Option.some.injEq] at h; rw [← h]
          exact dropWhile_ne_comma_lt b t hb'
      · have key : ∀ r : Bytes, r.length ≤ (stripWeak (b :: t)).2.length →
            r.length < (b :: t).length := by
          intro r hr; omega
        simp only at h
        split at h
        · split at h
          · split at h
            · simp at h
            · simp only [Option.some.injEq] at h; rw [← h]
              apply key
              exact Nat.le_trans (length_dropWhile_le _ _) (by simp)
          · split at h
            · split at h
              · simp at h
              · simp only [Option.some.injEq] at h; rw [← h]
                apply key
                exact Nat.le_trans (length_dropWhile_le _ _) (by simp)
            · simp only [Option.some.injEq] at h; rw [← h]
              exact key _ (length_dropWhile_le _ _)
        · simp only [Option.some.injEq] at h; rw [← h]
          exact key _ (length_dropWhile_le _ _)

/-- the `while (*s)` loop of http_etag_matches() -/
def etagLoop (tag : Bytes) (weakOk : Bool) (s : Bytes) : Bool :=
  if hs : s = [] then false
  else
    match h : etagStep tag weakOk s with
    | none => true
    | some rest => etagLoop tag weakOk rest
termination_by s.length
decreasing_by exact etagStep_lt tag weakOk s rest hs h

/-- http_etag_matches(etag, s, weak_ok): does the field value `s`
    (If-None-Match / If-Match) contain the response entity tag `etag` -/
def etagMatches (etag : Bytes) (s : Bytes) (weakOk : Bool) : Bool :=
  if s = [42] then true                    -- "*"
  else if etag = [] then false
  else
    let (weak, tag) := stripWeak etag
    if weak && !weakOk then false
    else etagLoop tag weakOk s

/-- the request as http_response_handle_cachable() sees it -/
structure CondReq where
  method : Int                      -- http_method_t: 0 GET, 1 HEAD, 2 QUERY, 3 POST, …
  hasRange : Bool                   -- a Range request header is present
  ifNoneMatch : Option Bytes
  ifModifiedSince : Option Bytes
deriving Repr, DecidableEq

inductive CondResult
  | goOn                  -- HANDLER_GO_ON: serve the representation
  | notModified           -- 304
  | preconditionFailed    -- 412
deriving Repr, DecidableEq

/-- http_response_handle_cachable(r, lmod, lmtime): `etag` and `lmod` are the
    response's ETag and Last-Modified fields, `lmtime` the modification time,
    `now` the clock (only used to resolve two-digit RFC 850 years) -/
def handleCachable (now : Int) (rq : CondReq) (etag lmod : Option Bytes) (lmtime : Int) :
    CondResult :=
  if rq.ifNoneMatch.isNone && rq.ifModifiedSince.isNone then .goOn
  else
    match rq.ifNoneMatch, etag with
    | some inm, some et =>
      if etagMatches et inm (!rq.hasRange) then
        if rq.method ≤ 2 then .notModified else .preconditionFailed
      else .goOn
    | _, _ =>
      if rq.method ≤ 2 then
        match rq.ifModifiedSince, lmod with
        | some ims, some lm =>
          if ims = lm || !ifModifiedSince now ims lmtime then .notModified else .goOn
        | _, _ => .goOn
      else .goOn

end Cond
end LtVerif
