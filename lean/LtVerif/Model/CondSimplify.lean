/-
  Model of the two places where lighttpd rewrites a `=~` condition as written in the
  configuration into another comparison (and back):

    configparser.y:configparser_simplify_regex()   -> `simplifyRegex`
        (`=~ "^lit"` -> `=^ "lit"`, `=~ "lit$"` -> `=$ "lit"`, `=~ "\.ext$"` -> `=$ ".ext"`,
         `=~ "^lit$"` -> `== "lit"`; anything else stays a regex)
    configfile.c:config_finalize() "convert back to regex" (blocks whose captures are
        used by redirect/rewrite rules)             -> `unsimplify`

  The C is modelled as it is: `strcspn()` over the NUL-terminated rest of the buffer
  (end of list = the terminating NUL), memmove()+buffer_truncate() as drop/take.
-/
import LtVerif.Model.Cond
namespace LtVerif.Cond
open LtVerif B

/-- `static const char regex_chars[] = "\\^$.|?*+()[]{}"` -/
def regexChars : Bytes := [92, 94, 36, 46, 124, 63, 42, 43, 40, 41, 91, 93, 123, 125]

/-- strcspn(p, regex_chars): length of the initial segment of the C string `p` that
    contains none of `regex_chars` (the scan also ends at a NUL) -/
def strcspn : Bytes → Nat
  | [] => 0
  | c :: s => if c = 0 ∨ regexChars.contains c = true then 0 else strcspn s + 1

/-- the common tail of configparser_simplify_regex():
      if (strcspn(b->ptr+off, regex_chars) != len - off) return CONFIG_COND_MATCH;
      if (off) { memmove(b->ptr, b->ptr+1, len-1); --len; }
      buffer_truncate(b, len); return cond; -/
def simplifyTail (b : Bytes) (off : Nat) (cond : CondOp) (len : Nat) : CondOp × Bytes :=
  if strcspn (b.drop off) ≠ len - off then (.match_, b)
  else if off ≠ 0 then (cond, (b.drop 1).take (len - 1))
  else (cond, b.take len)

/-- configparser_simplify_regex(b): (condition type, string) stored for `=~ b`
    (`b.getLast? = some '$'` is `len && b->ptr[len-1] == '$'`; the patterns are
     `b->ptr[0] == '\\' && b->ptr[1] == '.'` and `b->ptr[0] == '^'`) -/
def simplifyRegex (b : Bytes) : CondOp × Bytes :=
  if b.getLast? = some 36 then
    match b with
    | 92 :: 46 :: _ => simplifyTail b 2 .suffix (b.length - 1)
    | 94 :: _ => simplifyTail b 1 .eq (b.length - 1)
    | _ => simplifyTail b 0 .suffix (b.length - 1)
  else
    match b with
    | 94 :: _ => simplifyTail b 1 .prefix_ b.length
    | _ => (.match_, b)

/-- config_finalize(): a block whose condition was simplified and whose captures (%N) are
    used gets its regex text back:
      if (cond != SUFFIX || b->ptr[0] == '.') prepend (cond == SUFFIX ? '\\' : '^');
      if (cond != PREFIX) append '$';   cond = MATCH -/
def unsimplify (cond : CondOp) (s : Bytes) : CondOp × Bytes :=
  if cond = .eq ∨ cond = .prefix_ ∨ cond = .suffix then
    let s1 := if cond ≠ .suffix ∨ s.head? = some 46 then (if cond = .suffix then 92 else 94) :: s else s
    (.match_, if cond ≠ .prefix_ then s1 ++ [36] else s1)
  else (cond, s)

end LtVerif.Cond
