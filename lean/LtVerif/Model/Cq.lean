/-
  Model of src/chunk.c (lighttpd chunk queue) at chunk level, with the parts of
  src/buffer.c that decide buffer capacities (they decide whether an append
  extends the last chunk or opens a new one, i.e. the chunk layout).

    Chunk / Cq            struct chunk / struct chunkqueue
    World                 process-wide state the queue code touches: the chunk
                          size, the oversized-chunk pool, the file store
                          (source files and temp files: content, link count,
                          open descriptors), the upload dirs, and the scripted
                          results of the temp-file syscalls (fault schedules)

  Every C function of the property is a total function World → Cq → … ;
  loops are structural recursions over the chunk list; the two retry loops
  (chunkqueue_append_mem_to_tempfile(), chunkqueue_steal_with_tempfiles():
  the C loops retry as long as the kernel keeps answering EINTR) take fuel
  that the scripted schedule bounds (every turn consumes a scheduled result,
  a byte of `len` or a chunk).  `File.tl` is ghost state used only by the
  proofs (never read by the model).

  Known divergences from the pinned tree (the model describes the repaired
  behaviour; the check reports the tree until it is repaired):
    * chunkqueue_steal(): a partial steal of 0 bytes from a FILE_CHUNK appends
      nothing and must not touch dest->last            (stealPartial)
    * chunkqueue_use_memory(len = 0) with ckpt == cq->last being an empty
      MEM_CHUNK must keep that chunk                    (useExisting)
    * chunkqueue_read_squash() must copy the data when chunkqueue_peek_data()
      returned a reference instead of filling the buffer (readSquash)
    * chunkqueue_to_tempfiles() must release what is left of its private copy of
      the queue on success, too (trailing 0-length chunks: a temp file and a
      descriptor would leak)                             (toTempfilesWith)
    * a partial steal / range copy of a temp chunk whose descriptor is closed
      must open the temp file for the copy: otherwise the copied bytes become
      unreadable once the owner unlinks the file          (dupFd)

  Core Lean only: this file is linked into the driver `ltm_cq`.
-/
import LtVerif.Model.Basic
namespace LtVerif.Cq
open LtVerif

/-! ## buffer.c: capacities -/

def isPow2 (n : Nat) : Bool := n &&& (n - 1) == 0

/-- `for (sz = 256; sz < psz; sz <<= 1) ;` -/
def pow2From : Nat → Nat → Nat → Nat
  | 0, sz, _ => sz
  | fuel + 1, sz, psz => if sz < psz then pow2From fuel (sz * 2) psz else sz

/-- buffer_realloc(b, len): the new b->size -/
def reallocSize (len : Nat) : Nat :=
  let sz := (len + 1 + 63) / 64 * 64
  let sz := if isPow2 sz then sz else pow2From 64 256 sz
  sz ||| 1

/-- buffer_alloc_replace(b, size) with old b->size = `cap` -/
def allocReplace (cap size : Nat) : Nat :=
  let b2 := (cap / 2 * 2) * 2
  reallocSize (if b2 > size then b2 - 1 else size)

/-- buffer_string_prepare_copy() / buffer_copy_string_len(): resulting size -/
def copyCap (cap len : Nat) : Nat := if len < cap then cap else allocReplace cap len

/-- buffer_string_space() of a buffer holding `len` bytes -/
def space (len cap : Nat) : Nat := if cap = 0 then 0 else cap - (len + 1)

/-- buffer_extend(b, x) on a buffer holding `len` bytes: resulting size -/
def extendCap (len cap x : Nat) : Nat :=
  if cap - len ≥ x + 1 then cap
  else if len = 0 then copyCap cap x
  else
    let b2 := (cap / 2 * 2) * 2
    let used := len + 1
    reallocSize (if b2 - used > x then b2 - 1 else used + x)

/-! ## state -/

/-- c->file.fd: closed, opened for reading (chunk_open_file_chunk(), or handed
    in by the caller), or the read-write descriptor mkostemp() returned -/
inductive Fd where
  | none
  | ro
  | rw
deriving Repr, DecidableEq

def Fd.isOpen : Fd → Bool
  | .none => false
  | _ => true

inductive Chunk where
  /-- MEM_CHUNK: buffer contents, c->offset, c->mem->size -/
  | mem (data : Bytes) (off : Nat) (cap : Nat)
  /-- FILE_CHUNK: file id (stands for the name in c->mem), c->offset,
      c->file.length, c->file.is_temp, c->file.fd -/
  | file (fid : Nat) (off : Nat) (len : Nat) (isTemp : Bool) (fd : Fd)
deriving Repr, DecidableEq

namespace Chunk
/-- chunk_remaining_length() -/
def rem : Chunk → Nat
  | mem d off _ => d.length - off
  | file _ off len _ _ => len - off

def isMem : Chunk → Bool
  | mem .. => true
  | _ => false

/-- c->offset += n -/
def adv (n : Nat) : Chunk → Chunk
  | mem d off cap => mem d (off + n) cap
  | file fid off len t fd => file fid (off + n) len t fd
end Chunk

structure Cq where
  chunks : List Chunk := []
  bytesIn : Int := 0
  bytesOut : Int := 0
  tempSize : Nat := 0      -- upload_temp_file_size
  tdIdx : Nat := 0         -- tempdir_idx
deriving Repr

/-- chunkqueue_length() -/
def Cq.length (q : Cq) : Int := q.bytesIn - q.bytesOut

structure File where
  content : Bytes := []
  nlink : Int := 0         -- 1 while the name exists in its directory
  nfd : Int := 0           -- open descriptors on the file
  dir : Nat := 0           -- upload dir index (temp files)
  /-- ghost (proofs only, never read by the model): bytes accounted for by the
      temp chunk that owns the file -/
  tl : Int := 0

/-- result of one write()/pwritev() call on a temp file -/
inductive WFault where
  | ok
  | short (n : Nat)
  | eintr
  | enospc
  | eio
deriving Repr, DecidableEq

structure World where
  cs : Nat := 8192              -- chunk_buf_sz
  defTempSize : Nat := 1048576  -- chunkqueue_default_tempfile_size
  ndirs : Nat := 0              -- tempdirs->used (0: not configured, $TMPDIR is used)
  pool : List Nat := []         -- chunks_oversized: mem->size of each, descending
  files : Nat → File := fun _ => {}
  nfiles : Nat := 0
  nsrc : Nat := 0               -- files 0..nsrc-1 exist independently of the queues (never unlinked)
  wsched : List WFault := []    -- results of the next write calls (then: ok)
  msched : List Bool := []      -- next mkostemp calls: true = fails (then: ok)

def World.setFile (w : World) (fid : Nat) (f : File) : World :=
  { w with files := fun i => if i = fid then f else w.files i }

def World.closeFd (w : World) (fid : Nat) : World :=
  let f := w.files fid
  w.setFile fid { f with nfd := f.nfd - 1 }

def World.openFd (w : World) (fid : Nat) : World :=
  let f := w.files fid
  w.setFile fid { f with nfd := f.nfd + 1 }

/-- unlink() by the temp chunk that owns the file (`len` = c->file.length, ghost) -/
def World.unlink (w : World) (fid len : Nat) : World :=
  let f := w.files fid
  w.setFile fid { f with nlink := f.nlink - 1, tl := f.tl - len }

/-- ghost bookkeeping of a write through the owning temp chunk -/
def World.addTl (w : World) (fid : Nat) (n : Int) : World :=
  let f := w.files fid
  w.setFile fid { f with tl := f.tl + n }

/-- pwrite(fd, data, pos) -/
def writeAt (content : Bytes) (pos : Nat) (data : Bytes) : Bytes :=
  content.take pos ++ data ++ content.drop (pos + data.length)

def World.pwrite (w : World) (fid pos : Nat) (data : Bytes) : World :=
  let f := w.files fid
  w.setFile fid { f with content := writeAt f.content pos data }

/-! ## abstraction: the bytes a queue holds -/

def Chunk.content (w : World) : Chunk → Bytes
  | .mem d off _ => d.drop off
  | .file fid off len _ _ => ((w.files fid).content.drop off).take (len - off)

def absChunks (w : World) (cs : List Chunk) : Bytes := cs.flatMap (Chunk.content w)

/-- the byte string queued in `q` -/
def Cq.abs (w : World) (q : Cq) : Bytes := absChunks w q.chunks

def remSum : List Chunk → Nat
  | [] => 0
  | c :: cs => c.rem + remSum cs

/-! ## chunk pool (only the oversized list influences capacities) -/

def insertDesc (sz : Nat) : List Nat → List Nat
  | [] => [sz]
  | h :: t => if sz < h then h :: insertDesc sz t else sz :: h :: t

/-- chunk_push_oversized() -/
def pushOversized (w : World) (sz : Nat) : World :=
  if w.pool.length < 64 ∧ w.cs ≥ 4096 then { w with pool := insertDesc sz w.pool }
  else match w.pool with
    | h :: t => if h < sz then { w with pool := sz :: t } else w
    | [] => w

/-- chunk_acquire(sz): resulting mem->size -/
def acquire (w : World) (sz : Nat) : World × Nat :=
  if sz ≤ (w.cs ||| 1) then (w, w.cs ||| 1)
  else
    let sz' := (sz + (w.cs - 1)) / w.cs * w.cs
    match w.pool with
    | h :: t => if h ≥ sz' then ({ w with pool := t }, h) else (w, reallocSize (sz' - 1))
    | [] => (w, reallocSize (sz' - 1))

/-- chunk_release(): buffer goes back to a pool; a file chunk gives up its
    descriptor and (temp file) its name: chunk_reset_file_chunk() -/
def release (w : World) : Chunk → World
  | .mem _ _ cap =>
    if cap = (w.cs ||| 1) then w
    else if cap > w.cs then pushOversized w cap
    else w
  | .file fid _ len isTemp fd =>
    let w := if isTemp then w.unlink fid len else w
    if fd.isOpen then w.closeFd fid else w

def releaseAll (w : World) : List Chunk → World
  | [] => w
  | c :: cs => releaseAll (release w c) cs

/-! ## append family -/

def setLast (cs : List Chunk) (c : Chunk) : List Chunk := cs.dropLast ++ [c]

/-- chunkqueue_append_mem_extend_chunk(): `some` = handled -/
def appendMemExtend (q : Cq) (d : Bytes) : Option Cq :=
  if d.length = 0 then some q
  else match q.chunks.getLast? with
    | some (.mem data off cap) =>
      if space data.length cap ≥ d.length then
        some { q with chunks := setLast q.chunks (.mem (data ++ d) off cap),
                      bytesIn := q.bytesIn + d.length }
      else none
    | _ => none

def pushChunk (q : Cq) (c : Chunk) (n : Nat) : Cq :=
  { q with chunks := q.chunks ++ [c], bytesIn := q.bytesIn + n }

/-- chunkqueue_append_mem() -/
def appendMem (w : World) (q : Cq) (d : Bytes) : World × Cq :=
  match (if d.length < w.cs then appendMemExtend q d else none) with
  | some q' => (w, q')
  | none =>
    let (w, cap) := acquire w (d.length + 1)
    (w, pushChunk q (.mem d 0 (copyCap cap d.length)) d.length)

/-- chunkqueue_append_mem_min() -/
def appendMemMin (w : World) (q : Cq) (d : Bytes) : World × Cq :=
  match (if d.length < w.cs then appendMemExtend q d else none) with
  | some q' => (w, q')
  | none => (w, pushChunk q (.mem d 0 (copyCap (copyCap 0 d.length) d.length)) d.length)

/-- chunkqueue_append_buffer() of a buffer filled by buffer_copy_string_len() -/
def appendBuffer (w : World) (q : Cq) (d : Bytes) : World × Cq :=
  match (if d.length < 1024 then appendMemExtend q d else none) with
  | some q' => (w, q')
  | none =>
    let (w, _) := acquire w w.cs
    (w, pushChunk q (.mem d 0 (copyCap 0 d.length)) d.length)

/-- chunkqueue_append_buffer_open(); buffer_append_string_len(); …_commit() -/
def appendBufferOpen (w : World) (q : Cq) (d : Bytes) : World × Cq :=
  let (w, cap) := acquire w w.cs
  (w, pushChunk q (.mem d 0 (extendCap 0 cap d.length)) d.length)

/-- the last chunk, if it is a MEM_CHUNK with at least `sz` bytes of room -/
def lastMemFits (q : Cq) (sz : Nat) : Option (Bytes × Nat × Nat) :=
  match q.chunks.getLast? with
  | some (.mem old off cap) => if space old.length cap ≥ sz then some (old, off, cap) else none
  | _ => none

/-- chunkqueue_use_memory() with ckpt == cq->last: the bytes are in place -/
def useExisting (q : Cq) (old : Bytes) (off cap : Nat) (data : Bytes) : Cq :=
  let d := data.take (space old.length cap)
  if d.length = 0 then q
  else { q with chunks := setLast q.chunks (.mem (old ++ d) off cap), bytesIn := q.bytesIn + d.length }

/-- chunkqueue_use_memory() after chunkqueue_get_memory() opened a new chunk
    (buffer size `cap`) behind the checkpoint -/
def useNew (w : World) (q : Cq) (cap : Nat) (data : Bytes) : World × Cq :=
  let d := data.take (space 0 cap)
  if d.length = 0 then (release w (.mem [] 0 cap), q)     -- remove the empty new chunk again
  else match q.chunks.getLast? with
    | some (.mem old off pcap) =>
      if d.length > space old.length pcap then (w, pushChunk q (.mem d 0 cap) d.length)
      else
        -- fold the new data into the checkpoint chunk, drop the new chunk
        (release w (.mem d 0 cap),
         { q with chunks := setLast q.chunks (.mem (old ++ d) off (extendCap old.length pcap d.length)),
                  bytesIn := q.bytesIn + d.length })
    | _ => (w, pushChunk q (.mem d 0 cap) d.length)

/-- size chunkqueue_get_memory() asks for: "pass 0 in len for mem at least half of chunk_buf_sz" -/
def memReq (w : World) (req : Nat) : Nat := if req = 0 then w.cs / 2 else req

/-- chunkqueue_get_memory(req) followed by chunkqueue_use_memory(ckpt = old
    last, n) where n = min(|data|, avail) bytes of `data` were stored by the
    caller.  Returns the available size reported by get_memory. -/
def getUseMemory (w : World) (q : Cq) (req : Nat) (data : Bytes) : World × Cq × Nat :=
  match lastMemFits q (memReq w req) with
  | some (old, off, cap) => (w, useExisting q old off cap data, space old.length cap)
  | none =>
    match acquire w (memReq w req) with
    | (w', cap) =>
      match useNew w' q cap data with
      | (w'', q') => (w'', q', space 0 cap)

/-- chunkqueue_append_file() / chunkqueue_append_file_fd() -/
def appendFile (w : World) (q : Cq) (fid off len : Nat) (withFd : Bool) : World × Cq :=
  if len > 0 then
    ((if withFd then w.openFd fid else w),
     pushChunk q (.file fid off (off + len) false (if withFd then .ro else .none)) len)
  else (w, q)

/-- chunkqueue_append_chunkqueue() -/
def appendChunkqueue (dest src : Cq) : Cq × Cq :=
  match src.chunks with
  | [] => (dest, src)
  | _ =>
    ({ dest with chunks := dest.chunks ++ src.chunks, bytesIn := dest.bytesIn + src.length },
     { src with chunks := [], bytesOut := src.bytesIn })

/-! ## consume / compact -/

def mwLoop (w : World) : List Chunk → Nat → World × List Chunk
  | [], _ => (w, [])
  | c :: rest, n =>
    if n ≥ c.rem then mwLoop (release w c) rest (n - c.rem)
    else (w, c.adv n :: rest)

/-- chunkqueue_mark_written() -/
def markWritten (w : World) (q : Cq) (n : Nat) : World × Cq :=
  let (w, cs) := mwLoop w q.chunks n
  (w, { q with chunks := cs, bytesOut := q.bytesOut + n })

def rfLoop (w : World) : List Chunk → World × List Chunk
  | [] => (w, [])
  | c :: rest => if c.rem = 0 then rfLoop (release w c) rest else (w, c :: rest)

/-- chunkqueue_remove_finished_chunks() -/
def removeFinished (w : World) (q : Cq) : World × Cq :=
  let (w, cs) := rfLoop w q.chunks
  (w, { q with chunks := cs })

/-- second loop of chunkqueue_remove_empty_chunks(): `c` is the current chunk;
    after unlinking an empty successor the loop steps onto the next chunk
    without examining it -/
def reLoop (w : World) (c : Chunk) : List Chunk → World × List Chunk
  | [] => (w, [c])
  | n :: rest =>
    if n.rem = 0 then
      match rest with
      | [] => (release w n, [c])
      | m :: rest' =>
        let (w, t) := reLoop (release w n) m rest'
        (w, c :: t)
    else
      let (w, t) := reLoop w n rest
      (w, c :: t)

/-- chunkqueue_remove_empty_chunks() -/
def removeEmpty (w : World) (q : Cq) : World × Cq :=
  let (w, cs) := rfLoop w q.chunks
  match cs with
  | [] => (w, { q with chunks := [] })
  | c :: rest =>
    let (w, cs) := reLoop w c rest
    (w, { q with chunks := cs })

/-- chunkqueue_compact_mem_offset() (queue not empty) -/
def compactMemOffset (q : Cq) : Cq :=
  match q.chunks with
  | .mem d off cap :: rest => if off = 0 then q else { q with chunks := .mem (d.drop off) 0 cap :: rest }
  | _ => q

/-- the gather loop of chunkqueue_compact_mem(): `b` = (data, off, cap) of
    the first chunk, `need` = bytes still wanted -/
def cmLoop (w : World) (data : Bytes) (off cap : Nat) : List Chunk → Nat → World × List Chunk
  | [], _ => (w, [.mem data off cap])
  | c :: rest, need =>
    if need = 0 then (w, .mem data off cap :: c :: rest)
    else match c with
      | .mem d2 off2 cap2 =>
        let l2 := d2.length - off2
        if l2 > need then
          (w, .mem (data ++ (d2.drop off2).take need) off (extendCap data.length cap need)
              :: .mem d2 (off2 + need) cap2 :: rest)
        else
          cmLoop (release w c) (data ++ d2.drop off2) off (extendCap data.length cap l2) rest (need - l2)
      | _ => (w, .mem data off cap :: c :: rest)     -- caller's obligation: MEM chunks only

/-- chunkqueue_compact_mem() (queue not empty, MEM chunks only) -/
def compactMem (w : World) (q : Cq) (clen : Nat) : World × Cq :=
  match q.chunks with
  | .mem d off cap :: rest =>
    let len := d.length - off
    if len ≥ clen then (w, q)
    else if cap > clen then
      if space d.length cap < clen - len then
        let (w, cs) := cmLoop w (d.drop off) 0 cap rest (clen - len)
        (w, { q with chunks := cs })
      else
        let (w, cs) := cmLoop w d off cap rest (clen - len)
        (w, { q with chunks := cs })
    else
      let (w, ncap) := acquire w (clen + 1)
      let w := release w (.mem d off cap)
      let (w, cs) := cmLoop w (d.drop off) 0 (extendCap 0 ncap len) rest (clen - len)
      (w, { q with chunks := cs })
  | _ => (w, q)

/-! ## steal -/

/-- chunkqueue_dup_file_chunk_fd(): the descriptor of a chunk that duplicates
    (part of) a file chunk: an open descriptor is dup()ed; for a closed temp
    chunk the temp file is opened for reading (its name exists as long as the
    owning chunk, which is the one being copied, does) -/
def dupFd (isTemp : Bool) (fd : Fd) : Fd :=
  if fd.isOpen then fd else if isTemp then .ro else .none

/-- partial copy of the first `n` bytes of chunk `c` into dest -/
def stealPartial (w : World) (dest : Cq) (c : Chunk) (n : Nat) : World × Cq :=
  match c with
  | .mem d off _ => appendMem w dest ((d.drop off).take n)
  | .file fid off _ t fd =>
    if n > 0 then
      ((if (dupFd t fd).isOpen then w.openFd fid else w),
       pushChunk dest (.file fid off (off + n) false (dupFd t fd)) n)
    else (w, dest)

/-- a complete chunk moves to dest; an empty one is dropped -/
def moveChunk (w : World) (dest : Cq) (c : Chunk) : World × Cq :=
  if c.rem ≠ 0 then (w, pushChunk dest c c.rem) else (release w c, dest)

/-- the loop of chunkqueue_steal(): world, dest, remaining src chunks, bytes moved -/
def stealLoop (w : World) (dest : Cq) : List Chunk → Nat → World × Cq × List Chunk × Nat
  | [], _ => (w, dest, [], 0)
  | c :: rest, len =>
    if len ≥ c.rem then
      if len - c.rem = 0 then ((moveChunk w dest c).1, (moveChunk w dest c).2, rest, c.rem)
      else
        match stealLoop (moveChunk w dest c).1 (moveChunk w dest c).2 rest (len - c.rem) with
        | (w', dest', cs, moved) => (w', dest', cs, c.rem + moved)
    else ((stealPartial w dest c len).1, (stealPartial w dest c len).2, c.adv len :: rest, len)

/-- chunkqueue_steal(dest, src, len) -/
def steal (w : World) (dest src : Cq) (len : Nat) : World × Cq × Cq :=
  match stealLoop w dest src.chunks len with
  | (w, dest, cs, moved) => (w, dest, { src with chunks := cs, bytesOut := src.bytesOut + moved })

/-! ## temp files -/

def popM (w : World) : World × Bool :=
  match w.msched with
  | [] => (w, false)
  | f :: t => ({ w with msched := t }, f)

def popW (w : World) : World × WFault :=
  match w.wsched with
  | [] => (w, .ok)
  | f :: t => ({ w with wsched := t }, f)

/-- the last chunk's descriptor was opened O_RDONLY (a closed temp file that a
    reader re-opened): the kernel answers a write with EBADF, which the queue
    code treats like EIO -/
def lastReadOnly (q : Cq) : Bool :=
  match q.chunks.getLast? with
  | some (.file _ _ _ _ .ro) => true
  | _ => false

/-- what the write call returns: scripted errors come first (the harness
    consults the schedule before calling the kernel) -/
def effFault (q : Cq) (f : WFault) : WFault :=
  match f with
  | .ok => if lastReadOnly q then .eio else .ok
  | .short n => if lastReadOnly q then .eio else .short n
  | f => f

/-- a file under the next unused id -/
def World.addFile (w : World) (f : File) : World :=
  { w with files := fun i => if i = w.nfiles then f else w.files i, nfiles := w.nfiles + 1 }

/-- successful mkostemp() in upload dir `dir`: a file under a fresh id (nothing
    refers to ids >= nfiles: both counts are 0 before), name linked, one descriptor -/
def createTemp (w : World) (dir : Nat) : World × Nat :=
  (w.addFile { content := [], nlink := (w.files w.nfiles).nlink + 1, nfd := (w.files w.nfiles).nfd + 1,
               dir := dir, tl := (w.files w.nfiles).tl }, w.nfiles)

/-- the directory loop of chunkqueue_get_append_newtempfile() -/
def mkstempDirs : Nat → World → Nat → World × Nat × Option Nat
  | 0, w, idx => (w, idx, none)
  | fuel + 1, w, idx =>
    if idx < w.ndirs then
      let (w, fails) := popM w
      if fails then mkstempDirs fuel w (idx + 1)
      else
        let (w, fid) := createTemp w idx
        (w, idx, some fid)
    else (w, idx, none)

/-- chunkqueue_get_append_newtempfile(): `true` = a new temp chunk is last -/
def newTempfile (w : World) (q : Cq) : World × Cq × Bool :=
  if w.ndirs > 0 then
    match mkstempDirs (w.ndirs - q.tdIdx + 1) w q.tdIdx with
    | (w, idx, some fid) =>
      (w, { q with chunks := q.chunks ++ [.file fid 0 0 true .rw], tdIdx := idx }, true)
    | (w, idx, none) => (w, { q with tdIdx := idx }, false)
  else
    let (w, fails) := popM w
    if fails then (w, q, false)
    else
      let (w, fid) := createTemp w 0
      (w, { q with chunks := q.chunks ++ [.file fid 0 0 true .rw] }, true)

/-- the size from which on a temp file is closed and a new one started -/
def tempLimit (w : World) (q : Cq) : Nat := if q.tempSize ≠ 0 then q.tempSize else w.defTempSize

/-- chunkqueue_get_append_tempfile() -/
def getAppendTempfile (w : World) (q : Cq) : World × Cq × Bool :=
  match q.chunks.getLast? with
  | some (.file fid off len true fd) =>
    if fd.isOpen then
      if len < tempLimit w q then (w, q, true)
      else
        -- the temp file is large enough: close it, start another one
        newTempfile (w.closeFd fid) { q with chunks := setLast q.chunks (.file fid off len true .none) }
    else newTempfile w q
  | _ => newTempfile w q

/-- `++cq->tempdir_idx < tempdirs->used` on ENOSPC with upload dirs configured:
    the queue moves on to the next dir; `true` = there is one -/
def bumpDir (w : World) (q : Cq) (enospc : Bool) : Cq × Bool :=
  if enospc && decide (w.ndirs > 0) then
    ({ q with tdIdx := q.tdIdx + 1 }, decide (q.tdIdx + 1 < w.ndirs))
  else (q, false)

/-- after a failed write: an empty temp chunk (last) is removed together with
    its file — chunkqueue_remove_empty_chunks() — a non-empty one is closed so
    that nothing is appended to it any more -/
def dropOrCloseLast (w : World) (q : Cq) : World × Cq :=
  match q.chunks.getLast? with
  | some c =>
    if c.rem = 0 then removeEmpty w q
    else match c with
      | .file fid off len true fd =>     -- (always the temp chunk get_append_tempfile returned)
        if fd.isOpen then (w.closeFd fid, { q with chunks := setLast q.chunks (.file fid off len true .none) })
        else (w, q)
      | _ => (w, q)
  | none => (w, q)

/-- chunkqueue_append_tempfile_err() for errno ∈ {ENOSPC, EIO, EBADF} (EINTR is
    handled by the callers: plain retry); the failed chunk is the last one.
    `true` = retry -/
def tempfileErr (w : World) (q : Cq) (enospc : Bool) : World × Cq × Bool :=
  match dropOrCloseLast w (bumpDir w q enospc).1 with
  | (w', q') => (w', q', (bumpDir w q enospc).2)

/-- the last chunk grows by `n` bytes written at its end -/
def growLast (q : Cq) (n : Nat) : Cq :=
  match q.chunks.getLast? with
  | some (.file fid off len t fd) =>
    { q with chunks := setLast q.chunks (.file fid off (len + n) t fd), bytesIn := q.bytesIn + n }
  | _ => q

/-- pwrite()/pwritev() of `d` at the end of the last (temp file) chunk -/
def writeLast (w : World) (q : Cq) (d : Bytes) : World :=
  match q.chunks.getLast? with
  | some (.file fid _ len t _) => (w.pwrite fid len d).addTl fid (if t then d.length else 0)
  | _ => w

/-- the write loop of chunkqueue_append_mem_to_tempfile(); every turn but the
    last consumes a scheduled write result, so `wsched.length + 1` turns suffice -/
def mtLoop : Nat → World → Cq → Bytes → World × Cq × Bool
  | 0, w, q, _ => (w, q, false)
  | fuel + 1, w, q, d =>
    match getAppendTempfile w q with
    | (w, q, false) => (w, q, false)
    | (w, q, true) =>
      if d.length = 0 then (w, q, true)
      else
        let p := popW w
        match effFault q p.2 with
        | .ok => (writeLast p.1 q d, growLast q d.length, true)
        | .short n =>
          if n ≥ d.length then (writeLast p.1 q d, growLast q d.length, true)
          else mtLoop fuel (writeLast p.1 q (d.take n)) (growLast q n) (d.drop n)
        | .eintr => mtLoop fuel p.1 q d
        | .enospc =>
          match tempfileErr p.1 q true with
          | (w, q, true) => mtLoop fuel w q d
          | (w, q, false) => (w, q, false)
        | .eio =>
          match tempfileErr p.1 q false with
          | (w, q, true) => mtLoop fuel w q d
          | (w, q, false) => (w, q, false)

def firstIsMemL : List Chunk → Bool
  | c :: _ => c.isMem
  | [] => false

def firstIsMem (q : Cq) : Bool := firstIsMemL q.chunks

/-- gather iovecs from leading MEM chunks of src: at most `slots` chunks,
    at most `len` bytes -/
def gatherSrc : List Chunk → Nat → Nat → Bytes
  | [], _, _ => []
  | _, 0, _ => []
  | c :: rest, slots + 1, len =>
    match c with
    | .mem d off _ =>
      let clen := min (d.length - off) len
      let piece := (d.drop off).take clen
      if len - clen = 0 then piece else piece ++ gatherSrc rest slots (len - clen)
    | _ => []

def leadingMem : List Chunk → List Chunk
  | [] => []
  | c :: rest => if c.isMem then c :: leadingMem rest else []

/-- result of chunkqueue_append_cqmem_to_tempfile(): `rc` = bytes taken from
    src, or -1 -/
structure SwOut where
  w : World
  dest : Cq
  rc : Int

/-- chunkqueue_append_cqmem_to_tempfile_partial(): the temp chunk (last) moves
    to the front, the `wr` bytes it received leave the MEM chunks, the rest is
    spilled by `toTemp` = chunkqueue_to_tempfiles() -/
def cqmemPartial (toTemp : World → Cq → World × Cq × Bool) (w : World) (dest : Cq) (wr : Nat) : SwOut :=
  match dest.chunks.getLast? with
  | some c =>
    let d1 : Cq := { dest with chunks := dest.chunks.dropLast,
                               bytesIn := dest.bytesIn - wr, bytesOut := dest.bytesOut - wr }
    let r := markWritten w d1 wr
    let d2 : Cq := { r.2 with chunks := c :: r.2.chunks }
    match toTemp r.1 d2 with
    | (w, dest, ok) => { w := w, dest := dest, rc := if ok then 0 else -1 }
  | none => { w := w, dest := dest, rc := -1 }

/-- accounting after `wr` bytes reached the temp file, the first `dlen` of the
    iovecs being dest's own MEM chunks -/
def cqmemWritten (toTemp : World → Cq → World × Cq × Bool) (w : World) (dest : Cq) (dlen wr : Nat) : SwOut :=
  if dlen = 0 then { w := w, dest := dest, rc := wr }
  else if wr < dlen then cqmemPartial toTemp w dest wr
  else
    let d1 : Cq := { dest with bytesIn := dest.bytesIn - dlen, bytesOut := dest.bytesOut - dlen }
    let r := markWritten w d1 dlen
    { w := r.1, dest := r.2, rc := (wr - dlen : Nat) }

/-- the pwritev() of chunkqueue_append_cqmem_to_tempfile(): `dbytes` from
    dest's MEM chunks, then `sbytes` from src, into the last (temp) chunk -/
def cqmemWrite (toTemp : World → Cq → World × Cq × Bool) (w : World) (dest : Cq) (dbytes sbytes : Bytes) : SwOut :=
  let total := dbytes ++ sbytes
  let p := popW w
  match effFault dest p.2 with
  | .ok => cqmemWritten toTemp (writeLast p.1 dest total) (growLast dest total.length) dbytes.length total.length
  | .short n =>
    cqmemWritten toTemp (writeLast p.1 dest (total.take n)) (growLast dest (total.take n).length)
      dbytes.length (total.take n).length
  | .eintr => { w := p.1, dest := dest, rc := 0 }
  | .enospc =>
    match tempfileErr p.1 dest true with
    | (w, dest, retry) => { w := w, dest := dest, rc := if retry then 0 else -1 }
  | .eio =>
    match tempfileErr p.1 dest false with
    | (w, dest, retry) => { w := w, dest := dest, rc := if retry then 0 else -1 }

/-- head of chunkqueue_append_cqmem_to_tempfile(): dest's own leading MEM
    chunks join the iovec unless there are 16 or more of them or other chunks
    follow (then everything is spilled first by `toTemp`).
    Result: world, dest, ok, bytes of dest's iovecs, number of iovecs used -/
def cqmemPre (toTemp : World → Cq → World × Cq × Bool) (w : World) (dest : Cq) :
    World × Cq × Bool × Bytes × Nat :=
  let lead := leadingMem dest.chunks
  if (decide (lead.length ≥ 16) || decide (lead.length < dest.chunks.length)) && decide (lead.length ≥ 1) then
    match toTemp w dest with
    | (w, dest, ok) => (w, dest, ok, [], 0)
  else (w, dest, true, absChunks w lead, lead.length)

/-- chunkqueue_append_cqmem_to_tempfile() -/
def cqmemToTempfile (toTemp : World → Cq → World × Cq × Bool)
    (w : World) (dest : Cq) (srcChunks : List Chunk) (len : Nat) : SwOut :=
  match cqmemPre toTemp w dest with
  | (w, dest, false, _, _) => { w := w, dest := dest, rc := -1 }
  | (w, dest, true, dbytes, iov0) =>
    if iov0 == 0 && !firstIsMemL srcChunks then { w := w, dest := dest, rc := 0 }
    else
      match getAppendTempfile w dest with
      | (w, dest, false) => { w := w, dest := dest, rc := -1 }
      | (w, dest, true) => cqmemWrite toTemp w dest dbytes (gatherSrc srcChunks (16 - iov0) len)

/-- the loop of chunkqueue_steal_with_tempfiles(); `false` = error (-1) or
    fuel exhausted (the C loop would still be retrying) -/
def swLoop (toTemp : World → Cq → World × Cq × Bool) :
    Nat → World → Cq → Cq → Nat → World × Cq × Cq × Bool
  | 0, w, dest, src, _ => (w, dest, src, false)
  | fuel + 1, w, dest, src, len =>
    match src.chunks with
    | [] => (w, dest, src, true)
    | c :: _ =>
      if c.isMem then
        let r := cqmemToTempfile toTemp w dest src.chunks len
        if r.rc < 0 then (r.w, r.dest, src, false)
        else
          let m := markWritten r.w src r.rc.toNat
          if len - r.rc.toNat = 0 then (m.1, r.dest, m.2, true)
          else swLoop toTemp fuel m.1 r.dest m.2 (len - r.rc.toNat)
      else
        let clen := min len c.rem
        let r := steal w dest src clen
        if len - clen = 0 then (r.1, r.2.1, r.2.2, true)
        else swLoop toTemp fuel r.1 r.2.1 r.2.2 (len - clen)

/-- iterations the loop can need: every iteration consumes a scheduled write
    result, a byte of `len`, or a chunk of src -/
def swFuel (w : World) (src : Cq) (len : Nat) : Nat :=
  w.wsched.length + src.chunks.length + len + 2

/-- chunkqueue_to_tempfiles() with the nested steal_with_tempfiles() call
    given as `inner`; what is left of the private copy of the queue is released -/
def toTempfilesWith (inner : World → Cq → Cq → Nat → World × Cq × Cq × Bool)
    (w : World) (dest : Cq) : World × Cq × Bool :=
  let cqlen := dest.length.toNat
  match inner w { dest with chunks := [], bytesIn := dest.bytesIn - cqlen } dest cqlen with
  | (w, dest, src, ok) => (releaseAll w src.chunks, dest, ok)

/-- inside the nested call dest starts empty and only ever receives FILE
    chunks, so chunkqueue_to_tempfiles() is not entered again
    ("will not re-enter this func"): its slot is a stub that fails -/
def toTempStub (w : World) (q : Cq) : World × Cq × Bool := (w, q, false)

def swInner (w : World) (dest src : Cq) (len : Nat) : World × Cq × Cq × Bool :=
  swLoop toTempStub (swFuel w src len) w dest src len

/-- chunkqueue_to_tempfiles() -/
def toTempfiles (w : World) (dest : Cq) : World × Cq × Bool := toTempfilesWith swInner w dest

/-- chunkqueue_steal_with_tempfiles(dest, src, len): `true` = 0, `false` = -1 -/
def stealWithTempfiles (w : World) (dest src : Cq) (len : Nat) : World × Cq × Cq × Bool :=
  swLoop toTempfiles (swFuel w src len) w dest src len

/-- chunkqueue_append_mem_to_tempfile(): `true` = 0, `false` = -1 -/
def appendMemToTempfile (w : World) (q : Cq) (d : Bytes) : World × Cq × Bool :=
  match (if firstIsMem q then toTempfiles w q else (w, q, true)) with
  | (w, q, false) => (w, q, false)
  | (w, q, true) => mtLoop (w.wsched.length + 1) w q d

/-! ## read -/

/-- chunk_open_file_chunk(): needs the name; a non-temp chunk is checked
    against the file size.  The descriptor stays with the chunk even when the
    size check fails. -/
def openChunk (w : World) (fid len : Nat) (isTemp : Bool) : World × Fd × Bool :=
  if (w.files fid).nlink ≤ 0 then (w, .none, false)
  else
    let w := w.openFd fid
    if isTemp then (w, .ro, true)
    else (w, .ro, decide (len ≤ (w.files fid).content.length))

/-- one chunk of chunkqueue_peek_data(cq, buf[n], nowait = 0) with `acc`
    gathered so far: the chunk (descriptor updated), the new `acc`, and
    `false` for -1 -/
def peekChunk (w : World) (n : Nat) (acc : Bytes) : Chunk → World × Chunk × Bytes × Bool
  | .mem d off cap =>
    (w, .mem d off cap,
     if d.length - off = 0 then acc else acc ++ (d.drop off).take (min (d.length - off) (n - acc.length)), true)
  | .file fid off len isTemp fd =>
    match (if fd.isOpen then (w, fd, true) else openChunk w fid len isTemp) with
    | (w, fd', false) => (w, .file fid off len isTemp fd', acc, false)
    | (w, fd', true) =>
      if len - off = 0 then (w, .file fid off len isTemp fd', acc, true)
      else if (((w.files fid).content.drop off).take (min (len - off) (n - acc.length))).length = 0 then
        (w, .file fid off len isTemp fd', acc, false)     -- pread() <= 0
      else
        (w, .file fid off len isTemp fd',
         acc ++ ((w.files fid).content.drop off).take (min (len - off) (n - acc.length)), true)

/-- chunkqueue_peek_data(cq, buf[n], nowait = 0): walks the chunks, opening
    file chunks on the way, until `n` bytes are gathered -/
def peekLoop (w : World) (n : Nat) (acc : Bytes) : List Chunk → World × List Chunk × Bytes × Bool
  | [] => (w, [], acc, true)
  | c :: rest =>
    match peekChunk w n acc c with
    | (w, c', acc, false) => (w, c' :: rest, acc, false)
    | (w, c', acc, true) =>
      if acc.length = n then (w, c' :: rest, acc, true)
      else
        match peekLoop w n acc rest with
        | (w, rest, acc, ok) => (w, c' :: rest, acc, ok)

/-- chunkqueue_peek_data() -/
def peekData (w : World) (q : Cq) (n : Nat) : World × Cq × Bytes × Bool :=
  match peekLoop w n [] q.chunks with
  | (w, cs, acc, ok) => (w, { q with chunks := cs }, acc, ok)

/-- chunkqueue_read_data() -/
def readData (w : World) (q : Cq) (n : Nat) : World × Cq × Option Bytes :=
  match peekData w q n with
  | (w, q, acc, ok) =>
    if !ok || acc.length ≠ n then (w, q, none)
    else ((markWritten w q n).1, (markWritten w q n).2, some acc)

/-- chunkqueue_read_squash(): `false` = NULL -/
def readSquash (w : World) (q : Cq) : World × Cq × Bool :=
  match q.chunks with
  | [.mem _ _ _] => (w, q, true)
  | _ =>
    match acquire w (q.length.toNat + 1) with
    | (w, cap) =>
      match peekData w q q.length.toNat with
      | (w, q, _, false) => (release w (.mem [] 0 cap), q, false)
      | (w, q, acc, true) => (releaseAll w q.chunks, { q with chunks := [.mem acc 0 cap] }, true)

/-- one source chunk of chunkqueue_append_cq_range(): `n` bytes from offset
    `off` into the chunk are duplicated onto dst -/
def copyRange (w : World) (dst : Cq) (c : Chunk) (off n : Nat) : World × Cq :=
  match c with
  | .file fid coff _ t fd =>
    ((if (dupFd t fd).isOpen then w.openFd fid else w),
     pushChunk dst (.file fid (coff + off) (coff + off + n) false (dupFd t fd)) n)
  | .mem d coff _ => appendMem w dst ((d.drop (coff + off)).take n)

/-- the copy loop of chunkqueue_append_cq_range() over (a snapshot of) the
    source chunks -/
def rangeLoop (w : World) (dst : Cq) : List Chunk → Nat → Nat → World × Cq
  | [], _, _ => (w, dst)
  | c :: rest, off, len =>
    if len = 0 then (w, dst)
    else if off ≥ c.rem then rangeLoop w dst rest (off - c.rem) len
    else
      rangeLoop (copyRange w dst c off (min (c.rem - off) len)).1
        (copyRange w dst c off (min (c.rem - off) len)).2 rest 0 (len - min (c.rem - off) len)

/-- chunkqueue_append_cq_range(dst, src, off, len), dst ≠ src -/
def appendCqRange (w : World) (dst src : Cq) (off len : Nat) : World × Cq :=
  rangeLoop w dst src.chunks off len

/-- chunkqueue_append_cq_range(cq, cq, off, len) with the range inside cq -/
def appendCqRangeSelf (w : World) (q : Cq) (off len : Nat) : World × Cq :=
  rangeLoop w q q.chunks off len

/-! ## cleanup -/

/-- chunkqueue_reset() -/
def reset (w : World) (q : Cq) : World × Cq :=
  (releaseAll w q.chunks, { q with chunks := [], bytesIn := 0, bytesOut := 0, tdIdx := 0 })

/-! ## the closed system: two queues over one world -/

structure Sys where
  w : World
  q0 : Cq
  q1 : Cq

/-- queue selector: `false` = q0 -/
def Sys.get (s : Sys) (i : Bool) : Cq := if i then s.q1 else s.q0
def Sys.set (s : Sys) (i : Bool) (q : Cq) : Sys := if i then { s with q1 := q } else { s with q0 := q }

/-- the operations of the property; `qi` selects the queue operated on (for
    transfers: the destination, the source being the other queue) -/
inductive Op where
  | appendMem (qi : Bool) (d : Bytes)
  | appendMemMin (qi : Bool) (d : Bytes)
  | appendBuffer (qi : Bool) (d : Bytes)
  | appendBufferOpen (qi : Bool) (d : Bytes)
  | getUseMemory (qi : Bool) (req : Nat) (d : Bytes)
  | appendFile (qi : Bool) (fid off len : Nat) (withFd : Bool)
  | appendChunkqueue (qi : Bool)
  | appendMemToTempfile (qi : Bool) (d : Bytes)
  | steal (qi : Bool) (n : Nat)
  | stealWithTempfiles (qi : Bool) (n : Nat)
  | appendCqRange (qi : Bool) (self : Bool) (off len : Nat)
  | markWritten (qi : Bool) (n : Nat)
  | removeFinished (qi : Bool)
  | removeEmpty (qi : Bool)
  | compactMem (qi : Bool) (clen : Nat)
  | compactMemOffset (qi : Bool)
  | peekData (qi : Bool) (n : Nat)
  | readData (qi : Bool) (n : Nat)
  | readSquash (qi : Bool)
  | reset (qi : Bool)

/-- what an operation reports to its caller -/
inductive Res where
  | done
  | skipped                      -- caller obligation not met: not executed
  | avail (n : Nat)              -- get_memory: size made available
  | rc (ok : Bool)               -- 0 / -1 (or non-NULL / NULL)
  | peeked (ok : Bool) (d : Bytes)
  | read (d : Option Bytes)
deriving DecidableEq

def allMem (q : Cq) : Bool := !q.chunks.isEmpty && q.chunks.all Chunk.isMem

/-- one operation on the system.  The guards are the documented obligations of
    the callers (chunk.h): they are checked by the correspondence harness in
    the same way. -/
def step (s : Sys) : Op → Sys × Res
  | .appendMem qi d =>
    let (w, q) := appendMem s.w (s.get qi) d; ({ s with w := w }.set qi q, .done)
  | .appendMemMin qi d =>
    let (w, q) := appendMemMin s.w (s.get qi) d; ({ s with w := w }.set qi q, .done)
  | .appendBuffer qi d =>
    let (w, q) := appendBuffer s.w (s.get qi) d; ({ s with w := w }.set qi q, .done)
  | .appendBufferOpen qi d =>
    let (w, q) := appendBufferOpen s.w (s.get qi) d; ({ s with w := w }.set qi q, .done)
  | .getUseMemory qi req d =>
    let (w, q, a) := getUseMemory s.w (s.get qi) req d; ({ s with w := w }.set qi q, .avail a)
  | .appendFile qi fid off len fd =>
    let (w, q) := appendFile s.w (s.get qi) fid off len fd; ({ s with w := w }.set qi q, .done)
  | .appendChunkqueue qi =>
    let (d, o) := appendChunkqueue (s.get qi) (s.get (!qi)); ((s.set qi d).set (!qi) o, .done)
  | .appendMemToTempfile qi d =>
    let (w, q, ok) := appendMemToTempfile s.w (s.get qi) d; ({ s with w := w }.set qi q, .rc ok)
  | .steal qi n =>
    let (w, d, o) := steal s.w (s.get qi) (s.get (!qi)) n
    (({ s with w := w }.set qi d).set (!qi) o, .done)
  | .stealWithTempfiles qi n =>
    let (w, d, o, ok) := stealWithTempfiles s.w (s.get qi) (s.get (!qi)) n
    (({ s with w := w }.set qi d).set (!qi) o, .rc ok)
  | .appendCqRange qi self off len =>
    if self then
      if len > 0 ∧ (off + len : Int) > (s.get qi).length then (s, .skipped)
      else
        let (w, q) := appendCqRangeSelf s.w (s.get qi) off len; ({ s with w := w }.set qi q, .done)
    else
      let (w, q) := appendCqRange s.w (s.get qi) (s.get (!qi)) off len
      ({ s with w := w }.set qi q, .done)
  | .markWritten qi n =>
    if (n : Int) ≤ (s.get qi).length then
      let (w, q) := markWritten s.w (s.get qi) n; ({ s with w := w }.set qi q, .done)
    else (s, .skipped)
  | .removeFinished qi =>
    let (w, q) := removeFinished s.w (s.get qi); ({ s with w := w }.set qi q, .done)
  | .removeEmpty qi =>
    let (w, q) := removeEmpty s.w (s.get qi); ({ s with w := w }.set qi q, .done)
  | .compactMem qi clen =>
    if allMem (s.get qi) then
      let (w, q) := compactMem s.w (s.get qi) clen; ({ s with w := w }.set qi q, .done)
    else (s, .skipped)
  | .compactMemOffset qi =>
    if (s.get qi).chunks.isEmpty then (s, .skipped) else (s.set qi (compactMemOffset (s.get qi)), .done)
  | .peekData qi n =>
    let (w, q, d, ok) := peekData s.w (s.get qi) n; ({ s with w := w }.set qi q, .peeked ok d)
  | .readData qi n =>
    let (w, q, d) := readData s.w (s.get qi) n; ({ s with w := w }.set qi q, .read d)
  | .readSquash qi =>
    let (w, q, ok) := readSquash s.w (s.get qi); ({ s with w := w }.set qi q, .rc ok)
  | .reset qi =>
    let (w, q) := reset s.w (s.get qi); ({ s with w := w }.set qi q, .done)

/-- a whole history of operations -/
def run (s : Sys) : List Op → Sys
  | [] => s
  | op :: ops => run (step s op).1 ops

end LtVerif.Cq
