/-
  chunk queue (C17): the splice() path of src/chunk.c,
  chunkqueue_append_splice_pipe_tempfile().  Kept apart from Model/Cq.lean so that
  the operation alphabet `Op` (and the case analyses over it) stay as they are; the
  driver applies `spliceStep` between ordinary `step`s.
-/
import LtVerif.Model.Cq
namespace LtVerif.Cq

/-- chunkqueue_append_splice_pipe_tempfile(cq, fd, len) where the pipe `fd` holds exactly `d`
    (`len = d.length`) and splice() moves all of it in one call (pipe -> regular file):
    leading MEM chunks are spilled first (chunkqueue_to_tempfiles(), which does use the
    scripted pwritev results), then the octets land at file position `c->file.length` of the
    temp chunk chunkqueue_get_append_tempfile() returned and `file.length`/`bytes_in` grow.
    splice() itself takes no scripted result.  A temp chunk whose descriptor was re-opened
    O_RDONLY makes splice() fail with EBADF -> chunkqueue_append_tempfile_err() (no retry);
    `len = 0` returns 0 from the kernel before any check.  `true` = `len` returned, `false` = negative -/
def appendSplice (w : World) (q : Cq) (d : Bytes) : World × Cq × Bool :=
  match (if firstIsMem q then toTempfiles w q else (w, q, true)) with
  | (w, q, false) => (w, q, false)
  | (w, q, true) =>
    match getAppendTempfile w q with
    | (w, q, false) => (w, q, false)
    | (w, q, true) =>
      if d.length = 0 then (w, q, true)
      else if lastReadOnly q then
        match tempfileErr w q false with
        | (w, q, _) => (w, q, false)
      else (writeLast w q d, growLast q d.length, true)

/-- the harness operation `sp,q,seed,len` -/
def spliceStep (s : Sys) (qi : Bool) (d : Bytes) : Sys × Res :=
  let (w, q, ok) := appendSplice s.w (s.get qi) d; ({ s with w := w }.set qi q, .rc ok)

end LtVerif.Cq
