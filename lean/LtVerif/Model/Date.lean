/-
  Model of src/http_date.c (C15):
    http_date_time_to_str()            -> `timeToStr`   (gmtime_r + strftime "%a, %d %b %Y %T GMT")
    http_date_parse_IMF_fixdate()      -> `parseIMF`
    http_date_parse_RFC_850()          -> `parseRFC850` (two-digit year resolved against the current year)
    http_date_parse_asctime()          -> `parseAsctime`
    http_date_str_to_tm()              -> `strToTm`     (dispatch on the string length)
    http_date_if_modified_since()      -> `ifModifiedSince`
  libc gmtime_r()/timegm() are modelled by Howard Hinnant's civil-date
  algorithms (`civilFromDays`, `daysFromCivil`); the harness validates them
  against libc directly (ops `gmt`, `tgm`) and through the C functions.
  Header values are NUL-free byte strings (NUL is rejected by the request
  parser); the C code's look-ahead stops at the terminating NUL, which the
  pattern matches below reproduce (a missing byte fails every check).
  Also hosts the decimal rendering `natDec` (li_itostrn / buffer_append_int
  for non-negative values) shared with Model/Range.lean.
-/
import LtVerif.Model.Basic
import LtVerif.Extracted.RangeConst
namespace LtVerif
namespace Date
open B

/-! ### decimal numbers -/

def digit (k : Nat) : UInt8 := (48 + k).toUInt8

/-- value of an ASCII digit (garbage for other bytes; callers check `isDigit` first) -/
def dv (b : UInt8) : Int := (b.toNat : Int) - 48

def natDecAux : Nat → Nat → Bytes
  | 0, _ => []
  | f + 1, n => if n < 10 then [digit n] else natDecAux f (n / 10) ++ [digit (n % 10)]

/-- decimal rendering without padding (li_itostrn(), buffer_append_int(), strftime %Y) -/
def natDec (n : Nat) : Bytes := natDecAux (n + 1) n

/-- value of a string of ASCII digits, most significant first -/
def decVal (ds : Bytes) : Nat := ds.foldl (fun acc d => acc * 10 + (d.toNat - 48)) 0

/-! ### civil calendar (proleptic Gregorian), days relative to 1970-01-01 -/

/-- days_from_civil: `m` in 1..12; `d` is not range-checked (linear in `d`) -/
def daysFromCivil (y m d : Int) : Int :=
  let y' := if m ≤ 2 then y - 1 else y
  let era := y' / 400
  let yoe := y' - era * 400
  let mp := if m > 2 then m - 3 else m + 9
  let doy := (153 * mp + 2) / 5 + d - 1
  let doe := yoe * 365 + yoe / 4 - yoe / 100 + doy
  era * 146097 + doe - 719468

/-- civil_from_days: (year, month 1..12, day 1..31) -/
def civilFromDays (z : Int) : Int × Int × Int :=
  let z' := z + 719468
  let era := z' / 146097
  let doe := z' - era * 146097
  let yoe := (doe - doe / 1460 + doe / 36524 - doe / 146096) / 365
  let y := yoe + era * 400
  let doy := doe - (365 * yoe + yoe / 4 - yoe / 100)
  let mp := (5 * doy + 2) / 153
  let d := doy - (153 * mp + 2) / 5 + 1
  let m := if mp < 10 then mp + 3 else mp - 9
  (if m ≤ 2 then y + 1 else y, m, d)

/-- the fields of `struct tm` the code uses; `year` is the full year
    (tm_year + 1900), `mon` is 0-based as in C -/
structure Tm where
  year : Int
  mon : Int
  mday : Int
  hour : Int
  min : Int
  sec : Int
deriving Repr, DecidableEq

/-- timegm() for `0 ≤ mon ≤ 11` (all parsers guarantee it); the other fields
    may be out of range and are normalised arithmetically, as libc does -/
def timegm (tm : Tm) : Int :=
  (((daysFromCivil tm.year (tm.mon + 1) 1 + (tm.mday - 1)) * 24 + tm.hour) * 60 + tm.min) * 60
    + tm.sec

/-- gmtime_r(): broken-down time and day of week (0 = Sunday) -/
def gmtime (t : Int) : Tm × Int :=
  let days := t / 86400
  let sod := t % 86400
  let c := civilFromDays days
  ({ year := c.1, mon := c.2.1 - 1, mday := c.2.2, hour := sod / 3600, min := sod % 3600 / 60,
     sec := sod % 60 }, (days + 4) % 7)

/-! ### names -/

def wdayAbbr (w : Int) : Bytes :=
  if w = 0 then [83, 117, 110]        -- Sun
  else if w = 1 then [77, 111, 110]   -- Mon
  else if w = 2 then [84, 117, 101]   -- Tue
  else if w = 3 then [87, 101, 100]   -- Wed
  else if w = 4 then [84, 104, 117]   -- Thu
  else if w = 5 then [70, 114, 105]   -- Fri
  else [83, 97, 116]                  -- Sat

/-- rest of the full weekday name after the three-letter abbreviation (RFC 850) -/
def wdayRest (w : Int) : Bytes :=
  if w = 0 then [100, 97, 121]                      -- day
  else if w = 1 then [100, 97, 121]                 -- day
  else if w = 2 then [115, 100, 97, 121]            -- sday
  else if w = 3 then [110, 101, 115, 100, 97, 121]  -- nesday
  else if w = 4 then [114, 115, 100, 97, 121]       -- rsday
  else if w = 5 then [100, 97, 121]                 -- day
  else [117, 114, 100, 97, 121]                     -- urday

/-- the first three bytes are one of "Sun" … "Sat" (tm_wday itself is not used later) -/
def isWday (a b c : UInt8) : Bool :=
  [a, b, c] = wdayAbbr 0 || [a, b, c] = wdayAbbr 1 || [a, b, c] = wdayAbbr 2 ||
  [a, b, c] = wdayAbbr 3 || [a, b, c] = wdayAbbr 4 || [a, b, c] = wdayAbbr 5 ||
  [a, b, c] = wdayAbbr 6

def monAbbr (m : Int) : Bytes :=
  if m = 0 then [74, 97, 110]          -- Jan
  else if m = 1 then [70, 101, 98]     -- Feb
  else if m = 2 then [77, 97, 114]     -- Mar
  else if m = 3 then [65, 112, 114]    -- Apr
  else if m = 4 then [77, 97, 121]     -- May
  else if m = 5 then [74, 117, 110]    -- Jun
  else if m = 6 then [74, 117, 108]    -- Jul
  else if m = 7 then [65, 117, 103]    -- Aug
  else if m = 8 then [83, 101, 112]    -- Sep
  else if m = 9 then [79, 99, 116]     -- Oct
  else if m = 10 then [78, 111, 118]   -- Nov
  else [68, 101, 99]                   -- Dec

/-- tm_mon of a three-letter month name -/
def monIdx (a b c : UInt8) : Option Int :=
  if [a, b, c] = monAbbr 0 then some 0
  else if [a, b, c] = monAbbr 1 then some 1
  else if [a, b, c] = monAbbr 2 then some 2
  else if [a, b, c] = monAbbr 3 then some 3
  else if [a, b, c] = monAbbr 4 then some 4
  else if [a, b, c] = monAbbr 5 then some 5
  else if [a, b, c] = monAbbr 6 then some 6
  else if [a, b, c] = monAbbr 7 then some 7
  else if [a, b, c] = monAbbr 8 then some 8
  else if [a, b, c] = monAbbr 9 then some 9
  else if [a, b, c] = monAbbr 10 then some 10
  else if [a, b, c] = monAbbr 11 then some 11
  else none

/-! ### rendering -/

/-- two digits, zero padded (`%d`, `%H`, `%M`, `%S`, `%y`; arguments are in 0..99) -/
def d2 (n : Int) : Bytes := [digit (n.toNat / 10), digit (n.toNat % 10)]

/-- `%e`-style day of month: blank padded (asctime) -/
def d2sp (n : Int) : Bytes := [if n.toNat < 10 then 32 else digit (n.toNat / 10), digit (n.toNat % 10)]

/-- glibc `%Y`: no padding, '-' for negative years -/
def yearStr (y : Int) : Bytes := if y < 0 then 45 :: natDec (-y).toNat else natDec y.toNat

def gmtStr : Bytes := [32, 71, 77, 84]   -- " GMT"

def hmsStr (tm : Tm) : Bytes := d2 tm.hour ++ [58] ++ d2 tm.min ++ [58] ++ d2 tm.sec

/-- IMF-fixdate, `"%a, %d %b %Y %T GMT"` -/
def renderIMF (t : Int) : Bytes :=
  let tm := (gmtime t).1
  let w := (gmtime t).2
  wdayAbbr w ++ [44, 32] ++ d2 tm.mday ++ [32] ++ monAbbr tm.mon ++ [32] ++ yearStr tm.year
    ++ [32] ++ hmsStr tm ++ gmtStr

/-- obsolete RFC 850 format, `"%A, %d-%b-%y %T GMT"` -/
def renderRFC850 (t : Int) : Bytes :=
  let tm := (gmtime t).1
  let w := (gmtime t).2
  wdayAbbr w ++ wdayRest w ++ [44, 32] ++ d2 tm.mday ++ [45] ++ monAbbr tm.mon ++ [45]
    ++ d2 (tm.year % 100) ++ [32] ++ hmsStr tm ++ gmtStr

/-- ANSI C asctime() format, `"%a %b %e %T %Y"` -/
def renderAsctime (t : Int) : Bytes :=
  let tm := (gmtime t).1
  let w := (gmtime t).2
  wdayAbbr w ++ [32] ++ monAbbr tm.mon ++ [32] ++ d2sp tm.mday ++ [32] ++ hmsStr tm ++ [32]
    ++ yearStr tm.year

/-- http_date_time_to_str() into a buffer of HTTP_DATE_SZ = 30 bytes: strftime()
    returns 0 when the result (plus NUL) does not fit (HTTP_DATE_SZ
    is regenerated from http_date.h); gmtime_r() fails only for
    years far beyond that -/
def timeToStr (t : Int) : Bytes :=
  let s := renderIMF t
  if s.length < Extracted.httpDateSz then s else []

/-! ### parsing -/

def num2 (a b : UInt8) : Int := 10 * dv a + dv b

/-- http_date_parse_IMF_fixdate(); the caller guarantees length 29 -/
def parseIMF (s : Bytes) : Option Tm :=
  match s with
  | [w0, w1, w2, c3, c4, d1, d0, c7, m0, m1, m2, c11, y3, y2, y1, y0, c16, h1, h0, c19,
     i1, i0, c22, s1, s0, c25, g0, g1, g2] =>
    if isWday w0 w1 w2 && c3 = 44 && c4 = 32 && isDigit d1 && isDigit d0 && c7 = 32 then
      match monIdx m0 m1 m2 with
      | none => none
      | some mon =>
        if c11 = 32 && isDigit y3 && isDigit y2 && isDigit y1 && isDigit y0
           && c16 = 32 && isDigit h1 && isDigit h0 && c19 = 58 && isDigit i1 && isDigit i0
           && c22 = 58 && isDigit s1 && isDigit s0 && c25 = 32 && g0 = 71 && g1 = 77 && g2 = 84
        then some { year := num2 y3 y2 * 100 + num2 y1 y0, mon := mon, mday := num2 d1 d0,
                    hour := num2 h1 h0, min := num2 i1 i0, sec := num2 s1 s0 }
        else none
    else none
  | _ => none

/-- http_date_parse_asctime(): 24 bytes are examined, trailing bytes are ignored -/
def parseAsctime (s : Bytes) : Option Tm :=
  match s with
  | w0 :: w1 :: w2 :: c3 :: m0 :: m1 :: m2 :: c7 :: d1 :: d0 :: c10 :: h1 :: h0 :: c13 ::
    i1 :: i0 :: c16 :: s1 :: s0 :: c19 :: y3 :: y2 :: y1 :: y0 :: _ =>
    if isWday w0 w1 w2 && c3 = 32 then
      match monIdx m0 m1 m2 with
      | none => none
      | some mon =>
        if c7 = 32 && (d1 = 32 || isDigit d1) && isDigit d0
           && c10 = 32 && isDigit h1 && isDigit h0 && c13 = 58 && isDigit i1 && isDigit i0
           && c16 = 58 && isDigit s1 && isDigit s0
           && c19 = 32 && isDigit y3 && isDigit y2 && isDigit y1 && isDigit y0
        then some { year := num2 y3 y2 * 100 + num2 y1 y0, mon := mon,
                    mday := (if d1 = 32 then 0 else 10 * dv d1) + dv d0,
                    hour := num2 h1 h0, min := num2 i1 i0, sec := num2 s1 s0 }
        else none
    else none
  | _ => none

/-- two-digit year of RFC 850 resolved against the current year `cur`:
    the current century, minus 100 when that is more than 50 years ahead -/
def year850 (cur : Int) (yy : Int) : Int :=
  let y := yy + (cur - cur % 100)
  if y > cur + 50 then y - 100 else y

/-- http_date_parse_RFC_850(): weekday is matched on its first three bytes, the
    rest of the name up to ',' is skipped; 24 bytes from the ',' are examined -/
def parseRFC850 (cur : Int) (s : Bytes) : Option Tm :=
  match s with
  | w0 :: w1 :: w2 :: rest =>
    if isWday w0 w1 w2 then
      match rest.dropWhile (fun b => b ≠ 44) with
      | c0 :: c1 :: d1 :: d0 :: c4 :: m0 :: m1 :: m2 :: c8 :: y1 :: y0 :: c11 :: h1 :: h0 :: c14 ::
        i1 :: i0 :: c17 :: s1 :: s0 :: c20 :: g0 :: g1 :: g2 :: _ =>
        if c0 = 44 && c1 = 32 && isDigit d1 && isDigit d0 && c4 = 45 then
          match monIdx m0 m1 m2 with
          | none => none
          | some mon =>
            if c8 = 45 && isDigit y1 && isDigit y0
               && c11 = 32 && isDigit h1 && isDigit h0 && c14 = 58 && isDigit i1 && isDigit i0
               && c17 = 58 && isDigit s1 && isDigit s0 && c20 = 32 && g0 = 71 && g1 = 77 && g2 = 84
            then some { year := year850 cur (num2 y1 y0), mon := mon, mday := num2 d1 d0,
                        hour := num2 h1 h0, min := num2 i1 i0, sec := num2 s1 s0 }
            else none
        else none
      | _ => none
    else none
  | _ => none

/-- current year as http_date_parse_RFC_850() derives it from log_epoch_secs -/
def yearOf (now : Int) : Int := (gmtime now).1.year

/-- http_date_str_to_tm(): the format is chosen by the length alone -/
def strToTm (now : Int) (s : Bytes) : Option Tm :=
  if s.length = 29 then parseIMF s
  else if s.length > 29 then parseRFC850 (yearOf now) s
  else parseAsctime s

/-- the instant a date string denotes (none: not parseable) -/
def dateToTime (now : Int) (s : Bytes) : Option Int := (strToTm now s).map timegm

/-- http_date_if_modified_since(): true = modified since (or unparseable);
    a parsed instant of -1 is indistinguishable from timegm() failure -/
def ifModifiedSince (now : Int) (s : Bytes) (lmtime : Int) : Bool :=
  match dateToTime now s with
  | none => true
  | some t => decide (lmtime > t) || t == -1

end Date
end LtVerif
