/-
  C18 — WebDAV tree semantics: executable model of mod_webdav.c
    mod_webdav_put_prep / mod_webdav_put_0 / mod_webdav_put / mod_webdav_put_range   (PUT)
    mod_webdav_delete / webdav_delete_dir / webdav_delete_file                         (DELETE)
    mod_webdav_mkcol / webdav_mkdir                                                    (MKCOL)
    mod_webdav_copymove_b / webdav_copymove_file / webdav_copymove_dir                 (COPY, MOVE)
  over an abstract file system `Tree` (finite map  path ↦ directory | file content).

  Level of abstraction.  One request is one atomic transition  tree ↦ (status, tree')
  (the syscall-level protocol of PUT lives in Model/DavPut.lean).  Kernel behaviour
  (which errno lstat/mkdir/rename/linkat/open give on which tree) is part of the model
  and is validated, together with the decision structure of the C code, by the
  end-to-end correspondence (real server, real kernel, snapshot after every request).
  A whole-subtree copy/rename into a destination that does not exist (or is replaced)
  is modelled by the specification-style operations `copyTree` / `moveTree`; the
  non-RFC *merge* of a collection into an existing non-empty collection
  (documented as NON-CONFORMANT in webdav_copymove_dir) is modelled by the faithful
  recursion `mergeDir`.

  Conditional request headers are abstracted to their truth value against the current
  validator (`Pre`): the e2e driver turns them into concrete If-Match / If-None-Match /
  If-Unmodified-Since values.

  Deviations from the code *as it is* (the model describes the repaired behaviour, see
  the C18 report):  (1) `mergeDir` reports a failed member file (207) and a MOVE keeps
  the source of a member that could not be moved; (2) COPY/MOVE of a file "into" its own
  parent collection (Destination names the parent) is refused with 403.
  Core Lean only.
-/
import LtVerif.Model.Path

namespace LtVerif.Dav
open LtVerif LtVerif.B

abbrev Seg := Bytes
abbrev Path := List Seg

inductive Node where
  | dir
  | file (c : Bytes)
deriving DecidableEq, Repr

/-- finite map path ↦ node, first match wins -/
abbrev Tree := List (Path × Node)

def get : Tree → Path → Option Node
  | [], _ => none
  | (q, n) :: r, p => if q = p then some n else get r p

/-- `p` is a (non-strict) prefix of `q` -/
def under (p q : Path) : Bool := p.isPrefixOf q

/-- remove `p` and everything below it -/
def erase (p : Path) (t : Tree) : Tree := t.filter fun e => !under p e.1

def set (p : Path) (n : Node) (t : Tree) : Tree := (p, n) :: t

def rebase (src dst : Path) (e : Path × Node) : Path × Node := (dst ++ e.1.drop src.length, e.2)

/-- the image of the subtree at `src`, placed at `dst` -/
def image (src dst : Path) (t : Tree) : Tree := (t.filter fun e => under src e.1).map (rebase src dst)

/-- replace whatever is at `dst` by a copy of the subtree at `src` -/
def copyTree (src dst : Path) (t : Tree) : Tree := image src dst t ++ erase dst t

/-- replace whatever is at `dst` by the subtree at `src`, which disappears at `src` -/
def moveTree (src dst : Path) (t : Tree) : Tree := image src dst t ++ erase src (erase dst t)

/-- names and nodes directly below `p` (readdir); duplicates (shadowed entries) removed -/
def childrenAux (p : Path) : Tree → List Seg → List (Seg × Node)
  | [], _ => []
  | (q, n) :: r, seen =>
    if under p q && q.length == p.length + 1 then
      match q.getLast? with
      | some s => if seen.contains s then childrenAux p r seen else (s, n) :: childrenAux p r (s :: seen)
      | none => childrenAux p r seen
    else childrenAux p r seen

def children (p : Path) (t : Tree) : List (Seg × Node) := childrenAux p t []

def hasChild (p : Path) (t : Tree) : Bool := t.any fun e => under p e.1 && e.1.length != p.length

/-! ### request paths and the kernel's path walk -/

/-- a path as it appears in a request: segments and whether it ends in '/' -/
structure RPath where
  segs : Path
  slash : Bool
deriving DecidableEq, Repr

inductive St where
  | enoent
  | enotdir
  | isdir
  | isfile (c : Bytes)
deriving DecidableEq, Repr

/-- path resolution from `cur` through the remaining segments -/
def walk (t : Tree) : Path → List Seg → St
  | cur, [] =>
    match get t cur with
    | none => .enoent
    | some .dir => .isdir
    | some (.file c) => .isfile c
  | cur, s :: rest =>
    match get t cur with
    | some .dir => walk t (cur ++ [s]) rest
    | some (.file _) => .enotdir
    | none => .enoent

/-- lstat() of the physical path string (a trailing '/' on a non-directory is ENOTDIR) -/
def lstat (t : Tree) (p : RPath) : St :=
  match walk t [] p.segs with
  | .isfile c => if p.slash then .enotdir else .isfile c
  | s => s

def St.exists : St → Bool
  | .isdir => true
  | .isfile _ => true
  | _ => false

/-- the directory a new entry `p` would be created in is an existing directory -/
def parentIsDir (t : Tree) (p : Path) : Bool :=
  p != [] && walk t [] p.dropLast == .isdir

/-! ### requests -/

inductive Method where
  | put | delete | mkcol | copy | move | get
deriving DecidableEq, Repr

/-- Overwrite header: absent, "T", "F", anything else -/
inductive Ow where
  | absent | t | f | bad
deriving DecidableEq, Repr

/-- Depth header: absent, "0", "1", anything else ("infinity") -/
inductive Depth where
  | absent | zero | one | inf
deriving DecidableEq, Repr

/-- conditional headers, abstracted to their truth value against the current validator -/
structure Pre where
  /-- If-Match: `some true` = "*" or the current entity tag, `some false` = some other tag -/
  ifMatch : Option Bool := none
  /-- If-None-Match: * -/
  ifNoneMatchStar : Bool := false
  /-- If-Unmodified-Since: `some true` = a date not before the last modification -/
  ius : Option Bool := none
deriving DecidableEq, Repr

inductive Dest where
  | absent
  | bad (status : Nat)
  | ok (p : RPath)
deriving DecidableEq, Repr

structure Req where
  m : Method
  src : RPath
  dst : Dest := .absent
  ow : Ow := .absent
  depth : Depth := .absent
  pre : Pre := {}
  body : Bytes := []
  /-- Content-Range: `none` absent, `some none` not of the form "bytes N-…", `some (some off)` -/
  range : Option (Option Nat) := none
  /-- '#' in the request target -/
  frag : Bool := false
deriving Repr

/-- webdav_if_match_or_unmodified_since(): true = precondition holds (no 412) -/
def Pre.holds (pre : Pre) (ex : Bool) : Bool :=
  (match pre.ifMatch with
   | none => true
   | some m => ex && m) &&
  (if pre.ifNoneMatchStar then !ex else true) &&
  (match pre.ius with
   | none => true
   | some ok => ex && ok)

def Ow.overwrite : Ow → Bool
  | .f => false
  | _ => true

/-- overwrite `old` at byte offset `off` with `body` (lseek past the end leaves a hole of NULs) -/
def patch (old : Bytes) (off : Nat) (body : Bytes) : Bytes :=
  if body.isEmpty then old
  else
    let pre := old.take off ++ List.replicate (off - old.length) (0 : UInt8)
    pre ++ body ++ old.drop (off + body.length)

/-! ### PUT -/

def doPut (t : Tree) (r : Req) : Nat × Tree :=
  let p := r.src
  if p.slash then (400, t)                           -- mod_webdav_put_prep: PUT on a collection
  else match r.range with
  | some rg =>                                       -- webdav.opts partial-put-copy-modify
    if !r.pre.holds (lstat t p).exists then (412, t)
    else match rg with
      | none => (501, t)
      | some off =>
        match lstat t p with                         -- open(path, O_WRONLY)
        | .enoent => (404, t)
        | .enotdir => (403, t)
        | .isdir => (403, t)
        | .isfile c => (204, set p.segs (.file (patch c off r.body)) t)
  | none =>
    if r.body.isEmpty then                           -- mod_webdav_put_0
      if !r.pre.holds (lstat t p).exists then (412, t)
      else match lstat t p with
        | .enoent => if parentIsDir t p.segs then (201, set p.segs (.file []) t) else (500, t)
        | .enotdir => (500, t)
        | .isdir => (500, t)
        | .isfile _ => (204, set p.segs (.file []) t)
    else
      if !parentIsDir t p.segs then (409, t)         -- O_TMPFILE in the target directory
      else if !r.pre.holds (lstat t p).exists then (412, t)
      else match lstat t p with                      -- linkat + renameat2(NOREPLACE) / rename
        | .enoent => (201, set p.segs (.file r.body) t)
        | .isfile _ => (204, set p.segs (.file r.body) t)
        | .isdir => (405, t)
        | .enotdir => (409, t)                       -- unreachable when the parent is a directory

/-! ### MKCOL -/

inductive MkdirRes where
  | ok | eexist | enoent | enotdir
deriving DecidableEq, Repr

/-- errno of mkdir(path) (trailing slash irrelevant) -/
def mkdirRes (t : Tree) (p : Path) : MkdirRes :=
  match walk t [] p with
  | .isdir => .eexist
  | .isfile _ => .eexist
  | .enotdir => .enotdir
  | .enoent => if parentIsDir t p then .ok else .enoent

def doMkcol (t : Tree) (r : Req) : Nat × Tree :=
  if !r.body.isEmpty then (415, t)
  else match mkdirRes t r.src.segs with
    | .ok => (201, set r.src.segs .dir t)
    | .eexist => (405, t)
    | .enotdir => (409, t)
    | .enoent => (409, t)

/-! ### DELETE -/

def doDelete (t : Tree) (r : Req) : Nat × Tree :=
  if !r.body.isEmpty then (415, t)
  else if r.frag then (403, t)
  else match lstat t r.src with
    | .enoent => (404, t)
    | .enotdir => (403, t)
    | .isdir =>
      if !r.pre.holds true then (412, t)
      else if r.depth == .zero || r.depth == .one then (400, t)
      else (204, erase r.src.segs t)
    | .isfile _ =>
      if !r.pre.holds true then (412, t)
      else (204, erase r.src.segs t)

/-! ### COPY / MOVE -/

/-- webdav_mkdir(dst, overwrite) for the destination collection of a recursive COPY:
    `none` = failure (409/403) -/
def mkdirOw (t : Tree) (dst : Path) (ow : Bool) : Option Tree :=
  match mkdirRes t dst with
  | .ok => some (set dst .dir t)
  | .enoent => none
  | .enotdir => none
  | .eexist =>
    if !ow then none
    else match get t dst with
      | some .dir => some t
      | some (.file _) => some (set dst .dir (erase dst t))
      | none => none

/-- one directory entry `e` of the source collection in the loop of webdav_copymove_dir()
    (`recur` = the recursive call for a member collection that has to be merged) -/
def mergeStep (recur : Path → Path → Tree → Tree × Bool) (move : Bool) (src dst : Path)
    (acc : Tree × Bool) (e : Seg × Node) : Tree × Bool :=
  let s := src ++ [e.1]
  let d := dst ++ [e.1]
  match e.2 with
  | .file c =>
    match get acc.1 d with
    | some .dir => (acc.1, true)                     -- rename/link onto a directory: 409
    | _ => (if move then set d (.file c) (erase s acc.1) else set d (.file c) acc.1, acc.2)
  | .dir =>
    match get acc.1 d with
    | some .dir =>
      if move && !hasChild d acc.1 then (moveTree s d acc.1, acc.2)   -- rename over an empty directory
      else
        let r := recur s d acc.1
        (r.1, acc.2 || r.2)
    | _ => (if move then moveTree s d acc.1 else copyTree s d acc.1, acc.2)

/-- the merge loop of webdav_copymove_dir() for a source collection `src` and an existing
    destination collection `dst` (Overwrite: T).  Returns the tree and whether a member
    failed.  `fuel` bounds the nesting depth. -/
def mergeDir : Nat → Bool → Path → Path → Tree → Tree × Bool
  | 0, _, _, _, t => (t, true)
  | fuel + 1, move, src, dst, t =>
    let r := (children src t).foldl (mergeStep (mergeDir fuel move) move src dst) (t, false)
    if move && !r.2 then (erase src r.1, false) else r

/-- webdav_copymove_dir() at the top level: `none` = failed without touching anything (207) -/
def copymoveDir (move : Bool) (ow : Bool) (src dst : Path) (t : Tree) : Option (Tree × Bool) :=
  if src == dst then (if ow then some (t, false) else none)   -- "/d/" onto "/d": rename()/link onto itself
  else match walk t [] dst with
  | .enotdir => none
  | .enoent => if parentIsDir t dst then some (if move then moveTree src dst t else copyTree src dst t, false)
               else none
  | .isfile _ => if ow then some (if move then moveTree src dst t else copyTree src dst t, false) else none
  | .isdir =>
    if !ow then none
    else if !hasChild dst t then
      some (if move then moveTree src dst t else copyTree src dst t, false)
    else some (mergeDir (t.length + 1) move src dst t)

def nested (src dst : RPath) : Bool :=
  under src.segs dst.segs && !(src.slash && dst.segs == src.segs && !dst.slash)

/-- the source is a collection (mod_webdav_copymove_b, S_ISDIR branch) -/
def cmCollection (t : Tree) (r : Req) (move : Bool) (src dst : RPath) : Nat × Tree :=
  if !src.slash then (308, t)
  else if r.depth == .one then (400, t)
  else if r.depth == .zero then
    if move then (400, t)
    else match lstat t ⟨dst.segs, true⟩ with
      | .isdir => (204, t)
      | .isfile _ => (403, t)
      | .enotdir => (403, t)
      | .enoent => if parentIsDir t dst.segs then (201, set dst.segs .dir t) else (409, t)
  else match copymoveDir move r.ow.overwrite src.segs dst.segs t with
    | none => (207, t)
    | some (t', failed) => (if failed then 207 else 200, t')

/-- "file to dir/": the source's last segment is appended to an existing destination collection -/
def cmFileTarget (t : Tree) (src dst : RPath) : RPath :=
  if lstat t dst == .isdir then ⟨dst.segs ++ src.segs.drop (src.segs.length - 1), false⟩ else dst

/-- webdav_copymove_file() succeeded: the file is at `d` (and, for MOVE, gone from `src`) -/
def cmDone (t : Tree) (move : Bool) (src d : Path) (c : Bytes) (s : Nat) : Nat × Tree :=
  (s, if move then set d (.file c) (erase src t) else set d (.file c) t)

/-- the source is a file with content `c` -/
def cmFile (t : Tree) (r : Req) (move : Bool) (src dst : RPath) (c : Bytes) : Nat × Tree :=
  let intoDir := lstat t dst == .isdir
  let d := cmFileTarget t src dst
  if intoDir && d.segs == src.segs then (403, t)     -- (repaired behaviour, see header)
  else match lstat t d with
    | .enoent =>
      if intoDir then cmDone t move src.segs d.segs c 204
      else if d.slash then (409, t)
      else if parentIsDir t d.segs then cmDone t move src.segs d.segs c 201 else (409, t)
    | .enotdir => (409, t)
    | .isdir => if !r.ow.overwrite then (412, t) else (409, t)
    | .isfile _ => if !r.ow.overwrite then (412, t) else cmDone t move src.segs d.segs c 204

def doCopyMove (t : Tree) (r : Req) : Nat × Tree :=
  if !r.body.isEmpty then (415, t)
  else if r.ow == .bad then (400, t)
  else match r.dst with
  | .absent => (400, t)
  | .bad s => (max s 400, t)                         -- (400 / 502 from the Destination parser)
  | .ok dst =>
    if nested r.src dst then (403, t)
    else match lstat t r.src with
    | .enoent => (404, t)
    | .enotdir => (403, t)
    | .isdir => if !r.pre.holds true then (412, t) else cmCollection t r (r.m == .move) r.src dst
    | .isfile c => if !r.pre.holds true then (412, t) else cmFile t r (r.m == .move) r.src dst c

/-! ### reads (mod_staticfile through the stat cache) -/

def getWalk (t : Tree) : Path → List Seg → Bool → Nat × Bytes
  | cur, [], slash =>
    match get t cur with
    | none => (404, [])
    | some .dir => (if slash then 403 else 301, [])
    | some (.file c) => (200, c)
  | cur, s :: rest, slash =>
    match get t cur with
    | some .dir => getWalk t (cur ++ [s]) rest slash
    | some (.file c) => (200, c)                      -- path-info
    | none => (404, [])

def doGet (t : Tree) (r : Req) : Nat × Bytes := getWalk t [] r.src.segs r.src.slash

/-! ### one request, sequences -/

def step (t : Tree) (r : Req) : Nat × Tree :=
  match r.m with
  | .put => doPut t r
  | .mkcol => doMkcol t r
  | .delete => doDelete t r
  | .copy => doCopyMove t r
  | .move => doCopyMove t r
  | .get => ((doGet t r).1, t)

def run (t : Tree) : List Req → Tree
  | [] => t
  | r :: rs => run (step t r).2 rs

def statuses (t : Tree) : List Req → List Nat
  | [] => []
  | r :: rs => (step t r).1 :: statuses (step t r).2 rs

/-! ### RFC 4918 reference: the effect a successful request has on the tree

  Stated on the lookup function, independently of the implementation model above:
  PUT binds the target to the new content, MKCOL to an empty collection, DELETE removes the
  subtree, COPY makes the destination subtree an exact image of the source subtree (whatever
  was at the destination is gone: RFC 4918 §9.8.4), with `Depth: 0` only the collection
  itself; MOVE = COPY + DELETE of the source (§9.9). -/

abbrev FS := Path → Option Node

/-- the content a successful PUT leaves at its target (`Content-Range`: the patched content) -/
def putContent (old : Option Node) (r : Req) : Bytes :=
  match r.range, old with
  | some (some off), some (.file c) => patch c off r.body
  | _, _ => r.body

def destOf (r : Req) : Path :=
  match r.dst with
  | .ok d => d.segs
  | _ => []

def rfcEffect (t : FS) (r : Req) : FS :=
  let src := r.src.segs
  let dst := destOf r
  match r.m with
  | .put => fun q => if q = src then some (.file (putContent (t src) r)) else t q
  | .mkcol => fun q => if q = src then some .dir else t q
  | .delete => fun q => if under src q then none else t q
  | .copy =>
    if t src = some .dir ∧ r.depth = .zero then
      fun q => if q = dst then some .dir else if under dst q then none else t q
    else fun q => if under dst q then t (src ++ q.drop dst.length) else t q
  | .move => fun q =>
    if under dst q then t (src ++ q.drop dst.length) else if under src q then none else t q
  | .get => t

/-! #### when a request must succeed (status side of the reference)

  Independent of the implementation model: stated on the lookup function only.  RFC 4918 §9.3.1
  (MKCOL on an unmapped URL whose parent is a collection), §9.6 (DELETE), §9.7 (PUT: parent
  collection exists, target is not a collection), §9.8.4/§9.8.5/§9.9.3 (COPY/MOVE: destination
  parent exists, Overwrite: F and existing destination fail, source ≠ destination), §10.4/RFC 7232
  preconditions (`Pre.holds`), plus the request rules lighttpd documents (no PUT on a path ending
  in '/', a collection source is addressed with '/', `Depth: 1` / MOVE with `Depth: 0` refused,
  DELETE of a collection only with Depth infinity, no request body, no fragment). -/

def isColl (t : FS) (p : Path) : Bool := t p == some .dir

def isFileAt (t : FS) (p : Path) : Bool :=
  match t p with
  | some (.file _) => true
  | _ => false

def parentColl (t : FS) (p : Path) : Bool := p != [] && t p.dropLast == some .dir

/-- the destination can be created or (with Overwrite) replaced -/
def destFree (t : FS) (d : Path) (ow : Bool) : Bool :=
  (t d).isNone && parentColl t d || (t d).isSome && ow

def rfcPre (t : FS) (r : Req) : Bool :=
  let src := r.src.segs
  match r.m with
  | .put =>
    !r.src.slash &&
    (match r.range with
     | some rg => r.pre.holds (t src).isSome && rg.isSome && isFileAt t src
     | none =>
       if r.body.isEmpty then r.pre.holds (t src).isSome && ((t src).isNone && parentColl t src || isFileAt t src)
       else parentColl t src && r.pre.holds (t src).isSome && !isColl t src)
  | .mkcol => r.body.isEmpty && (t src).isNone && parentColl t src
  | .delete =>
    r.body.isEmpty && !r.frag && r.pre.holds true &&
      (isColl t src && !(r.depth == .zero || r.depth == .one) || isFileAt t src && !r.src.slash)
  | .get => true
  | _ =>
    match r.dst with
    | .ok d =>
      r.body.isEmpty && r.ow != .bad && !nested r.src d && r.pre.holds true &&
      (if isColl t src then
         r.src.slash && r.depth != .one &&
         (if r.depth == .zero then r.m == .copy && (isColl t d.segs || (t d.segs).isNone && parentColl t d.segs)
          else if src == d.segs then r.ow.overwrite else destFree t d.segs r.ow.overwrite)
       else isFileAt t src && !r.src.slash && !d.slash && destFree t d.segs (r.ow.overwrite && isFileAt t d.segs))
    | _ => false

/-- requests for which lighttpd claims RFC behaviour: the destination of a COPY/MOVE is not an
    existing collection, except an *empty* one as destination of a collection (everything else
    is lighttpd's documented merge / "copy into the collection" extension) -/
def Conforming (t : Tree) (r : Req) : Prop :=
  (r.m = .copy ∨ r.m = .move) → get t (destOf r) = some .dir →
    get t r.src.segs = some .dir ∧ hasChild (destOf r) t = false

/-- 2xx other than 207 Multi-Status (which reports member failures) -/
def isSuccess (s : Nat) : Bool := 200 ≤ s && s < 300 && s != 207

/-- the reference tree after a request sequence: the RFC effects of exactly those requests that
    were reported successful (`oks`), in order -/
def refRun (t : FS) : List Req → List Bool → FS
  | r :: rs, ok :: oks => refRun (if ok then rfcEffect t r else t) rs oks
  | _, _ => t

/-- the reference run proper: which requests take effect is decided by the reference itself
    (`rfcPre`), not by the statuses the implementation reports -/
def refRunPre (t : FS) : List Req → FS
  | [] => t
  | r :: rs => refRunPre (if rfcPre t r then rfcEffect t r else t) rs

/-- the success / failure decisions of the reference along a sequence -/
def refDecisions (t : FS) : List Req → List Bool
  | [] => []
  | r :: rs => rfcPre t r :: refDecisions (if rfcPre t r then rfcEffect t r else t) rs

/-- every request of the sequence is covered by the reference at the point it is issued -/
def CoveredRun : Tree → List Req → Prop
  | _, [] => True
  | t, r :: rs => Conforming t r ∧ CoveredRun (step t r).2 rs

/-- every request of the sequence is covered by the reference at the point it is issued and is not
    answered 207 Multi-Status -/
def ConformingRun : Tree → List Req → Prop
  | _, [] => True
  | t, r :: rs => Conforming t r ∧ (step t r).1 ≠ 207 ∧ ConformingRun (step t r).2 rs

/-! ### Destination header (mod_webdav_copymove_b) -/

def idxOf (b : UInt8) : Bytes → Option Nat
  | [] => none
  | x :: xs => if x = b then some 0 else (idxOf b xs).map (· + 1)

/-- strict UTF-8 well-formedness (buffer_is_valid_UTF8) as a byte automaton: `need` continuation
    bytes are still expected, the next one must lie in `[lo, hi]` (this encodes the overlong,
    surrogate and > U+10FFFF exclusions) -/
def validUtf8Aux : Bytes → Nat → UInt8 → UInt8 → Bool
  | [], need, _, _ => need == 0
  | b :: rest, 0, _, _ =>
    if b < 0x80 then validUtf8Aux rest 0 0x80 0xBF
    else if 0xC2 ≤ b && b ≤ 0xDF then validUtf8Aux rest 1 0x80 0xBF
    else if b == 0xE0 then validUtf8Aux rest 2 0xA0 0xBF
    else if b == 0xED then validUtf8Aux rest 2 0x80 0x9F
    else if 0xE1 ≤ b && b ≤ 0xEF then validUtf8Aux rest 2 0x80 0xBF
    else if b == 0xF0 then validUtf8Aux rest 3 0x90 0xBF
    else if b == 0xF4 then validUtf8Aux rest 3 0x80 0x8F
    else if 0xF1 ≤ b && b ≤ 0xF3 then validUtf8Aux rest 3 0x80 0xBF
    else false
  | b :: rest, need + 1, lo, hi =>
    if lo ≤ b && b ≤ hi then validUtf8Aux rest need 0x80 0xBF else false

def validUtf8 (s : Bytes) : Bool := validUtf8Aux s 0 0x80 0xBF

/-- the path part: strip the query, url-decode, check UTF-8, simplify -/
def destPath (start : Bytes) : Except Nat Bytes :=
  let p := start.takeWhile (· != qmark)
  let d := urldecodePath p
  if !validUtf8 d then .error 400
  else
    let s := pathSimplify d
    if s.head? != some slash then .error 400 else .ok s

/-- Destination header value → canonical path relative to the document root, or a status -/
def parseDest (scheme authority raw : Bytes) : Except Nat Bytes :=
  if raw.head? == some slash then destPath raw
  else
    let pre := scheme ++ [colon, slash, slash]
    if !pre.isPrefixOf raw then .error 400
    else
      let rest := raw.drop pre.length
      match idxOf slash rest with
      | none => .error 400
      | some i =>
        let host := rest.take i
        let path := rest.drop i
        if host == authority then destPath path
        else match idxOf (c '@') host with
          | none => .error 502
          | some j => if host.drop (j + 1) == authority then destPath path else .error 502

/-- split a canonical absolute path into segments and the trailing-slash flag -/
def toRPath (s : Bytes) : RPath :=
  let parts := (splitOn slash s).drop 1
  match parts.getLast? with
  | some [] => ⟨parts.dropLast, true⟩
  | some _ => ⟨parts, false⟩
  | none => ⟨[], true⟩

def mkDest (root : Path) (scheme authority : Bytes) (raw : Option Bytes) : Dest :=
  match raw with
  | none => .absent
  | some v =>
    match parseDest scheme authority v with
    | .error s => .bad s
    | .ok p => let rp := toRPath p; .ok ⟨root ++ rp.segs, rp.slash⟩

end LtVerif.Dav
