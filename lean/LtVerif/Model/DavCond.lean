/-
  Model of mod_webdav's evaluation of conditional request headers (C18):

    webdav_if_match_or_unmodified_since()  (src/mod_webdav.c)  -> `precond`
    http_etag_create() + http_etag_remix() (src/http_etag.c)   -> `etagCreate`
    dekhash()                              (src/algo_md.h)     -> `dekhash`

  with http_etag_matches() = `Cond.etagMatches` (Model/Cond304.lean) and
  http_date_if_modified_since() = `Date.ifModifiedSince` (Model/Date.lean), both shared with C15.

  The file-system lookup (`st` handed in by the caller after its own successful stat, or the
  function's own lstat() when `st == NULL`) is the input `Lk`: the four outcomes the code
  distinguishes.  Header values are NUL-free byte strings.  `x[]` is read as bytes in
  little-endian order (x86-64/aarch64; validated by the in-process harness), `st_mtim.tv_nsec`
  is part of the hash (`#ifdef st_mtime`, true for glibc).
  Core Lean only.
-/
import LtVerif.Model.Cond304
import LtVerif.Model.Dav
set_option linter.unusedVariables false
namespace LtVerif
namespace DavCond
open B Date Cond

/-- the fields of `struct stat` the code reads -/
structure Stat where
  ino : Nat
  size : Nat
  mtime : Int
  nsec : Nat
deriving Repr, DecidableEq

/-- outcome of the lookup of r->physical.path: a stat record, or the errno classes the code
    tells apart (ENOENT, ENOTDIR, anything else) -/
inductive Lk where
  | found (st : Stat)
  | enoent
  | enotdir
  | other
deriving Repr, DecidableEq

def Lk.ex : Lk → Bool
  | .found _ => true
  | _ => false

/-- `(uint64_t)` cast -/
def u64 (i : Int) : Nat := (i % 18446744073709551616).toNat

/-- `k` little-endian bytes of `n` -/
def leBytes : Nat → Nat → Bytes
  | 0, _ => []
  | k + 1, n => (n % 256).toUInt8 :: leBytes k (n / 256)

/-- dekhash(): `hash = (hash << 5) ^ (hash >> 27) ^ s[i]` over 32-bit unsigned -/
def dekhash (s : Bytes) (h : UInt32) : UInt32 :=
  s.foldl (fun h b => (h <<< 5) ^^^ (h >>> 27) ^^^ b.toUInt32) h

/-- ETAG_USE_INODE = 1, ETAG_USE_MTIME = 2, ETAG_USE_SIZE = 4: the words x[0..len) in the order
    the code stores them (inode, size, mtime seconds, mtime nanoseconds) -/
def etagWords (st : Stat) (flags : Nat) : List Nat :=
  (if flags &&& 1 ≠ 0 then [st.ino % 18446744073709551616] else []) ++
  (if flags &&& 4 ≠ 0 then [st.size % 18446744073709551616] else []) ++
  (if flags &&& 2 ≠ 0 then [u64 st.mtime, st.nsec % 18446744073709551616] else [])

/-- the 32-bit value printed between the quotes: dekhash(x, len<<3, len<<3) -/
def etagHash (st : Stat) (flags : Nat) : UInt32 :=
  let x := (etagWords st flags).flatMap (leBytes 8)
  dekhash x x.length.toUInt32

/-- http_etag_create() into a cleared buffer: nothing for flags = 0, else DQUOTE decimal DQUOTE -/
def etagCreate (st : Stat) (flags : Nat) : Bytes :=
  if flags = 0 then [] else 34 :: (natDec (etagHash st flags).toNat ++ [34])

/-- `if (NULL != im) { if (NULL == st || !http_etag_matches(etagb, im->ptr, 0)) return 412; }` -/
def imFails (flags : Nat) : Option Bytes → Lk → Bool
  | none, _ => false
  | some v, .found st => !etagMatches (etagCreate st flags) v false
  | some _, _ => true

/-- `if (NULL != inm) { if (NULL == st ? (errno != ENOENT && errno != ENOTDIR)
                                        : http_etag_matches(etagb, inm->ptr, 1)) return 412; }` -/
def inmFails (flags : Nat) : Option Bytes → Lk → Bool
  | none, _ => false
  | some v, .found st => etagMatches (etagCreate st flags) v true
  | some _, .other => true
  | some _, _ => false

/-- `if (NULL != ius) { if (NULL == st) return 412;
                        if (http_date_if_modified_since(ius, st->st_mtime)) return 412; }` -/
def iusFails (now : Int) : Option Bytes → Lk → Bool
  | none, _ => false
  | some d, .found st => ifModifiedSince now d st.mtime
  | some _, _ => true

/-- webdav_if_match_or_unmodified_since(r, st): 0 = go on, 412 = Precondition Failed.
    `flags` = r->conf.etag_flags (If-Match / If-None-Match are not even looked up when 0),
    `im`/`inm`/`ius` = the three request header values, `now` = log_epoch_secs (two-digit years). -/
def precond (now : Int) (flags : Nat) (im inm ius : Option Bytes) (lk : Lk) : Nat :=
  let im := if flags = 0 then none else im
  let inm := if flags = 0 then none else inm
  if im.isNone && inm.isNone && ius.isNone then 0
  else if imFails flags im lk then 412
  else if inmFails flags inm lk then 412
  else if iusFails now ius lk then 412
  else 0

/-- the truth values the tree model's `Dav.Pre` record abstracts the three headers to -/
def toPre (now : Int) (flags : Nat) (im inm ius : Option Bytes) (lk : Lk) : Dav.Pre :=
  { ifMatch := im.map fun v =>
      match lk with
      | .found st => etagMatches (etagCreate st flags) v false
      | _ => false
    ifNoneMatchStar := inm == some [42]
    ius := ius.map fun d =>
      match lk with
      | .found st => !ifModifiedSince now d st.mtime
      | _ => false }

end DavCond
end LtVerif
