/-
  C18 — PUT as a system-call protocol (mod_webdav_put_prep, mod_webdav_put_0,
  mod_webdav_put_linkat_rename, mod_webdav_put, mod_webdav_put_range / webdav_copytmp_rename).

  The model is an *acceptor*: `stepEv cfg s ev` is `some s'` when the code may issue the system
  call `ev.sys` in protocol state `s` and the kernel answers `ev.ok` (transferring `ev.n` bytes),
  and `none` when that call is not part of the protocol there.  The results of the calls are inputs
  (fault schedule), so a list of events is at once
    * a run of the upload under an arbitrary schedule of write sizes, failures and client aborts,
    * with a crash / SIGKILL at any instant = any prefix of the list, and
    * what `strace` shows for a real PUT (trace validation: the abstracted trace must be accepted
      and the predicted final directory state must equal the real one).
  Only the three names that matter are tracked: the target, the staged name `target.<pid>.<fd>~`
  in the same directory, and the unlinked O_TMPFILE staging file (invisible in any directory).

  Protocols
    full   O_TMPFILE in the target directory → write* → linkat(/proc/self/fd/N, staged) →
           renameat2(staged, target, NOREPLACE) [→ rename(staged, target)] → close;
           if linkat fails: open(staged, O_CREAT|O_EXCL) → write* → close → rename | unlink.
    zero   open(target, O_CREAT|O_EXCL) → close; if the target exists: open(staged, O_CREAT|O_EXCL) →
           close → rename (a new empty file replaces the target; never O_TRUNC in place).
    part   (Content-Range, webdav.opts partial-put-copy-modify) open(target, O_WRONLY) →
           open(staged, O_CREAT|O_EXCL) → copy old content → write body at offset → close → rename.
           A failed write or a failed close must unlink the staged copy and must NOT rename it
           (repaired behaviour: the code as found renamed first and reported a close() error
           afterwards, i.e. an error status with the new content already in place).

  Besides the acceptor there is the *generator* reading of the same automaton: `next` is the call
  the code issues in a state, `genEv` pairs it with an arbitrary kernel answer (fault schedule,
  write sizes, client abort), `runGen` runs the code-shaped model under a whole schedule.
  Core Lean only.
-/
import LtVerif.Model.Dav

namespace LtVerif.DavPut
open LtVerif LtVerif.B

inductive Kind where
  | full
  | zero
  | part (off : Nat)
deriving DecidableEq, Repr

structure Cfg where
  kind : Kind
  /-- content of the target before the request (`none`: does not exist) -/
  old : Option Bytes
  /-- request body -/
  body : Bytes
deriving Repr

/-- the complete new content of the target -/
def Cfg.new (c : Cfg) : Bytes :=
  match c.kind with
  | .full => c.body
  | .zero => []
  | .part off => Dav.patch (c.old.getD []) off c.body

inductive Sys where
  | openTmpfile      -- openat(dir, O_TMPFILE)
  | write            -- write/pwritev/copy_file_range of request-body bytes into the staging file
  | link             -- linkat(/proc/self/fd/N, staged)
  | renameNr         -- renameat2(staged, target, RENAME_NOREPLACE)
  | rename           -- rename(staged, target)
  | unlinkTmp        -- unlink(staged)
  | close            -- close of the O_TMPFILE / target descriptor
  | openTmpExcl      -- open(staged, O_CREAT|O_EXCL)
  | closeTmp         -- close of the staged-by-name descriptor
  | openExcl         -- open(target, O_CREAT|O_EXCL)        (zero-length PUT)
  | openTrunc        -- open(target, O_CREAT|O_TRUNC)       (zero-length PUT)
  | openOld          -- open(target, O_WRONLY)              (partial PUT)
  | copyOld          -- copy of old content into the staged copy
  | mkostemp         -- mkostemp(target-XXXXXX) (O_TMPFILE not available)
  | unlinkNamed      -- unlink(target-XXXXXX) right after mkostemp
  | seekFail         -- lseek() on the staged copy failed
  | other            -- any other modifying call on the target or staged name
deriving DecidableEq, Repr

structure Ev where
  sys : Sys
  ok : Bool := true
  n : Nat := 0
deriving DecidableEq, Repr

inductive Pc where
  | start
  | start2          -- O_TMPFILE refused: mkostemp() in the target directory
  | start3          -- mkostemp()ed file exists under its name; unlink() next
  | recv            -- O_TMPFILE open, receiving
  | linked          -- staged name exists, complete
  | needRename
  | cleanup         -- must unlink the staged name
  | closing         -- only the descriptor is left
  | byName          -- linkat failed: open staged name
  | byNameW         -- writing into the staged name
  | byNameC         -- complete, closed: rename next
  | byNameF         -- failed: close then unlink
  | zTrunc
  | zStaged         -- zero-length replacement staged as a new empty file
  | zRen
  | pExcl           -- partial: target opened, stage a copy
  | pCopy
  | pPatch (j : Nat)
  | pRen            -- patched completely and closed without error: rename next
  | pFail (needClose needUnlink : Bool)   -- failed: close the descriptor and unlink the staged copy (any order)
  | done
deriving DecidableEq, Repr

structure PSt where
  pc : Pc
  target : Option Bytes
  tmp : Option Bytes := none
  anon : Option Bytes := none
  /-- final response status class decided so far: 0 none, 2 success, 4 error -/
  status : Nat := 0
deriving DecidableEq, Repr

def init (c : Cfg) : PSt := { pc := .start, target := c.old }

/-- append the next `n` bytes of `src` to the prefix `cur` -/
def extend (src cur : Bytes) (n : Nat) : Bytes := cur ++ (src.drop cur.length).take n

/-- what is left to do once the names are settled: close the O_TMPFILE descriptor, if still open -/
def fin (s : PSt) : Pc := if s.anon.isNone then .done else .closing

def stepEv (c : Cfg) (s : PSt) (ev : Ev) : Option PSt :=
  match s.pc, ev.sys with
  -- ---------------------------------------------------------------- start
  | .start, .openTmpfile =>
    if c.kind == .full then
      if ev.ok then some { s with pc := .recv, anon := some [] } else some { s with pc := .start2 }
    else none
  | .start2, .mkostemp =>
    if ev.ok then (if s.tmp.isNone then some { s with pc := .start3, tmp := some [], anon := some [] } else none)
    else some { s with pc := .done, status := 4 }
  | .start3, .unlinkNamed => some { s with pc := .recv, tmp := none }
  | .start, .openExcl =>
    if c.kind == .zero then
      if ev.ok then
        (if s.target.isNone then some { s with pc := .closing, target := some [], status := 2 } else none)
      else some { s with pc := .zTrunc }
    else none
  | .start, .openOld =>
    match c.kind with
    | .part _ => if ev.ok then (if s.target.isSome then some { s with pc := .pExcl } else none)
                 else some { s with pc := .done, status := 4 }
    | _ => none
  -- ---------------------------------------------------------------- full PUT, O_TMPFILE
  | .recv, .write =>
    match s.anon with
    | none => none
    | some a =>
      if ev.ok then
        if a.length + ev.n ≤ c.body.length then some { s with anon := some (extend c.body a ev.n) } else none
      else some { s with pc := .closing, status := 4 }
  | .recv, .close => some { s with pc := .done, anon := none, status := 4 }   -- abort / 412
  | .recv, .link =>
    match s.anon with
    | none => none
    | some a =>
      if a.length == c.body.length then
        if ev.ok then some { s with pc := .linked, tmp := some a } else some { s with pc := .byName }
      else none
  | .linked, .renameNr =>
    if ev.ok then
      (if s.target.isNone then some { s with pc := .closing, target := s.tmp, tmp := none, status := 2 } else none)
    else some { s with pc := .needRename }
  | .needRename, .rename =>
    if ev.ok then some { s with pc := .closing, target := s.tmp, tmp := none, status := 2 }
    else some { s with pc := .cleanup, status := 4 }
  | .cleanup, .unlinkTmp => some { s with pc := fin s, tmp := none, status := 4 }
  -- the request body chunk (the O_TMPFILE descriptor) is released as soon as it has been copied
  | .byNameW, .close => if s.anon.isSome then some { s with anon := none } else none
  | .byNameC, .close => if s.anon.isSome then some { s with anon := none } else none
  | .byNameF, .close => if s.anon.isSome then some { s with anon := none } else none
  | .cleanup, .close => if s.anon.isSome then some { s with anon := none } else none
  | .closing, .close => some { s with pc := .done, anon := none }
  -- ---------------------------------------------------------------- full PUT, staged by name
  | .byName, .openTmpExcl =>
    if ev.ok then (if s.tmp.isNone then some { s with pc := .byNameW, tmp := some [] } else none)
    else some { s with pc := fin s, status := 4 }
  | .byNameW, .write =>
    match s.tmp with
    | none => none
    | some a =>
      if ev.ok then
        if a.length + ev.n ≤ c.body.length then some { s with tmp := some (extend c.body a ev.n) } else none
      else some { s with pc := .byNameF, status := 4 }
  | .byNameW, .closeTmp =>
    match s.tmp with
    | none => none
    | some a =>
      if a.length == c.body.length then
        if ev.ok then some { s with pc := .byNameC } else some { s with pc := .cleanup, status := 4 }
      else none
  | .byNameC, .rename =>
    if ev.ok then some { s with pc := fin s, target := s.tmp, tmp := none, status := 2 }
    else some { s with pc := .cleanup, status := 4 }
  | .byNameF, .closeTmp => some { s with pc := .cleanup }
  -- ---------------------------------------------------------------- zero-length PUT
  | .zTrunc, .openTmpExcl =>          -- replace by a new empty file (never O_TRUNC in place)
    if ev.ok then (if s.tmp.isNone then some { s with pc := .zStaged, tmp := some [] } else none)
    else some { s with pc := .done, status := 4 }
  | .zStaged, .closeTmp => some { s with pc := .zRen }
  | .zRen, .rename =>
    if ev.ok then some { s with pc := .done, target := s.tmp, tmp := none, status := 2 }
    else some { s with pc := .pFail false true, status := 4 }
  -- ---------------------------------------------------------------- partial PUT (copy, modify, rename)
  | .pExcl, .openTmpExcl =>
    if ev.ok then
      (if s.tmp.isNone then
        some { s with pc := if (c.old.getD []).isEmpty then .pPatch 0 else .pCopy, tmp := some [] }
       else none)
    else some { s with pc := .done, status := 4 }
  | .pCopy, .copyOld =>
    match s.tmp, c.old with
    | some a, some o =>
      if ev.ok then
        if a.length + ev.n ≤ o.length then
          let a' := extend o a ev.n
          some { s with tmp := some a', pc := if a'.length == o.length then .pPatch 0 else .pCopy }
        else none
      else some { s with pc := .pFail true true, status := 4 }
    | _, _ => none
  | .pPatch j, .write =>
    match c.kind, c.old with
    | .part off, some o =>
      if ev.ok then
        if j + ev.n ≤ c.body.length then
          some { s with tmp := some (Dav.patch o off (c.body.take (j + ev.n))), pc := .pPatch (j + ev.n) }
        else none
      else some { s with pc := .pFail true true, status := 4 }
    | _, _ => none
  | .pPatch _, .seekFail => some { s with pc := .pFail true true, status := 4 }
  | .pPatch j, .closeTmp =>
    -- close() reports deferred write errors: it comes before the rename and its result counts
    if j == c.body.length then
      if ev.ok then some { s with pc := .pRen } else some { s with pc := .pFail false true, status := 4 }
    else none
  | .pRen, .rename =>
    if ev.ok then some { s with pc := .done, target := s.tmp, tmp := none, status := 2 }
    else some { s with pc := .pFail false true, status := 4 }
  | .pFail true u, .closeTmp => some { s with pc := if u then .pFail false true else .done }
  | .pFail cl true, .unlinkTmp => some { s with pc := if cl then .pFail true false else .done, tmp := none }
  | _, _ => none

/-- run a list of events; `none` as soon as an event is not allowed -/
def runEvs (c : Cfg) : PSt → List Ev → Option PSt
  | s, [] => some s
  | s, e :: es =>
    match stepEv c s e with
    | none => none
    | some s' => runEvs c s' es

/-- index of the first event that is not allowed (for diagnostics) -/
def firstReject (c : Cfg) : PSt → List Ev → Nat → Option Nat
  | _, [], _ => none
  | s, e :: es, i =>
    match stepEv c s e with
    | none => some i
    | some s' => firstReject c s' es (i + 1)

/-! ### the generator reading: the code issues `next`, the kernel / client answer is a schedule -/

/-- the system call the code issues next in state `s` (`none`: the request is finished) -/
def next (c : Cfg) (s : PSt) : Option Sys :=
  match s.pc with
  | .start => some (match c.kind with | .full => .openTmpfile | .zero => .openExcl | .part _ => .openOld)
  | .start2 => some .mkostemp
  | .start3 => some .unlinkNamed
  | .recv => if (s.anon.getD []).length < c.body.length then some .write else some .link
  | .linked => some .renameNr
  | .needRename => some .rename
  | .cleanup => some .unlinkTmp
  | .closing => some .close
  | .byName => some .openTmpExcl
  | .byNameW => if (s.tmp.getD []).length < c.body.length then some .write else some .closeTmp
  | .byNameC => some .rename
  | .byNameF => some .closeTmp
  | .zTrunc => some .openTmpExcl
  | .zStaged => some .closeTmp
  | .zRen => some .rename
  | .pExcl => some .openTmpExcl
  | .pCopy => some .copyOld
  | .pPatch j => if j < c.body.length then some .write else some .closeTmp
  | .pRen => some .rename
  | .pFail true _ => some .closeTmp
  | .pFail false true => some .unlinkTmp
  | .pFail false false => none
  | .done => none

/-- one answer of the environment: does the call succeed, how many bytes does a write / copy
    transfer, does the client abort (meaningful while the body is being received) -/
structure Res where
  ok : Bool := true
  n : Nat := 1
  abort : Bool := false
deriving Repr

/-- bytes still to be transferred by the next write / copy -/
def remaining (c : Cfg) (s : PSt) : Nat :=
  match s.pc with
  | .recv => c.body.length - (s.anon.getD []).length
  | .byNameW => c.body.length - (s.tmp.getD []).length
  | .pCopy => (c.old.getD []).length - (s.tmp.getD []).length
  | .pPatch j => c.body.length - j
  | _ => 0

/-- the event of this step.  A successful write transfers between 1 and `remaining` bytes; the
    kernel cannot create (O_EXCL, RENAME_NOREPLACE) over an existing target nor open a missing one. -/
def genEv (c : Cfg) (s : PSt) (r : Res) : Option Ev :=
  match next c s with
  | none => none
  | some sys =>
    if s.pc == .recv && r.abort then some { sys := .close, ok := true, n := 0 }
    else
      let ok := match sys with
        | .openExcl => r.ok && s.target.isNone
        | .renameNr => r.ok && s.target.isNone
        | .openOld => r.ok && s.target.isSome
        | _ => r.ok
      some { sys := sys, ok := ok, n := min (max r.n 1) (remaining c s) }

/-- run the code-shaped model under a schedule; `none` = an issued call was not accepted -/
def runGen (c : Cfg) (res : Nat → Res) : Nat → Nat → PSt → Option PSt
  | 0, _, s => some s
  | fuel + 1, k, s =>
    match genEv c s (res k) with
    | none => some s
    | some ev =>
      match stepEv c s ev with
      | none => none
      | some s' => runGen c res fuel (k + 1) s'

/-- progress measure: position in the protocol, then bytes still to transfer -/
def stage : Pc → Nat
  | .start => 20 | .start2 => 19 | .start3 => 18 | .recv => 17 | .linked => 16 | .needRename => 15
  | .byName => 16 | .byNameW => 15 | .byNameC => 14 | .byNameF => 14 | .cleanup => 13 | .closing => 12
  | .zTrunc => 19 | .zStaged => 18 | .zRen => 17 | .pExcl => 19 | .pCopy => 18 | .pPatch _ => 17 | .pRen => 16
  | .pFail true true => 11 | .pFail true false => 10 | .pFail false true => 10 | .pFail false false => 0
  | .done => 0

def span (c : Cfg) : Nat := c.body.length + (c.old.getD []).length + 1

def rank (c : Cfg) (s : PSt) : Nat := stage s.pc * span c + remaining c s

/-- what a reader (GET, or the file system after a crash) sees at the target name -/
def PSt.read (s : PSt) : Option Bytes := s.target

/-! ### line protocol:  put <kind> <old|-none-> <body> <ev>…   with ev = name[!][:n]  -/

def parseSys : String → Option Sys
  | "tmpfile" => some .openTmpfile | "write" => some .write | "link" => some .link
  | "renameNr" => some .renameNr | "rename" => some .rename | "unlinkTmp" => some .unlinkTmp
  | "close" => some .close | "openTmpExcl" => some .openTmpExcl | "closeTmp" => some .closeTmp
  | "openExcl" => some .openExcl | "openTrunc" => some .openTrunc | "openOld" => some .openOld
  | "copyOld" => some .copyOld | "seekFail" => some .seekFail | "other" => some .other
  | "mkostemp" => some .mkostemp | "unlinkNamed" => some .unlinkNamed | _ => none

def parseEv (s : String) : Option Ev :=
  let (name, n) := match s.splitOn ":" with
    | [a, b] => (a, b.toNat?.getD 0)
    | _ => (s, 0)
  let failed := name.endsWith "!"
  let name := if failed then (name.dropEnd 1).toString else name
  (parseSys name).map fun sy => { sys := sy, ok := !failed, n := n }

def showPc : Pc → String
  | .done => "done" | .start => "start" | .start2 => "start2" | .start3 => "start3" | .recv => "recv" | .linked => "linked"
  | .needRename => "needRename" | .cleanup => "cleanup" | .closing => "closing"
  | .byName => "byName" | .byNameW => "byNameW" | .byNameC => "byNameC" | .byNameF => "byNameF"
  | .zTrunc => "zTrunc" | .zStaged => "zStaged" | .zRen => "zRen" | .pExcl => "pExcl" | .pCopy => "pCopy" | .pPatch _ => "pPatch"
  | .pRen => "pRen" | .pFail _ _ => "pFail"

def showOpt (o : Option Bytes) : String :=
  match o with
  | none => "none"
  | some b => "some:" ++ toHex b

/-- `put <kind> <old> <body> <ev>…` → `accept <pc> <status> target=<…> tmp=<…> anon=<…>` | `reject <i>` -/
def putLine : List String → String
  | kind :: old :: body :: evs =>
    let k : Option Kind := match kind.splitOn ":" with
      | ["full"] => some .full
      | ["zero"] => some .zero
      | ["part", o] => o.toNat?.map Kind.part
      | _ => none
    let oldv : Option (Option Bytes) := if old == "none" then some none else (ofHex old).map some
    match k, oldv, ofHex body, evs.mapM parseEv with
    | some k, some o, some b, some es =>
      let c : Cfg := { kind := k, old := o, body := b }
      match runEvs c (init c) es with
      | some s => s!"accept {showPc s.pc} {s.status} target={showOpt s.target} tmp={showOpt s.tmp} anon={showOpt s.anon}"
      | none => s!"reject {(firstReject c (init c) es 0).getD 0}"
    | _, _, _, _ => "bad-op"
  | _ => "bad-op"

end LtVerif.DavPut
