/-
  Model of src/mod_deflate.c (zlib-only build: codings gzip / x-gzip / deflate).

    mod_deflate_choose_encoding()        -> `entries`, `acceptSet`, `chooseEncoding`
    mod_deflate_encodings_to_flags()     -> `encodingsToFlags`
    mod_deflate_handle_response_start()  -> `respStart`  (gating, Vary, ETag rewrite,
                                            304/412 on the suffixed tag, Content-Encoding,
                                            Content-Length removal, cache eligibility)
    http_header_str_contains_token()     -> `containsToken`
    mod_deflate_cache_file_name/_open/_append/_finish, handler_ctx_free()
                                         -> `cacheFileName`, `tmpFileName`, `writeLoop`,
                                            `doRequest` (cache protocol over a model of the
                                            cache directory with fault / crash schedules)

  The Accept-Encoding scanner is modelled specification-style (split on ',', then on ';',
  then on SP / HTAB) rather than as the C pointer loop; the correspondence check `h_deflate`
  (op `ae`, exhaustive over short strings on the metacharacter alphabet) ties it to the C.

  Vary: every response that passes the gates not depending on Accept-Encoding gets
  Vary: Accept-Encoding, the identity variant included (RFC 9110 12.5.5).  The pinned tree
  tested Accept-Encoding first and left the identity variant without Vary; the C19 check
  reports that and the model describes the repaired order (seeded/C19-fixes).

  Weights: the scanner honours "q=0" (RFC 9110 12.4.2: weight 0 = not acceptable).  The
  pinned tree ignored all parameters (so `gzip;q=0, deflate` was answered with gzip); the C19
  check reported that (known_findings D26) and /repo commit 2a3a422 repaired the loop exactly
  as modelled here (the diff is kept as PROPOSED_FIX in tools/ltv/props/c19.py).

  zlib itself is external: the compressor is a parameter `compress : Coding → Bytes → Bytes`.

  Outside the model: deflate.max-loadavg (0), concurrent modification of the source while it
  is being compressed (reading the source is atomic with its stat), the one-second validity of
  the stat cache, other codings (brotli / zstd / bzip2 are not compiled in), libdeflate.
-/
import LtVerif.Model.Basic
namespace LtVerif.Deflate
open LtVerif B

def comma : UInt8 := 44   -- ','
def semi : UInt8 := 59    -- ';'
def dquote : UInt8 := 34  -- '"'
def dash : UInt8 := 45    -- '-'

/-! ## codings and sets of codings (HTTP_ACCEPT_ENCODING_* bits) -/

inductive Coding where
  | gzip | xgzip | deflate
deriving DecidableEq, Repr

/-- the `label` mod_deflate_choose_encoding() returns: value of Content-Encoding and the
    ETag / cache-file suffix -/
def Coding.label : Coding → Bytes
  | .gzip => [103, 122, 105, 112]                    -- "gzip"
  | .xgzip => [120, 45, 103, 122, 105, 112]          -- "x-gzip"
  | .deflate => [100, 101, 102, 108, 97, 116, 101]   -- "deflate"

structure CSet where
  gzip : Bool := false
  xgzip : Bool := false
  deflate : Bool := false
deriving DecidableEq, Repr

def CSet.mem (s : CSet) : Coding → Bool
  | .gzip => s.gzip
  | .xgzip => s.xgzip
  | .deflate => s.deflate

def CSet.insert (s : CSet) : Coding → CSet
  | .gzip => { s with gzip := true }
  | .xgzip => { s with xgzip := true }
  | .deflate => { s with deflate := true }

def CSet.inter (a b : CSet) : CSet :=
  ⟨a.gzip && b.gzip, a.xgzip && b.xgzip, a.deflate && b.deflate⟩

def CSet.isEmpty (s : CSet) : Bool := !(s.gzip || s.xgzip || s.deflate)

/-! ## Accept-Encoding scanner -/

/-- exact (case-sensitive) token match of the `switch (value - v)` / memcmp ladder -/
def codingOfToken (t : Bytes) : Option Coding :=
  if t = Coding.gzip.label then some .gzip
  else if t = Coding.xgzip.label then some .xgzip
  else if t = Coding.deflate.label then some .deflate
  else none

/-- one listed coding with the verdict of its weight parameter -/
structure Entry where
  token : Bytes
  q0 : Bool          -- some parameter of the element is "q=0", "q=0.", "q=0.0", …
deriving DecidableEq, Repr

/-- what may follow the digits of a zero weight inside one parameter -/
def q0End : Bytes → Bool
  | [] => true
  | c :: _ => c = sp || c = ht

/-- after "q=0": optional "." and zeros, then the end of the weight -/
def q0Rest : Bytes → Bool
  | [] => true
  | d :: r => if d = dot then q0End (r.dropWhile (· = 48)) else q0End (d :: r)

/-- parameter text (between ';' and the next ';' / ',' / end) is a zero weight -/
def paramIsQ0 (p : Bytes) : Bool :=
  match p.dropWhile (fun b => b = sp || b = ht) with
  | q :: e :: z :: rest => (q = 113 || q = 81) && e = 61 && z = 48 && q0Rest rest
  | _ => false

/-- whitespace (SP / HTAB) separated tokens before the first ';' are all listed; the weight
    belongs to the last one -/
def markLast : List Bytes → Bool → List Entry
  | [], _ => []
  | [t], q => [⟨t, q⟩]
  | t :: ts, q => ⟨t, false⟩ :: markLast ts q

/-- one ','-separated element of the header value -/
def parseElement (e : Bytes) : List Entry :=
  let head := e.takeWhile (· ≠ semi)
  let toks := (splitOn sp (head.map fun b => if b = ht then sp else b)).filter (· ≠ [])
  let q0 := match e.dropWhile (· ≠ semi) with
    | [] => false
    | _ :: ps => (splitOn semi ps).any paramIsQ0
  markLast toks q0

/-- the C string ends at the first NUL -/
def cstr (s : Bytes) : Bytes := s.takeWhile (· ≠ 0)

def entries (hdr : Bytes) : List Entry :=
  (splitOn comma (cstr hdr)).flatMap parseElement

def acceptStep (s : CSet) (e : Entry) : CSet :=
  if e.q0 then s else
  match codingOfToken e.token with
  | some c => s.insert c
  | none => s

/-- `accept_encoding` bit set after the scan -/
def acceptSet (hdr : Bytes) : CSet := (entries hdr).foldl acceptStep {}

/-! ## allowed encodings (deflate.allowed-encodings) -/

/-- strstr(s, pat) != NULL -/
def isInfix (pat : Bytes) : Bytes → Bool
  | [] => pat.isEmpty
  | x :: xs => pat.isPrefixOf (x :: xs) || isInfix pat xs

/-- mod_deflate_encodings_to_flags(): `none` = directive absent (built-in default
    available_encodings[]), `some []` = empty list -/
def encodingsToFlags : Option (List Bytes) → List CSet
  | none => [{ gzip := true }, { xgzip := true }, { deflate := true }]
  | some [] => [{ gzip := true, xgzip := true, deflate := true }]
  | some l => l.flatMap fun v =>
      (if isInfix Coding.gzip.label v then [({ gzip := true, xgzip := true } : CSet)] else []) ++
      (if isInfix Coding.deflate.label v then [({ deflate := true } : CSet)] else [])

/-- label priority inside one allowed entry: gzip, x-gzip, deflate -/
def pick (a : CSet) : Option Coding :=
  if a.gzip then some .gzip
  else if a.xgzip then some .xgzip
  else if a.deflate then some .deflate
  else none

/-- "select best matching encoding": first allowed entry that intersects the accept set -/
def chooseSet (allowed : List CSet) (acc : CSet) : Option Coding :=
  match allowed.find? (fun x => !(x.inter acc).isEmpty) with
  | some x => pick (x.inter acc)
  | none => none

/-- mod_deflate_choose_encoding() -/
def chooseEncoding (allowed : List CSet) (hdr : Bytes) : Option Coding :=
  chooseSet allowed (acceptSet hdr)

/-! ## header token search (Vary, Cache-Control) -/

def tokenDelim : Bytes → Bool
  | [] => true
  | c :: _ => c = sp || c = ht || c = comma || c = semi

def elemHasToken (m e : Bytes) : Bool :=
  let e' := e.dropWhile (fun b => b = sp || b = ht)
  eqIcase (e'.take m.length) m && tokenDelim (e'.drop m.length)

/-- http_header_str_contains_token() for a token `m` without ',' -/
def containsToken (s m : Bytes) : Bool := (splitOn comma s).any (elemHasToken m)

def aeName : Bytes := [65, 99, 99, 101, 112, 116, 45, 69, 110, 99, 111, 100, 105, 110, 103] -- "Accept-Encoding"
def tokPrivate : Bytes := [112, 114, 105, 118, 97, 116, 101]                                -- "private"
def tokNoStore : Bytes := [110, 111, 45, 115, 116, 111, 114, 101]                           -- "no-store"

/-! ## mod_deflate_handle_response_start() -/

inductive Method where
  | get | head | query | other
deriving DecidableEq, Repr

structure Cfg where
  mimetypes : List Bytes := []     -- [] = deflate.mimetypes unset or empty: module disabled
  allowed : List CSet := encodingsToFlags none
  minSize : Nat := 256             -- deflate.min-compress-size (bytes)
  maxSizeKB : Nat := 131072        -- deflate.max-compress-size (KB, 0 = no limit)
  cacheDir : Bool := false         -- deflate.cache-dir configured

structure Rq where
  method : Method := .get
  acceptEncoding : Option Bytes := none
  ifNoneMatch : Option Bytes := none

/-- the response as the content handler left it -/
structure Rs where
  status : Nat := 200
  finished : Bool := true          -- r->resp_body_finished
  hasTE : Bool := false            -- Transfer-Encoding response header set
  hasCE : Bool := false            -- Content-Encoding response header set
  contentType : Option Bytes := none
  etag : Option Bytes := none
  vary : Option Bytes := none
  cacheControl : Option Bytes := none
  hasCL : Bool := true
  len : Nat := 0                   -- chunkqueue_length(&r->write_queue)
  wholeFile : Bool := false        -- single non-temporary FILE_CHUNK at offset 0

inductive Verdict where
  | pass                                  -- response left alone
  | notModified                           -- 304 on the suffixed entity tag
  | precondFailed                         -- 412 (unsafe method)
  | encode (c : Coding) (cache : Bool)    -- body replaced by its coded form
deriving DecidableEq, Repr

structure RsOut where
  verdict : Verdict
  status : Nat
  etag : Option Bytes
  vary : Option Bytes
  contentEncoding : Option Bytes
  hasCL : Bool
deriving DecidableEq, Repr

/-- in-place ETag rewrite: overwrite the closing '"' with '-', append label and '"' -/
def suffixEtag (e label : Bytes) : Bytes := e.dropLast ++ dash :: label ++ [dquote]

/-- Content-Type gate: prefix match against deflate.mimetypes; without a Content-Type only
    if the first configured mimetype is "" -/
def mimeOk (mts : List Bytes) : Option Bytes → Bool
  | some ct => mts.any (·.isPrefixOf ct)
  | none => match mts with
    | m :: _ => m.isEmpty
    | [] => false

/-- what strncmp(s, _, n) looks at for a NUL-free C string s -/
def cstrTake (s : Bytes) (n : Nat) : Bytes := (s ++ [0]).take n

/-- the If-None-Match test of mod_deflate: value starts with the identity tag minus its
    closing quote, then "-", then the label (nothing after that is checked) -/
def inmMatches (etag label inm : Bytes) : Bool :=
  let n := etag.length
  cstrTake inm (n - 1) == cstrTake etag (n - 1)
    && (inm ++ [0]).getD (n - 1) 0 == dash
    && cstrTake (inm.drop n) label.length == label

def varyAdjust : Option Bytes → Bytes
  | some v => if containsToken v aeName then v else v ++ comma :: aeName
  | none => aeName

def cacheControlOk : Option Bytes → Bool
  | none => true
  | some v => !containsToken v tokPrivate && !containsToken v tokNoStore

/-- the response is one that mod_deflate would code for a suitable Accept-Encoding: every gate
    that does not look at the request's Accept-Encoding (method, state, status, existing
    Transfer-Encoding or Content-Encoding, deflate.mimetypes, min/max-compress-size) -/
def eligible (cfg : Cfg) (rq : Rq) (rs : Rs) : Bool :=
  if !rs.finished || rq.method = .head || rs.hasTE || rs.hasCE then false
  else if rs.status < 200 || rs.status = 204 || rs.status = 205 || rs.status = 304 then false
  else if cfg.mimetypes.isEmpty then false
  else if rs.len ≤ cfg.minSize then false
  else if cfg.maxSizeKB ≠ 0 && rs.len > cfg.maxSizeKB * 1024 then false
  else mimeOk cfg.mimetypes rs.contentType

/-- negotiation proper: Accept-Encoding of the request against deflate.allowed-encodings -/
def negotiate (cfg : Cfg) (rq : Rq) : Option Coding :=
  match rq.acceptEncoding with
  | none => none
  | some ae => chooseEncoding cfg.allowed ae

/-- which coding (if any) this response gets.  Does not look at If-None-Match. -/
def selectCoding (cfg : Cfg) (rq : Rq) (rs : Rs) : Option Coding :=
  if eligible cfg rq rs then negotiate cfg rq else none

/-- If-None-Match carries the coded entity tag (2xx only) -/
def inmHit (rq : Rq) (rs : Rs) (c : Coding) : Bool :=
  let etag := rs.etag.getD []          -- etaglen = 0: header absent (or blank)
  etag ≠ [] && rs.status < 300 &&
    (match rq.ifNoneMatch with
     | some inm => inmMatches etag c.label inm
     | none => false)

/-- eligible for deflate.cache-dir -/
def cacheEligible (cfg : Cfg) (rs : Rs) : Bool :=
  cfg.cacheDir && rs.vary.isNone && decide ((rs.etag.getD []).length > 2) && rs.wholeFile
    && rs.status ≠ 206 && cacheControlOk rs.cacheControl

/-- mod_deflate_handle_response_start().  Order of the C (after the repair that moved the
    Accept-Encoding tests behind the Vary adjustment): gates, Vary, negotiation, If-None-Match,
    ETag / Content-Encoding / Content-Length, cache. -/
def respStart (cfg : Cfg) (rq : Rq) (rs : Rs) : RsOut :=
  if !eligible cfg rq rs then ⟨.pass, rs.status, rs.etag, rs.vary, none, rs.hasCL⟩
  else
  let vary' := varyAdjust rs.vary
  match negotiate cfg rq with
  | none => ⟨.pass, rs.status, rs.etag, some vary', none, rs.hasCL⟩     -- identity variant
  | some c =>
    let etag := rs.etag.getD []
    if inmHit rq rs c then
      if rq.method = .other then
        ⟨.precondFailed, 412, rs.etag, some vary', none, false⟩
      else
        ⟨.notModified, 304, some (suffixEtag etag c.label), some vary', none, false⟩
    else
      let etag' := if etag ≠ [] then some (suffixEtag etag c.label) else rs.etag
      ⟨.encode c (cacheEligible cfg rs), rs.status, etag', some vary', some c.label, false⟩

/-! ## cache file names (byte level) -/

/-- buffer_copy_path_len2(): join with exactly one '/' -/
def pathJoin (a b : Bytes) : Bytes :=
  if a.getLast? = some slash then
    (if b.head? = some slash then a ++ b.drop 1 else a ++ b)
  else
    (if b.head? = some slash then a ++ b else a ++ slash :: b)

/-- mod_deflate_cache_file_name(): cache-dir "/" physical path "-" etag without its quotes
    (the etag already carries the "-label" suffix) -/
def cacheFileName (dir path etag : Bytes) : Bytes :=
  pathJoin dir path ++ dash :: (etag.drop 1).dropLast

/-- li_itostrn(): decimal digits -/
def decDigitsAux : Nat → Nat → Bytes
  | 0, n => [UInt8.ofNat (48 + n % 10)]
  | fuel + 1, n =>
    if n < 10 then [UInt8.ofNat (48 + n)] else decDigitsAux fuel (n / 10) ++ [UInt8.ofNat (48 + n % 10)]

def decDigits (n : Nat) : Bytes := decDigitsAux n n

/-- mod_deflate_cache_file_open(): final name "." decimal pid -/
def tmpFileName (fn : Bytes) (pid : Nat) : Bytes := fn ++ dot :: decDigits pid

/-- the entity tag mod_deflate sees on a coded static file: '"' digits (http_etag_create():
    decimal 32-bit hash of inode, size, mtime) '-' label '"' -/
def staticEtag (d : Bytes) (c : Coding) : Bytes := dquote :: d ++ dash :: c.label ++ [dquote]

/-! ## cache protocol over a model of the cache directory -/

abbrev Pid := Nat

/-- abstract cache key: physical path, validator of the source version (the ETag is a
    function of it), coding -/
structure Key where
  path : Nat
  validator : Nat
  coding : Coding
deriving DecidableEq, Repr

inductive Name where
  | final (k : Key)
  | tmp (k : Key) (pid : Pid)
deriving DecidableEq, Repr

/-- the file name of an object of the abstract cache directory: validator = the number in the
    entity tag (http_etag_create: decimal 32-bit hash), path through a table of physical paths -/
def nameBytes (dir : Bytes) (pathOf : Nat → Bytes) : Name → Bytes
  | .final k => cacheFileName dir (pathOf k.path) (staticEtag (decDigits k.validator) k.coding)
  | .tmp k pid => tmpFileName (cacheFileName dir (pathOf k.path) (staticEtag (decDigits k.validator) k.coding)) pid

/-- the cache directory -/
abbrev FS := List (Name × Bytes)

def fsGet : FS → Name → Option Bytes
  | [], _ => none
  | (m, b) :: r, n => if m = n then some b else fsGet r n

def fsDel (fs : FS) (n : Name) : FS := fs.filter (fun e => decide (e.1 ≠ n))

def fsSet (fs : FS) (n : Name) (b : Bytes) : FS := (n, b) :: fsDel fs n

/-- effect of write() of `data` at file offset `off` on a file holding `old`
    (the temporary file is opened O_RDWR|O_CREAT without O_TRUNC / O_APPEND) -/
def writeAt (old : Bytes) (off : Nat) (data : Bytes) : Bytes :=
  old.take off ++ data ++ old.drop (off + data.length)

/-- result of one write() call on the temporary file -/
inductive WEv where
  | wr (n : Nat)     -- short or full write: min (n+1) (bytes left) bytes are written
  | eintr            -- -1 / EINTR: retried
  | fail             -- -1 / other errno (ENOSPC, EIO, …)
  | crash            -- the process dies here
deriving DecidableEq, Repr

inductive WRes where
  | done (cur : Bytes)
  | failed (cur : Bytes)
  | crashed (cur : Bytes)
deriving DecidableEq, Repr

/-- mod_deflate_cache_file_append() over the whole compressed form `F`, under a schedule of
    write() results; once the schedule is exhausted writes succeed in full -/
def writeLoop (F : Bytes) : Bytes → Nat → List WEv → WRes
  | cur, off, [] => .done (writeAt cur off (F.drop off))
  | cur, off, ev :: evs =>
    if off ≥ F.length then .done cur
    else match ev with
      | .wr n =>
        let m := min (n + 1) (F.length - off)
        writeLoop F (writeAt cur off ((F.drop off).take m)) (off + m) evs
      | .eintr => writeLoop F cur off evs
      | .fail => .failed cur
      | .crash => .crashed cur

inductive RenEv where
  | ok | fail | crashBefore | crashAfter
deriving DecidableEq, Repr

/-- everything the environment decides during one request -/
structure Plan where
  cacheable : Bool := true     -- `respStart` said cache (and mkdir of the directories worked)
  openOk : Bool := true        -- open(tmp, O_RDWR|O_CREAT) succeeds
  writes : List WEv := []
  rename : RenEv := .ok
deriving DecidableEq, Repr

inductive Obs where
  | quiet                                  -- no response (modify / evict / unknown path)
  | served (body : Bytes) (hit : Bool)     -- 200 with this coded body
  | error                                  -- request failed, nothing served
  | crashed                                -- process died, nothing served
deriving DecidableEq, Repr

structure St where
  src : Nat → Option (Nat × Bytes) := fun _ => none    -- path ↦ (validator, content)
  fs : FS := []
  /-- stat cache of the running server process for PUBLISHED cache files: name ↦ content of the
      descriptor it holds.  Entries are trusted without a stat() until the next `tick` (one
      second, server.stat-cache-engine "simple"), so a file evicted meanwhile is still served
      from the open descriptor. -/
  sc : FS := []
  scPid : Pid := 0                                     -- the process `sc` belongs to

/-- process `pid` handles the next request: another process starts with an empty stat cache -/
def St.enter (st : St) (pid : Pid) : St :=
  if st.scPid = pid then st else { st with sc := [], scPid := pid }

/-- the process died: its stat cache is gone -/
def St.died (st : St) : St := { st with sc := [] }

def serve (compress : Coding → Bytes → Bytes) (st : St) (p : Nat) (c : Coding) (pid : Pid)
    (plan : Plan) : St × Obs :=
  match st.src p with
  | none => (st, .quiet)
  | some (v, content) =>
    let k : Key := ⟨p, v, c⟩
    let F := compress c content
    if !plan.cacheable then (st, .served F false)
    else
    match fsGet st.sc (.final k) with
    | some b => (st, .served b true)          -- stat_cache_get_entry_open(): fresh entry, no stat()
    | none =>
    match fsGet st.fs (.final k) with
    | some b =>
      if b.isEmpty then (st, .error)
      else ({ st with sc := fsSet st.sc (.final k) b }, .served b true)
    | none =>
      if !plan.openOk then (st, .served F false)
      else
        let t := Name.tmp k pid
        let old := (fsGet st.fs t).getD []
        match writeLoop F old 0 plan.writes with
        | .failed _ => ({ st with fs := fsDel st.fs t }, .error)
        | .crashed cur => ({ st with fs := fsSet st.fs t cur }.died, .crashed)
        | .done cur =>
          match plan.rename with
          | .ok => ({ st with fs := fsSet (fsDel st.fs t) (.final k) cur },
                    .served (cur.take F.length) false)
          | .fail => ({ st with fs := fsDel st.fs t }, .error)
          | .crashBefore => ({ st with fs := fsSet st.fs t cur }.died, .crashed)
          | .crashAfter => ({ st with fs := fsSet (fsDel st.fs t) (.final k) cur }.died, .crashed)

def doRequest (compress : Coding → Bytes → Bytes) (st : St) (p : Nat) (c : Coding) (pid : Pid)
    (plan : Plan) : St × Obs :=
  serve compress (st.enter pid) p c pid plan

inductive Op where
  | modify (path : Nat) (validator : Nat) (content : Bytes)   -- the source file changes (≥ 1 s after the last request)
  | request (path : Nat) (c : Coding) (pid : Pid) (plan : Plan)
  | evict (n : Name)                                          -- external cache cleanup
  | tick                                                      -- a second passes: stat cache entries are re-validated
deriving DecidableEq, Repr

def step (compress : Coding → Bytes → Bytes) (st : St) : Op → St × Obs
  | .modify p v content =>
    ({ st with src := fun q => if q = p then some (v, content) else st.src q, sc := [] }, .quiet)
  | .request p c pid plan => doRequest compress st p c pid plan
  | .evict n => ({ st with fs := fsDel st.fs n }, .quiet)
  | .tick => ({ st with sc := [] }, .quiet)

/-- trace of a history: state before each operation, the operation, its observation -/
def run (compress : Coding → Bytes → Bytes) : St → List Op → List (St × Op × Obs)
  | _, [] => []
  | st, op :: ops =>
    let r := step compress st op
    (st, op, r.2) :: run compress r.1 ops

/-- final state of a history -/
def exec (compress : Coding → Bytes → Bytes) : St → List Op → St
  | st, [] => st
  | st, op :: ops => exec compress (step compress st op).1 ops

end LtVerif.Deflate
