/-
  The Accept-Encoding scan of src/mod_deflate.c:mod_deflate_choose_encoding() as the C pointer
  loop it is (zlib-only build), next to the specification-style scanner `acceptSet` of
  Model/Deflate.lean.  `value` is the list of bytes from the pointer to the terminating NUL
  (`cstr`: a C string ends at its first NUL); `*value == '\0'` is the empty list.

      while (*value) {                                            -- scanLoop
          while (*value == ' ' || '\t' || ',') ++value;           -- dropWhile isSep
          v = value;
          while (*value != ' ','\t',',',';','\0') ++value;        -- takeWhile / dropWhile !isTokEnd
          switch (value - v) { memcmp ladder }                    -- encOf
          while (*value == ' ' || '\t') ++value;                  -- dropWhile isWs
          while (*value == ';') {                                 -- paramLoop
              do { ++value; } while (*value == ' ' || '\t');
              if ((value[0]=='q'||value[0]=='Q') && value[1]=='=' && value[2]=='0') {
                  q = value+3;
                  if (*q == '.') { do { ++q; } while (*q == '0'); }
                  if (*q == '\0' || ',' || ';' || ' ' || '\t') enc = 0;      -- qZeroAt
              }
              while (*value != ';' && *value != ',' && *value != '\0') ++value;
          }
          accept_encoding |= enc;                                 -- cunion
      }

  Loops are structural in a fuel argument; the fuel handed over (remaining length) always
  suffices because every iteration of either loop consumes at least one byte
  (Proofs/DeflateScan.lean).  Core Lean only.
-/
import LtVerif.Model.Deflate
namespace LtVerif.Deflate
namespace Scan
open LtVerif B

def isWs (b : UInt8) : Bool := b = sp || b = ht
def isSep (b : UInt8) : Bool := b = sp || b = ht || b = comma
/-- bytes that stop the token scan (the terminating NUL is the end of the list) -/
def isTokEnd (b : UInt8) : Bool := b = sp || b = ht || b = comma || b = semi
/-- bytes that stop the skip to the end of one parameter -/
def isParamEnd (b : UInt8) : Bool := b = semi || b = comma

/-- `a | b` on HTTP_ACCEPT_ENCODING_* bits -/
def cunion (a b : CSet) : CSet := ⟨a.gzip || b.gzip, a.xgzip || b.xgzip, a.deflate || b.deflate⟩

/-- `enc` after the `switch (value - v)` / memcmp ladder (0 = no known coding) -/
def encOf (tok : Bytes) : CSet :=
  match codingOfToken tok with
  | some c => ({} : CSet).insert c
  | none => {}

/-- the weight test at `value` (just behind ';' and whitespace): `q=0` / `Q=0`, optional '.'
    and zeros, then NUL / ',' / ';' / SP / HTAB.  `&&` short-circuits, so no byte behind the
    NUL is read. -/
def qZeroAt : Bytes → Bool
  | q :: e :: z :: rest =>
    if (q = 113 || q = 81) && e = 61 && z = 48 then
      let r := match rest with
        | d :: r' => if d = dot then r'.dropWhile (· = 48) else rest
        | [] => rest
      match r with
      | [] => true
      | c :: _ => c = comma || c = semi || c = sp || c = ht
    else false
  | _ => false

/-- `while (*value == ';') { … }` : returns `enc` and the pointer behind the parameters -/
def paramLoop : Nat → CSet → Bytes → CSet × Bytes
  | fuel + 1, enc, c :: rest =>
    if c = semi then
      let v := rest.dropWhile isWs
      let enc' := if qZeroAt v then {} else enc
      paramLoop fuel enc' (v.dropWhile (fun b => !isParamEnd b))
    else (enc, c :: rest)
  | _, enc, v => (enc, v)

/-- `while (*value) { … }` : `accept_encoding` at the end of the scan -/
def scanLoop : Nat → CSet → Bytes → CSet
  | 0, acc, _ => acc
  | _, acc, [] => acc
  | fuel + 1, acc, c :: rest =>
    let v := (c :: rest).dropWhile isSep
    let tok := v.takeWhile (fun b => !isTokEnd b)
    let v2 := (v.dropWhile (fun b => !isTokEnd b)).dropWhile isWs
    let r := paramLoop v2.length (encOf tok) v2
    scanLoop fuel (cunion acc r.1) r.2

/-- the scan part of mod_deflate_choose_encoding() on a header value -/
def scanC (hdr : Bytes) : CSet :=
  let s := cstr hdr
  scanLoop (s.length + 1) {} s

/-- mod_deflate_choose_encoding(): C scan loop, then "select best matching encoding" -/
def chooseEncodingC (allowed : List CSet) (hdr : Bytes) : Option Coding :=
  chooseSet allowed (scanC hdr)

end Scan
end LtVerif.Deflate
