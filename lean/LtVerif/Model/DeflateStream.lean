/-
  Model of the stream assembly of src/mod_deflate.c around the external codec (zlib):

    deflate_compress_response()          -> `feedChunks` + `finishLoop` (= `compressResponse`)
    mod_deflate_file_chunk_no_mmap()     -> `fileLoop`   (block-wise pread, short reads scripted)
    stream_deflate_compress()            -> `compressLoop` (deflate(Z_NO_FLUSH) until avail_in = 0,
                                            output buffer handed on when full or input remains)
    stream_deflate_flush(end = 1)        -> `finishLoop` (deflate(Z_FINISH) until Z_STREAM_END)
    stream_http_chunk_append_mem()       -> `St.append` (write queue or cache file: one ordered sink)

  zlib is NOT modelled: every deflate() call takes its answer — how many input bytes it consumed,
  which bytes it wrote, its return code — from a script (`ZR`).  A script entry that breaks the
  API bounds (consumes more than avail_in, writes more than avail_out) ends the run as
  `.invalid`.  The gzip / zlib framing (header, CRC-32 / Adler-32 trailer) is produced inside
  zlib (deflateInit2 with windowBits | 16), not by lighttpd, and is therefore part of the script.

  What the model keeps of the C state: the filled part of the output buffer (`obuf`, capacity
  `cap` = hctx->output->size), the ordered sink, the bytes the codec has consumed (`fed`), and
  a chronological trace of calls / appends / reads for the trace-validation stream `zs` of
  h_deflate.

  The file loop describes the repaired code (reads are clamped to the rest of the chunk; the
  pinned tree always asked pread() for a whole block and ran past the end of a chunk that is not
  the tail of its file).  Queue entries are assumed non-empty (the chunk queue never holds
  zero-length chunks behind the first).
-/
import LtVerif.Model.Basic
namespace LtVerif.DeflateStream
open LtVerif

/-- one entry of the body queue (r->write_queue moved to hctx->in_queue) -/
inductive Chunk where
  | mem (data : Bytes)                           -- MEM_CHUNK, offset already applied
  | file (content : Bytes) (off len : Nat)       -- FILE_CHUNK [off, off+len) of a file holding `content`
deriving DecidableEq, Repr

/-- the bytes the chunk stands for -/
def Chunk.bytes : Chunk → Bytes
  | .mem d => d
  | .file c o l => (c.drop o).take l

/-- the identity body -/
def body (cq : List Chunk) : Bytes := cq.flatMap Chunk.bytes

inductive ZRc where
  | ok | streamEnd | err
deriving DecidableEq, Repr

/-- answer of one deflate() call -/
structure ZR where
  consumed : Nat
  out : Bytes
  rc : ZRc
deriving DecidableEq, Repr

structure Call where
  availIn : Nat
  availOut : Nat
  finish : Bool
deriving DecidableEq, Repr

/-- chronological trace of what the C does at its interfaces (compared with h_deflate, op zs) -/
inductive Ev where
  | call (c : Call) (consumed produced : Nat) (rc : ZRc)   -- one deflate() call and its answer
  | app (n : Nat)                                          -- stream_http_chunk_append_mem(len = n)
  | read (count off : Nat)                                 -- pread(count, offset) on a file chunk
deriving DecidableEq, Repr

structure St where
  obuf : Bytes := []            -- filled part of the output buffer
  sink : Bytes := []            -- appended to the write queue / cache file so far, in order
  fed : Bytes := []             -- consumed by the codec so far, in order
  outs : List Bytes := []       -- what the codec wrote, call by call (reversed)
  trace : List Ev := []         -- (reversed)
deriving DecidableEq, Repr

inductive Err where
  | codec          -- deflate() returned an error: HANDLER_ERROR
  | truncated      -- pread() returned 0 before the end of the chunk: HANDLER_ERROR
  | invalid        -- the script breaks the zlib API bounds (cannot happen)
  | stuck          -- script exhausted
deriving DecidableEq, Repr

abbrev Res := Except Err (St × List ZR)

/-- hand the filled output buffer on (no-op for length 0) -/
def St.append (s : St) : St :=
  if s.obuf.isEmpty then s
  else { s with sink := s.sink ++ s.obuf, trace := .app s.obuf.length :: s.trace, obuf := [] }

/-- bookkeeping after one deflate() call: the codec wrote `r.out` into the buffer and consumed
    the bytes `used` -/
def St.afterCall (s : St) (r : ZR) (call : Call) (used : Bytes) : St :=
  { s with obuf := s.obuf ++ r.out, fed := s.fed ++ used, outs := r.out :: s.outs,
           trace := .call call r.consumed r.out.length r.rc :: s.trace }

def St.appendIf (s : St) (b : Bool) : St := if b then s.append else s

def St.noteRead (s : St) (count off : Nat) : St := { s with trace := .read count off :: s.trace }

/-- stream_deflate_compress(): one input block -/
def compressLoop (cap : Nat) : List ZR → Bytes → St → Res
  | [], _, _ => .error .stuck
  | r :: rs, inp, s =>
    let availOut := cap - s.obuf.length
    if r.consumed > inp.length || r.out.length > availOut then .error .invalid
    else if r.rc ≠ .ok then .error .codec
    else
      let s1 := s.afterCall r ⟨inp.length, availOut, false⟩ (inp.take r.consumed)
      let rest := inp.drop r.consumed
      let s2 := s1.appendIf (s1.obuf.length = cap || !rest.isEmpty)   -- avail_out == 0 || avail_in > 0
      if rest.isEmpty then .ok (s2, rs) else compressLoop cap rs rest s2

/-- mod_deflate_compress(): nothing to do for an empty block -/
def compressBlock (cap : Nat) (zs : List ZR) (inp : Bytes) (s : St) : Res :=
  if inp.isEmpty then .ok (s, zs) else compressLoop cap zs inp s

/-- how many bytes one pread() asked for `want` returns at most (short reads are scripted) -/
def readLimit : List Nat → Nat → Nat
  | [], want => want
  | k :: _, want => min (k + 1) want

/-- mod_deflate_file_chunk_no_mmap() after the repair: `n` bytes of the chunk done, `insz` in all;
    `rsz` scripts short reads (entry k: at most k+1 bytes; exhausted: full reads) -/
def fileLoop (cap blk : Nat) (content : Bytes) (off insz : Nat) :
    Nat → Nat → List Nat → List ZR → St → Except Err (St × List Nat × List ZR)
  | 0, _, rsz, zs, s => .ok (s, rsz, zs)
  | fuel + 1, n, rsz, zs, s =>
    if n ≥ insz then .ok (s, rsz, zs)
    else
      let psz := min insz blk
      let want := min (insz - n) psz
      let lim := readLimit rsz want
      let data := (content.drop (off + n)).take lim
      let s1 := s.noteRead want (off + n)
      if data.isEmpty then .error .truncated
      else
        match compressBlock cap zs data s1 with
        | .error e => .error e
        | .ok (s2, zs') => fileLoop cap blk content off insz fuel (n + data.length) rsz.tail zs' s2

/-- the `while (max)` loop of deflate_compress_response() over the queue -/
def feedChunks (cap blk : Nat) : List Chunk → List Nat → List ZR → St → Except Err (St × List Nat × List ZR)
  | [], rsz, zs, s => .ok (s, rsz, zs)
  | .mem d :: cq, rsz, zs, s =>
    match compressBlock cap zs d s with
    | .error e => .error e
    | .ok (s', zs') => feedChunks cap blk cq rsz zs' s'
  | .file content off len :: cq, rsz, zs, s =>
    match fileLoop cap blk content off len len 0 rsz zs s with
    | .error e => .error e
    | .ok (s', rsz', zs') => feedChunks cap blk cq rsz' zs' s'

/-- stream_deflate_flush(hctx, 1): deflate(Z_FINISH) until Z_STREAM_END -/
def finishLoop (cap : Nat) : List ZR → St → Res
  | [], _ => .error .stuck
  | r :: rs, s =>
    let availOut := cap - s.obuf.length
    if r.consumed > 0 || r.out.length > availOut then .error .invalid
    else if r.rc = .err then .error .codec
    else
      let s1 := s.afterCall r ⟨0, availOut, true⟩ []
      let s2 := s1.append          -- avail_out == 0 || (len > 0 && end)  ⇔  len > 0
      if r.rc = .streamEnd then .ok (s2, rs) else finishLoop cap rs s2

/-- deflate_compress_response() for a finished body: feed every chunk, then finish the stream
    (mod_deflate_stream_flush() does nothing if no input was ever supplied) -/
def compressResponse (cap blk : Nat) (cq : List Chunk) (rsz : List Nat) (zs : List ZR) : Res :=
  match feedChunks cap blk cq rsz zs {} with
  | .error e => .error e
  | .ok (s, _, zs') => if (body cq).isEmpty then .ok (s, zs') else finishLoop cap zs' s

/-! ## container formats (RFC 1952 gzip, RFC 1950 zlib) around a raw DEFLATE stream

  Produced INSIDE zlib (deflateInit2 with windowBits | 16 for gzip), not by lighttpd.  They are
  spelled out only to narrow the assumption on the codec to the raw DEFLATE layer. -/

/-- raw DEFLATE (RFC 1951), external.  `inflateRaw` returns the data and the unread rest. -/
structure RawCodec where
  deflateRaw : Bytes → Bytes
  inflateRaw : Bytes → Option (Bytes × Bytes)

/-- the check values of the two containers (any functions: the decoder recomputes them) -/
structure Sums where
  crc32 : Bytes → Nat
  adler32 : Bytes → Nat

def le32 (n : Nat) : Bytes :=
  [UInt8.ofNat (n % 256), UInt8.ofNat (n / 256 % 256), UInt8.ofNat (n / 65536 % 256), UInt8.ofNat (n / 16777216 % 256)]

def be32 (n : Nat) : Bytes := (le32 n).reverse

/-- ID1 ID2 CM=8 FLG=0 MTIME=0 XFL=0 OS=3, as zlib writes it -/
def gzipHeader : Bytes := [0x1f, 0x8b, 8, 0, 0, 0, 0, 0, 0, 3]

/-- CMF=0x78 FLG=0x9c (default level) -/
def zlibHeader : Bytes := [0x78, 0x9c]

inductive Framing where
  | gzip | zlib
deriving DecidableEq, Repr

def frame (k : RawCodec) (s : Sums) : Framing → Bytes → Bytes
  | .gzip, x => gzipHeader ++ (k.deflateRaw x ++ (le32 (s.crc32 x) ++ le32 x.length))
  | .zlib, x => zlibHeader ++ (k.deflateRaw x ++ be32 (s.adler32 x))

/-- strict decoder: exact header, raw stream, matching check value and length, nothing after -/
def unframe (k : RawCodec) (s : Sums) : Framing → Bytes → Option Bytes
  | .gzip, b =>
    if b.take 10 = gzipHeader then
      match k.inflateRaw (b.drop 10) with
      | some (x, t) => if t = le32 (s.crc32 x) ++ le32 x.length then some x else none
      | none => none
    else none
  | .zlib, b =>
    if b.take 2 = zlibHeader then
      match k.inflateRaw (b.drop 2) with
      | some (x, t) => if t = be32 (s.adler32 x) then some x else none
      | none => none
    else none

end LtVerif.DeflateStream
