/-
  C02 (extension): from the canonical URL path to a filesystem path.
    request_check_hostname()  IPv6 branch (request.c)          -> `checkHostnameV6`, `hostPolicyPlain`
    buffer_append_path_len() / buffer_copy_path_len2()          -> `pathAppend`
    http_response_prepare(): physical.path = doc_root + rel_path -> `physicalPath`
    mod_alias_remap()                                           -> `aliasRemap`
    build_doc_root_path() / mod_simple_vhost_docroot()          -> `svhostPath`, `svhostDocroot`
    mod_evhost_parse_pattern / _parse_host / _build_doc_root_path / _uri_handler
                                                                -> `evParsePattern`, `evParseHost`, `evBuildPath`, `evhostDocroot`
    mod_userdir_docroot_handler() (userdir.basepath variant)    -> `userdirRemap`
    buffer_is_valid_UTF8()                                      -> `validUtf8`
    http_response_xsendfile() / http_response_xsendfile2()      -> `xsendfilePath`, `xsendfile2First`
    mod_webdav_copymove_b() Destination handling                -> `davDestination`
    stat_cache_path_contains_symlink()                          -> `symWalk`
  The models follow the C statement by statement (indices instead of pointers);
  the tie to the C is the differential check `h_docroot`.
  Inputs are NUL-free byte strings.
-/
import LtVerif.Model.H1Parse
namespace LtVerif
open B

/-! ### host policy -/

/-- scan of the inside of "[...]": hex digits, '.', and at most 7 ':' -/
def v6Body : Bytes → Nat → Bytes × Bytes
  | [], _ => ([], [])
  | b :: rest, cnt =>
    if isXDigit b || b = dot then
      let (a, r) := v6Body rest cnt
      (b :: a, r)
    else if b = colon && cnt + 1 < 8 then
      let (a, r) := v6Body rest (cnt + 1)
      (b :: a, r)
    else ([], b :: rest)

/-- request_check_hostname() for a host starting with '[' -/
def checkHostnameV6 (h : Bytes) : Option Bytes :=
  match h with
  | 91 :: t =>
    let (body, rest) := v6Body t 0
    match rest with
    | 93 :: after =>
      if body.isEmpty then none else
      match after with
      | [] => some h
      | 58 :: digits =>
        if digits.all isDigit then
          (if digits.isEmpty then some (91 :: body ++ [93]) else some h)
        else none
      | _ => none
    | _ => none
  | _ => none

/-- http_request_host_policy() without HTTP_PARSEOPT_HOST_NORMALIZE:
    strict: request_check_hostname(); otherwise only NUL, CR, LF are refused. -/
def hostPolicyPlain (strict : Bool) (h : Bytes) : Option Bytes :=
  if strict then
    (if h.head? = some 91 then checkHostnameV6 h else checkHostnameV4 h)
  else if h.any (fun b => b = 0 || b = cr || b = lf) then none else some h

/-- the host name part of an authority: everything before the first ':' (strchr) -/
def hostPart (a : Bytes) : Bytes := a.takeWhile (· ≠ colon)

/-! ### path composition -/

def endsWithSlash (b : Bytes) : Bool := b.getLast? = some slash

/-- buffer_append_path_len(b, a): exactly one '/' at the joint -/
def pathAppend (b a : Bytes) : Bytes :=
  if endsWithSlash b then b ++ (if a.head? = some slash then a.drop 1 else a)
  else b ++ (if a.head? = some slash then a else slash :: a)

/-- buffer_append_slash() -/
def appendSlash (b : Bytes) : Bytes :=
  if b ≠ [] ∧ !endsWithSlash b then b ++ [slash] else b

def lowerBytes (s : Bytes) : Bytes := s.map toLower

/-- http_response_prepare(): rel_path = uri.path (lower-cased with force-lowercase-filenames),
    physical.path = doc_root joined with rel_path -/
def physicalPath (lc : Bool) (docroot uriPath : Bytes) : Bytes :=
  pathAppend docroot (if lc then lowerBytes uriPath else uriPath)

/-! ### mod_alias -/

inductive AliasRes
  | forbidden                              -- 403
  | go (path basedir : Bytes)              -- HANDLER_GO_ON with these physical.path / basedir
deriving Repr, DecidableEq

def aliasMatch (lc : Bool) (uri : Bytes) : List (Bytes × Bytes) → Option (Bytes × Bytes)
  | [] => none
  | (k, v) :: rest =>
    if k.length ≤ uri.length && (if lc then eqIcase (uri.take k.length) k else uri.take k.length == k)
    then some (k, v) else aliasMatch lc uri rest

/-- the traversal guard of mod_alias_remap(): the url continues with "." or ".." as a complete
    segment directly after the matched prefix, the key does not end in '/', the value does -/
def aliasGuard (k v after : Bytes) : Bool :=
  match after with
  | 46 :: s =>
    let s' := if s.head? = some dot then s.drop 1 else s
    (s'.head? = some slash || s'.isEmpty) &&
      (!k.isEmpty && !endsWithSlash k && !v.isEmpty && endsWithSlash v)
  | _ => false

/-- mod_alias_remap() -/
def aliasRemap (lc : Bool) (aliases : List (Bytes × Bytes)) (basedir path : Bytes) : AliasRes :=
  let basedirLen := if endsWithSlash basedir then basedir.length - 1 else basedir.length
  if path.length = 0 || path.length < basedirLen then .go path basedir else
  let uri := path.drop basedirLen
  match aliasMatch lc uri aliases with
  | none => .go path basedir
  | some (k, v) =>
    let after := uri.drop k.length
    if aliasGuard k v after then .forbidden
    else .go (v ++ after) v

/-! ### mod_simple_vhost -/

/-- build_doc_root_path() -/
def svhostPath (sroot : Bytes) (host : Option Bytes) (droot : Option Bytes) : Bytes :=
  let out := sroot ++ (match host with | some h => hostPart h | none => [])
  match droot with
  | some d => pathAppend out d
  | none => appendSlash out

/-- the guard of mod_simple_vhost_docroot() on the request authority -/
def svhostGuard (strict : Bool) (authority : Bytes) : Bool :=
  !authority.isEmpty && (strict || (authority.head? ≠ some dot && !authority.contains slash))

/-- mod_simple_vhost_docroot(): `isdir` is the filesystem (stat_cache_path_isdir);
    returns the new doc_root and the server name, if any -/
def svhostDocroot (strict : Bool) (isdir : Bytes → Bool) (sroot : Bytes) (defhost droot : Option Bytes)
    (authority : Bytes) : Option (Bytes × Option Bytes) :=
  let p1 := svhostPath sroot (some authority) droot
  if svhostGuard strict authority && isdir p1 then some (p1, some authority)
  else
    let p2 := svhostPath sroot defhost droot
    if isdir p2 then some (p2, defhost) else none

/-! ### mod_evhost -/

inductive EvPiece
  | lit (s : Bytes)
  | pct                      -- %%
  | fqdn                     -- %_
  | idx (n : Nat)            -- %n
  | sub (n : Nat) (m : Option Nat)   -- %{n} / %{n.m}
deriving Repr, DecidableEq

def digitOf (b : UInt8) : Option Nat := if isDigit b then some (b.toNat - 48) else none

/-- placeholder after a '%': (piece, number of bytes consumed after the '%') -/
def evPlaceholder (rest : Bytes) : Option (EvPiece × Nat) :=
  match rest with
  | [] => none
  | b1 :: t =>
    if b1 = pct then some (.pct, 1)
    else if b1 = uscore then some (.fqdn, 1)
    else match digitOf b1 with
      | some n => some (.idx n, 1)
      | none =>
        if b1 = 123 then
          match t with
          | b2 :: b3 :: t3 =>
            match digitOf b2 with
            | none => none
            | some n =>
              if b3 = dot then
                match t3 with
                | b4 :: b5 :: _ =>
                  match digitOf b4 with
                  | none => none
                  | some m => if b5 = 125 then some (.sub n (some m), 5) else none
                | _ => none
              else if b3 = 125 then some (.sub n none, 3)
              else none
          | _ => none
        else none

/-- mod_evhost_parse_pattern(): `none` = invalid pattern -/
def evParsePatternAux : Nat → Bytes → Bytes → Option (List EvPiece)
  | 0, _, _ => none
  | _ + 1, [], lit => some (if lit.isEmpty then [] else [.lit lit.reverse])
  | fuel + 1, b :: rest, lit =>
    if b = pct then
      match evPlaceholder rest with
      | none => none
      | some (p, n) =>
        match evParsePatternAux fuel (rest.drop n) [] with
        | none => none
        | some ps => some (.lit lit.reverse :: p :: ps)
    else evParsePatternAux fuel rest (b :: lit)

def evParsePattern (pat : Bytes) : Option (List EvPiece) := evParsePatternAux (pat.length + 1) pat []

def slice (a : Bytes) (i j : Nat) : Bytes := (a.take j).drop i

/-- position just after the last ']' at or before index j (0 if there is none) -/
def evScanBack (a : Bytes) : Nat → Nat
  | 0 => 0
  | j + 1 => if a.getD j 0 = 93 then j + 1 else evScanBack a j

/-- first loop of mod_evhost_parse_host(): scan right to left (index 0 is never examined)
    for the second dot; returns (ptr, colon) -/
def evLoop1 (a : Bytes) : Nat → Nat → Bool → Nat × Nat
  | 0, col, _ => (0, col)
  | p + 1, col, first =>
    let ch := a.getD (p + 1) 0
    if ch = dot then (if first then evLoop1 a p col false else (p + 1, col))
    else if ch = colon then evLoop1 a p (p + 1) true
    else evLoop1 a p col first

/-- second loop: labels right to left; (colon, i, assignments) -/
def evLoop2 (a : Bytes) : Nat → Nat → Nat → List (Nat × Bytes) → Nat × Nat × List (Nat × Bytes)
  | 0, col, i, acc => (col, i, acc)
  | p + 1, col, i, acc =>
    if a.getD (p + 1) 0 = dot then
      if p + 1 ≠ col - 1 then evLoop2 a p (p + 1) (i + 1) (acc ++ [(i, slice a (p + 2) col)])
      else evLoop2 a p (p + 1) i acc
    else evLoop2 a p col i acc

/-- mod_evhost_parse_host(): the "%n" => value table -/
def evParseHost (a : Bytes) : List (Nat × Bytes) :=
  let n := a.length
  if a.head? = some 91 then
    if a.getD (n - 1) 0 ≠ 93 then
      let ptr := evScanBack a (n - 1)
      if a.getD ptr 0 ≠ colon then [] else [(0, a.take ptr)]
    else [(0, a)]
  else
    let (ptr, col) := evLoop1 a n n true
    let ptr := if a.getD ptr 0 = dot then ptr + 1 else ptr
    let t0 : List (Nat × Bytes) := [(0, slice a ptr col)]
    if col ≠ 0 then
      let (col2, i, acc) := evLoop2 a (col - 1) col 1 t0
      if col2 ≠ 0 then acc ++ [(i, slice a 0 col2)] else acc
    else t0

def evLookup (tbl : List (Nat × Bytes)) (n : Nat) : Option Bytes :=
  (tbl.find? (·.1 = n)).map (·.2)

/-- what one pattern piece contributes -/
def evPieceValue (tbl : List (Nat × Bytes)) (authority : Bytes) : EvPiece → Bytes
  | .lit s => s
  | .pct => [pct]
  | .fqdn => hostPart authority
  | .idx n => (evLookup tbl n).getD []
  | .sub n m =>
    match evLookup tbl n with
    | none => []
    | some v =>
      match m with
      | none => v
      | some 0 => v
      | some (k + 1) => if k + 1 ≤ v.length then [v.getD k 0] else []

/-- mod_evhost_build_doc_root_path() -/
def evBuildPath (pieces : List EvPiece) (authority : Bytes) : Bytes :=
  let tbl := evParseHost authority
  appendSlash ((pieces.map (evPieceValue tbl authority)).flatten)

def evhostGuard (strict : Bool) (authority : Bytes) : Bool :=
  !authority.isEmpty && (strict || (authority.head? ≠ some dot && !authority.contains slash))

/-- mod_evhost_uri_handler() -/
def evhostDocroot (strict : Bool) (isdir : Bytes → Bool) (pieces : List EvPiece) (authority : Bytes) :
    Option Bytes :=
  if !evhostGuard strict authority then none else
  let b := evBuildPath pieces authority
  if isdir b then some b else none

/-! ### mod_userdir (userdir.basepath variant; the getpwnam() variant is external) -/

inductive UserdirRes
  | pass                         -- HANDLER_GO_ON, nothing changed
  | redirect                     -- 301 to the directory
  | go (path basedir : Bytes)
deriving Repr, DecidableEq

def userdirNameOk (u : Bytes) : Bool :=
  !(u.length ≤ 2 && (u.head? = some dot && (u.length = 1 || u.getD 1 0 = dot))) &&
  u.all (fun c => isAlnum c || c = 45 || c = uscore || c = dot)

/-- mod_userdir_docroot_handler() + mod_userdir_docroot_construct() with userdir.basepath set,
    no include/exclude lists; `relPath` is physical.rel_path -/
def userdirRemap (lc letterhomes : Bool) (basepath upath uriPath relPath : Bytes) : UserdirRes :=
  match uriPath with
  | 47 :: 126 :: rest =>
    let u := rest.takeWhile (· ≠ slash)
    if u.length = rest.length then (if rest.isEmpty then .pass else .redirect) else
    if u.isEmpty then .pass else
    if u.length ≥ 256 then .pass else
    if !userdirNameOk u then .pass else
    let u := if lc then lowerBytes u else u
    if letterhomes && u.head? = some dot then .pass else
    let b := if letterhomes then pathAppend basepath (u.take 1) else basepath
    let b := pathAppend (pathAppend b u) upath
    let p := appendSlash b
    let tail := (relPath.drop 2).dropWhile (· ≠ slash)
    .go (match tail with | _ :: t => p ++ t | [] => p) b
  | _ => .pass

/-! ### X-Sendfile -/

def in80bf (c : UInt8) : Bool := 0x80 ≤ c && c ≤ 0xbf

/-- buffer_is_valid_UTF8() -/
def validUtf8 (s : Bytes) : Bool :=
  match s with
  | [] => true
  | c0 :: t =>
    if c0 < 0x80 then validUtf8 t
    else
      let c1 := t.getD 0 0
      let c2 := t.getD 1 0
      let c3 := t.getD 2 0
      if 0xc2 ≤ c0 && c0 ≤ 0xdf && in80bf c1 then validUtf8 (t.drop 1)
      else if ((c0 = 0xe0 && 0xa0 ≤ c1 && c1 ≤ 0xbf)
            || (0xe1 ≤ c0 && c0 ≤ 0xef && c0 ≠ 0xed && in80bf c1)
            || (c0 = 0xed && 0x80 ≤ c1 && c1 ≤ 0x9f)) && in80bf c2 then validUtf8 (t.drop 2)
      else if ((c0 = 0xf0 && 0x90 ≤ c1 && c1 ≤ 0xbf)
            || (0xf1 ≤ c0 && c0 ≤ 0xf3 && in80bf c1)
            || (c0 = 0xf4 && 0x80 ≤ c1 && c1 ≤ 0x8f)) && in80bf c2 && in80bf c3 then validUtf8 (t.drop 3)
      else false
termination_by s.length
decreasing_by all_goals (simp only [List.length_drop, List.length_cons]; omega)

def isPrefixOf (lc : Bool) (pre s : Bytes) : Bool :=
  pre.length ≤ s.length && (if lc then eqIcase (s.take pre.length) pre else s.take pre.length == pre)

/-- config time (mod_cgi.c / gw_backend.c SETDEFAULTS, after the "must begin with '/'" test):
    `buffer_path_simplify(&ds->value); buffer_append_slash(&ds->value);` -/
def xsfConfigEntry (v : Bytes) : Bytes := appendSlash (pathSimplify v)

inductive XsfRes
  | status (st : Nat)            -- refused with this status, nothing opened
  | send (path : Bytes)          -- path handed to the file layer
deriving Repr, DecidableEq

/-- the checked part of http_response_xsendfile(): decode, UTF-8 check, simplify, lower-case,
    blank check, x-sendfile-docroot prefix test (`xdoc = []`: no docroot configured) -/
def xsendfilePath (lc : Bool) (xdoc : List Bytes) (raw : Bytes) : XsfRes :=
  let p := urldecodePath raw
  if !validUtf8 p then .status 502 else
  let p := pathSimplify p
  let p := if lc then lowerBytes p else p
  let under := xdoc.isEmpty || xdoc.any (fun x => isPrefixOf lc x p)
  if !under then .status 403
  else if p.isEmpty then .status 502
  else .send p

/-- first element of an X-Sendfile2 value: "path range[,...]"; same path checks -/
def xsendfile2First (lc : Bool) (xdoc : List Bytes) (value : Bytes) : XsfRes :=
  let v := value.dropWhile (· = sp)
  if v.isEmpty then .status 0 else
  let name := v.takeWhile (· ≠ sp)
  if name.length = v.length then .status 502 else
  let p := urldecodePath name
  if !validUtf8 p then .status 502 else
  let p := pathSimplify p
  let p := if lc then lowerBytes p else p
  if p.isEmpty then .status 502
  else if !(xdoc.isEmpty || xdoc.any (fun x => isPrefixOf lc x p)) then .status 403
  else .send p

/-- `http_response_xsendfile` / `…xsendfile2` entered with the status `st` that the backend response
    already carries when the header is processed (`Status: 403` from a CGI, say).  Whether a file is
    opened, and which one, does not depend on `st`.  The status after a refusal `c` (403 / 502) follows
    the tail of both functions, `if (r->http_status >= 400 && status < 300) handler_module = NULL;
    else if (0 != status && 200 != status) r->http_status = status;` — the refusal code shows only when the
    backend's own status was below 300, otherwise the backend's status is put back. -/
def xsfFinal (st c : Nat) : Nat := if st < 300 then c else st

def xsendfileAt (lc : Bool) (xdoc : List Bytes) (st : Nat) (raw : Bytes) : XsfRes :=
  -- invalid UTF-8 returns early: `if (r->http_status < 400) r->http_status = 502;`
  if !validUtf8 (urldecodePath raw) then .status (if st < 400 then 502 else st) else
  match xsendfilePath lc xdoc raw with
  | .send p => .send p
  | .status c => .status (xsfFinal st c)

def xsendfile2At (lc : Bool) (xdoc : List Bytes) (st : Nat) (value : Bytes) : XsfRes :=
  match xsendfile2First lc xdoc value with
  | .send p => .send p
  | .status 0 => .status st            -- a value that names nothing leaves the status alone
  | .status c => .status (xsfFinal st c)

/-! ### WebDAV Destination -/

inductive DavDst
  | status (st : Nat)
  | ok (relPath path : Bytes)
deriving Repr, DecidableEq

def pathMax : Nat := 4096

/-- index of the first occurrence of `b` -/
def idxOf (b : UInt8) (s : Bytes) : Option Nat := findIdx (· = b) s 0

/-- length of the longest common prefix -/
def commonLen : Bytes → Bytes → Nat
  | a :: as, b :: bs => if a = b then commonLen as bs + 1 else 0
  | _, _ => 0

/-- `while (i != 0 && p1[--i] != '/') ;` -/
def backToSlash (p : Bytes) : Nat → Nat
  | 0 => 0
  | i + 1 => if p.getD i 0 = slash then i else backToSlash p i

/-- strip "scheme://authority" (optionally "userinfo@authority") from an absolute-URI Destination;
    `Except.error st`; ok = the part starting at the path's '/' -/
def davStripOrigin (scheme authority dest : Bytes) : Except Nat Bytes :=
  if dest.head? = some slash then .ok dest else
  if dest.take scheme.length ≠ scheme then .error 400 else
  let r := dest.drop scheme.length
  if r.take 3 ≠ [colon, slash, slash] then .error 400 else
  let start := r.drop 3
  match idxOf slash start with
  | none => .error 400
  | some n =>
    let hostpart := start.take n
    let rest := start.drop n
    if hostpart = authority then .ok rest
    else match idxOf 64 hostpart with
      | none => .error 502
      | some k => if hostpart.drop (k + 1) = authority then .ok rest else .error 502

/-- mod_webdav_copymove_b(), first half: the Destination header to the destination url-path
    (dst->rel_path): origin check, query cut, PATH_MAX, decode, UTF-8, simplify, absolute, lower-case -/
def davDstRel (lc : Bool) (scheme authority dest : Bytes) : Except Nat Bytes :=
  match davStripOrigin scheme authority dest with
  | .error st => .error st
  | .ok p =>
    let raw := p.takeWhile (· ≠ qmark)
    if raw.length ≥ pathMax then .error 403 else
    let d := urldecodePath raw
    if !validUtf8 d then .error 400 else
    let d := pathSimplify d
    if d.head? ≠ some slash then .error 400 else
    .ok (if lc then lowerBytes d else d)

/-- start of the last common directory of the source and destination url-paths -/
def davRemapIdx (srcRel d : Bytes) : Nat := backToSlash srcRel (commonLen srcRel d)

/-- second half: the destination physical path.  If the source physical path ends with the
    source url-path below the common directory, that physical prefix is kept (alias support);
    otherwise doc_root + url-path -/
def davDstPath (docroot srcRel srcPath d : Bytes) : Bytes :=
  let i := davRemapIdx srcRel d
  let remain := srcRel.length - i
  if srcRel.drop i = srcPath.drop (srcPath.length - remain) then
    pathAppend (srcPath.take (srcPath.length - remain)) (d.drop i)
  else pathAppend docroot d

/-- mod_webdav_copymove_b(): Destination header to (dst rel_path, dst physical path);
    `srcRel`/`srcPath` = physical.rel_path / physical.path of the request, `docroot` = physical.doc_root -/
def davDestination (lc : Bool) (scheme authority docroot srcRel srcPath dest : Bytes) : DavDst :=
  match davDstRel lc scheme authority dest with
  | .error st => .status st
  | .ok d =>
    if srcPath.length ≤ srcRel.length - davRemapIdx srcRel d then .status 403 else
    let dstPath := davDstPath docroot srcRel srcPath d
    if dstPath.length ≥ pathMax then .status 403 else
    -- destination must not be the source or nested under it
    if srcPath.length ≤ dstPath.length && dstPath.take srcPath.length = srcPath
       && (endsWithSlash srcPath || dstPath.getD srcPath.length 0 = slash
           || dstPath.length = srcPath.length) then .status 403
    else .ok d dstPath

/-! ### symlink walk -/

inductive FsKind
  | missing | file | dir | link
deriving Repr, DecidableEq

/-- index of the last '/' before position `n` (strrchr) -/
def lastSlashBefore (s : Bytes) : Nat → Option Nat
  | 0 => none
  | k + 1 => if s.getD k 0 = slash then some k else lastSlashBefore s k

def lastSlash (s : Bytes) : Option Nat := lastSlashBefore s s.length

def symLoop (fs : Bytes → FsKind) (cur : Bytes) : Int :=
  match fs cur with
  | .link => 1
  | .missing => -1
  | _ =>
    match lastSlash cur with
    | some j => if _h : 0 < j ∧ j < cur.length then symLoop fs (cur.take j) else 0
    | none => 0
termination_by cur.length
decreasing_by simp only [List.length_take]; omega

/-- stat_cache_path_contains_symlink(): 1 = a symlink on the way, 0 = none, -1 = error -/
def symWalk (fs : Bytes → FsKind) (name : Bytes) : Int :=
  if name.isEmpty then -1
  else if name.head? ≠ some slash then -1
  else if name.length = 1 then 0
  else if name.length ≥ pathMax then -1
  else symLoop fs name

/-- http_response_physical_path_check(): with follow-symlink off the request is refused (403)
    unless the walk returns 0 -/
def symlinkServed (followSymlink : Bool) (fs : Bytes → FsKind) (path : Bytes) : Bool :=
  followSymlink || symWalk fs path = 0

/-! ### mod_indexfile + the file layer -/

/-- mod_indexfile_tryfiles(): the first configured index file that exists (stat(), follows symlinks)
    replaces the directory path; names starting with '/' are relative to the doc root.
    `exists_` is the filesystem. -/
def indexResolve (exists_ : Bytes → Bool) (docroot phys : Bytes) : List Bytes → Bytes
  | [] => phys
  | v :: rest =>
    let cand := pathAppend (if v.head? = some slash then docroot else phys) v
    if exists_ cand then cand else indexResolve exists_ docroot phys rest

/-- a static-file request: http_response_physical_path_check() walks the request's physical path,
    http_response_send_file() walks the path finally opened (after mod_indexfile); with
    follow-symlink enabled in the context of this request neither is walked.  No cache in the model:
    the decision may depend on nothing but this request's context and the filesystem. -/
def staticServed (follow : Bool) (fs : Bytes → FsKind) (phys final : Bytes) : Bool :=
  follow || (symWalk fs phys = 0 && symWalk fs final = 0)

/-! ### composition used by the end-to-end stream -/

inductive VhostCfg
  | none
  | simple (sroot : Bytes) (defhost droot : Option Bytes)
  | evhost (pieces : List EvPiece)
deriving Repr

inductive ServeRes
  | reject (st : Nat)
  | path (p : Bytes) (docroot : Bytes)
deriving Repr

/-- Host header / :authority to r->uri.authority: lower-case (http_request_header_set_Host),
    host policy, normalisation (hosts not starting with '[') -/
def authorityOf (o : Opts) (schemePort : Nat) (rawHost : Bytes) : Option Bytes :=
  match hostPolicyPlain o.hostStrict (lowerBytes rawHost) with
  | none => none
  | some h1 => if o.hostNormalize then hostNormalizeV4 schemePort h1 else some h1

/-- the doc root after the handle_docroot hooks (mod_simple_vhost / mod_evhost), else the configured one -/
def vhostRoot (strict : Bool) (docroot : Bytes) (vh : VhostCfg) (isdir : Bytes → Bool) (authority : Bytes) : Bytes :=
  match vh with
  | .none => docroot
  | .simple sroot defhost droot =>
    (match svhostDocroot strict isdir sroot defhost droot authority with
     | some (d, _) => d | none => docroot)
  | .evhost pieces =>
    (match evhostDocroot strict isdir pieces authority with
     | some d => d | none => docroot)

/-- request-target and Host to the physical path, as http_request_parse() and
    http_response_prepare() compose it: target parsing, host policy, vhost doc_root,
    doc_root + rel_path, alias remap -/
def servePath (o : Opts) (lc : Bool) (docroot : Bytes) (vh : VhostCfg) (isdir : Bytes → Bool)
    (aliases : List (Bytes × Bytes)) (rawHost target : Bytes) : ServeRes :=
  match parseTarget o false target with
  | .error e => .reject e
  | .ok t =>
    match authorityOf o 80 rawHost with
    | none => .reject 400
    | some authority =>
    let dr : Bytes := vhostRoot o.hostStrict docroot vh isdir authority
    let phys := physicalPath lc dr t.path
    if aliases.isEmpty then .path phys dr else
    match aliasRemap lc aliases dr phys with
    | .forbidden => .reject 403
    | .go p b => .path p b

/-! ### the whole request: method, userdir, index file -/

structure UserdirCfg where
  letterhomes : Bool
  basepath : Bytes
  path : Bytes
deriving Repr

structure ServeCfg where
  lc : Bool
  docroot : Bytes
  vh : VhostCfg
  aliases : List (Bytes × Bytes)
  userdir : Option UserdirCfg
  index : List Bytes
deriving Repr

inductive ServeOut
  | answered (st : Nat)            -- finished without opening a filesystem object
  | file (p basedir : Bytes)       -- the path handed to the file layer, and physical.basedir
deriving Repr

/-- mod_userdir on this request (handle_physical) -/
def userdirStep (cfg : ServeCfg) (uriPath : Bytes) : UserdirRes :=
  match cfg.userdir with
  | none => .pass
  | some u => userdirRemap cfg.lc u.letterhomes u.basepath u.path uriPath
                (if cfg.lc then lowerBytes uriPath else uriPath)

/-- physical.path / physical.basedir after mod_userdir -/
def afterUserdir (ud : UserdirRes) (p d : Bytes) : Bytes × Bytes :=
  match ud with
  | .go p' b => (p', b)
  | _ => (p, d)

/-- http_response_prepare() as far as the filesystem path goes.
    `special`: "OPTIONS *" (answered 200 by http_response_prepare_options_star) or CONNECT without a
    handler (405, http_response_prepare_connect) - response.c returns before the doc-root / physical-path
    code, the raw target never becomes a path.  Otherwise: `servePath`, then mod_userdir (handle_physical,
    replaces path and basedir for "/~user/..."), then mod_indexfile when the url-path ends in '/'. -/
def serveRequest (o : Opts) (cfg : ServeCfg) (isdir exists_ : Bytes → Bool) (special : Bool)
    (rawHost target : Bytes) : ServeOut :=
  if special then .answered (if target = [42] then 200 else 405) else
  match parseTarget o false target, authorityOf o 80 rawHost with
  | .ok t, some authority =>
    (match servePath o cfg.lc cfg.docroot cfg.vh isdir cfg.aliases rawHost target with
     | .reject st => .answered st
     | .path p d =>
       let ud := userdirStep cfg t.path
       if ud = .redirect then .answered 301 else
       let pd := afterUserdir ud p d
       if endsWithSlash t.path then
         .file (indexResolve exists_ (vhostRoot o.hostStrict cfg.docroot cfg.vh isdir authority) pd.1 cfg.index) pd.2
       else .file pd.1 pd.2)
  | .error e, _ => .answered e
  | _, none => .answered 400

end LtVerif
