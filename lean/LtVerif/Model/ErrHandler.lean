/-
  C08 extension: the error-handler bookkeeping of response.c (server.error-handler,
  server.error-handler-404, server.error-intercept):
    http_response_call_error_handler()   -> `callErrorHandler`
    http_response_has_error_handler()    -> `hasErrorHandler`
    http_response_handler() do/while     -> `handle` (fuel; the work of one pass --
        http_response_prepare() / p->handle_subrequest() and, from the second pass on,
        http_response_comeback() before it -- is the parameter `prep : pass number → EhSt → EhSt`)
  Fields are the members of request_st those functions read or write.  `savedMethod` =
  r->error_handler_saved_method is the member request_reset() does NOT restore (reqpool.c:131:
  "value is not valid unless error_handler_saved_status is set"): it carries whatever an earlier
  request on the same object left there.  Core Lean only.
-/
namespace LtVerif.ErrH

structure Cfg where
  errorHandler : Bool       -- r->conf.error_handler != NULL
  errorHandler404 : Bool    -- r->conf.error_handler_404 != NULL
  errorIntercept : Bool     -- r->conf.error_intercept
deriving Repr, DecidableEq

structure EhSt where
  status : Int               -- http_status
  method : Int               -- http_method (GET = 0, HEAD = 1, POST = 3, …)
  version : Int              -- http_version (UNSET = -1, 1.0 = 0, 1.1 = 1, 2 = 2)
  savedStatus : Int          -- error_handler_saved_status (request_reset: 0)
  savedMethod : Int          -- error_handler_saved_method (carried over request_reset)
  handlerModule : Bool       -- handler_module != NULL
  reqbodyLength : Int
  bodyIn : Int               -- reqbody_queue.bytes_in
  keepAlive : Int
  target : Nat               -- 0 = as received, 1 = server.error-handler, 2 = server.error-handler-404
  redirectStatus : Option Int  -- env REDIRECT_STATUS
  resetCalls : Nat           -- plugins_call_handle_request_reset() calls
  upgrade : Bool             -- rqst_htags bit HTTP_HEADER_UPGRADE (and the field)
  h2ConnectExt : Bool
  physPath : Bool            -- physical.path set
  wwwAuth : Bool             -- response carries WWW-Authenticate
  respOther : Bool           -- response carries any other field
  bodyLen : Nat              -- write_queue length
  respBodyFinished : Bool
deriving Repr, DecidableEq

/-- http_response_errdoc_init() -/
def errdocInit (s : EhSt) : EhSt :=
  { s with physPath := false, wwwAuth := s.wwwAuth && s.status = 401, respOther := false,
           bodyLen := 0, respBodyFinished := false }

/-- http_response_call_error_handler(); `main` = (error_handler == r->conf.error_handler) -/
def callErrorHandler (main : Bool) (s : EhSt) : EhSt :=
  let s := { s with redirectStatus := some s.status }
  let s :=
    if main then
      let s := { s with resetCalls := s.resetCalls + 1 }
      let s :=
        if s.reqbodyLength ≠ 0 then
          let s := if s.reqbodyLength ≠ s.bodyIn then { s with keepAlive := 0 } else s
          { s with reqbodyLength := 0, bodyIn := 0 }
        else s
      { s with savedStatus := s.status, savedMethod := s.method, method := 0 }
    else { s with savedStatus := -s.status }
  let s := if s.version = (-1 : Int) then { s with version := 0 } else s
  let s := { s with target := if main then 1 else 2 }
  let s := errdocInit s
  { s with status := 0, upgrade := false, h2ConnectExt := false }

/-- http_response_has_error_handler(); `true` = come back (error handler installed) -/
def hasErrorHandler (c : Cfg) (s : EhSt) : EhSt × Bool :=
  let s := if s.savedStatus > 0 then { s with method := s.savedMethod } else s
  if !s.handlerModule || c.errorIntercept then
    if s.savedStatus ≠ 0 then
      let sub := s.status
      let s := if s.savedStatus > 0 then { s with status := s.savedStatus }
               else if s.status = 404 then { s with status := -s.savedStatus }
               else s
      (if 200 ≤ sub && sub ≤ 299 then { s with savedStatus := 65535 } else s, false)
    else if s.status ≥ 400 then
      if c.errorHandler then (callErrorHandler true s, true)
      else if s.status = 404 && c.errorHandler404 then (callErrorHandler false s, true)
      else (s, false)
    else (s, false)
  else (s, false)

/-- http_response_handler(): `if (r->http_status == 0) r->http_status = 200;` -/
def norm200 (s : EhSt) : EhSt := if s.status = 0 then { s with status := 200 } else s

/-- http_response_handler(): passes until http_response_write_prepare() is reached.
    `prep k` = what pass number k does to the request before the switch (http_response_prepare()
    and/or the handler module's handle_subrequest(), preceded by http_response_comeback() for
    k > 0), for passes that end in HANDLER_GO_ON / HANDLER_FINISHED.  `none` = out of fuel. -/
def handle (c : Cfg) (prep : Nat → EhSt → EhSt) : Nat → Nat → EhSt → Option (EhSt × Nat)
  | 0, _, _ => none
  | fuel + 1, k, s =>
    let s := norm200 (prep k s)
    if s.status < 400 && s.savedStatus = 0 then some (s, k)
    else
      let r := hasErrorHandler c s
      if r.2 then handle c prep fuel (k + 1) r.1 else some (r.1, k)

/-- everything but the carried member -/
def EhSt.obs (s : EhSt) : EhSt := { s with savedMethod := 0 }

/-- the state request_reset() leaves in the members modelled here, whatever came before
    (`m` = the stale error_handler_saved_method) -/
def afterReset (method version reqbodyLength bodyIn : Int) (upgrade : Bool) (m : Int) : EhSt :=
  { status := 0, method := method, version := version, savedStatus := 0, savedMethod := m,
    handlerModule := false, reqbodyLength := reqbodyLength, bodyIn := bodyIn,
    keepAlive := 1, target := 0, redirectStatus := none, resetCalls := 0, upgrade := upgrade,
    h2ConnectExt := false, physPath := false, wwwAuth := false, respOther := false, bodyLen := 0,
    respBodyFinished := false }

end LtVerif.ErrH
