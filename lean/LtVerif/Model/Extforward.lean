/-
  Model of src/mod_extforward.c (client address taken from X-Forwarded-For / Forwarded):

    extract_forward_array()              -> `extractForwardArray`
    mod_extforward_parse_forwarder()     -> `parseForwarder`
    is_proxy_trusted()                   -> `isProxyTrusted`
    is_connection_trusted{,_cached}()    -> `isConnectionTrusted`
    last_not_in_array()                  -> `lastNotIn`
    mod_extforward_X_Forwarded_For()     -> `xffAddr`
    mod_extforward_Forwarded()           -> `fwdTokens` (param tokenizer), `fwdWalk`
                                            (right-to-left walk over the "for=" params)
    mod_extforward_set_addr()            -> `setAddr`
    mod_extforward_uri_handler()         -> `remoteAddr` (header selection, trust of the TCP peer)

  libc is external: inet_pton() (`inetPton4`, `inetPton6`) and getaddrinfo(AI_NUMERICHOST)
  (`gaiNumeric`) are modelled from the glibc sources and validated by the correspondence
  (ops `pton`, `gai`); the theorems in Props/C03.lean that are about the choice of the
  address quantify over an arbitrary textual-address parser.

  `fwdWalk` is the walk of the current tree (fix 2c1995d: `while (j >= 3)`).  The walk
  before that fix (`while (j >= 4)`, which never examined a param that is alone in the first
  group, i.e. stored at offsets[0..3]) is kept as `fwdWalkBeforeFix` to state the
  counterexample in Props/C03.lean.
  Header values are NUL-free (the request parser rejects NUL: C01).
-/
import LtVerif.Model.Basic
import LtVerif.Model.SockAddr
namespace LtVerif.Extforward
open LtVerif B

/-! ### textual addresses -/

/-- one decimal field of inet_pton(AF_INET): digits, value ≤ 255, no leading zero -/
def v4Field (f : Bytes) : Option UInt8 :=
  if f.isEmpty || !f.all isDigit then none
  else if f.length > 1 && f.head? = some 48 then none
  else if f.length > 3 then none
  else
    let n := f.foldl (fun a d => a * 10 + (d.toNat - 48)) 0
    if n ≤ 255 then some n.toUInt8 else none

/-- inet_pton(AF_INET, s): strict dotted quad -/
def inetPton4 (s : Bytes) : Option (List UInt8) :=
  match splitOn dot s with
  | [a, b, c, d] =>
    match v4Field a, v4Field b, v4Field c, v4Field d with
    | some a, some b, some c, some d => some [a, b, c, d]
    | _, _, _, _ => none
  | _ => none

/-- state of glibc inet_pton6(): bytes stored so far, position of "::", hex digits seen in
    the current group and their value -/
structure P6 where
  out : List UInt8 := []
  colonp : Option Nat := none
  seen : Nat := 0
  val : Nat := 0

def P6.push (st : P6) : P6 :=
  { st with out := st.out ++ [(st.val / 256).toUInt8, (st.val % 256).toUInt8], seen := 0, val := 0 }

/-- main loop of inet_pton6(); `tok` = input from the start of the current group -/
def pton6Loop : Bytes → Bytes → P6 → Option P6
  | [], _, st => some st
  | ch :: rest, tok, st =>
    match hexVal ch with
    | some d =>
      if st.seen + 1 > 4 then none
      else pton6Loop rest tok { st with seen := st.seen + 1, val := st.val * 16 + d.toNat }
    | none =>
      if ch = colon then
        if st.seen = 0 then
          if st.colonp.isSome then none
          else pton6Loop rest rest { st with colonp := some st.out.length }
        else if rest.isEmpty then none
        else if st.out.length + 2 > 16 then none
        else pton6Loop rest rest st.push
      else if ch = dot && st.out.length + 4 ≤ 16 then
        match inetPton4 tok with
        | some q => some { st with out := st.out ++ q, seen := 0, val := 0 }
        | none => none
      else none

/-- inet_pton(AF_INET6, s) -/
def inetPton6 (s : Bytes) : Option (List UInt8) :=
  let start : Option Bytes :=
    match s with
    | 58 :: 58 :: r => some (58 :: r)     -- leading "::": skip the first ':'
    | 58 :: _ => none
    | _ => some s
  match start with
  | none => none
  | some s1 =>
    match pton6Loop s1 s1 {} with
    | none => none
    | some st =>
      let st? : Option P6 :=
        if st.seen > 0 then (if st.out.length + 2 > 16 then none else some st.push) else some st
      match st? with
      | none => none
      | some st =>
        match st.colonp with
        | some n =>
          if st.out.length = 16 then none
          else some (st.out.take n ++ List.replicate (16 - st.out.length) 0 ++ st.out.drop n)
        | none => if st.out.length = 16 then some st.out else none

/-- sock_addr_inet_pton(AF_INET) then (AF_INET6), as is_proxy_trusted() tries them -/
def ptonAny (s : Bytes) : Option SockAddr :=
  match inetPton4 s with
  | some b => some (.v4 b)
  | none =>
    match inetPton6 s with
    | some b => some (.v6 b)
    | none => none

/-- one number of inet_aton(): strtoul(base 0) – "0x" hex, leading "0" octal, else decimal;
    the whole field must be consumed -/
def atonNum (f : Bytes) : Option Nat :=
  let digs (base : Nat) (ds : Bytes) : Option Nat :=
    ds.foldl (fun acc c =>
      match acc, hexVal c with
      | some a, some d => if d.toNat < base then some (a * base + d.toNat) else none
      | _, _ => none) (some 0)
  match f with
  | [] => none
  | 48 :: x :: r =>
    if x = 120 || x = 88 then (if r.isEmpty then none else digs 16 r)
    else digs 8 (x :: r)
  | _ => if f.all isDigit then digs 10 f else none

/-- inet_aton() as used by getaddrinfo(AI_NUMERICHOST): a.b.c.d | a.b.c | a.b | a -/
def inetAton (s : Bytes) : Option (List UInt8) :=
  let be (n : Nat) (k : Nat) : List UInt8 := (List.range k).reverse.map fun i => ((n / 256 ^ i) % 256).toUInt8
  if s.head?.map isDigit ≠ some true then none else
  match (splitOn dot s).map atonNum with
  | [some a] => if a < 2 ^ 32 then some (be a 4) else none
  | [some a, some b] => if a ≤ 255 && b < 2 ^ 24 then some (a.toUInt8 :: be b 3) else none
  | [some a, some b, some c] =>
    if a ≤ 255 && b ≤ 255 && c < 2 ^ 16 then some (a.toUInt8 :: b.toUInt8 :: be c 2) else none
  | [some a, some b, some c, some d] =>
    if a ≤ 255 && b ≤ 255 && c ≤ 255 && d ≤ 255 then some [a.toUInt8, b.toUInt8, c.toUInt8, d.toUInt8]
    else none
  | _ => none

/-- sock_addr_from_str_numeric(): getaddrinfo(AI_NUMERICHOST) -/
def gaiNumeric (s : Bytes) : Option SockAddr :=
  match inetAton s with
  | some b => some (.v4 b)
  | none =>
    match inetPton6 s with
    | some b => some (.v6 b)
    | none => none

/-! ### extract_forward_array() -/

def isHexColon (b : UInt8) : Bool := isXDigit b || b = colon

/-- `cur` = the token being collected (reversed), `acc` = finished tokens (reversed) -/
def extractGo : Bytes → Option Bytes → List Bytes → List Bytes
  | [], none, acc => acc.reverse
  | [], some cur, acc => (cur.reverse :: acc).reverse
  | c :: rest, none, acc =>
    if isHexColon c then extractGo rest (some [c]) acc else extractGo rest none acc
  | c :: rest, some cur, acc =>
    if isHexColon c || c = dot then extractGo rest (some (c :: cur)) acc
    else extractGo rest none (cur.reverse :: acc)

/-- extract_forward_array(): the maximal runs of hex digits, ':' and '.' that start with a
    hex digit or ':' -/
def extractForwardArray (hdr : Bytes) : List Bytes := extractGo hdr none []

/-! ### extforward.forwarder -/

/-- what mod_extforward_parse_forwarder() leaves behind -/
structure Forwarder where
  entries : List (Bytes × Bool)             -- key, value is still non-blank (= trusted as exact match)
  all : Int                                  -- forward_all: 0 unset, 1 "all" => "trust", -1 "all" => other
  masks : List (SockAddr × Nat)              -- trusted CIDR networks
deriving Repr

def trustWord : Bytes := ofString "trust"

/-- digits only, value > 0 (strtol + the checks of mod_extforward_parse_forwarder()) -/
def maskBits (s : Bytes) : Option Nat :=
  if s.isEmpty || !s.all isDigit || s.length > 9 then none
  else
    let n := s.foldl (fun a d => a * 10 + (d.toNat - 48)) 0
    if n > 0 then some n else none

/-- one configured key with a '/' in it: `none` = configuration error,
    `some none` = ignored, `some (some m)` = a netmask -/
def maskOf (key : Bytes) (trusted : Bool) : Option (Option (SockAddr × Nat)) :=
  match findIdxB (· = slash) key 0 with
  | none => some none
  | some i =>
    if key.head? = some slash then some none          -- unix domain socket path
    else if !trusted then some none
    else
      match maskBits (key.drop (i + 1)) with
      | none => none
      | some bits =>
        let a := key.take i
        let a := if a.head? = some 91 && a.length > 1 && a.getLast? = some 93
                 then (a.drop 1).dropLast else a
        match gaiNumeric a with
        | some sa => some (some (sa, bits))
        | none => none
where
  findIdxB (p : UInt8 → Bool) : Bytes → Nat → Option Nat
    | [], _ => none
    | b :: rest, i => if p b then some i else findIdxB p rest (i + 1)

/-- mod_extforward_parse_forwarder(): `none` = configuration rejected -/
def parseForwarder (cfg : List (Bytes × Bytes)) : Option Forwarder :=
  let all : Int :=
    match cfg.find? (fun kv => eqIcase kv.1 (ofString "all")) with
    | none => 0
    | some kv => if eqIcase kv.2 trustWord then 1 else -1
  let step (acc : Option (List (Bytes × Bool) × List (SockAddr × Nat))) (kv : Bytes × Bytes) :=
    match acc with
    | none => none
    | some (es, ms) =>
      let trusted := eqIcase kv.2 trustWord
      match maskOf kv.1 trusted with
      | none => none
      | some none => some (es ++ [(kv.1, trusted)], ms)
      | some (some m) => some (es ++ [(kv.1, false)], ms ++ [m])   -- value cleared: the literal is not trusted
  match cfg.foldl step (some ([], [])) with
  | none => none
  | some (es, ms) => some { entries := es, all := all, masks := ms }

/-- is_proxy_trusted(): exact (ASCII case-insensitive) match on a configured key, else CIDR.
    `netFirst = true` is the argument order the property needs (and configfile-glue.c uses):
    sock_addr_is_addr_eq_bits(network, candidate, bits).  `netFirst = false` is the call as the
    pinned tree has it, sock_addr_is_addr_eq_bits(candidate, network, bits): `bits` is then read
    relative to the candidate's family, and every IPv4-mapped IPv6 candidate matches every IPv4
    network (kept to state the counterexample in Props/C03.lean). -/
def isProxyTrustedOrd (netFirst : Bool) (f : Forwarder) (ip : Bytes) : Bool :=
  match f.entries.find? (fun e => eqIcase e.1 ip) with
  | some e => e.2
  | none =>
    if f.masks.isEmpty then false
    else if ip.isEmpty || ip.length ≥ 64 then false
    else
      match ptonAny ip with
      | none => false
      | some a => f.masks.any fun m =>
          if netFirst then SockAddr.addrEqBits m.1 a m.2 else SockAddr.addrEqBits a m.1 m.2

def isProxyTrusted (f : Forwarder) (ip : Bytes) : Bool := isProxyTrustedOrd true f ip

/-- is_connection_trusted() -/
def isConnectionTrusted (f : Forwarder) (peer : Bytes) : Bool :=
  if f.all ≠ 0 then f.all = 1 else isProxyTrusted f peer

/-- last_not_in_array(): the right-most element that is not a trusted proxy -/
def lastNotIn (f : Forwarder) (chain : List Bytes) : Option Bytes :=
  chain.reverse.find? (fun ip => !isProxyTrusted f ip)

/-- mod_extforward_set_addr(): the address is used only if it parses -/
def setAddr (parse : Bytes → Option SockAddr) (addr : Bytes) : Option (Bytes × SockAddr) :=
  match parse addr with
  | some sa => some (addr, sa)
  | none => none

/-- mod_extforward_X_Forwarded_For() -/
def xffAddr (parse : Bytes → Option SockAddr) (f : Forwarder) (hdr : Bytes) : Option (Bytes × SockAddr) :=
  match lastNotIn f (extractForwardArray hdr) with
  | some a => setAddr parse a
  | none => none

/-! ### Forwarded: tokenizer -/

/-- entry of the offsets[] array: a separator between proxies (`-1`) or a param
    (offset and length of key and value) -/
inductive Item where
  | sep
  | kv (k klen v vlen : Nat)
deriving Repr, DecidableEq

def Item.slots : Item → Nat
  | .sep => 1
  | .kv .. => 4

def slots (items : List Item) : Nat := (items.map Item.slots).sum

/-- find_end_quoted_string(s, i): index of the closing '"' (or of the end of the string) -/
def endQuoted (s : Bytes) (i : Nat) : Nat → Nat
  | 0 => i
  | fuel + 1 =>
    let i := i + 1
    match s[i]? with
    | none => i
    | some c =>
      if c = 34 then i
      else if c = 92 then
        (match s[i + 1]? with
         | none => i + 1
         | some _ => endQuoted s (i + 1) fuel)
      else endQuoted s i fuel

/-- find_next_semicolon_or_comma{,_or_eq}(): `none` = unterminated quoted-string (-1) -/
def findNext (withEq : Bool) (s : Bytes) (i : Nat) : Nat → Option Nat
  | 0 => some i
  | fuel + 1 =>
    match s[i]? with
    | none => some i
    | some c =>
      if (withEq && c = 61) || c = 59 || c = 44 then some i
      else if c = 34 then
        let e := endQuoted s i (s.length + 1)
        if e ≥ s.length then none else findNext withEq s (e + 1) fuel
      else findNext withEq s (i + 1) fuel

inductive TokRes where
  | bad                       -- 400: invalid quoted-string
  | ok (items : List Item)    -- (possibly cut short by the offsets[] limit)
deriving Repr

/-- the first loop of mod_extforward_Forwarded(); offsets[] has 256 entries -/
def fwdTokGo (s : Bytes) : Nat → Nat → List Item → TokRes
  | 0, _, items => .ok items
  | fuel + 1, i, items =>
    if i ≥ s.length then .ok items else
    let i := i + ((s.drop i).takeWhile (fun c => c = sp || c = ht)).length
    match s[i]? with
    | none => .ok items
    | some c =>
      if c = 59 then fwdTokGo s fuel (i + 1) items
      else if c = 44 then
        if slots items ≥ 256 then .ok items
        else fwdTokGo s fuel (i + 1) (items ++ [.sep])
      else
        let k := i
        match findNext true s i (s.length + 1) with
        | none => .bad
        | some i =>
          if s[i]? ≠ some 61 then fwdTokGo s fuel i items
          else
            let klen := i - k
            let v := i + 1
            match findNext false s v (s.length + 1) with
            | none => .bad
            | some i =>
              let vlen := i - v
              if klen = 0 then fwdTokGo s fuel i items
              else if slots items ≥ 253 then .ok items
              else fwdTokGo s fuel i (items ++ [.kv k klen v vlen])

def fwdTokens (s : Bytes) : TokRes := fwdTokGo s (2 * s.length + 2) 0 []

/-- SPECIFICATION (not code): the same tokenizer with an offsets[] array of unbounded size –
    what the header says, all of it.  Props/C03.lean shows that whenever the request is not
    rejected, the bounded tokenizer produced exactly this list. -/
def fwdTokGoU (s : Bytes) : Nat → Nat → List Item → TokRes
  | 0, _, items => .ok items
  | fuel + 1, i, items =>
    if i ≥ s.length then .ok items else
    let i := i + ((s.drop i).takeWhile (fun c => c = sp || c = ht)).length
    match s[i]? with
    | none => .ok items
    | some c =>
      if c = 59 then fwdTokGoU s fuel (i + 1) items
      else if c = 44 then fwdTokGoU s fuel (i + 1) (items ++ [.sep])
      else
        let k := i
        match findNext true s i (s.length + 1) with
        | none => .bad
        | some i =>
          if s[i]? ≠ some 61 then fwdTokGoU s fuel i items
          else
            let klen := i - k
            let v := i + 1
            match findNext false s v (s.length + 1) with
            | none => .bad
            | some i =>
              let vlen := i - v
              if klen = 0 then fwdTokGoU s fuel i items
              else fwdTokGoU s fuel i (items ++ [.kv k klen v vlen])

def fwdTokensU (s : Bytes) : TokRes := fwdTokGoU s (2 * s.length + 2) 0 []

/-- a textual address as extract_forward_array() isolates it: non-empty, made of hex digits,
    ':' and '.', not starting with '.' -/
def tokenLike (a : Bytes) : Prop :=
  (∃ c rest, a = c :: rest ∧ isHexColon c = true) ∧ ∀ c ∈ a, (isHexColon c || c = dot) = true

/-! ### Forwarded: the walk over "for=" params -/

def sub (s : Bytes) (off len : Nat) : Bytes := (s.drop off).take len

/-- is this param "for" (any letter case)? -/
def isFor (s : Bytes) : Item → Bool
  | .kv k klen _ _ => klen = 3 && eqIcase (sub s k 3) (ofString "for")
  | .sep => false

/-- params of one proxy = the items between two separators -/
def groups : List Item → List (List Item)
  | [] => [[]]
  | .sep :: rest => [] :: groups rest
  | it :: rest =>
    match groups rest with
    | [] => [[it]]
    | g :: gs => (it :: g) :: gs

inductive ForVal where
  | bad                 -- 400: "[" without address
  | junk                -- `for="["`: the scan for ']' steps in front of the value (length -1): the
                        -- identifier is never trusted and never parses as an address
  | val (b : Bytes)     -- node identifier with quotes, brackets and port removed (may be empty)
deriving Repr, DecidableEq

/-- clean-up of one for= value: trailing blanks, quotes, "[..]" of IPv6, ":port" of IPv4 -/
def forValue (s : Bytes) (v vlen0 : Nat) : ForVal :=
  let raw := sub s v vlen0
  let raw := (raw.reverse.dropWhile (fun c => c = sp || c = ht)).reverse
  if raw.length > 1 && raw.head? = some 34 && raw.getLast? = some 34 then
    let q := (raw.drop 1).dropLast            -- between the quotes
    if q.head? = some 91 then
      -- ++v; do { --vlen; } while (vlen > v && s[vlen] != ']');
      -- the scan starts at the closing quote position - 1 and looks at s[vlen]
      let body := q.drop 1
      -- keep what is left of the right-most ']' (nothing if there is none)
      let inner := ((body.reverse.dropWhile (· ≠ 93)).drop 1).reverse
      if body.isEmpty then .junk
      else if inner.isEmpty then .bad else .val inner
    else if q.head? ≠ some 95 && q.head? ≠ some slash && q.head? ≠ some 117 then
      .val (q.takeWhile (· ≠ colon))
    else .val q
  else .val raw

def unknownWord : Bytes := ofString "unknown"

/-- may this identifier become the remote address? (not obfuscated, not a socket path) -/
def usable (x : Bytes) : Bool :=
  x.head? ≠ some 95 && x.head? ≠ some slash && x ≠ unknownWord

inductive WalkRes where
  | bad                            -- 400
  | junk                           -- stopped at an identifier that cannot be an address
  | addr (a : Option Bytes)        -- most recent usable identifier (`ofor`), if any
deriving Repr, DecidableEq

/-- the node identifier one proxy reports: its last for= param, cleaned up
    (`none` = the proxy's params have no for=) -/
def groupVal (s : Bytes) (g : List Item) : Option ForVal :=
  match g.reverse.find? (isFor s) with
  | some (.kv _ _ v vlen) => some (forValue s v vlen)
  | _ => none

/-- walk over the proxies from the right: remember the last usable identifier, stop at the
    first identifier that is not a trusted proxy -/
def fwdWalkGroups (f : Forwarder) (s : Bytes) : List (List Item) → Option Bytes → WalkRes
  | [], ofor => .addr ofor
  | g :: gs, ofor =>
    match groupVal s g with
    | none => fwdWalkGroups f s gs ofor
    | some .bad => .bad
    | some .junk => .junk
    | some (.val x) =>
      if x.isEmpty then fwdWalkGroups f s gs ofor
      else
        let ofor := if usable x then some x else ofor
        if isProxyTrusted f x then fwdWalkGroups f s gs ofor else .addr ofor

/-- the walk goes past this proxy: it reports no identifier, or a trusted one
    (hypothesis vocabulary of the walk theorems in Props/C03.lean) -/
def Passes (f : Forwarder) (s : Bytes) (g : List Item) : Prop :=
  groupVal s g = none ∨ ∃ x, groupVal s g = some (.val x) ∧ (x = [] ∨ isProxyTrusted f x = true)

/-- the walk of mod_extforward_Forwarded() over all params (`while (j >= 3)`) -/
def fwdWalk (f : Forwarder) (s : Bytes) (items : List Item) : WalkRes :=
  fwdWalkGroups f s (groups items).reverse none

/-- the walk before fix 2c1995d: `while (j >= 4)` is tested when `j` is the last slot of a
    group, so a first group that consists of exactly one param (slots 0..3) is never
    looked at -/
def fwdWalkBeforeFix (f : Forwarder) (s : Bytes) (items : List Item) : WalkRes :=
  match groups items with
  | [.kv ..] :: gs => fwdWalkGroups f s gs.reverse none
  | gs => fwdWalkGroups f s gs.reverse none

inductive FwdRes where
  | bad                                   -- 400 Bad Request
  | unchanged
  | set (a : Bytes) (sa : SockAddr)
deriving Repr, DecidableEq

/-- mod_extforward_Forwarded(), remote-address part (host=/remote_user= need extforward.params) -/
def forwardedAddr (beforeFix : Bool) (parse : Bytes → Option SockAddr) (f : Forwarder) (hdr : Bytes) : FwdRes :=
  match fwdTokens hdr with
  | .bad => .bad
  | .ok items =>
    if slots items ≥ 253 then .bad          -- too many params
    else if items.isEmpty then .unchanged
    else
      match (if beforeFix then fwdWalkBeforeFix f hdr items else fwdWalk f hdr items) with
      | .bad => .bad
      | .junk => .unchanged
      | .addr none => .unchanged
      | .addr (some a) =>
        match setAddr parse a with
        | some (a, sa) => .set a sa
        | none => .unchanged

/-! ### mod_extforward_uri_handler() -/

structure ExtConf where
  forwarder : Option Forwarder            -- extforward.forwarder (none = module inactive)
  headers : List Bytes                     -- extforward.headers, lower case
                                           -- (default: x-forwarded-for, forwarded-for)

def defaultHeaders : List Bytes := [ofString "x-forwarded-for", ofString "forwarded-for"]

/-- first configured header that the request carries -/
def pickHeader (names : List Bytes) (hdrs : List (Bytes × Bytes)) : Option (Bytes × Bytes) :=
  names.findSome? fun n =>
    match hdrs.find? (fun h => h.1 = n && !h.2.isEmpty) with
    | some h => some (n, h.2)
    | none => none

/-- address (text and parsed) the request is attributed to, or 400 -/
def remoteAddr (beforeFix : Bool) (parse : Bytes → Option SockAddr) (c : ExtConf) (peer : Bytes)
    (hdrs : List (Bytes × Bytes)) : FwdRes :=
  match c.forwarder with
  | none => .unchanged
  | some f =>
    match pickHeader c.headers hdrs with
    | none => .unchanged
    | some (name, v) =>
      if !isConnectionTrusted f peer then .unchanged
      else if name = ofString "forwarded" then forwardedAddr beforeFix parse f v
      else
        match xffAddr parse f v with
        | some (a, sa) => .set a sa
        | none => .unchanged

end LtVerif.Extforward
