/-
  Model of the FastCGI request encoder of src/mod_fastcgi.c:
    fcgi_header()        -> `Fcgi.header`
    fcgi_env_add()       -> `Fcgi.envAdd`, `Fcgi.addAll`   (name-value pair coding, 65535 limit)
    fcgi_create_env()    -> `Fcgi.createEnv`               (BEGIN_REQUEST, PARAMS, PARAMS(0), first STDIN)
    fcgi_stdin_append()  -> `Fcgi.stdinAppend`             (STDIN records <= 65535, MAX_WRITE_LIMIT per call,
                                                            terminator when wb.bytes_in == wb_reqlen)
    gw_write_refill_wb() (stdin_append branch, gw_backend.c) -> `Fcgi.arrive`, `Fcgi.flush`
  and of the receiving side as the FastCGI specification defines it (`Fcgi.decode`):
  record reassembly, name-value decoding, stream termination.
  Constants (FCGI_MAX_LENGTH, record type codes, header sizes, MAX_WRITE_LIMIT) come from
  Extracted/CgiConst.lean.  Core Lean only.
-/
import LtVerif.Model.Cgi
namespace LtVerif
open B

namespace Fcgi

abbrev maxLen : Nat := Extracted.C09.fcgiMaxLength
abbrev tBegin : Nat := Extracted.C09.fcgiBeginRequest
abbrev tParams : Nat := Extracted.C09.fcgiParams
abbrev tStdin : Nat := Extracted.C09.fcgiStdin

/-- fcgi_header(): version, type, requestIdB1, requestIdB0, contentLengthB1, contentLengthB0,
    paddingLength, reserved -/
def header (type reqId len pad : Nat) : Bytes :=
  [Extracted.C09.fcgiVersion.toUInt8, type.toUInt8, (reqId / 256 % 256).toUInt8, (reqId % 256).toUInt8,
   (len / 256 % 256).toUInt8, (len % 256).toUInt8, pad.toUInt8, 0]

/-- one record with content `c` (no padding; lighttpd never pads) -/
def record (type reqId : Nat) (c : Bytes) : Bytes := header type reqId c.length 0 ++ c

/-- body of FCGI_BeginRequestRecord: roleB1, roleB0, flags, reserved[5] -/
def beginBody (role : Nat) : Bytes := [0, role.toUInt8, 0, 0, 0, 0, 0, 0]

/-- name/value length coding of fcgi_env_add(): one byte up to 127, else four bytes,
    big-endian, top bit set.  (`n >> 24 | 0x80` is `n / 2^24 + 128` for n < 2^31, the
    only range the caller lets through.) -/
def lenEnc (n : Nat) : Bytes :=
  if n > 127 then
    [(n / 16777216 % 128 + 128).toUInt8, (n / 65536 % 256).toUInt8, (n / 256 % 256).toUInt8,
     (n % 256).toUInt8]
  else [n.toUInt8]

def nvPair (k v : Bytes) : Bytes := lenEnc k.length ++ lenEnc v.length ++ k ++ v

def nvPairs (env : List (Bytes × Bytes)) : Bytes := env.flatMap fun (k, v) => nvPair k v

/-- fcgi_env_add().  `pairs` = the name-value bytes appended so far.  (In C the buffer also
    holds the 16-byte BEGIN record and the 8-byte PARAMS header placeholder, and the limit
    is FCGI_MAX_LENGTH + 16 + 8 - buffer length: the 24 bytes cancel.) -/
def envAdd (pairs k v : Bytes) : Option Bytes :=
  if k.length > 0x7fffffff ∨ v.length > 0x7fffffff then none else
  let p := nvPair k v
  if p.length > maxLen - pairs.length then none else some (pairs ++ p)

/-- all callbacks of http_cgi_headers(); `none` = some callback returned -1, which makes
    fcgi_create_env() answer 400 (C keeps calling the remaining callbacks, with no effect
    on the outcome). -/
def addAll : Bytes → List (Bytes × Bytes) → Option Bytes
  | pairs, [] => some pairs
  | pairs, (k, v) :: rest =>
    match envAdd pairs k v with
    | some p => addAll p rest
    | none => none

/-- state of one backend request as far as the byte stream is concerned -/
structure St where
  out : Bytes := []        -- every byte appended to hctx->wb so far (wb.bytes_in = out.length)
  reqlen : Int := 0        -- hctx->wb_reqlen
  pending : Bytes := []    -- r->reqbody_queue: body bytes received, not yet framed
deriving Repr

/-- split into pieces of at most `n` bytes (the weWant loop) -/
def chunksOf (n : Nat) : Nat → Bytes → List Bytes
  | 0, _ => []
  | fuel + 1, s => if s.isEmpty then [] else s.take n :: chunksOf n fuel (s.drop n)

def stdinRecs (reqId : Nat) (cs : List Bytes) : Bytes := cs.flatMap (record tStdin reqId)

/-- fcgi_stdin_append() -/
def stdinAppend (authorizer upgrade : Bool) (st : St) : St :=
  let n := if authorizer then 0 else min st.pending.length Extracted.C09.maxWriteLimit
  let cs := chunksOf maxLen n (st.pending.take n)
  let out1 := st.out ++ stdinRecs 1 cs
  let k : Int := (Extracted.C09.fcgiHeaderLen * cs.length : Nat)
  let reqlen1 : Int :=
    if st.reqlen = -1 then st.reqlen else if st.reqlen ≥ 0 then st.reqlen + k else st.reqlen - k
  let pending1 := st.pending.drop n
  if (out1.length : Int) = reqlen1 ∧ !upgrade then
    { out := out1 ++ header tStdin 1 0 0, reqlen := reqlen1 + Extracted.C09.fcgiHeaderLen,
      pending := pending1 }
  else { out := out1, reqlen := reqlen1, pending := pending1 }

/-- BEGIN_REQUEST + PARAMS + empty PARAMS -/
def head (role : Nat) (params : Bytes) : Bytes :=
  record tBegin 1 (beginBody role) ++ record tParams 1 params ++ header tParams 1 0 0

/-- fcgi_create_env(): `role` = hctx->gw_mode, `bodyLen` = r->reqbody_length,
    `pending` = what is in r->reqbody_queue at that moment.  `none` = 400. -/
def createEnv (role : Nat) (upgrade : Bool) (env : List (Bytes × Bytes)) (bodyLen : Int)
    (pending : Bytes) : Option St :=
  let authorizer := role = Extracted.C09.gwAuthorizer
  match addAll [] env with
  | none => none
  | some params =>
    let b := head role params
    let reqlen : Int :=
      if bodyLen ≠ 0 ∧ !authorizer then
        (if bodyLen > 0 then (b.length : Int) + bodyLen else -(b.length : Int))
      else b.length
    some (stdinAppend authorizer upgrade { out := b, reqlen := reqlen, pending := pending })

/-- more body bytes arrive, then gw_write_refill_wb() runs (with hctx->wb drained below its
    48 KiB mark): nothing happens while the queue is empty or in authorizer mode -/
def arrive (authorizer upgrade : Bool) (st : St) (seg : Bytes) : St :=
  let st' := { st with pending := st.pending ++ seg }
  if st'.pending.isEmpty ∨ authorizer then st' else stdinAppend authorizer upgrade st'

/-- gw_write_refill_wb() re-run on write progress until the request-body queue is empty -/
def flush (authorizer upgrade : Bool) : Nat → St → St
  | 0, st => st
  | fuel + 1, st =>
    if st.pending.isEmpty ∨ authorizer then st
    else flush authorizer upgrade fuel (stdinAppend authorizer upgrade st)

/-- gw_handle_subrequest(): the chunked request body just completed
    (`hctx->wb_reqlen < -1 && r->reqbody_length >= 0`) -/
def complete (authorizer upgrade : Bool) (st : St) : St :=
  if st.reqlen < -1 then stdinAppend authorizer upgrade { st with reqlen := -st.reqlen } else st

/-- whole request: create_env with the first segment present, then the other segments -/
def run (role : Nat) (upgrade : Bool) (env : List (Bytes × Bytes)) (bodyLen : Int)
    (seg0 : Bytes) (segs : List Bytes) : Option St :=
  let authorizer := role = Extracted.C09.gwAuthorizer
  match createEnv role upgrade env bodyLen seg0 with
  | none => none
  | some st =>
    let st1 := segs.foldl (arrive authorizer upgrade) st
    some (flush authorizer upgrade (st1.pending.length + 1) st1)

/-! ### receiving side (FastCGI specification 3.3, 3.4, 5.1-5.3) -/

structure Rec where
  type : Nat
  reqId : Nat
  content : Bytes
deriving Repr, DecidableEq

/-- split a byte stream into records; `none` = truncated or bad version -/
def decodeRecords : Nat → Bytes → Option (List Rec)
  | 0, s => if s.isEmpty then some [] else none
  | fuel + 1, s =>
    match s with
    | [] => some []
    | v :: t :: r1 :: r0 :: l1 :: l0 :: pad :: _ :: rest =>
      let len := l1.toNat * 256 + l0.toNat
      if v.toNat ≠ Extracted.C09.fcgiVersion then none
      else if rest.length < len + pad.toNat then none
      else
        match decodeRecords fuel (rest.drop (len + pad.toNat)) with
        | some rs => some ({ type := t.toNat, reqId := r1.toNat * 256 + r0.toNat,
                             content := rest.take len } :: rs)
        | none => none
    | _ => none

/-- name-value length: 1 byte, or 4 bytes with the top bit set -/
def decLen : Bytes → Option (Nat × Bytes)
  | [] => none
  | b0 :: rest =>
    if b0 < 128 then some (b0.toNat, rest)
    else match rest with
      | b1 :: b2 :: b3 :: rest' =>
        some ((b0.toNat - 128) * 16777216 + b1.toNat * 65536 + b2.toNat * 256 + b3.toNat, rest')
      | _ => none

def decodeNV : Nat → Bytes → Option (List (Bytes × Bytes))
  | 0, s => if s.isEmpty then some [] else none
  | fuel + 1, s =>
    if s.isEmpty then some [] else
    match decLen s with
    | none => none
    | some (kl, s1) =>
      match decLen s1 with
      | none => none
      | some (vl, s2) =>
        if s2.length < kl + vl then none else
        match decodeNV fuel (s2.drop (kl + vl)) with
        | some l => some ((s2.take kl, (s2.drop kl).take vl) :: l)
        | none => none

/-- a stream (PARAMS or STDIN) is the concatenation of the non-empty records of its type,
    closed by one empty record of that type: returns (stream content, records after the
    terminator); `none` if the terminator is missing -/
def takeStream (type : Nat) : List Rec → Option (Bytes × List Rec)
  | [] => none
  | r :: rest =>
    if r.type ≠ type then none
    else if r.content.isEmpty then some ([], rest)
    else match takeStream type rest with
      | some (c, rest') => some (r.content ++ c, rest')
      | none => none

structure Msg where
  role : Nat
  flags : Nat
  env : List (Bytes × Bytes)
  stdin : Bytes
deriving Repr, DecidableEq

/-- what a FastCGI responder makes of the bytes on its socket: exactly one request, all on
    one request id, BEGIN_REQUEST, a terminated PARAMS stream, a terminated STDIN stream
    and nothing after it -/
def decode (s : Bytes) : Option Msg :=
  match decodeRecords (s.length + 1) s with
  | some (b :: rest) =>
    if b.type ≠ tBegin ∨ b.content.length ≠ 8 ∨ (b :: rest).any (·.reqId ≠ b.reqId) ∨ b.reqId = 0
    then none else
    match takeStream tParams rest with
    | none => none
    | some (params, rest1) =>
      match decodeNV (params.length + 1) params, takeStream tStdin rest1 with
      | some env, some (body, []) =>
        some { role := (b.content.getD 0 0).toNat * 256 + (b.content.getD 1 0).toNat,
               flags := (b.content.getD 2 0).toNat, env := env, stdin := body }
      | _, _ => none
  | _ => none

end Fcgi
end LtVerif
