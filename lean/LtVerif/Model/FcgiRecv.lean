/-
  Model of FastCGI response record reassembly: fastcgi_get_packet() and the record dispatch of
  fcgi_recv_parse_loop() (src/mod_fastcgi.c) as a byte-at-a-time automaton (C10).

  The C appends every read to the queue `hctx->rb` and consumes a record only once its 8-byte
  header, its content and its padding are all there; the automaton collects the header, then
  counts content and padding bytes down and emits one event per completed record.  Version and
  request id of the record header are ignored by the C, and so here.  Nothing is parsed after
  FCGI_END_REQUEST (the C stops reading).
-/
import LtVerif.Model.Basic
namespace LtVerif.BeResp
open LtVerif B

def fcgiStdout : UInt8 := 6
def fcgiStderr : UInt8 := 7
def fcgiEndRequest : UInt8 := 3

inductive FrEv
  | stdout (data : Bytes)
  | stderr (data : Bytes)
  | endRequest
  | other (type : UInt8)
deriving Repr, DecidableEq

structure FrSt where
  hdr : Bytes := []           -- header bytes of the record being received (fewer than 8)
  inRec : Bool := false       -- header complete: receiving content, then padding
  typ : UInt8 := 0            -- type of that record
  need : Nat := 0             -- content bytes still missing
  pad : Nat := 0              -- padding bytes still missing
  acc : Bytes := []           -- content bytes received so far, most recent first
  got : Nat := 0              -- bytes of the incomplete record received so far (length of hctx->rb)
  ended : Bool := false       -- FCGI_END_REQUEST seen (hctx->request_id = -1)
  evs : List FrEv := []       -- completed records, in order
deriving Repr, DecidableEq

def frEvent (t : UInt8) (content : Bytes) : FrEv :=
  if t = fcgiStdout then .stdout content
  else if t = fcgiStderr then .stderr content
  else if t = fcgiEndRequest then .endRequest
  else .other t

/-- a record is complete: emit its event and wait for the next header -/
def frEmit (s : FrSt) (t : UInt8) (accRev : Bytes) : FrSt :=
  let ev := frEvent t accRev.reverse
  { hdr := [], inRec := false, typ := 0, need := 0, pad := 0, acc := [], got := 0,
    ended := ev = .endRequest, evs := s.evs ++ [ev] }

def frStep (s : FrSt) (b : UInt8) : FrSt :=
  if s.ended then s
  else if !s.inRec then
    let h := s.hdr ++ [b]
    if h.length < 8 then { s with hdr := h, got := s.got + 1 }
    else
      let t := h.getD 1 0
      let clen := (h.getD 4 0).toNat * 256 + (h.getD 5 0).toNat
      let plen := (h.getD 6 0).toNat
      if clen + plen = 0 then frEmit s t []
      else { s with hdr := [], inRec := true, typ := t, need := clen, pad := plen, acc := [], got := s.got + 1 }
  else if s.need > 0 then
    if s.need = 1 && s.pad = 0 then frEmit s s.typ (b :: s.acc)
    else { s with need := s.need - 1, acc := b :: s.acc, got := s.got + 1 }
  else
    if s.pad ≤ 1 then frEmit s s.typ s.acc
    else { s with pad := s.pad - 1, got := s.got + 1 }

def frFeed (s : FrSt) (bs : Bytes) : FrSt := bs.foldl frStep s

/-- reference encoder of one record (version 1) -/
def frEncode (type : UInt8) (rid : Nat) (content : Bytes) (pad : Bytes) : Bytes :=
  [1, type, (rid / 256).toUInt8, (rid % 256).toUInt8,
   (content.length / 256).toUInt8, (content.length % 256).toUInt8, pad.length.toUInt8, 0]
  ++ content ++ pad

/-- STDOUT payload of an event list (what is handed to the HTTP response parser) -/
def frStdout : List FrEv → Bytes
  | [] => []
  | .stdout d :: rest => d ++ frStdout rest
  | _ :: rest => frStdout rest

end LtVerif.BeResp
