/-
  Model of FastCGI response record reassembly: fastcgi_get_packet() and the record dispatch of
  fcgi_recv_parse_loop() (src/mod_fastcgi.c) as a byte-at-a-time automaton (C10).

  The C appends every read to the queue `hctx->rb` and consumes a record only once its 8-byte
  header, its content and its padding are all there; the automaton keeps the bytes of the
  incomplete record and emits one event per completed record.  Version and request id of the
  record header are ignored by the C, and so here.
-/
import LtVerif.Model.Basic
namespace LtVerif.BeResp
open LtVerif B

def fcgiStdout : UInt8 := 6
def fcgiStderr : UInt8 := 7
def fcgiEndRequest : UInt8 := 3

inductive FrEv
  | stdout (data : Bytes)
  | stderr (data : Bytes)
  | endRequest
  | other (type : UInt8)
deriving Repr, DecidableEq

structure FrSt where
  buf : Bytes := []           -- bytes of the record being received (hctx->rb)
  ended : Bool := false       -- FCGI_END_REQUEST seen (hctx->request_id = -1)
  evs : List FrEv := []       -- completed records, in order
deriving Repr, DecidableEq

/-- content length and padding length announced by a (complete) 8-byte record header -/
def frContentLen (buf : Bytes) : Nat := (buf.getD 4 0).toNat * 256 + (buf.getD 5 0).toNat
def frPadLen (buf : Bytes) : Nat := (buf.getD 6 0).toNat

def frEvent (buf : Bytes) : FrEv :=
  let t := buf.getD 1 0
  let content := (buf.drop 8).take (frContentLen buf)
  if t = fcgiStdout then .stdout content
  else if t = fcgiStderr then .stderr content
  else if t = fcgiEndRequest then .endRequest
  else .other t

def frStep (s : FrSt) (b : UInt8) : FrSt :=
  if s.ended then { s with buf := s.buf ++ [b] }     -- nothing is parsed after END_REQUEST
  else
    let buf := s.buf ++ [b]
    if buf.length ≥ 8 && buf.length = 8 + frContentLen buf + frPadLen buf then
      let ev := frEvent buf
      { buf := [], ended := ev = .endRequest, evs := s.evs ++ [ev] }
    else { s with buf := buf }

def frFeed (s : FrSt) (bs : Bytes) : FrSt := bs.foldl frStep s

/-- reference encoder of one record (version 1) -/
def frEncode (type : UInt8) (rid : Nat) (content : Bytes) (pad : Bytes) : Bytes :=
  [1, type, (rid / 256).toUInt8, (rid % 256).toUInt8,
   (content.length / 256).toUInt8, (content.length % 256).toUInt8, pad.length.toUInt8, 0]
  ++ content ++ pad

/-- STDOUT payload of an event list (what is handed to the HTTP response parser) -/
def frStdout : List FrEv → Bytes
  | [] => []
  | .stdout d :: rest => d ++ frStdout rest
  | _ :: rest => frStdout rest

end LtVerif.BeResp
