/-
  Model of the backend-pool bookkeeping of src/gw_backend.c (C11).

  World = hosts × procs × request slots × clock, mutated by the same functions,
  in the same order, as the C event handlers:

    gw_host_get            hostPick / hostGet      (per balance mode)
    gw_check_extension     arrive                  (gw_host_assign)
    gw_handle_subrequest   subrequest              (gw_process_fdevent, gw_send_request)
    gw_write_request       writeRequest            (state machine INIT … READ)
    gw_write_error         writeError              (retry budget, gw_reconnect)
    gw_recv_response{,_error}   recvResponse, recvResponseError
    gw_backend_close / gw_connection_close / gw_backend_error / gw_reconnect
    gw_proc_connect_error / gw_proc_check_enable / gw_restart_dead_procs
    gw_handle_trigger → gw_handle_trigger_host{,_timeouts} → …_hctx_timeout
    http_response_backend_error / _done (the parts reached with r->state ==
    CON_STATE_HANDLE_REQUEST), http_response_handler()'s COMEBACK loop (runCon),
    fdevent_register / fdevent_sched_close / fdevent_sched_run (fd accounting).

  What the kernel and the response reader answer is an input (the *script* of an
  operation): connect(), socket(), SO_ERROR, the write callback, create_env and
  http_response_read() outcomes.  Maps are total functions (`Nat → …`) so that
  the frame conditions of the proofs are `if i = j then … else …`.

  Pointers become indices (host index in the extension, proc index in host->first
  order, request slot).  Three places therefore carry a guard that has no C
  counterpart, because a dangling index has none: hostAssign / procAcquire / openFd
  do nothing for a slot without a context, slotConnectError ignores a proc index
  ≥ nprocs, the round-robin wrap scan stays inside the host array.  None of them
  is reachable from `initWorld` (the correspondence would show a crash of the C).

  Not modelled (documented in the check): local process death / respawn
  (waitpid, fork) and adaptive spawning — procs are RUNNING or OVERLOADED;
  FastCGI authorizer mode; request bodies.
-/
import LtVerif.Model.Basic
namespace LtVerif.Gw
open LtVerif B

/-- proc->state -/
inductive PState
  | running | overloaded | diedWait | died | killed
deriving DecidableEq, Repr, Inhabited

/-- hctx->state (gw_connection_state_t) -/
inductive CState
  | init | connectDelayed | prepareWrite | write | read
deriving DecidableEq, Repr, Inhabited

/-- handler_t -/
inductive Rc
  | goOn | finished | comeback | waitForEvent | error
deriving DecidableEq, Repr, Inhabited

structure Proc where
  state : PState := .running
  load : Int := 0              -- proc->load
  statLoad : Int := 0          -- ghost: value last stored through proc->stats_load
  disabledUntil : Int := 0
  isLocal : Bool := false
  pid : Nat := 0
deriving Inhabited

structure Host where
  nprocs : Nat := 0
  active : Int := 0            -- host->active_procs
  load : Int := 0              -- host->load
  statLoad : Int := 0          -- ghost: value last stored through host->stats_load
  label : Nat := 0             -- host->id, the config label the statistics keys are built from
  gwHash : UInt32 := 0
  disableTime : Int := 0
  ctimeout : Int := 0
  rtimeout : Int := 0
  wtimeout : Int := 0
  unix : Bool := false
  hctxs : List Nat := []       -- host->hctxs (slots, most recent first)
deriving Inhabited

/-- the part of a request context the accounting is about -/
structure Link where
  hctx : Bool := false         -- r->plugin_ctx[p->id] != NULL
  host : Option Nat := none    -- hctx->host
  proc : Option Nat := none    -- hctx->proc (index in host->first list)
  fd : Bool := false           -- hctx->fd >= 0 (registered fdnode)
  state : CState := .init
deriving Inhabited

structure Aux where
  reconnects : Nat := 0
  dispatched : Nat := 0        -- ghost: connect() calls made for this request
  pid : Nat := 0
  evIn : Bool := false         -- fdn->events & FDEVENT_IN …
  evOut : Bool := false
  evRdhup : Bool := false
  revents : Nat := 0           -- 1 IN, 2 OUT, 4 HUP, 8 RDHUP, 16 ERR
  wbLen : Nat := 0             -- chunkqueue_length(&hctx->wb)
  bytesOut : Nat := 0
  bytesIn : Nat := 0
  reqlen : Int := 0            -- hctx->wb_reqlen
  readTs : Int := 0
  writeTs : Int := 0
  status : Nat := 0            -- r->http_status
  started : Bool := false      -- r->resp_body_started
  finished : Bool := false     -- r->resp_body_finished
  headSent : Bool := false     -- r->resp_header_len != 0: the response head has gone out to the client
  short : Bool := false        -- r->resp_body_scratchpad > 0: announced body bytes still outstanding
  handler : Bool := false      -- r->handler_module == p->self
  key : Nat := 0
deriving Inhabited

structure Ctx where
  link : Link := {}
  aux : Aux := {}
deriving Inhabited

structure Script where
  conn : List Char := []
  sock : List Char := []
  stat : List Char := []
  wr : List Char := []
  rd : List Char := []
  env : List Char := []
  upg : List Char := []     -- what the arriving request asks of gw_upgrade_policy(): 'c' = HTTP/2 extended
                            -- CONNECT (rejected with 405: no host here enables upgrade), 'h' = HTTP/1.1 Upgrade
                            -- header (stripped, the request goes on as any other)
deriving Inhabited

def Script.size (s : Script) : Nat :=
  s.conn.length + s.sock.length + s.stat.length + s.wr.length + s.rd.length + s.env.length

/-- observable happenings, newest first -/
inductive Ev
  | arrive (h : Option Nat)
  | dispatch (s h p : Nat)                 -- connect() issued for slot s to host h, proc p
  | fin (s status : Nat) (started trunc hostless : Bool)   -- hostless: gw_reconnect() found no host
  | wait (s : Nat)
  | err (s : Nat)
  | fdev (mask : Nat)
  | note (msg : String)
deriving Repr, Inhabited

structure World where
  balance : Nat := 0
  wkr : Bool := false           -- worker process of server.max-worker > 0
  nhosts : Nat := 0
  host : Nat → Host := fun _ => {}
  proc : Nat → Nat → Proc := fun _ _ => {}
  nslots : Nat := 0
  slot : Nat → Option Ctx := fun _ => none
  lastUsed : Int := -1          -- extension->last_used_ndx
  noteSent : Bool := false
  now : Int := 1000             -- log_monotonic_secs
  globalActive : Int := 0       -- "gw.active-requests"
  hstat : Nat → Int := fun _ => 0        -- "gw.backend.<label>.load", keyed by config label
  pstat : Nat → Nat → Int := fun _ _ => 0  -- "gw.backend.<label>.<proc>.load"
  curFds : Int := 0             -- srv->cur_fds
  pendClose : Nat := 0          -- fds on ev->pendclose
  opened : Nat := 0             -- ghost: sockets created
  closed : Nat := 0             -- ghost: sockets closed
  script : Script := {}
  jobs : List Nat := []         -- log_con_jqueue (head = next to run)
  log : List Ev := []
deriving Inhabited

/-! ### updates -/

def World.updSlot (w : World) (s : Nat) (f : Ctx → Ctx) : World :=
  let v := (w.slot s).map f
  { w with slot := fun i => if i = s then v else w.slot i }

def World.updLink (w : World) (s : Nat) (f : Link → Link) : World :=
  w.updSlot s fun c => { c with link := f c.link }

def World.updAux (w : World) (s : Nat) (f : Aux → Aux) : World :=
  w.updSlot s fun c => { c with aux := f c.aux }

def World.updHost (w : World) (h : Nat) (f : Host → Host) : World :=
  let v := f (w.host h)
  { w with host := fun i => if i = h then v else w.host i }

def World.updProc (w : World) (h p : Nat) (f : Proc → Proc) : World :=
  let v := f (w.proc h p)
  { w with proc := fun i j => if i = h ∧ j = p then v else w.proc i j }

def World.emit (w : World) (e : Ev) : World := { w with log := e :: w.log }

def World.linkOf (w : World) (s : Nat) : Link := ((w.slot s).getD {}).link
def World.auxOf (w : World) (s : Nat) : Aux := ((w.slot s).getD {}).aux

/-! ### scripted environment -/

def popConn (w : World) : Char × World :=
  match w.script.conn with
  | [] => ('p', w)
  | c :: cs => (c, { w with script := { w.script with conn := cs } })

def popSock (w : World) : Char × World :=
  match w.script.sock with
  | [] => ('y', w)
  | c :: cs => (c, { w with script := { w.script with sock := cs } })

def popStat (w : World) : Char × World :=
  match w.script.stat with
  | [] => ('y', w)
  | c :: cs => (c, { w with script := { w.script with stat := cs } })

def popWr (w : World) : Char × World :=
  match w.script.wr with
  | [] => ('a', w)
  | c :: cs => (c, { w with script := { w.script with wr := cs } })

def popRd (w : World) : Char × World :=
  match w.script.rd with
  | [] => ('f', w)
  | c :: cs => (c, { w with script := { w.script with rd := cs } })

def popEnv (w : World) : Char × World :=
  match w.script.env with
  | [] => ('y', w)
  | c :: cs => (c, { w with script := { w.script with env := cs } })

/-! ### proc availability: gw_proc_set_state, gw_proc_connect_error,
    gw_proc_check_enable, gw_restart_dead_procs -/

def setPState (w : World) (h p : Nat) (st : PState) : World :=
  if (w.proc h p).state = st then w
  else
    let w1 :=
      if (w.proc h p).state = .running then w.updHost h fun H => { H with active := H.active - 1 }
      else if st = .running then w.updHost h fun H => { H with active := H.active + 1 }
      else w
    w1.updProc h p fun P => { P with state := st }

/-- gw_proc_connect_error(): the errno only selects a statistics tag -/
def connectError (w : World) (h p pid : Nat) : World :=
  if !(w.proc h p).isLocal || ((w.proc h p).pid == pid && (w.proc h p).state == .running) then
    setPState (w.updProc h p fun P => { P with disabledUntil := w.now + (w.host h).disableTime })
      h p .overloaded
  else w

def checkEnable (w : World) (h p : Nat) : World :=
  if w.now ≤ (w.proc h p).disabledUntil then w
  else if (w.proc h p).state ≠ .overloaded then w
  else setPState w h p .running

/-- gw_restart_dead_proc() for the states reachable here (children never exit:
    DIED / DIED_WAIT_FOR_PID do not occur, see file header) -/
def restartDeadProc (w : World) (h : Nat) (trigger : Bool) (p : Nat) : World :=
  match (w.proc h p).state with
  | .running => w
  | .overloaded => checkEnable w h p
  | .killed =>
    if trigger then w.updProc h p fun P => { P with disabledUntil := P.disabledUntil + 1 } else w
  | .diedWait => w
  | .died => w

def restartDeadProcs (w : World) (h : Nat) (trigger : Bool) : World :=
  (List.range (w.host h).nprocs).foldl (fun w p => restartDeadProc w h trigger p) w

/-! ### gw_host_get -/

def intMax : Int := 2147483647

def lcStep (w : World) (acc : Int × Option Nat) (k : Nat) : Int × Option Nat :=
  if (w.host k).active = 0 then acc
  else if (w.host k).load < acc.1 then ((w.host k).load, some k) else acc

/-- GW_BALANCE_LEAST_CONNECTION -/
def lcPick (w : World) : Option Nat :=
  ((List.range w.nhosts).foldl (lcStep w) (intMax, none)).2

def firstActive (w : World) : List Nat → Option Nat
  | [] => none
  | k :: ks => if (w.host k).active ≠ 0 then some k else firstActive w ks

/-- GW_BALANCE_RR: first active host after last_used_ndx, else wrap to the start -/
def rrPick (w : World) : Option Nat :=
  let start := (w.lastUsed + 1).toNat
  match firstActive w (List.range' start (w.nhosts - start)) with
  | some j => some j
  | none => firstActive w (List.range (min (w.lastUsed + 1).toNat w.nhosts))   -- (k < ext_used)

def djb (bs : Bytes) (h : UInt32) : UInt32 :=
  bs.foldl (fun h c => ((h <<< 5) + h) ^^^ c.toUInt32) h

def hashStep (w : World) (base : UInt32) (acc : UInt32 × Option Nat) (k : Nat) : UInt32 × Option Nat :=
  if (w.host k).active = 0 then acc
  else if acc.1 ≤ base ^^^ (w.host k).gwHash then (base ^^^ (w.host k).gwHash, some k) else acc

/-- GW_BALANCE_HASH / GW_BALANCE_STICKY -/
def hashPick (w : World) (base : UInt32) : Option Nat :=
  ((List.range w.nhosts).foldl (hashStep w base) (0, none)).2

def keyPath (key : Nat) : Bytes := ofString "/k" ++ natToDec key
def keyAuth (key : Nat) : Bytes := ofString "h" ++ natToDec key
def keyAddr (key : Nat) : Bytes := ofString "10.0.0." ++ natToDec key

def baseHash (balance key : Nat) : UInt32 :=
  if balance = 2 then djb (keyAuth key) (djb (keyPath key) 5381) else djb (keyAddr key) 5381

/-- index chosen by gw_host_get() and the new extension->last_used_ndx -/
def hostPick (w : World) (key : Nat) : Option Nat × Int :=
  if w.nhosts ≤ 1 then
    (if w.nhosts = 1 ∧ (w.host 0).active ≠ 0 then some 0 else none, w.lastUsed)
  else if w.balance = 0 then (lcPick w, w.lastUsed)
  else if w.balance = 1 then
    match rrPick w with
    | some j => (some j, (j : Int))
    | none => (none, -1)
  else if w.balance = 2 ∨ w.balance = 3 then (hashPick w (baseHash w.balance key), w.lastUsed)
  else (none, w.lastUsed)

/-- gw_host_get() on behalf of slot s: no host ⇒ 503, handler dropped, note sent -/
def hostGet (w : World) (s : Nat) : Option Nat × World :=
  let r := hostPick w (w.auxOf s).key
  let w1 := { w with lastUsed := r.2 }
  match r.1 with
  | some h => (some h, w1)
  | none =>
    (none, { (w1.updAux s fun a => { a with status := 503, handler := false }) with noteSent := true })

/-! ### load accounting primitives -/

/-- `*host->stats_load = (host->load = v)`: the statistics entry is found by the host's
    config label (gw_status_get_counter), so hosts with equal labels share one entry -/
def setHostLoad (w : World) (h : Nat) (v : Int) : World :=
  let l := (w.host h).label
  { (w.updHost h fun H => { H with load := v, statLoad := v }) with
    hstat := fun k => if k = l then v else w.hstat k }

/-- `*proc->stats_load = (proc->load = v)`, keyed by (label, proc) -/
def setProcLoad (w : World) (h p : Nat) (v : Int) : World :=
  let l := (w.host h).label
  { (w.updProc h p fun P => { P with load := v, statLoad := v }) with
    pstat := fun k q => if k = l ∧ q = p then v else w.pstat k q }

/-- hctx->host = host; gw_host_assign(host)   (an hctx exists wherever the C does this) -/
def hostAssign (w : World) (s h : Nat) : World :=
  match w.slot s with
  | none => w
  | some _ =>
    setHostLoad (w.updLink s fun l => { l with host := some h }) h ((w.host h).load + 1)

/-- hctx->proc = proc; gw_proc_load_inc(host, proc) -/
def procAcquire (w : World) (s h p : Nat) : World :=
  match w.slot s with
  | none => w
  | some _ =>
    let w1 := setProcLoad (w.updLink s fun l => { l with proc := some p }) h p ((w.proc h p).load + 1)
    { w1 with globalActive := w1.globalActive + 1 }

/-- fdevent_socket_nb_cloexec() ok: ++cur_fds, hctx->fd, fdevent_register -/
def openFd (w : World) (s : Nat) : World :=
  match w.slot s with
  | none => w
  | some _ =>
    ({ w with curFds := w.curFds + 1, opened := w.opened + 1 }).updLink s fun l => { l with fd := true }

/-- gw_backend_close() -/
def backendClose (w : World) (s : Nat) : World :=
  match w.slot s with
  | none => w
  | some c =>
    let w1 :=
      if c.link.fd then
        -- fdevent_fdnode_event_del, fdevent_sched_close, fd = -1, gw_host_hctx_deq
        let w0 := { w with pendClose := w.pendClose + 1 }
        let w0 := match c.link.host with
          | some h => w0.updHost h fun H => { H with hctxs := H.hctxs.erase s }
          | none => w0
        (w0.updLink s fun l => { l with fd := false }).updAux s fun a =>
          { a with evIn := false, evOut := false, evRdhup := false }
      else w
    match c.link.host with
    | none => w1
    | some h =>
      let w2 :=
        match c.link.proc with
        | some p =>
          -- gw_proc_release → gw_proc_load_dec
          let w' := setProcLoad w1 h p ((w1.proc h p).load - 1)
          ({ w' with globalActive := w'.globalActive - 1 }).updLink s fun l => { l with proc := none }
        | none => w1
      -- gw_host_reset
      (setHostLoad w2 h ((w2.host h).load - 1)).updLink s
        fun l => { l with host := none }

/-- http_response_backend_incomplete(): nothing has gone out to the client yet, so the partial
    response is dropped (http_response_body_clear) and 502 is sent instead -/
def incompleteAux (a : Aux) : Aux :=
  { a with started := false, finished := false, short := false, status := 502, handler := false }

/-- http_response_backend_done() with r->state == CON_STATE_HANDLE_REQUEST -/
def doneAux (a : Aux) : Aux :=
  if !a.started then
    { a with status := if a.status < 500 ∧ a.status ≠ 400 then 500 else a.status, handler := false }
  else if a.finished then a
  else if a.short ∧ !a.headSent then incompleteAux a
  else { a with finished := true }     -- (head already sent and body short: http_response_backend_abort)

def backendDone (w : World) (s : Nat) : World := w.updAux s doneAux

/-- http_response_backend_error() -/
def errAux (a : Aux) : Aux :=
  if a.started ∧ !a.headSent then incompleteAux a
  else if a.started then { a with handler := false, finished := true }
  else a

/-- gw_connection_close(): close, free the hctx, finish the response -/
def connectionClose (w : World) (s : Nat) : World :=
  let w1 := (backendClose w s).updLink s fun l => { l with hctx := false }
  if (w1.auxOf s).handler then backendDone w1 s else w1

/-- gw_backend_error(): http_response_backend_error + gw_connection_close -/
def backendError (w : World) (s : Nat) : Rc × World :=
  (.finished, connectionClose (w.updAux s errAux) s)

/-- gw_reconnect() -/
def reconnect (w : World) (s : Nat) : Rc × World :=
  let r := hostGet (backendClose w s) s
  match r.1 with
  | none => (.finished, r.2)
  | some h => (.comeback, (hostAssign r.2 s h).updLink s fun l => { l with state := .init })

/-! ### gw_recv_response, gw_recv_response_error -/

def recvResponseError (w : World) (s : Nat) : Rc × World :=
  let a := w.auxOf s
  if !a.started && a.bytesOut == 0 then
    let w1 := w.updAux s fun a => { a with reconnects := a.reconnects + 1 }
    if a.reconnects < 5 then reconnect w1 s else backendError w1 s
  else backendError w s

def recvResponse (w : World) (s : Nat) : Rc × World :=
  let r := popRd w
  if r.1 = 'g' then (.goOn, r.2)
  else if r.1 = 'd' ∨ r.1 = 'D' ∨ r.1 = 'l' then
    -- response headers complete: the backend's status line replaces whatever was there;
    -- 'D': the head has also been passed on to the client (streaming); 'l': the backend
    -- announced more body bytes than it has sent so far
    (.goOn, r.2.updAux s fun a =>
      { a with started := true, status := if a.started then a.status else 200, readTs := r.2.now,
               headSent := a.headSent || r.1 = 'D', short := a.short || r.1 = 'l' })
  else if r.1 = 'x' then recvResponseError r.2 s
  else (.finished, connectionClose r.2 s)

/-! ### gw_write_request -/

def pickStep (w : World) (h : Nat) (acc : Option Nat) (p : Nat) : Option Nat :=
  if (w.proc h p).state ≠ .running then acc
  else match acc with
    | none => some p
    | some q => if (w.proc h p).load < (w.proc h q).load then some p else acc

/-- first RUNNING proc, replaced by a later RUNNING proc of strictly lower load -/
def pickProc (w : World) (h : Nat) : Option Nat :=
  (List.range (w.host h).nprocs).foldl (pickStep w h) none

/-- case GW_STATE_WRITE -/
def wrWrite (w : World) (s : Nat) : Rc × World :=
  let a := w.auxOf s
  let r := if a.wbLen > 0 then popWr w else ('n', w)
  if a.wbLen > 0 ∧ r.1 = 'e' then (.error, r.2)
  else
    let n := if a.wbLen > 0 then (if r.1 = 'n' then 0 else if r.1 = 'o' then 1 else a.wbLen) else 0
    let w1 := if n > 0 then
        r.2.updAux s fun a => { a with bytesOut := a.bytesOut + n, wbLen := a.wbLen - n, writeTs := r.2.now }
      else r.2
    let a1 := w1.auxOf s
    let w2 :=
      if (a1.bytesOut : Int) = a1.reqlen then
        (w1.updAux s fun a => { a with evOut := false }).updLink s fun l => { l with state := .read }
      else if a1.wbLen = 0 then w1.updAux s fun a => { a with evOut := false }
      else if !a1.evOut then w1.updAux s fun a => { a with writeTs := w1.now, evOut := true }
      else w1
    (.waitForEvent, w2)

/-- case GW_STATE_PREPARE_WRITE: create_env, poll for the response -/
def wrPrepare (w : World) (s : Nat) : Rc × World :=
  let r := popEnv w
  if r.1 = 'E' then (.error, r.2.updAux s fun a => { a with status := 400 })
  else if r.1 = 'F' then (.finished, r.2.updAux s fun a => { a with status := 400 })
  else
    let w1 := r.2.updAux s fun a =>
      { a with wbLen := a.wbLen + 4, bytesIn := a.bytesIn + 4, reqlen := 4, readTs := r.2.now,
               evIn := true, evRdhup := true }
    wrWrite (w1.updLink s fun l => { l with state := .write }) s

/-- gw_proc_connect_success, GW_STATE_PREPARE_WRITE -/
def wrConnected (w : World) (s : Nat) : Rc × World :=
  wrPrepare (w.updLink s fun l => { l with state := .prepareWrite }) s

/-- gw_proc_connect_error(r, hctx->host, hctx->proc, hctx->pid, …) -/
def slotConnectError (w : World) (s : Nat) : World :=
  match (w.linkOf s).host, (w.linkOf s).proc with
  | some h, some p =>
    -- (hctx->proc points into host->first…: an index ≥ nprocs has no C counterpart)
    if p < (w.host h).nprocs then connectError w h p (w.auxOf s).pid else w
  | _, _ => w

/-- case GW_STATE_CONNECT_DELAYED -/
def wrDelayed (w : World) (s : Nat) : Rc × World :=
  if !(w.auxOf s).evOut then (.waitForEvent, w)
  else
    let r := popStat w
    if r.1 = 'r' ∨ r.1 = 't' then (.error, slotConnectError r.2 s)
    else wrConnected (r.2.updAux s fun a => { a with writeTs := r.2.now }) s

/-- 0 connected, 1 in progress, 2 failed -/
def connClass (c : Char) (unix : Bool) : Nat :=
  if c = 'k' then 0
  else if c = 'r' ∨ c = 'n' then 2
  else if c = 'a' then (if unix then 1 else 2)
  else 1

/-- socket() succeeded: ++cur_fds, fdevent_register, hctx->pid, write_ts, gw_host_hctx_enq -/
def wrRegister (w : World) (s h p : Nat) : World :=
  let w2 := openFd w s
  let w3 := w2.updAux s fun a =>
    { a with evIn := false, evOut := false, evRdhup := false,
             pid := if (w2.proc h p).isLocal then (w2.proc h p).pid else a.pid,
             writeTs := w2.now }
  w3.updHost h fun H => { H with hctxs := s :: H.hctxs }

/-- gw_establish_connection() and what GW_STATE_INIT does with its three answers -/
def wrConnect (w : World) (s h p : Nat) : Rc × World :=
  let c := popConn w
  let w3 := (c.2.emit (.dispatch s h p)).updAux s fun a => { a with dispatched := a.dispatched + 1 }
  match connClass c.1 (w3.host h).unix with
  | 0 => wrConnected w3 s
  | 1 => (.waitForEvent,
          (w3.updAux s fun a => { a with evOut := true }).updLink s
            fun l => { l with state := .connectDelayed })
  | _ => (.error, connectError w3 h p (w3.auxOf s).pid)

/-- case GW_STATE_INIT -/
def wrInit (w : World) (s : Nat) : Rc × World :=
  match (w.linkOf s).host with
  | none => (.error, w)
  | some h =>
    let w0 := w.updLink s fun l => { l with proc := none }
    match pickProc w0 h with
    | none => (.error, w0)
    | some p =>
      let w1 := procAcquire w0 s h p
      let k := popSock w1
      if k.1 = 'n' then (.error, k.2)
      else wrConnect (wrRegister k.2 s h p) s h p

def writeRequest (w : World) (s : Nat) : Rc × World :=
  match (w.linkOf s).state with
  | .init => wrInit w s
  | .connectDelayed => wrDelayed w s
  | .prepareWrite => wrPrepare w s
  | .write => wrWrite w s
  | .read => (.waitForEvent, w)

/-! ### gw_write_error, gw_send_request -/

/-- tail of gw_write_error(): 503 unless a status is already decided, gw_backend_error -/
def writeErrorTail (w : World) (s : Nat) : Rc × World :=
  let a := w.auxOf s
  backendError (if !a.started ∧ a.status < 500 ∧ a.status ≠ 400
                then w.updAux s fun a => { a with status := 503 } else w) s

/-- "(optimization to detect backend process exit …)" block of gw_write_error() -/
def restartIfLocal (w : World) (s : Nat) : World :=
  match (w.linkOf s).host, (w.linkOf s).proc with
  | some h, some p => if (w.proc h p).isLocal ∧ !w.wkr then restartDeadProcs w h false else w
  | _, _ => w

def writeError (w : World) (s : Nat) : Rc × World :=
  if (w.linkOf s).state = .init ∨ (w.linkOf s).state = .connectDelayed then
    let w1 := restartIfLocal w s
    let n := (w1.auxOf s).reconnects
    let w2 := w1.updAux s fun a => { a with reconnects := a.reconnects + 1 }
    if n < 5 then reconnect w2 s else writeErrorTail w2 s
  else
    let r := recvResponse w s
    if r.1 ≠ .goOn then r else writeErrorTail r.2 s

def sendRequest (w : World) (s : Nat) : Rc × World :=
  let r := writeRequest w s
  if r.1 ≠ .error then r else writeError r.2 s

/-! ### gw_process_fdevent, gw_handle_subrequest -/

/-- the HUP drain loop: read until the reader stops saying GO_ON -/
def drain : Nat → World → Nat → Rc × World
  | 0, w, _ => (.error, w)
  | n + 1, w, s =>
    let r := recvResponse w s
    if r.1 = .goOn then drain n r.2 s else r

def processFdevent (w : World) (s : Nat) (rev : Nat) : Rc × World :=
  let r := if rev.testBit 0 then recvResponse w s else (.goOn, w)
  if r.1 ≠ .goOn then r
  else if rev.testBit 1 then sendRequest r.2 s
  else if rev.testBit 2 ∨ rev.testBit 3 then
    if (r.2.linkOf s).state = .connectDelayed then sendRequest r.2 s
    else if (r.2.auxOf s).started then drain (r.2.script.rd.length + 1) r.2 s
    else (.finished, connectionClose r.2 s)
  else if rev.testBit 4 then backendError r.2 s
  else (.goOn, r.2)

/-- the revents part of gw_handle_subrequest() -/
def subEvents (w : World) (s : Nat) : Rc × World :=
  let rev := (w.auxOf s).revents
  if rev ≠ 0 then processFdevent (w.updAux s fun a => { a with revents := 0 }) s rev else (.goOn, w)

def subrequest (w : World) (s : Nat) : Rc × World :=
  if !(w.linkOf s).hctx then (.goOn, w)
  else
    let r := subEvents w s
    if r.1 ≠ .goOn ∧ r.1 ≠ .waitForEvent then r
    else if ((r.2.auxOf s).bytesIn = 0 ∨ (r.2.auxOf s).wbLen > 0) ∧ (r.2.linkOf s).state ≠ .connectDelayed then
      let r2 := sendRequest r.2 s
      if r2.1 ≠ .waitForEvent then r2 else (.waitForEvent, r2.2)
    else (.waitForEvent, r.2)

/-! ### the request around the handler: http_response_handler loop, request reset -/

/-- response handed to the client (or connection reset); gw_handle_request_reset -/
def finEv (s : Nat) (c : Ctx) : Ev :=
  .fin s (if c.aux.status = 0 then 200 else c.aux.status) c.aux.started
    (c.aux.started && !c.aux.handler) (c.link.hctx && c.link.host.isNone)

def finish (w : World) (s : Nat) (aborted : Bool) : World :=
  match w.slot s with
  | none => w
  | some c =>
    let w1 := if aborted then w else w.emit (finEv s c)
    let w2 := backendClose w1 s
    { w2 with slot := fun i => if i = s then none else w2.slot i }

def runCon : Nat → World → Nat → World
  | 0, w, s => finish (w.emit (.err s)) s true
  | n + 1, w, s =>
    match w.slot s with
    | none => w
    | some c =>
      if !c.aux.handler then finish w s false
      else
        let r := subrequest w s
        match r.1 with
        | .waitForEvent => if (r.2.auxOf s).finished then finish r.2 s false else r.2.emit (.wait s)
        | .goOn => finish r.2 s false
        | .finished => finish r.2 s false
        | .comeback => runCon n r.2 s
        | .error => finish (r.2.emit (.err s)) s true

/-- more rounds than the retry budget allows (1 + 5 retries; c11_retry_bounded) -/
def conFuel (_w : World) : Nat := 7

def runJobs (w : World) : World :=
  let js := w.jobs
  js.foldl (fun w s => runCon (conFuel w) w s) { w with jobs := [] }

/-! ### trigger: timeouts and re-enable -/

def fix504 (w : World) (s : Nat) : World :=
  let a := w.auxOf s
  if a.status = 500 ∧ !a.started ∧ !a.handler then w.updAux s fun a => { a with status := 504 } else w

/-- gw_handle_trigger_hctx_timeout(); kind 0 connect, 1 read, 2 write -/
def hctxTimeout (w : World) (s : Nat) (kind : Nat) : World :=
  let w0 := if w.jobs.contains s then w else { w with jobs := s :: w.jobs }
  if kind = 0 then
    let w1 := slotConnectError w0 s
    let n := (w1.auxOf s).reconnects
    let w2 := w1.updAux s fun a => { a with reconnects := a.reconnects + 1 }
    if n < 1 then (reconnect w2 s).2
    else fix504 (backendError (w2.updAux s fun a => { a with status := 503 }) s).2 s
  else if kind = 2 then
    let w1 := (writeError w0 s).2
    if (w1.auxOf s).status = 503 then w1.updAux s fun a => { a with status := 504 } else w1
  else fix504 (backendError w0 s).2 s

def timeoutStep (h : Nat) (w : World) (s : Nat) : World :=
  let H := w.host h
  let l := w.linkOf s
  let a := w.auxOf s
  if l.state = .connectDelayed then
    if w.now - a.writeTs > H.ctimeout ∧ H.ctimeout ≠ 0 then hctxTimeout w s 0 else w
  else if a.evIn ∧ w.now - a.readTs > H.rtimeout ∧ H.rtimeout ≠ 0 then hctxTimeout w s 1
  else if a.evOut ∧ w.now - a.writeTs > H.wtimeout ∧ H.wtimeout ≠ 0 then hctxTimeout w s 2
  else w

/-- gw_handle_trigger_host_timeouts() -/
def hostTimeouts (w : World) (h : Nat) : World :=
  let H := w.host h
  if H.hctxs.isEmpty then w
  else if H.rtimeout = 0 ∧ H.wtimeout = 0 ∧ H.ctimeout = 0 then w
  else H.hctxs.foldl (timeoutStep h) w

def checkOverloaded (w : World) (h : Nat) : World :=
  (List.range (w.host h).nprocs).foldl
    (fun w p => if (w.proc h p).state = .overloaded then checkEnable w h p else w) w

/-- gw_handle_trigger_host() / the worker variant, for one host -/
def triggerHost (w : World) (h : Nat) : World :=
  let w1 := hostTimeouts w h
  if w1.wkr then checkOverloaded w1 h else restartDeadProcs w1 h true

/-! ### operations -/

inductive Op
  | arrive (s key : Nat) (sc : Script)
  | event (s mask : Nat) (sc : Script)
  | wake (s : Nat) (sc : Script)
  | abort (s : Nat)
  | tick (dt : Nat) (sc : Script)
deriving Inhabited

/-- fdevent_poll() → fdevent_sched_run(): close what was scheduled -/
def schedRun (w : World) : World :=
  { w with curFds := w.curFds - w.pendClose, closed := w.closed + w.pendClose, pendClose := 0 }

def opArrive (w : World) (s key : Nat) : World :=
  if s ≥ w.nslots then w.emit (.note "bad")
  else if (w.slot s).isSome then w.emit (.note "busy")
  else
    let w0 := { w with slot := fun i => if i = s then some { aux := { key := key } } else w.slot i }
    let r := hostGet w0 s
    match r.1 with
    | none => finish (r.2.emit (.arrive none)) s false
    | some h =>
      let w1 : World := { r.2 with noteSent := false }
      if w1.script.upg.head? = some 'c' then
        -- gw_upgrade_policy() says 405 after the host was chosen and before a handler context
        -- exists: nothing is assigned, no load is taken
        finish ((w1.updAux s fun a => { a with status := 405 }).emit (.note "AR,")) s false
      else
      let w1 := w1.updLink s fun l => { l with hctx := true, proc := none, state := .init }
      let w1 := (hostAssign w1 s h).updAux s fun a => { a with handler := true }
      let w1 := w1.emit (.arrive (some h))
      runCon (conFuel w1) w1 s

/-- what the kernel may report: IN/OUT/RDHUP only if registered, HUP/ERR always -/
def evMask (a : Aux) (mask : Nat) : Nat :=
  (if mask.testBit 0 ∧ a.evIn then 1 else 0) + (if mask.testBit 1 ∧ a.evOut then 2 else 0)
    + (if mask.testBit 2 then 4 else 0) + (if mask.testBit 3 ∧ a.evRdhup then 8 else 0)
    + (if mask.testBit 4 then 16 else 0)

def opEvent (w : World) (s mask : Nat) : World :=
  if s ≥ w.nslots then w.emit (.note "bad")
  else if !((w.linkOf s).hctx && (w.linkOf s).fd) then w.emit (.note "noev")
  else if evMask (w.auxOf s) mask = 0 then w.emit (.note "noev")
  else
    -- gw_handle_fdevent: hctx->revents |= revents; joblist_append(con)
    let rev := evMask (w.auxOf s) mask
    let w1 := (w.emit (.fdev rev)).updAux s fun a => { a with revents := a.revents ||| rev }
    runJobs { w1 with jobs := [s] }

def opWake (w : World) (s : Nat) : World :=
  if s ≥ w.nslots then w.emit (.note "bad")
  else if (w.slot s).isNone then w.emit (.note "idle")
  else let w1 := w.emit (.note "W"); runCon (conFuel w1) w1 s

def opAbort (w : World) (s : Nat) : World :=
  if s ≥ w.nslots then w.emit (.note "bad")
  else if (w.slot s).isNone then w.emit (.note "idle")
  else finish (w.emit (.note "C")) s true

def opTick (w : World) (dt : Nat) : World :=
  let w1 := ({ w with now := w.now + dt }).emit (.note "T")
  runJobs ((List.range w1.nhosts).foldl triggerHost w1)

def step (w : World) (op : Op) : World :=
  let w1 := match op with
    | .arrive s key sc => opArrive { w with script := sc } s key
    | .event s mask sc => opEvent { w with script := sc } s mask
    | .wake s sc => opWake { w with script := sc } s
    | .abort s => opAbort { w with script := {} } s
    | .tick dt sc => opTick { w with script := sc } dt
  schedRun w1

def run (w : World) (ops : List Op) : World := ops.foldl step w

/-! ### initial world -/

structure HostSpec where
  nprocs : Nat
  disableTime : Nat
  ctimeout : Nat
  rtimeout : Nat
  wtimeout : Nat
  kind : Char            -- 'r' remote tcp, 'u' remote unix socket, 'l' local
deriving Inhabited

def hostName (i : Nat) (kind : Char) : Bytes :=
  if kind = 'u' then ofString "/nonexistent/ltv-gw-" ++ natToDec i ++ ofString ".sock"
  else ofString "127.0.0." ++ natToDec (i + 1)

/-- gw_set_defaults_backend(): host->gw_hash = gw_hash(name) ^ port -/
def hostHash (i : Nat) (kind : Char) : UInt32 :=
  djb (hostName i kind) 5381 ^^^ (if kind = 'u' then 0 else (9000 + 37 * i).toUInt32)

def specHost (i : Nat) (sp : Option HostSpec) : Host :=
  match sp with
  | some sp => { nprocs := sp.nprocs, active := sp.nprocs, gwHash := hostHash i sp.kind,
                 disableTime := sp.disableTime, ctimeout := sp.ctimeout, rtimeout := sp.rtimeout,
                 wtimeout := sp.wtimeout, unix := sp.kind = 'u' }
  | none => {}

def specProc (i j : Nat) (sp : Option HostSpec) : Proc :=
  match sp with
  | some sp => { isLocal := sp.kind = 'l', pid := if sp.kind = 'l' then 5000 + 10 * i + j else 0 }
  | none => {}

def initWorld (balance : Nat) (wkr : Bool) (nslots : Nat) (specs : List HostSpec) : World :=
  { balance := balance, wkr := wkr, nslots := nslots, nhosts := specs.length,
    host := fun i => { specHost i specs[i]? with label := i + 1 },   -- "h0", "h1", …: distinct labels
    proc := fun i j => specProc i j specs[i]? }

/-- the same pool written as an anonymous list `(( … ), ( … ))`: every host->id is empty, so all
    hosts (and their procs of equal index) share one statistics entry -/
def anonymize (w : World) : World :=
  { w with host := fun i => { w.host i with label := 0 } }

/-! ### specification vocabulary: what "equals the number of requests in flight" means -/

/-- Σ_{i<n} f i -/
def sumTo (n : Nat) (f : Nat → Int) : Int :=
  match n with
  | 0 => 0
  | n + 1 => sumTo n f + f n

def hostC (h : Nat) (c : Option Ctx) : Int :=
  match c with
  | some c => if c.link.host = some h then 1 else 0
  | none => 0

def procC (h p : Nat) (c : Option Ctx) : Int :=
  match c with
  | some c => if c.link.host = some h ∧ c.link.proc = some p then 1 else 0
  | none => 0

def anyProcC (c : Option Ctx) : Int :=
  match c with
  | some c => if c.link.proc.isSome then 1 else 0
  | none => 0

def fdC (c : Option Ctx) : Int :=
  match c with
  | some c => if c.link.fd then 1 else 0
  | none => 0

/-- number of request contexts bound to host h -/
def hostCnt (w : World) (h : Nat) : Int := sumTo w.nslots fun s => hostC h (w.slot s)
/-- number of request contexts bound to proc p of host h -/
def procCnt (w : World) (h p : Nat) : Int := sumTo w.nslots fun s => procC h p (w.slot s)
/-- number of request contexts holding any proc -/
def anyProcCnt (w : World) : Int := sumTo w.nslots fun s => anyProcC (w.slot s)
/-- number of request contexts holding a backend socket -/
def fdCnt (w : World) : Int := sumTo w.nslots fun s => fdC (w.slot s)
/-- number of RUNNING procs of host h -/
def runningCnt (w : World) (h : Nat) : Int :=
  sumTo (w.host h).nprocs fun p => if (w.proc h p).state = .running then 1 else 0

/-- shape of one request context; `relaxed` = in the middle of gw_send_request,
    between a failed GW_STATE_INIT step and the gw_write_error that cleans it up -/
structure SlotOk (relaxed : Bool) (c : Ctx) : Prop where
  proc_host : c.link.proc.isSome → c.link.host.isSome
  fd_proc : c.link.fd = true → c.link.proc.isSome
  init_clean : relaxed = false → c.link.state = .init → c.link.proc = none ∧ c.link.fd = false

/-- the accounting invariant; `t` names the slot (if any) that is mid-request -/
structure Acct (t : Option Nat) (w : World) : Prop where
  hostLoad : ∀ h, (w.host h).load = hostCnt w h
  hostStat : ∀ h, (w.host h).statLoad = (w.host h).load
  procLoad : ∀ h p, (w.proc h p).load = procCnt w h p
  procStat : ∀ h p, (w.proc h p).statLoad = (w.proc h p).load
  global : w.globalActive = anyProcCnt w
  fds : w.curFds = fdCnt w + w.pendClose
  ghost : (w.opened : Int) = w.closed + fdCnt w + w.pendClose
  slots : ∀ s c, w.slot s = some c → SlotOk (decide (t = some s)) c
  range : ∀ s, w.nslots ≤ s → w.slot s = none

/-- availability bookkeeping: active_procs counts the RUNNING procs -/
def Avail (w : World) : Prop := ∀ h, (w.host h).active = runningCnt w h

/-! ### driver aid: re-tabulate the maps (extensionally the identity, `compact_eq`) so
    that look-ups do not walk the whole update history of a long operation list -/

def tab {α : Type} (a : Array α) (f : Nat → α) : Nat → α :=
  fun i => if h : i < a.size then a[i] else f i

def tab2 {α : Type} (a : Array (Array α)) (f : Nat → Nat → α) : Nat → Nat → α :=
  fun i j => if h : i < a.size then (if h2 : j < a[i].size then a[i][j] else f i j) else f i j

def compact (w : World) : World :=
  let maxp := (List.range w.nhosts).foldl (fun m h => max m (w.host h).nprocs) 0
  let ha := Array.ofFn (n := w.nhosts) fun h => w.host h.val
  let sa := Array.ofFn (n := w.nslots) fun s => w.slot s.val
  let pa := Array.ofFn (n := w.nhosts) fun h => Array.ofFn (n := maxp) fun p => w.proc h.val p.val
  { w with host := tab ha w.host, slot := tab sa w.slot, proc := tab2 pa w.proc }

end LtVerif.Gw
