/-
  Model of gw_status_get_counter() of src/gw_backend.c (C11): the text key under which a
  per-host / per-proc statistics counter lives in `plugin_stats`.

      memcpy(label, "gw.backend.", 11);
      if (len = buffer_clen(host->id)) memcpy(label+llen, host->id->ptr, len);
      if (proc) { label[llen++] = '.'; llen += li_utostrn(label+llen, …, proc->id); }
      memcpy(label+llen, tag, tlen);
      return plugin_stats_get_ptr(label, llen);

  Two counters are the same int iff their keys are equal up to ASCII letter case (plugin_stats is
  an `array`, looked up with array_keycmp(): length, then array_caseless_compare()) — `sameEntry`.  The world model (Model/Gw.lean) abstracts the key of a host
  as a number (`Host.label`) and of a proc as (label, index); what that abstraction assumes
  of the real key builder is `C11.c11_stat_key_inj`, where it fails `c11_stat_key_dotted_alias`.
  Not modelled: the 288-byte stack buffer (lengths are asserted only under __COVERITY__;
  host->id is a config key, proc->id a uint32).
-/
import LtVerif.Model.Basic
namespace LtVerif.GwStat
open LtVerif B

def dot : UInt8 := 46

def keyPrefix : Bytes := ofString "gw.backend."

/-- the `if (proc) { '.' ; li_utostrn(proc->id) }` part -/
def procPart : Option Nat → Bytes
  | some n => dot :: natToDec n
  | none => []

/-- the key gw_status_get_counter(host, proc, tag) hands to plugin_stats_get_ptr() -/
def statKey (id : Bytes) (proc : Option Nat) (tag : Bytes) : Bytes :=
  keyPrefix ++ (id ++ (procPart proc ++ tag))

/-- the tags gw_backend.c uses: ".load" ".connected" ".died" ".overloaded" ".disabled" -/
def tags : List Bytes :=
  [ofString ".load", ofString ".connected", ofString ".died", ofString ".overloaded", ofString ".disabled"]

/-- shape shared by all of them: a dot, then a byte that is not a decimal digit -/
def TagOk (t : Bytes) : Prop := ∃ c r, t = dot :: c :: r ∧ isDigit c = false

/-- plugin_stats is a lighttpd `array`: array_get_int_ptr() finds an entry with array_keycmp(), equal lengths
    and array_caseless_compare() (A–Z folded to lower case) — keys that differ only in letter case are ONE entry -/
def lower (k : Bytes) : Bytes := k.map toLower

def sameEntry (k k' : Bytes) : Bool := lower k == lower k'

end LtVerif.GwStat
