/-
  Model of the HTTP/1.1 request-body chunked decoder h1_chunked() / h1_chunked_crlf()
  (src/h1.c) as a byte-at-a-time automaton.  The C code is chunk-oriented; that it
  equals this automaton for every segmentation of the input is what the
  correspondence check `h_h1body` validates (all splits of short inputs).
  The automaton buffers exactly what the C leaves unconsumed in the read queue
  (an incomplete chunk-size line, the first byte of the CRLF after chunk data, the
  last-chunk line with its trailers) and delays validation like the C does.
-/
import LtVerif.Model.Basic
namespace LtVerif
open B

inductive CkMode
  | hdr (acc : Bytes) (nul : Bool)          -- collecting a chunk-size line
  | data (n : Nat)                          -- n chunk-data bytes outstanding
  | crlf (first : Option UInt8)             -- CRLF after chunk data
  | trailer (acc : Bytes) (off : Nat) (nul : Bool)  -- last-chunk line ++ trailer bytes
  | done
  | err (status : Nat)
deriving Repr, DecidableEq

structure CkSt where
  mode : CkMode := .hdr [] false
  out : Bytes := []            -- decoded body (in order)
  ka : Bool := true            -- keep-alive still allowed
  after : Nat := 0             -- bytes seen after the end of the body (next request)
deriving Repr, DecidableEq

structure CkCfg where
  maxSize : Nat := 0           -- server.max-request-size in bytes (0 = unlimited)
  maxField : Nat := 8192       -- server.max-request-field-size

/-- guard of h1_chunked(): te_chunked > (1<<59)-1-2 before shifting in the next digit -/
def ckSizeLimit : Nat := 2 ^ 59 - 1 - 2

/-- hex prefix with the overflow guard: (value, digits consumed) or none on overflow -/
def ckHex : Bytes → Nat → Nat → Option (Nat × Nat)
  | [], v, k => some (v, k)
  | b :: rest, v, k =>
    match hexVal b with
    | none => some (v, k)
    | some d => if v > ckSizeLimit then none else ckHex rest (v * 16 + d.toNat) (k + 1)

/-- validate a complete chunk-size line (including its LF); returns the chunk size -/
def ckParseLine (line : Bytes) : Except Nat Nat :=
  match ckHex line 0 0 with
  | none => .error 400
  | some (v, k) =>
    let n := line.length
    if k = 0 then .error 400
    else if line.getD (n - 2) 0 ≠ cr then .error 400
    else
      let ok :=
        if k = n - 2 then true
        else
          let rest := (line.drop k).dropWhile fun b => b = sp || b = ht
          -- CR (only directly before the LF) or a chunk extension without control characters
          match rest.head? with
          | some b => (b = cr || b = 59) &&
                      (rest.take (rest.length - 2)).all fun c => !((c < 32 && c ≠ ht) || c = 127)
          | none => false
      if !ok then .error 400
      else if n ≥ 1024 then .error 400
      else .ok v

def endsCrlfCrlf (acc : Bytes) : Bool :=
  acc.length ≥ 4 && acc.drop (acc.length - 4) = [cr, lf, cr, lf]

def ckStep (cfg : CkCfg) (s : CkSt) (b : UInt8) : CkSt :=
  match s.mode with
  | .hdr acc nul =>
    let acc' := acc ++ [b]
    if b = lf && !nul then
      match ckParseLine acc' with
      | .error e => { s with mode := .err e, ka := false }
      | .ok 0 => { s with mode := .trailer acc' (acc'.length - 2) false }
      | .ok size =>
        if cfg.maxSize ≠ 0 && (cfg.maxSize < size || cfg.maxSize - size < s.out.length) then
          { s with mode := .err 413, ka := false }
        else { s with mode := .data size }
    else if acc'.length ≥ 1024 then { s with mode := .err 400, ka := false }
    else { s with mode := .hdr acc' (nul || b = 0) }
  | .data n =>
    let s' := { s with out := s.out ++ [b] }
    if n ≤ 1 then { s' with mode := .crlf none } else { s' with mode := .data (n - 1) }
  | .crlf none => { s with mode := .crlf (some b) }
  | .crlf (some a) =>
    if a = cr && b = lf then { s with mode := .hdr [] false }
    else { s with mode := .err 400, ka := false }
  | .trailer acc off nul =>
    let acc' := acc ++ [b]
    let nul' := nul || b = 0
    if !nul' && endsCrlfCrlf (acc'.drop off) then { s with mode := .done }
    else if acc'.length ≥ cfg.maxField then { s with mode := .done, ka := false }
    else { s with mode := .trailer acc' off nul' }
  | .done => { s with after := s.after + 1 }
  | .err _ => s

def ckFeed (cfg : CkCfg) (s : CkSt) (bs : Bytes) : CkSt := bs.foldl (ckStep cfg) s

/-- reference encoder: chunk sizes are given explicitly; `exts`/`trailers` are the
    (already well-formed) chunk extensions and trailer section -/
def hexDigits : Nat → Nat → Bytes
  | 0, _ => []
  | fuel + 1, n =>
    if n < 16 then [hexDigitLC n.toUInt8] else hexDigits fuel (n / 16) ++ [hexDigitLC (n % 16).toUInt8]

def encHex (n : Nat) : Bytes := hexDigits 64 n

def enchunk1 (data : Bytes) : Bytes := encHex data.length ++ [cr, lf] ++ data ++ [cr, lf]

def enchunk (chunks : List Bytes) : Bytes :=
  (chunks.flatMap enchunk1) ++ [48, cr, lf, cr, lf]

end LtVerif
