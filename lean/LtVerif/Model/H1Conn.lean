/-
  Connection-level model of HTTP/1.x request framing: a byte-at-a-time automaton over
  one client connection, built from
    h1_recv_headers()                       (h1.c)          head accumulation, 431 limits, the
                                                            "first byte < 32" check, blank-line discard
                                                            between keep-alive requests
    http_request_headers_process()          (request.c)     = `parseHead` (Model/H1Parse.lean)
    h1_reqbody_read() Content-Length branch (h1.c)          byte counter
    h1_chunked()                            (h1.c)          = `ckStep` (Model/H1Chunked.lean)
    http_response_config() 413              (response.c)
    h1_send_headers() / connection_handle_response_end_state() (h1.c, connections.c)
                                                            keep-alive decision
  What the request handler does with an accepted request (response.c, modules) is a parameter
  `ConnCfg.handler`: the status it answers with, whether it consumes the request body before it
  answers (mod_cgi) or leaves it unread (static files, error pages), and whether it forces the
  connection closed (http_status_set_error_close()).

  The C code works on read buffers; this automaton consumes one byte at a time, so it cannot
  depend on TCP segmentation by construction.  It follows the C for every input except where the
  C itself depends on how the bytes were cut:
   * a head whose first byte is < 0x20: the automaton rejects with 400 at that byte (as the C
     does when the head is still incomplete); if the complete head is already buffered the C
     reports the parser's status for it (400/501) instead.  Both are rejections.
   * a chunked trailer section longer than max-request-field-size: the automaton ends the body
     (keep-alive off) when the limit is reached; the C decides per read buffer and accepts the
     section if its terminating empty line is in the buffer it examines.
  (The CR of a blank line that precedes a keep-alive request: the automaton waits for the LF; the
  C answered 400 when the CR was the only byte in the read buffer until fix 6cde26c, finding D27.)
-/
import LtVerif.Model.H1Parse
import LtVerif.Model.H1Chunked
namespace LtVerif
open B

/-- what the request handler does with an accepted request -/
structure Handler where
  status : Nat := 200
  readsBody : Bool := false     -- consumes the whole request body before it answers
  close : Bool := false         -- clears keep-alive (http_status_set_error_close)
deriving Repr, DecidableEq

structure ConnCfg where
  opts : Opts
  maxField : Nat := 8192        -- server.max-request-field-size
  port : Nat := 80
  maxKaReqs : Nat := 100        -- server.max-keep-alive-requests
  kaIdle : Nat := 5             -- server.max-keep-alive-idle (0: keep-alive off)
  maxSize : Nat := 0            -- server.max-request-size in bytes (0: unlimited)
  handler : PReq → Target → Handler

inductive Event
  | request (status : Nat) (method target path body : Bytes) (chunked : Bool)
      -- response to an accepted request: its method, request-target, decoded path, the body delivered
      -- to the handler, and whether the body was chunk-coded
  | reject (status : Nat)                                  -- 4xx/5xx from the framing layer
  | close                                                  -- server closes the connection
  | unmodelled                                             -- IPv6-literal Host (not modelled)
deriving Repr, DecidableEq

inductive Phase
  | head (rbuf : Bytes) (nl : Nat) (blankOk : Bool)   -- rbuf: head bytes so far, REVERSED; nl: complete lines
  | bodyCL (r : PReq) (t : Target) (h : Handler) (remaining : Nat) (racc : Bytes)   -- racc: body so far, REVERSED
  | bodyCk (r : PReq) (t : Target) (h : Handler) (ck : CkSt)
  | closed
deriving Repr

structure ConnSt where
  phase : Phase := .head [] 0 false
  count : Nat := 1              -- con->request_count of the request being received
deriving Repr

def Event.isResponse : Event → Bool
  | .request .. => true
  | .reject _ => true
  | _ => false

def Event.isRequest : Event → Bool
  | .request .. => true
  | _ => false

def ConnSt.isClosed (s : ConnSt) : Bool :=
  match s.phase with
  | .closed => true
  | _ => false

/-- h1_send_headers() + connection_handle_response_end_state(): keep the connection? -/
def keepAliveAfter (cfg : ConnCfg) (count : Nat) (r : PReq) (h : Handler) (bodyRead ckKa : Bool) : Bool :=
  r.keepAlive && cfg.kaIdle != 0 && decide (count ≤ cfg.maxKaReqs) && bodyRead && !h.close && ckKa

/-- the response to an accepted request and the state after it -/
def respond (cfg : ConnCfg) (count : Nat) (r : PReq) (t : Target) (h : Handler) (body : Bytes)
    (bodyRead ckKa : Bool) : ConnSt × List Event :=
  let ev := Event.request h.status r.method r.target t.path body (r.bodyLen == -1)
  if keepAliveAfter cfg count r h bodyRead ckKa then
    ({ phase := .head [] 0 true, count := count + 1 }, [ev])
  else ({ phase := .closed, count := count }, [ev, .close])

def rejectWith (count : Nat) (e : Nat) : ConnSt × List Event :=
  ({ phase := .closed, count := count }, [.reject e, .close])

def ckCfgOf (cfg : ConnCfg) : CkCfg := { maxSize := cfg.maxSize, maxField := cfg.maxField }

/-- a complete head: http_request_headers_process(), then the handler / body phase -/
def dispatch (cfg : ConnCfg) (count : Nat) (block : Bytes) : ConnSt × List Event :=
  match parseHead cfg.opts cfg.maxField cfg.port block with
  | .incomplete => rejectWith count 400      -- not reachable from `h1Step`
  | .blank => rejectWith count 400           -- blank line where a request line is expected
  | .skipV6 => ({ phase := .closed, count := count }, [.unmodelled, .close])
  | .err e => rejectWith count e
  | .ok r t =>
    let h := cfg.handler r t
    if r.bodyLen > 0 && cfg.maxSize != 0 && r.bodyLen > (cfg.maxSize : Int) then rejectWith count 413
    else if r.bodyLen = 0 then respond cfg count r t h [] true true
    else if !h.readsBody then respond cfg count r t h [] false true
    else if r.bodyLen > 0 then ({ phase := .bodyCL r t h r.bodyLen.toNat [], count := count }, [])
    else ({ phase := .bodyCk r t h {}, count := count }, [])

/-- http_header_parse_hoff(): the (reversed) buffer ends in a blank line -/
def headEnd : Bytes → Bool
  | [10] => true
  | 10 :: 10 :: _ => true
  | [10, 13] => true
  | 10 :: 13 :: 10 :: _ => true
  | _ => false

def nlNext (nl : Nat) (b : UInt8) : Nat := if b = lf then nl + 1 else nl

/-- the 431 conditions of h1_recv_headers() on an incomplete head: size, number of lines -/
def overLimit (cfg : ConnCfg) (r' : Bytes) (nl' : Nat) : Bool :=
  r'.length > cfg.maxField || nl' + 1 ≥ 8191

/-- one byte of a request head (after the blank-line discard logic) -/
def headByte (cfg : ConnCfg) (count : Nat) (rbuf : Bytes) (nl : Nat) (b : UInt8) : ConnSt × List Event :=
  if rbuf.isEmpty && b < 32 then rejectWith count 400
  else if headEnd (b :: rbuf) then dispatch cfg count (b :: rbuf).reverse
  else if overLimit cfg (b :: rbuf) (nlNext nl b) then rejectWith count 431
  else ({ phase := .head (b :: rbuf) (nlNext nl b) false, count := count }, [])

def h1Step (cfg : ConnCfg) (s : ConnSt) (b : UInt8) : ConnSt × List Event :=
  match s.phase with
  | .closed => (s, [])
  | .head rbuf nl blankOk =>
    if blankOk then
      -- one blank line before a keep-alive request is skipped when the next line is not blank
      match rbuf with
      | [] =>
        if b = cr || b = lf then ({ s with phase := .head [b] 0 true }, [])
        else headByte cfg s.count [] 0 b
      | [13] =>
        if b = lf then ({ s with phase := .head [lf, cr] 0 true }, [])
        else rejectWith s.count 400
      | _ =>
        if b = cr || b = lf then rejectWith s.count 400
        else headByte cfg s.count [] 0 b
    else headByte cfg s.count rbuf nl b
  | .bodyCL r t h rem racc =>
    if rem ≤ 1 then respond cfg s.count r t h (b :: racc).reverse true true
    else ({ s with phase := .bodyCL r t h (rem - 1) (b :: racc) }, [])
  | .bodyCk r t h ck =>
    let ck' := ckStep (ckCfgOf cfg) ck b
    match ck'.mode with
    | .err e => rejectWith s.count e
    | .done => respond cfg s.count r t h ck'.out true ck'.ka
    | _ => ({ s with phase := .bodyCk r t h ck' }, [])

def stepAcc (cfg : ConnCfg) (acc : ConnSt × List Event) (b : UInt8) : ConnSt × List Event :=
  let r := h1Step cfg acc.1 b
  (r.1, acc.2 ++ r.2)

/-- feed a byte string: final state and all events in order -/
def h1Feed (cfg : ConnCfg) (s : ConnSt) (bs : Bytes) : ConnSt × List Event :=
  bs.foldl (stepAcc cfg) (s, [])

end LtVerif
