/-
  Model of the end of one HTTP/1.x response on a connection (C04: "responses appear once per request,
  in request order", "a response with neither length nor chunking is followed by connection close").

  The C functions as they are (connections.c):
    connection_handle_response_end_state()   responseEnd
    connection_handle_shutdown()             handleShutdown   (connection_reset, shutdown(SHUT_WR) ->
                                                               CON_STATE_CLOSE, else connection_close)
    connection_close()                       the `.connect` branch of handleShutdown
  and the part of connection_state_machine_loop() that follows the write state:
    case CON_STATE_RESPONSE_END / CON_STATE_ERROR: response_end; if r->state == CON_STATE_REQUEST_START
    the loop is re-entered for the next (pipelined) request, otherwise CON_STATE_CLOSE / closed:
    nothing is read as a request and nothing is written any more            connRun

  Not here: what happens inside READ / HANDLE_REQUEST (C01, the handlers), the write state itself
  (Model/NetWrite.lean), the lingering close (C13), TLS close_notify (shutOk stands for
  `con->is_ssl_sock || 0 == shutdown(fd, SHUT_WR)`), r->keep_alive < 0.
  Core Lean only.
-/
import LtVerif.Model.H1Resp

namespace LtVerif
namespace H1End
open B

/-- r->state after connection_handle_response_end_state() -/
inductive CState
  | requestStart   -- CON_STATE_REQUEST_START: next request on the same connection
  | close          -- CON_STATE_CLOSE: write side shut down, lingering until the client closes
  | connect        -- CON_STATE_CONNECT: connection_close() ran, descriptor closed, object pooled
deriving Repr, DecidableEq

structure EndIn where
  h2 : Bool := false          -- r->http_version > HTTP_VERSION_1_1
  status : Nat := 200         -- r->http_status
  reqLen : Int := 0           -- r->reqbody_length
  reqIn : Int := 0            -- r->reqbody_queue.bytes_in
  isError : Bool := false     -- r->state == CON_STATE_ERROR
  keepAlive : Int := 1        -- r->keep_alive (as h1_send_headers left it)
  sepWq : Bool := false       -- con->write_queue != &r->write_queue (partial 1xx write)
  fdOk : Bool := true         -- con->fd >= 0
  shutOk : Bool := true       -- con->is_ssl_sock || 0 == shutdown(con->fd, SHUT_WR)
  pending : Nat := 0          -- bytes in con->read_queue (pipelined requests)
deriving Repr, DecidableEq

structure EndOut where
  state : CState
  done : Nat        -- calls of plugins_call_handle_request_done()
  sepWq : Bool
  fin : Bool        -- shutdown(SHUT_WR) done: the client reads end-of-stream behind the response
  closed : Bool     -- connection_close(): descriptor closed
  pending : Nat     -- bytes left in con->read_queue
deriving Repr, DecidableEq

/-- connection_handle_shutdown(): connection_reset(); `con->fd >= 0 && (ssl || shutdown ok)` ->
    CON_STATE_CLOSE (read queue kept: drained by connection_read_for_eos), else connection_close()
    (chunkqueue_reset(con->read_queue), close(fd), CON_STATE_CONNECT) -/
def handleShutdown (i : EndIn) (done : Nat) (sep : Bool) : EndOut :=
  if i.fdOk && i.shutOk then
    { state := .close, done := done, sepWq := sep, fin := true, closed := false, pending := i.pending }
  else
    { state := .connect, done := done, sepWq := sep, fin := false, closed := true, pending := 0 }

/-- connection_handle_response_end_state() -/
def responseEnd (i : EndIn) : EndOut :=
  if i.h2 then handleShutdown i 1 i.sepWq
  else
    let done := if i.status ≠ 0 then 1 else 0
    let unread := i.reqLen ≠ i.reqIn || i.isError
    let ka : Int := if unread then 0 else i.keepAlive
    let sep := if unread then false else i.sepWq
    if ka > 0 then
      { state := .requestStart, done := done, sepWq := sep, fin := false, closed := false,
        pending := i.pending }
    else handleShutdown i done sep

/-- one request of a pipeline, as far as the end of its response is concerned -/
structure Req where
  msg : Bytes                  -- the complete response (header section ++ body)
  ka : Bool                    -- r->keep_alive > 0 after h1_send_headers()
  status : Nat := 200
  wrote : Option Nat := none   -- some n: the write state ended in CON_STATE_ERROR after n bytes
  reqLen : Int := 0
  reqIn : Int := 0
deriving Repr, DecidableEq

/-- the response of descriptor `d` (Model/H1Resp.lean: write_prepare + h1_send_headers + pieces) -/
def Req.ofResp (d : RespIn) (date : Bytes) (wrote : Option Nat := none) (reqLen reqIn : Int := 0) : Req :=
  let o := respond d date
  { msg := o.head ++ o.body, ka := o.keepAlive, status := o.status, wrote := wrote,
    reqLen := reqLen, reqIn := reqIn }

/-- bytes of the response that reached the socket -/
def sentOf (q : Req) : Bytes :=
  match q.wrote with
  | none => q.msg
  | some n => q.msg.take n

def endIn (fdOk shutOk : Bool) (pending : Nat) (q : Req) : EndIn :=
  { h2 := false, status := q.status, reqLen := q.reqLen, reqIn := q.reqIn, isError := q.wrote.isSome,
    keepAlive := if q.ka then 1 else 0, sepWq := false, fdOk := fdOk, shutOk := shutOk,
    pending := pending }

structure RunOut where
  wire : Bytes               -- everything written on the connection
  answered : Nat             -- requests whose response was started
  final : Option EndOut      -- none: still open, waiting for the next request
deriving Repr, DecidableEq

/-- the connection over a pipeline of requests: response, response_end, and again only if the
    state is CON_STATE_REQUEST_START (`pending` counts the requests still queued) -/
def connRun (fdOk shutOk : Bool) : List Req → RunOut
  | [] => ⟨[], 0, none⟩
  | q :: qs =>
    let e := responseEnd (endIn fdOk shutOk qs.length q)
    if e.state = .requestStart then
      let r := connRun fdOk shutOk qs
      ⟨sentOf q ++ r.wire, r.answered + 1, r.final⟩
    else ⟨sentOf q, 1, some e⟩

/-- the connection goes on to the next request after this one -/
def Continues (q : Req) : Prop := q.wrote = none ∧ q.ka = true ∧ q.reqLen = q.reqIn

instance (q : Req) : Decidable (Continues q) := by unfold Continues; exact inferInstance

end H1End
end LtVerif
