/-
  Model of the HTTP/1.x request-head parser:
    http_header_parse_hoff()              (http_header.c)  -> `splitHead`
    h1_recv_headers() 431 / blank checks  (h1.c)           -> `recvHead`
    http_request_parse_reqline()          (request.c)      -> `parseReqline`
    http_request_parse_headers()                           -> `parseHeaders`
    http_request_parse_single_header()                     -> `singleHeader`
    http_request_parse() / _headers_fin()                  -> `parsePost`, `parseHead`
    request_check_hostname(), http_request_host_normalize() (port part), host policy
  Tables of known methods / header names come from Extracted/H1Tables.lean.
  IPv6-literal host normalisation (inet_pton/ntop) is NOT modelled: `parseHead`
  reports `skipV6` for such inputs and the correspondence skips them.
-/
import LtVerif.Model.Burl
import LtVerif.Extracted.H1Tables
namespace LtVerif
open B

def methodTable : List Bytes := Extracted.methodNames.map ofString
def headerTable : List Bytes := Extracted.headerNames.map ofString

def isWs (b : UInt8) : Bool := b = sp || b = ht

/-- split into lines, each including its terminating LF; the last piece (without LF) is dropped -/
def splitLines : Bytes → Bytes → List Bytes
  | [], _ => []
  | b :: rest, cur =>
    if b = lf then (cur ++ [b]) :: splitLines rest [] else splitLines rest (cur ++ [b])

def isBlankLine (l : Bytes) : Bool := l = [lf] || l = [cr, lf]

/-- lines up to (excluding) the first blank line, and the blank line; `none` = incomplete -/
def takeHead : List Bytes → List Bytes → Option (List Bytes × Bytes)
  | [], _ => none
  | l :: rest, acc => if isBlankLine l then some (acc.reverse, l) else takeHead rest (l :: acc)

inductive HeadOut
  | incomplete
  | tooLarge                       -- 431
  | blank (len : Nat)              -- header block is just a blank line (h1_recv_headers handles)
  | head (lines : List Bytes) (len : Nat)
deriving Repr

/-- http_header_parse_hoff() + the limit checks of h1_recv_headers() -/
def recvHead (maxField : Nat) (block : Bytes) : HeadOut :=
  let ls := splitLines block []
  match takeHead ls [] with
  | none =>
    -- no terminator yet: 431 once the data exceeds the limit or has too many lines
    if block.length > maxField || ls.length + 1 ≥ 8191 then .tooLarge else .incomplete
  | some (lines, bl) =>
    let len := (lines.map List.length).sum + bl.length
    if len > maxField || lines.length + 1 ≥ 8191 then .tooLarge
    else if lines.isEmpty then .blank len
    else .head lines len

structure PReq where
  version : Nat := 0            -- 0 = HTTP/1.0, 1 = HTTP/1.1
  keepAlive : Bool := false
  method : Bytes := []
  target : Bytes := []
  host : Option Bytes := none
  bodyLen : Int := 0            -- -1 = chunked
  headers : List (Bytes × Bytes) := []   -- (lower-cased name, merged value), insertion order
  clSeen : Bool := false        -- rqst_htags bit of Content-Length
deriving Repr

abbrev PRes := Except Nat PReq   -- error = HTTP status

def getHeader (r : PReq) (name : Bytes) : Option Bytes :=
  match r.headers.find? (·.1 = name) with
  | some (_, v) => if v.isEmpty then none else some v
  | none => none

def hasTag (r : PReq) (name : Bytes) : Bool := (getHeader r name).isSome

/-- http_header_request_append(): merge repeated fields with ", " ("; " for Cookie) -/
def appendHeader (r : PReq) (name v : Bytes) : PReq :=
  if v.isEmpty then r else
  let sepr : Bytes := if name = ofString "cookie" then [59, sp] else [44, sp]
  let rec go : List (Bytes × Bytes) → List (Bytes × Bytes)
    | [] => [(name, v)]
    | (k, old) :: rest =>
      if k = name then (k, if old.isEmpty then v else old ++ sepr ++ v) :: rest
      else (k, old) :: go rest
  { r with headers := go r.headers }

def setHost (r : PReq) (h : Bytes) : PReq :=
  let lc := h.map toLower
  let rec go : List (Bytes × Bytes) → List (Bytes × Bytes)
    | [] => [(ofString "host", lc)]
    | (k, old) :: rest => if k = ofString "host" then (k, lc) :: rest else (k, old) :: go rest
  { r with host := some lc, headers := go r.headers }

def unsetHeader (r : PReq) (name : Bytes) : PReq :=
  { r with headers := r.headers.map fun (k, v) => if k = name then (k, []) else (k, v) }

/-- li_restricted_strtoint64(): all bytes digits and value ≤ INT64_MAX -/
def strtoInt64 (v : Bytes) : Option Nat :=
  if v.all isDigit then
    let n := v.foldl (fun acc d => acc * 10 + (d - 48).toNat) 0
    if n ≤ 9223372036854775807 then some n else none
  else none

/-- http_header_str_contains_token() -/
def skipSep : Bytes → Bytes
  | [] => []
  | b :: rest => if b = sp || b = ht || b = 44 then skipSep rest else b :: rest

def skipToComma : Bytes → Bytes
  | [] => []
  | b :: rest => if b = 44 then b :: rest else skipToComma rest

theorem skipSep_length_le (s : Bytes) : (skipSep s).length ≤ s.length := by
  induction s with
  | nil => simp [skipSep]
  | cons b rest ih => unfold skipSep; split <;> simp <;> omega

theorem skipToComma_length_le (s : Bytes) : (skipToComma s).length ≤ s.length := by
  induction s with
  | nil => simp [skipToComma]
  | cons b rest ih => unfold skipToComma; split <;> simp <;> omega

def containsTokenFuel (m : Bytes) : Nat → Bytes → Bool
  | 0, _ => false
  | fuel + 1, s =>
    let s1 := skipSep s
    if s1.length < m.length then false else
    let hit := eqIcase (s1.take m.length) m
    let after := s1.drop m.length
    if hit && (after.isEmpty || (match after.head? with
                                  | some b => b = sp || b = ht || b = 44 || b = 59
                                  | none => false)) then true
    else
      let s2 := skipToComma (if hit then after else s1)
      if s2.isEmpty then false else containsTokenFuel m fuel s2

def containsToken (s m : Bytes) : Bool := containsTokenFuel m (s.length + 1) s

/-- http_request_check_uri_strict(): bytes ≤ 32, 127 or 255 are invalid -/
def uriCharInvalidStrict (b : UInt8) : Bool := b ≤ 32 || (b &&& 0x7f) = 0x7f
/-- http_request_check_uri_fragment(): where the check of the target is left to URL
    normalisation, the fragment (from the first '#'), which normalisation drops unread, is
    checked here -/
def fragmentInvalidStrict (uri : Bytes) : Bool := (uri.dropWhile (· ≠ 35)).any uriCharInvalidStrict
/-- http_request_check_line_strict(): CTLs other than HT, and DEL, are invalid -/
def lineCharInvalidStrict (b : UInt8) : Bool := (b < 32 && b ≠ ht) || b = 127

def hkeyKnown (lcName : Bytes) : Bool := headerTable.contains lcName

/-- http_request_parse_header_other(): characters not allowed in a field name -/
def nameCharBad (strict : Bool) (b : UInt8) : Bool :=
  if isAlpha b || b = 45 then false
  else if b = sp || b = ht || b = cr || b = lf then true
  else if [40, 41, 60, 62, 64, 44, 58, 59, 92, 34, 47, 91, 93, 63, 61, 123, 125].contains b then true
  else if strict then b < 32 || b ≥ 127 else b = 0

/-- the cases of the `switch (id)` in http_request_parse_single_header() -/
inductive HKind
  | host | dupCheck | ifNoneMatch | connection | contentLength | transferEncoding | other
deriving Repr, DecidableEq

def classifyHeader (name : Bytes) : HKind :=
  if name = ofString "host" then .host
  else if name = ofString "if-none-match" then .ifNoneMatch
  else if name = ofString "if-modified-since" || name = ofString "content-type"
       || name = ofString "http2-settings" then .dupCheck
  else if name = ofString "connection" then .connection
  else if name = ofString "content-length" then .contentLength
  else if name = ofString "transfer-encoding" then .transferEncoding
  else .other

/-- http_request_parse_single_header() -/
def singleHeader (r : PReq) (name v : Bytes) : PRes :=
  match classifyHeader name with
  | .host =>
    if !hasTag r name then
      if v.length ≥ 1024 then .error 400 else .ok (setHost r v)
    else if r.host = some v then .ok r
    else match getHeader r name with
      | some old => if eqIcase old v then .ok r else .error 400
      | none => .error 400
  | .dupCheck =>
    match getHeader r name with
    | some old => if eqIcase old v then .ok r else .error 400
    | none => .ok (appendHeader r name v)
  | .ifNoneMatch =>
    match getHeader r name with
    | some _ => .ok r
    | none => .ok (appendHeader r name v)
  | .connection =>
    let ka : Bool :=
      if (v.length = 5 && eqIcase v (ofString "close")) || containsToken v (ofString "close") then false
      else if containsToken v (ofString "keep-alive") then true
      else r.keepAlive
    .ok (appendHeader { r with keepAlive := ka } name v)
  | .contentLength =>
    if !r.clSeen then
      match strtoInt64 v with
      | some n =>
        .ok { appendHeader r name v with
                bodyLen := if r.bodyLen = 0 then (n : Int) else r.bodyLen, clSeen := true }
      | none => .error 400
    else .error 400
  | .transferEncoding =>
    if r.version ≠ 1 then .error 400
    else if !eqIcase v (ofString "chunked") then .error 501
    else if r.bodyLen = -1 then .error 400       -- a second Transfer-Encoding: chunked field
    else .ok { r with bodyLen := -1 }
  | .other => .ok (appendHeader r name v)

/-- absolute-form / special targets: http_request_parse_reqline_uri() -/
def reqlineUri (o : Opts) (r : PReq) (uri : Bytes) : Except Nat (PReq × Bytes) :=
  let tryScheme (n : Nat) (scheme : String) : Option (Bytes × Bytes) :=
    if uri.length > n && eqIcase (uri.take n) (ofString scheme) then
      let rest := uri.drop n
      match findIdx (· = slash) rest 0 with
      | some i => some (rest.take i, rest.drop i)
      | none => none
    else none
  let abs := match tryScheme 7 "http://" with
             | some x => some x
             | none => tryScheme 8 "https://"
  match abs with
  | some (host, nuri) =>
    if host.length = 0 || host.length ≥ 1024 then .error 400 else .ok (setHost r host, nuri)
  | none =>
    if !o.headerStrict
       || (r.method = ofString "CONNECT" && (uri.head? = some colon || (uri.head?.map isDigit).getD false))
       || (r.method = ofString "OPTIONS" && uri = [42]) then .ok (r, uri)
    else .error 400

/-- http_request_parse_reqline() up to (excluding) the final character check:
    version, method and (possibly absolute-form) target -/
def parseReqlineCore (o : Opts) (line : Bytes) : Except Nat (PReq × Bytes) :=
  if line.length < 13 then .error 400 else
  let body? : Option Bytes :=
    if line.getD (line.length - 2) 0 = cr then some (line.take (line.length - 2))
    else if !o.headerStrict then some (line.take (line.length - 1))
    else none
  match body? with
  | none => .error 400
  | some l =>
    let n := l.length
    let proto := l.drop (n - 8)
    let ver? : Option Nat :=
      if l.getD (n - 9) 0 = sp && proto = ofString "HTTP/1.1" then some 1
      else if l.getD (n - 9) 0 = sp && proto = ofString "HTTP/1.0" then some 0
      else none
    match ver? with
    | none => .error 400
    | some ver =>
      if l.getD (n - 10) 0 = sp then .error 400 else
      let method := l.takeWhile (· ≠ sp)
      if !methodTable.contains method then .error 501 else
      let i := method.length
      if i + 1 = n - 8 then .error 400 else
      let uri := (l.take (n - 9)).drop (i + 1)
      let r0 : PReq := { version := ver, keepAlive := ver = 1, method := method }
      if uri.head? = some slash then .ok (r0, uri) else reqlineUri o r0 uri

/-- http_request_parse_reqline(); `block` = whole header block (for the NUL scan in lenient mode) -/
def parseReqline (o : Opts) (line : Bytes) (block : Bytes) : PRes :=
  match parseReqlineCore o line with
  | .error e => .error e
  | .ok (r1, uri') =>
    if uri'.isEmpty then .error 400 else
    let bad : Bool :=
      if o.headerStrict then
        -- (deferred to URL normalisation, except for CONNECT whose target is not normalised)
        if o.ctrlsReject && r1.method ≠ ofString "CONNECT" then fragmentInvalidStrict uri'
        else uri'.any uriCharInvalidStrict
      else block.contains 0
    if bad then .error 400 else .ok { r1 with target := uri' }

/-- group physical lines into logical (folded) field lines: continuation lines start with SP/HT -/
def startsWs (c : Bytes) : Bool := (c.head?.map isWs).getD false

def groupFolds : List Bytes → List (List Bytes)
  | [] => []
  | l :: rest =>
    match rest.head?, groupFolds rest with
    | some nxt, g :: gs => if startsWs nxt then (l :: g) :: gs else [l] :: g :: gs
    | _, gs => [l] :: gs

/-- replace the line end of a physical line that is followed by a continuation line:
    CRLF -> two spaces, bare LF -> one space (lenient) or error (strict) -/
def foldJoin (strict : Bool) (l : Bytes) : Option Bytes :=
  let n := l.length
  if n ≥ 2 && l.getD (n - 2) 0 = cr then some (l.take (n - 2) ++ [sp, sp])
  else if strict then none
  else some (l.take (n - 1) ++ [sp])

/-- unfold a logical line: every physical line but the last gets its line end replaced -/
def joinFolds (strict : Bool) : List Bytes → Option Bytes
  | [] => none
  | [l] => some l
  | l :: rest =>
    match foldJoin strict l, joinFolds strict rest with
    | some a, some b => some (a ++ b)
    | _, _ => none

/-- strip the line end of the (unfolded) line: CRLF, or bare LF in lenient mode only -/
def stripEol (strict : Bool) (l : Bytes) : Option Bytes :=
  let n := l.length
  if n ≥ 2 && l.getD (n - 2) 0 = cr then some (l.take (n - 2))
  else if strict then none else some (l.take (n - 1))

def dropTrailingWs (v : Bytes) : Bytes := (v.reverse.dropWhile isWs).reverse

/-- tokenizer part of http_request_parse_headers(): one logical (folded) field line
    -> (lower-cased field name, value with surrounding whitespace removed) -/
def fieldOf (o : Opts) (phys : List Bytes) : Except Nat (Bytes × Bytes) :=
  let strict := o.headerStrict
  match phys with
  | [] => .error 400
  | first :: conts =>
    match findIdx (· = colon) first 0 with
    | none => .error 400
    | some ci =>
      let rawKey := first.take ci
      let wsBefore := (rawKey.getLast?.map isWs).getD false
      if wsBefore && strict then .error 400 else
      let key := if wsBefore then dropTrailingWs rawKey else rawKey
      if key.isEmpty then .error 400 else
      let lc := key.map toLower
      let known := hkeyKnown lc
      -- field-name character check for names not in the table
      let tail := key.dropWhile fun b => isAlpha b || b = 45
      if !known && tail.any (nameCharBad strict) then .error 400 else
      match joinFolds strict (first :: conts) with
      | none => .error 400
      | some joined =>
        match stripEol strict joined with
        | none => .error 400
        | some body =>
          -- leading whitespace is skipped on the first physical line only (before unfolding)
          let lead := ((first.drop (ci + 1)).takeWhile isWs).length
          let v0 := body.drop (ci + 1 + lead)
          .ok (lc, dropTrailingWs v0)

/-- semantic part: empty values are ignored (400 for Content-Length), strict value
    character check, then http_request_parse_single_header() -/
def applyField (o : Opts) (r : PReq) (f : Bytes × Bytes) : PRes :=
  let (lc, v) := f
  if v.isEmpty then
    (if lc = ofString "content-length" || lc = ofString "transfer-encoding" then .error 400 else .ok r)
  else if o.headerStrict && v.any lineCharInvalidStrict then .error 400
  else singleHeader r lc v

def parseFieldLine (o : Opts) (r : PReq) (phys : List Bytes) : PRes :=
  match fieldOf o phys with
  | .error e => .error e
  | .ok f => applyField o r f

def headerStep (o : Opts) (acc : PRes) (g : List Bytes) : PRes :=
  match acc with
  | .error e => .error e
  | .ok r => parseFieldLine o r g

def parseHeaders (o : Opts) (r : PReq) (lines : List Bytes) : PRes :=
  (groupFolds lines).foldl (headerStep o) (.ok r)

/-! ### host policy -/

/-- request_check_hostname() for non-IPv6 hosts; returns the (possibly modified) host -/
def checkHostnameV4 (h : Bytes) : Option Bytes :=
  let ci := findIdx (· = colon) h 0
  let hostPart := match ci with | some i => h.take i | none => h
  let portPart := match ci with | some i => h.drop i | none => []   -- includes ':'
  if hostPart.isEmpty then none else
  let hostPart := if hostPart.getLast? = some dot then hostPart.dropLast else hostPart
  if hostPart.isEmpty then none else
  -- label scan
  let rec scan (rest : Bytes) (idx labelLen : Nat) (allnum numeric : Bool) (level : Nat) :
      Option (Nat × Bool × Bool × Nat) :=
    match rest with
    | [] => some (labelLen, allnum, numeric, level)
    | ch :: more =>
      let labelLen := labelLen + 1
      if isDigit ch then scan more (idx + 1) labelLen allnum numeric level
      else if isAlpha ch || (ch = 45 && idx ≠ 0) then scan more (idx + 1) labelLen allnum false level
      else if ch = dot && labelLen ≠ 1 && more.head? ≠ some 45 then
        scan more (idx + 1) 0 (allnum && numeric) true (level + 1)
      else none
  match scan hostPart 0 0 true true 0 with
  | none => none
  | some (labelLen, allnum, numeric, level) =>
    if labelLen = 0 || (numeric && (level ≠ 3 || !allnum)) then none else
    -- port: ":" digits*; a lone trailing ':' is removed
    match portPart with
    | [] => some hostPart
    | _ :: digits =>
      if digits.all isDigit then
        (if digits.isEmpty then some hostPart else some (hostPart ++ portPart))
      else none

/-- C strtol(s, &e, 0) restricted to what host normalisation needs:
    returns (value, all input consumed) ; value saturates (any value > 65535 is rejected anyway) -/
def strtolBase0 (s : Bytes) : Option (Nat × Bool) :=
  let isSpace (b : UInt8) : Bool := b = sp || (9 ≤ b && b ≤ 13)
  let s := s.dropWhile isSpace
  let (neg, s) := match s with
    | 45 :: t => (true, t)
    | 43 :: t => (false, t)
    | _ => (false, s)
  let digitVal (base : Nat) (b : UInt8) : Option Nat :=
    match hexVal b with
    | some v => if v.toNat < base then some v.toNat else none
    | none => none
  let run (base : Nat) (ds : Bytes) : Nat × Bytes :=
    let pre := ds.takeWhile fun b => (digitVal base b).isSome
    (pre.foldl (fun acc b => acc * base + ((digitVal base b).getD 0)) 0, ds.drop pre.length)
  let (value, rest, any) :=
    match s with
    | 48 :: x :: t =>
      if (x = 120 || x = 88) && ((t.head?.bind (digitVal 16)).isSome) then
        let (v, r) := run 16 t; (v, r, true)
      else let (v, r) := run 8 (48 :: x :: t); (v, r, true)
    | _ =>
      match s.head? with
      | some d => if d = 48 then (let (v, r) := run 8 s; (v, r, true))
                  else if isDigit d then (let (v, r) := run 10 s; (v, r, true))
                  else (0, s, false)
      | none => (0, s, false)
  if !any then some (0, false)   -- no conversion: e == start, *e != 0 unless empty (handled by caller)
  else if neg && value ≠ 0 then some (70000, rest.isEmpty)  -- negative: out of range
  else some (value, rest.isEmpty)

/-- http_request_host_normalize() for hosts not starting with '[' (IPv4 text is already canonical) -/
def hostNormalizeV4 (schemePort : Nat) (h : Bytes) : Option Bytes :=
  match findIdx (· = colon) h 0 with
  | none => some h
  | some ci =>
    if ci = 0 then none else
    let hostPart := h.take ci
    let portStr := h.drop (ci + 1)
    if portStr.isEmpty then some hostPart else
    match strtolBase0 portStr with
    | none => none
    | some (port, consumed) =>
      if 0 < port && port ≤ 65535 && consumed then
        (if port ≠ schemePort then some (hostPart ++ [colon] ++ natToDec port) else some hostPart)
      else none

inductive HeadRes
  | err (status : Nat)
  | skipV6
  | ok (r : PReq) (t : Target)
deriving Repr

/-- http_request_parse(): target, host policy, cross-field framing rules -/
def parsePost (o : Opts) (schemePort : Nat) (r : PReq) : HeadRes :=
  let special := (r.method = ofString "CONNECT") || (r.method = ofString "OPTIONS" && r.target = [42])
  match parseTarget o special r.target with
  | .error e => .err e
  | .ok t =>
    -- host policy
    let hostStep : Option (Option PReq) :=      -- none = skip (IPv6), some none = reject
      match r.host with
      | none => if r.version ≥ 1 then some none else some (some r)
      | some h =>
        if h.head? = some 91 && (o.hostStrict || o.hostNormalize) then none else
        let h1? : Option Bytes :=
          if o.hostStrict then checkHostnameV4 h
          else if h.any (fun b => b = 0 || b = cr || b = lf) then none else some h
        match h1? with
        | none => some none
        | some h1 =>
          let h2? := if o.hostNormalize then hostNormalizeV4 schemePort h1 else some h1
          match h2? with
          | none => some none
          | some h2 =>
            some (some { r with host := some h2,
                                headers := r.headers.map fun (k, v) =>
                                  if k = ofString "host" then (k, h2) else (k, v) })
  match hostStep with
  | none => .skipV6
  | some none => .err 400
  | some (some r) =>
    if r.version ≠ 1 && (hasTag r (ofString "upgrade") || hasTag r (ofString "http2-settings")) then .err 400
    else if r.bodyLen = 0 then
      if r.method = ofString "POST" && !r.clSeen then .err 411 else .ok r t
    else
      let tecl := r.bodyLen = -1 && r.clSeen
      if tecl && o.headerStrict then .err 400 else
      let r := if tecl then { unsetHeader r (ofString "content-length") with keepAlive := false, clSeen := false } else r
      if (r.method = ofString "GET" || r.method = ofString "HEAD") && !o.methodGetBody then .err 400
      else .ok r t

inductive ReqOut
  | incomplete
  | blank
  | skipV6
  | err (status : Nat)              -- final status; keep-alive cleared
  | ok (r : PReq) (t : Target)
deriving Repr

/-- whole head: h1_recv_headers() + http_request_headers_process() -/
def parseHead (o : Opts) (maxField : Nat) (schemePort : Nat) (block : Bytes) : ReqOut :=
  match recvHead maxField block with
  | .incomplete => .incomplete
  | .tooLarge => .err 431
  | .blank _ => .blank
  | .head lines len =>
    match lines with
    | [] => .blank
    | rl :: fields =>
      match parseReqline o rl (block.take len) with
      | .error e => .err e
      | .ok r0 =>
        -- http_request_parse_headers(): in strict mode the blank line that ends the head must be CRLF too
        if o.headerStrict && block.getD (len - 2) 0 != cr then .err 400 else
        match parseHeaders o r0 fields with
        | .error e => .err e
        | .ok r1 =>
          match parsePost o schemePort r1 with
          | .err e => .err e
          | .skipV6 => .skipV6
          | .ok r t => .ok r t

end LtVerif
