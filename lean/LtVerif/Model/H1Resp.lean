/-
  Model of how lighttpd turns the response a handler produced into an HTTP/1.x message:

    response header store  (src/http_header.c over src/array.c)      -> `Hdrs.*`
    http_response_write_prepare()   (src/response.c)                  -> `writePrepare`
      status class, HEAD, resp_body_finished, HTTP version, existing
      Content-Length / Transfer-Encoding / Upgrade  =>  Content-Length n | chunked | close
      http_response_static_errdoc() (built-in error page), http_response_body_clear()
    h1_send_headers()               (src/h1.c)                        -> `sendHeaders`
      keep-alive decision, Connection field, status line, field serialisation, Date, Server
    h1_send_1xx()                                                     -> `send1xx`
    the body a handler streams afterwards (src/http_chunk.c)          -> Model/HttpChunkEnc
    buffer_append_string_encoded()  (src/buffer.c, extracted tables)  -> `encodeStr`
    http_response_redirect_to_directory() (src/http-header-glue.c)    -> `redirectLocation`

  Range processing (C15), backend trailers / pass-through of backend chunking (C10) and filter
  plugins are outside this model; the descriptor is the state right before
  CON_STATE_RESPONSE_START.
-/
import LtVerif.Model.HttpChunkEnc
import LtVerif.Extracted.H1RespTables
namespace LtVerif
open B

/-! ### response header store -/

structure Hdr where
  key : Bytes
  value : Bytes
deriving Repr, DecidableEq

namespace Hdrs

/-- array_keycmp(): same length and equal up to ASCII case (known field names are matched by
    their enum id, which is the same relation on names) -/
def sameName (a b : Bytes) : Bool := eqIcase a b

def get (hs : List Hdr) (k : Bytes) : Option Bytes :=
  (hs.find? fun h => sameName h.key k).map (·.value)

/-- the field is present with a non-blank value (what the `resp_htags` bit says for known ids) -/
def has (hs : List Hdr) (k : Bytes) : Bool :=
  match get hs k with
  | some v => !v.isEmpty
  | none => false

def update (hs : List Hdr) (k v : Bytes) : List Hdr :=
  hs.map fun h => if sameName h.key k then { h with value := v } else h

/-- http_header_response_set(): overwrite in place (first spelling of the name is kept) or append -/
def set (hs : List Hdr) (k v : Bytes) : List Hdr :=
  if (get hs k).isSome then update hs k v else hs ++ [⟨k, v⟩]

/-- http_header_response_unset(): blanks the value if the field is flagged present -/
def unset (hs : List Hdr) (k : Bytes) : List Hdr :=
  if has hs k then update hs k [] else hs

/-- http_header_response_insert(): a repeated field goes on a new line inside the stored value -/
def insert (hs : List Hdr) (k v : Bytes) : List Hdr :=
  if v.isEmpty then hs
  else
    match get hs k with
    | some old =>
      if old.isEmpty then update hs k v
      else update hs k (old ++ [cr, lf] ++ k ++ [colon, sp] ++ v)
    | none => hs ++ [⟨k, v⟩]

/-- http_header_response_append(): comma-joined -/
def append (hs : List Hdr) (k v : Bytes) : List Hdr :=
  if v.isEmpty then hs
  else
    match get hs k with
    | some old =>
      if old.isEmpty then update hs k v
      else update hs k (old ++ [44, sp] ++ v)
    | none => hs ++ [⟨k, v⟩]

end Hdrs

def nContentLength : Bytes := ofString "Content-Length"
def nTransferEncoding : Bytes := ofString "Transfer-Encoding"
def nUpgrade : Bytes := ofString "Upgrade"
def nConnection : Bytes := ofString "Connection"
def nContentType : Bytes := ofString "Content-Type"
def nContentEncoding : Bytes := ofString "Content-Encoding"
def nWwwAuthenticate : Bytes := ofString "WWW-Authenticate"
def nDate : Bytes := ofString "Date"
def nServer : Bytes := ofString "Server"
def nLocation : Bytes := ofString "Location"

/-! ### descriptor and state -/

inductive Meth where
  | get | head | post | connect
deriving Repr, DecidableEq

/-- what the handler left behind when the response starts -/
structure RespIn where
  status : Nat
  meth : Meth := .get
  ver11 : Bool := true                 -- HTTP/1.1 (else HTTP/1.0)
  finished : Bool := true              -- r->resp_body_finished
  keepAlive : Bool := true             -- r->keep_alive > 0
  hasHandler : Bool := true            -- r->handler_module != NULL
  errorIntercept : Bool := false
  ehSaved : Nat := 0                   -- r->error_handler_saved_status (0, a status, or the 65535 flag)
  kaReqExceeded : Bool := false        -- con->request_count > max_keep_alive_requests
  kaIdleZero : Bool := false           -- max_keep_alive_idle == 0
  reqBodyUnread : Bool := false        -- request body not completely read (and not streamed)
  serverTag : Option Bytes := none
  closeNormally : Bool := true         -- the handler ends a streamed body with http_chunk_close()
  hdrs : List Hdr := []
  queued : Bytes := []                 -- r->write_queue contents
  pieces : List Bytes := []            -- appended later with http_chunk_append_*()
deriving Repr

structure RespSt where
  status : Nat
  hdrs : List Hdr
  body : Bytes
  finished : Bool
  sendChunked : Bool
  keepAlive : Bool
deriving Repr, DecidableEq

/-- http_status_append() -/
def statusText (s : Nat) : Bytes :=
  match Extracted.statusTable.find? fun e => e.1 = s with
  | some e => ofString e.2
  | none => natToDec s ++ [sp]

/-- the built-in error page of http_response_static_errdoc() -/
def errorPage (s : Nat) : Bytes :=
  ofString "<!DOCTYPE html>\n<html lang=\"en\">\n <head>\n  <meta charset=\"UTF-8\" />\n  <title>"
    ++ statusText s
    ++ ofString "</title>\n </head>\n <body>\n  <h1>"
    ++ statusText s
    ++ ofString "</h1>\n </body>\n</html>\n"

/-- http_response_body_clear(r, preserve_length) -/
def bodyClear (st : RespSt) (preserveLength : Bool) : RespSt :=
  let hs := Hdrs.unset st.hdrs nTransferEncoding
  let hs := if preserveLength then hs else Hdrs.unset hs nContentLength
  { st with hdrs := hs, body := [], finished := false, sendChunked := false }

/-- does http_response_static_errdoc() replace the response?  It returns early if
    `NULL == handler_module ? saved_status >= 65535 : (!error_intercept || saved_status)` -/
def errdocApplies (d : RespIn) : Bool :=
  if !d.hasHandler then !(decide (d.ehSaved ≥ 65535)) else d.errorIntercept && d.ehSaved = 0

/-- http_response_static_errdoc(): http_response_errdoc_init() keeps only WWW-Authenticate of a 401 -/
def staticErrdoc (d : RespIn) (st : RespSt) : RespSt :=
  if !errdocApplies d then st
  else
    let keep : List Hdr :=
      if st.status = 401 then
        match Hdrs.get st.hdrs nWwwAuthenticate with
        | some v => if v.isEmpty then [] else [⟨nWwwAuthenticate, v⟩]
        | none => []
      else []
    { st with hdrs := Hdrs.set keep nContentType (ofString "text/html"),
              body := errorPage st.status, finished := true, sendChunked := false }

def isBodiless (status : Nat) : Bool := status = 204 || status = 205 || status = 304

/-- http_response_write_prepare(), first part: `switch (r->http_status)` -/
def wpStatus (d : RespIn) : RespSt :=
  let st0 : RespSt := { status := d.status, hdrs := d.hdrs, body := d.queued, finished := d.finished,
                        sendChunked := false, keepAlive := d.keepAlive }
  if d.status = 200 then st0
  else if d.status = 204 || d.status = 205 then
    { bodyClear { st0 with hdrs := Hdrs.unset st0.hdrs nContentLength } true with finished := true }
  else if d.status = 304 then { bodyClear st0 true with finished := true }
  else if 400 ≤ d.status && d.status < 600 then staticErrdoc d st0
  else st0

/-- second part: choose Content-Length / chunked / close -/
def wpFraming (d : RespIn) (st1 : RespSt) : RespSt :=
  if st1.finished then
    if !(Hdrs.has st1.hdrs nContentLength || Hdrs.has st1.hdrs nTransferEncoding) then
      if st1.body.length > 0 then
        { st1 with hdrs := Hdrs.set st1.hdrs nContentLength (natToDec st1.body.length) }
      else if d.meth ≠ .head && st1.status ≠ 204 && st1.status ≠ 304 then
        { st1 with hdrs := Hdrs.set st1.hdrs nContentLength [48] }
      else st1
    else st1
  else if !(Hdrs.has st1.hdrs nContentLength || Hdrs.has st1.hdrs nTransferEncoding
            || Hdrs.has st1.hdrs nUpgrade) then
    if d.meth = .connect && st1.status = 200 then st1
    else if d.ver11 then
      { st1 with sendChunked := true, body := chunkFirst st1.body,
                 hdrs := Hdrs.append st1.hdrs nTransferEncoding (ofString "chunked") }
    else { st1 with keepAlive := false }
  else st1

/-- last part: a HEAD response is like GET, without the content -/
def wpHead (d : RespIn) (st2 : RespSt) : RespSt :=
  if d.meth = .head then { bodyClear st2 true with finished := true } else st2

/-- http_response_write_prepare() -/
def writePrepare (d : RespIn) : RespSt := wpHead d (wpFraming d (wpStatus d))

/-- http_response_omit_header(): X-Sendfile and X-LIGHTTPD-* are internal -/
def omitHeader (k : Bytes) : Bool :=
  eqIcase k (ofString "X-Sendfile") || eqIcase (k.take 11) (ofString "X-LIGHTTPD-")

def renderField (h : Hdr) : Bytes := h.key ++ [colon, sp] ++ h.value

def fieldVisible (h : Hdr) : Bool :=
  !h.key.isEmpty && !h.value.isEmpty &&
    !((h.key.head?.map fun b => b &&& 0xdf) == some 88 && omitHeader h.key)

/-- the lines of the header section (without line ends): status line, fields, Date, Server -/
def headLines (ver11 : Bool) (status : Nat) (hs : List Hdr) (date : Bytes) (tag : Option Bytes) :
    List Bytes :=
  ((if ver11 then ofString "HTTP/1.1 " else ofString "HTTP/1.0 ") ++ statusText status)
    :: (hs.filter fieldVisible).map renderField
    ++ (if Hdrs.has hs nDate then [] else [ofString "Date: " ++ date])
    ++ (match tag with
        | some t => if Hdrs.has hs nServer then [] else [ofString "Server: " ++ t]
        | none => [])

def renderHead (lines : List Bytes) : Bytes :=
  lines.flatMap (· ++ [cr, lf]) ++ [cr, lf]

/-- the keep-alive decision at the top of h1_send_headers() -/
def kaAfterLimits (d : RespIn) (ka : Bool) : Bool :=
  if d.kaIdleZero || d.kaReqExceeded then false
  else if d.reqBodyUnread then false
  else ka

/-- the Connection / Content-Encoding adjustments of h1_send_headers() -/
def finalHdrs (d : RespIn) (st : RespSt) : List Hdr :=
  let ka := kaAfterLimits d st.keepAlive
  let hs :=
    if Hdrs.has st.hdrs nUpgrade && d.ver11 then Hdrs.set st.hdrs nConnection (ofString "upgrade")
    else if !ka then Hdrs.set st.hdrs nConnection (ofString "close")
    else if !d.ver11 then Hdrs.set st.hdrs nConnection (ofString "keep-alive")
    else st.hdrs
  if st.status = 304 && Hdrs.has hs nContentEncoding then Hdrs.unset hs nContentEncoding else hs

structure RespOut where
  keepAlive : Bool
  finished : Bool
  sendChunked : Bool
  status : Nat
  hdrs : List Hdr         -- final header store
  head : Bytes            -- serialised header section
  body : Bytes            -- everything queued behind it
deriving Repr, DecidableEq

/-- write_prepare, send_headers, then the streamed pieces and the close -/
def respond (d : RespIn) (date : Bytes) : RespOut :=
  let st := writePrepare d
  let hs := finalHdrs d st
  let head := renderHead (headLines d.ver11 st.status hs date d.serverTag)
  let streamed : Bytes :=
    if st.finished then []
    else chunkStream st.sendChunked d.pieces d.closeNormally
  { keepAlive := kaAfterLimits d st.keepAlive, finished := st.finished || d.closeNormally,
    sendChunked := st.sendChunked, status := st.status, hdrs := hs, head := head,
    body := st.body ++ streamed }

/-- h1_send_1xx(): an interim response is a header section and nothing else -/
def send1xx (status : Nat) (hs : List Hdr) : Bytes :=
  renderHead ((ofString "HTTP/1.1 " ++ statusText status)
    :: (hs.filter fun h => !h.key.isEmpty && !h.value.isEmpty).map renderField)

/-! ### request-derived data in header fields -/

def encTable : Nat → List Bool
  | 0 => Extracted.encRelUri
  | 1 => Extracted.encRelUriPart
  | 2 => Extracted.encHtml
  | _ => Extracted.encMinimalXml

def mustEncode (enc : Nat) (b : UInt8) : Bool := (encTable enc).getD b.toNat true

def encodeByte (enc : Nat) (b : UInt8) : Bytes :=
  if !mustEncode enc b then [b]
  else if enc ≤ 1 then [pct, hexDigitUC (b >>> 4), hexDigitUC (b &&& 0xf)]
  else [38, 35, 120, hexDigitUC (b >>> 4), hexDigitUC (b &&& 0xf), 59]      -- "&#xHH;"

/-- buffer_append_string_encoded(b, s, len, encoding) -/
def encodeStr (enc : Nat) (s : Bytes) : Bytes := s.flatMap (encodeByte enc)

/-- the value http_response_redirect_to_directory() stores in Location / Content-Location;
    `pfx` is "scheme://authority" (absolute redirects) or empty -/
def redirectLocation (pfx path query : Bytes) : Bytes :=
  pfx ++ encodeStr 0 path ++ [slash] ++ (if query.isEmpty then [] else qmark :: query)

/-! ### reference side (written from RFC 9112, not from the C)

  What a client that follows the RFC takes the message to be.  Two levels: `rfcFraming` reads a
  header *list*; `wireDecode` reads the *bytes on the wire* (header section up to the first empty
  line, status line, `name ":" OWS value` fields — every one of them, so conflicting duplicates are
  seen — then §6.3 and the body).  The chunked decoder `rfcDechunk` is written from §7.1 and is
  independent of lighttpd's own request-side decoder model. -/

inductive Framing where
  | none                  -- the message has no body (HEAD, 1xx, 204, 304)
  | length (n : Nat)      -- Content-Length
  | chunked               -- Transfer-Encoding: chunked
  | close                 -- delimited by the end of the connection
  | invalid               -- the framing fields cannot be interpreted
deriving Repr, DecidableEq

def decNat (v : Bytes) : Nat := v.foldl (fun a b => 10 * a + (b.toNat - 48)) 0

def isOws (b : UInt8) : Bool := b = sp || b = ht

/-- leading optional whitespace of a field value is not part of the value -/
def ltrim (v : Bytes) : Bytes := v.dropWhile isOws

/-- §6.3 on the Content-Length / Transfer-Encoding values that were received (all of them) -/
def framingOf (isHead : Bool) (status : Nat) (cls tes : List Bytes) : Framing :=
  if isHead || status / 100 = 1 || status = 204 || status = 304 then .none
  else if !tes.isEmpty then
    (if tes = [ofString "chunked"] && cls.isEmpty then .chunked else .invalid)
  else
    match cls with
    | [] => .close
    | v :: rest =>
      if rest.all (· == v) && !v.isEmpty && v.all isDigit then .length (decNat v) else .invalid

/-- the non-blank value (OWS-trimmed) the store holds for a name, as a list of at most one -/
def Hdrs.vals (hs : List Hdr) (k : Bytes) : List Bytes :=
  match Hdrs.get hs k with
  | some v => if v.isEmpty then [] else [ltrim v]
  | none => []

/-- §6.3 read off a header store (sound for stores without duplicate names: `Hdrs.NoDup`) -/
def rfcFraming (isHead : Bool) (status : Nat) (hs : List Hdr) : Framing :=
  framingOf isHead status (Hdrs.vals hs nContentLength) (Hdrs.vals hs nTransferEncoding)

/-! §7.1 chunked decoder -/

/-- hex number at the front: (value, number of digits, rest) -/
def readHex : Bytes → Nat → Nat → Nat × Nat × Bytes
  | [], v, k => (v, k, [])
  | b :: rest, v, k =>
    match hexVal b with
    | some d => readHex rest (v * 16 + d.toNat) (k + 1)
    | none => (v, k, b :: rest)

/-- skip to just behind the next CRLF (chunk extensions, a trailer line) -/
def skipLine : Bytes → Option Bytes
  | [] => none
  | [_] => none
  | a :: b :: rest => if a = cr ∧ b = lf then some rest else skipLine (b :: rest)

/-- trailer section: lines until an empty one -/
def skipTrailers : Nat → Bytes → Option Bytes
  | 0, _ => none
  | fuel + 1, w =>
    match w with
    | a :: b :: rest => if a = cr ∧ b = lf then some rest else (skipLine w).bind (skipTrailers fuel)
    | _ => none

/-- chunked-body = *chunk last-chunk trailer-section CRLF: (decoded body, what follows) -/
def rfcDechunk : Nat → Bytes → Bytes → Option (Bytes × Bytes)
  | 0, _, _ => none
  | fuel + 1, w, acc =>
    match readHex w 0 0 with
    | (n, k, r) =>
      if k = 0 then none
      else
        match skipLine r with
        | none => none
        | some r1 =>
          if n = 0 then (skipTrailers (r1.length + 1) r1).map fun rest => (acc, rest)
          else if r1.length < n + 2 then none
          else if (r1.drop n).take 2 ≠ [cr, lf] then none
          else rfcDechunk fuel (r1.drop (n + 2)) (acc ++ r1.take n)

/-- split what follows the header section into (message body, bytes that belong to what follows) -/
def rfcBody : Framing → Bytes → Option (Bytes × Bytes)
  | .none, w => some ([], w)
  | .length n, w => if n ≤ w.length then some (w.take n, w.drop n) else none
  | .chunked, w => rfcDechunk (w.length + 1) w []
  | .close, w => some (w, [])
  | .invalid, _ => none

/-! wire level -/

/-- bytes up to the first LF (exclusive) and what follows it -/
def takeLine : Bytes → Option (Bytes × Bytes)
  | [] => none
  | b :: rest =>
    if b = lf then some ([], rest)
    else
      match takeLine rest with
      | some (l, r) => some (b :: l, r)
      | none => none

/-- a line must end in CR (before the LF that `takeLine` removed) -/
def stripCR (l : Bytes) : Option Bytes :=
  if l.getLast? = some cr then some l.dropLast else none

/-- the lines of the header section up to the first empty line, and everything behind it -/
def splitHead : Nat → Bytes → Option (List Bytes × Bytes)
  | 0, _ => none
  | fuel + 1, w =>
    match takeLine w with
    | none => none
    | some (l, r) =>
      match stripCR l with
      | none => none
      | some l' =>
        if l'.isEmpty then some ([], r)
        else
          match splitHead fuel r with
          | some (ls, rest) => some (l' :: ls, rest)
          | none => none

/-- field-line = field-name ":" OWS field-value -/
def parseField (l : Bytes) : Option (Bytes × Bytes) :=
  let name := l.takeWhile (· ≠ colon)
  match l.dropWhile (· ≠ colon) with
  | [] => none
  | _ :: v => if name.isEmpty then none else some (name, ltrim v)

/-- status-line = "HTTP/1." DIGIT SP 3DIGIT SP …  -> status code -/
def parseStatusLine (l : Bytes) : Option Nat :=
  let code := (l.drop 9).take 3
  if l.take 7 = ofString "HTTP/1." ∧ (l.drop 8).head? = some sp ∧ code.length = 3 ∧ code.all isDigit
      ∧ (l.drop 12).head? = some sp
  then some (decNat code) else none

def fieldVals (fs : List (Bytes × Bytes)) (k : Bytes) : List Bytes :=
  (fs.filter fun f => eqIcase f.1 k).map (·.2)

/-- the whole client: (status, fields, body, bytes left for the next response) -/
def wireDecode (isHead : Bool) (w : Bytes) : Option (Nat × List (Bytes × Bytes) × Bytes × Bytes) :=
  match splitHead (w.length + 1) w with
  | some (sl :: fl, after) =>
    match parseStatusLine sl, fl.mapM parseField with
    | some st, some fs =>
      match rfcBody (framingOf isHead st (fieldVals fs nContentLength) (fieldVals fs nTransferEncoding)) after with
      | some (body, rest) => some (st, fs, body, rest)
      | none => none
    | _, _ => none
  | _ => none

/-- the body the handler meant the client to get -/
def intendedBody (d : RespIn) : Bytes :=
  if d.meth = .head || isBodiless d.status then []
  else if 400 ≤ d.status && d.status < 600 && errdocApplies d then errorPage d.status
  else d.queued ++ (if d.finished then [] else d.pieces.flatten)

/-! hypotheses of the property theorems -/

def NoCRLF (b : Bytes) : Prop := cr ∉ b ∧ lf ∉ b

/-- no stored name or value contains CR or LF (responses without repeated fields) -/
def HdrsClean (hs : List Hdr) : Prop := ∀ h ∈ hs, NoCRLF h.key ∧ NoCRLF h.value

/-- names are non-empty tokens without a colon -/
def KeysOk (hs : List Hdr) : Prop := ∀ h ∈ hs, h.key ≠ [] ∧ colon ∉ h.key

/-- the store holds at most one entry per field name (what array.c guarantees; every store
    operation preserves it: `c04_store_names_unique`) -/
def Hdrs.NoDup (hs : List Hdr) : Prop :=
  hs.Pairwise fun a b => Hdrs.sameName a.key b.key = false

/-- one entry per name, names are tokens: the store invariant that array.c maintains -/
def StoreOk (hs : List Hdr) : Prop := Hdrs.NoDup hs ∧ KeysOk hs

/-- a stored value: a CR/LF-free value, possibly followed by repeated-field continuations
    "\r\nName: value" as http_header_response_insert() writes them -/
inductive ValueOk (k : Bytes) : Bytes → Prop
  | plain (v : Bytes) : NoCRLF v → ValueOk k v
  | more (old k' v : Bytes) : ValueOk k old → Hdrs.sameName k' k = true → NoCRLF k' → k' ≠ [] → NoCRLF v →
      ValueOk k (old ++ [cr, lf] ++ k' ++ [colon, sp] ++ v)

def FieldsOk (hs : List Hdr) : Prop := ∀ h ∈ hs, NoCRLF h.key ∧ ValueOk h.key h.value

/-- the domain of the framing property: what a well-behaved handler hands to the response path.
    (Backend responses that violate these are the subject of C10; protocol upgrades and CONNECT
    tunnels have no message body in the sense of RFC 9112 §6.3.) -/
structure HandlerSane (d : RespIn) : Prop where
  /-- a final response (interim 1xx responses go through `send1xx`) -/
  status : 200 ≤ d.status
  /-- one entry per field name -/
  noDup : Hdrs.NoDup d.hdrs
  /-- the handler does not apply a transfer coding of its own -/
  noTE : Hdrs.has d.hdrs nTransferEncoding = false
  noUpgrade : Hdrs.has d.hdrs nUpgrade = false
  notTunnel : ¬ (d.meth = .connect ∧ d.status = 200)
  /-- a Content-Length the handler sets itself is the length of the body it produces -/
  declared : d.meth ≠ .head → isBodiless d.status = false → ∀ v, Hdrs.get d.hdrs nContentLength = some v →
      v.isEmpty = false → v = natToDec (d.queued ++ (if d.finished then [] else d.pieces.flatten)).length
  /-- a streamed body is ended with http_chunk_close() (aborted streams: C10) -/
  closes : d.closeNormally = true
  /-- sizes the chunk-size renderer model is exact for (the C argument is a 64-bit integer) -/
  sizes : chunkSizeOk d.queued.length ∧ ∀ p ∈ d.pieces, chunkSizeOk p.length

end LtVerif
