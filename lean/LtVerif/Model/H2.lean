/-
  HTTP/2 connection / stream state machine of src/h2.c (server side) at frame level:
    h2_parse_frames() dispatch and size check            -> `recvFrame`
    h2_recv_settings/ping/rst_stream/goaway/priority/window_update/data/headers
    h2_send_refused_stream, h2_discard_headers, h2_recv_trailers_r, h2_recv_end_data
    h2_send_goaway (+ h2_send_goaway_rst_stream), h2_send_rst_stream
    h2_process_streams() for handlers that answer at once (static files, error pages):
      h2_send_headers, h2_send_cqdata, h2_send_end_stream(_data), h2_retire_stream
  HEADERS payloads are abstract (`HdrKind`): the HPACK layer is C07's.  Window arithmetic is
  shared with Model/H2Flow.lean.  Time: "recently half-closed" (the 2 s window of
  h2c->half_closed_ts) is a Boolean that is set by the same events and never expires within
  a modelled scenario.
-/
import LtVerif.Model.H2Flow
namespace LtVerif

inductive StSt | open | hcRemote | hcLocal | closed
deriving Repr, DecidableEq

structure Strm where
  id : Nat
  st : StSt
  err : Bool := false            -- r->state == CON_STATE_ERROR
  swin : Int
  reqLen : Int                   -- r->reqbody_length (-1 = unknown)
  bodyIn : Nat := 0              -- reqbody_queue.bytes_in
  fudge : Int := 0               -- r->x.h2.rwin_fudge
  status : Nat
  pending : Nat                  -- response body bytes not yet framed
  headersSent : Bool := false
  incremental : Bool := false
  urg : Nat := 3                 -- urgency part of r->x.h2.prio
  file : Bool := false           -- response body is a FILE_CHUNK (static file), not memory
deriving Repr, DecidableEq

inductive Out
  | settingsAck
  | pingAck (octets : Bytes)
  | goaway (last code : Nat)
  | rst (sid code : Nat)
  | windowUpdate (sid inc : Nat)
  | headers (sid status : Nat) (endStream : Bool)
  | data (sid len : Nat) (endStream : Bool)      -- ONE DATA frame of `len` payload octets
deriving Repr, DecidableEq

structure H2Conn where
  streams : List Strm := []
  cid : Nat := 0                 -- h2c->h2_cid
  goaway : Int := 0              -- h2c->sent_goaway: 0, -1 (NO_ERROR sent), > 0 error code
  sentSettings : Bool := false   -- server SETTINGS not yet acknowledged by the client
  swin : Int := Extracted.h2ConnSendWindow
  initWin : Int := Extracted.h2PeerInitialWindow
  peerMaxFrame : Nat := Extracted.h2PeerMaxFrameSize
  fudge : Int := 0               -- connection rwin_fudge
  nRefused : Nat := 0
  nDiscarded : Nat := 0
  hcRecent : Bool := false       -- half_closed_ts within the last 2 s
  dead : Bool := false           -- connection finished: GOAWAY sent and no stream left
  stop : Bool := false           -- transient: h2_parse_frames() returned 0 after this frame
deriving Repr, DecidableEq

/-- what a HEADERS (+CONTINUATION) block decodes to -/
inductive HdrKind
  | request (status body : Nat) (reqLen : Int) (incremental : Bool) (file : Bool)
                                                                      -- well-formed or HTTP-level invalid (4xx)
  | hpackBad                                                          -- HPACK decoding error
deriving Repr, DecidableEq

inductive FrameIn
  | settings (ack : Bool) (sid : Nat) (params : List (Nat × Nat)) (junk : Nat)
  | ping (ack : Bool) (sid len : Nat) (octets : Bytes)
  | windowUpdate (sid len inc : Nat)
  | rstStream (sid len code : Nat)
  | priority (sid len dep : Nat)
  | priorityUpdate (sid len prid prio : Nat)   -- prio = h2_parse_priority_update() of the field value
  | goaway (sid len code : Nat)
  | data (sid len : Nat) (pad : Option Nat) (endStream : Bool)
  | headers (sid : Nat) (kind : HdrKind) (endStream : Bool) (dep : Option Nat) (padBad : Bool) (contBad : Bool)
  | continuation (sid : Nat)
  | pushPromise (sid : Nat)
  | unknown (ftype : Nat)
  | oversize
  | contFlood                    -- 32nd CONTINUATION frame of one header block (h2_recv_continuation)
deriving Repr, DecidableEq

namespace E
def protocol : Nat := 1
def internal : Nat := 2
def flowControl : Nat := 3
def streamClosed : Nat := 5
def frameSize : Nat := 6
def refused : Nat := 7
def compression : Nat := 9
def enhanceCalm : Nat := 11
end E

abbrev Res := H2Conn × List Out

def findStrm (c : H2Conn) (sid : Nat) : Option Strm := c.streams.find? (·.id = sid)

def updStrm (c : H2Conn) (sid : Nat) (f : Strm → Strm) : H2Conn :=
  { c with streams := c.streams.map fun s => if s.id = sid then f s else s }

/-- h2_send_rst_stream_state(): mark closed/error, remember a recent half-close -/
def rstState (c : H2Conn) (sid : Nat) : H2Conn :=
  match findStrm c sid with
  | none => c
  | some s =>
    let c := if s.st ≠ .hcRemote ∧ s.st ≠ .closed then { c with hcRecent := true } else c
    updStrm c sid fun s => { s with st := .closed, err := true }

/-- h2_send_goaway_rst_stream(): on an error GOAWAY all open streams are reset
    (RST_STREAM frames go out only if a GOAWAY had been sent before) -/
def goawayResets (c : H2Conn) (code : Nat) : Res :=
  if code ≠ 0 then
    (((c.streams.filter (·.st ≠ .closed)).foldl (fun c s => rstState c s.id) c),
     if c.goaway ≠ 0 then (c.streams.filter (·.st ≠ .closed)).map fun s => Out.rst s.id E.protocol else [])
  else (c, [])

/-- h2_send_goaway() -/
def sendGoaway (c : H2Conn) (code : Nat) : Res :=
  let r := goawayResets c code
  if r.1.goaway ≠ 0 ∧ (r.1.goaway > 0 ∨ code = 0) then r
  else ({ r.1 with goaway := if code = 0 then -1 else (code : Int) }, r.2 ++ [.goaway r.1.cid code])

/-- h2_send_window_update_unit() -/
def fudgeUpdate (fudge : Int) (len : Nat) : Int × Bool :=
  let f := fudge - len
  if f < 0 then (f + 16384, true) else (f, false)

/-- h2_send_window_update_unit() run over a sequence of received DATA frame lengths (as
    recvData does for the connection and for a stream whose body is being read); returns the
    final fudge and the total credit returned in WINDOW_UPDATE frames -/
def creditRun : Int → List Nat → Int × Nat
  | f, [] => (f, 0)
  | f, len :: rest =>
    let r := creditRun (fudgeUpdate f len).1 rest
    (r.1, r.2 + (if (fudgeUpdate f len).2 then 16384 else 0))

/-- the counting part of h2_discard_headers(): too many discarded header blocks end the
    connection -/
def discardCount (c : H2Conn) : Res :=
  let c := { c with nDiscarded := c.nDiscarded + 1 }
  if c.nDiscarded > 32 then sendGoaway c E.enhanceCalm else (c, [])

/-- h2_discard_headers(): the block of a HEADERS frame that opens no stream is still HPACK
    decoded (the decoder state is shared by the connection) unless an error GOAWAY is out;
    a block that cannot be decoded is a connection error (h2_discard_headers_frame(), c908cdc) -/
def discardHeaders (c : H2Conn) (kind : HdrKind) : Res :=
  if c.goaway > 0 then (c, []) else
  match kind with
  | .hpackBad =>
    ((sendGoaway (discardCount c).1 E.compression).1,
     (discardCount c).2 ++ (sendGoaway (discardCount c).1 E.compression).2)
  | _ => discardCount c

/-- h2_recv_end_data() -/
def recvEndData (c : H2Conn) (s : Strm) (alen : Nat) : H2Conn × List Out × Bool :=
  let st' := if s.st = .open then StSt.hcRemote else StSt.closed
  let c1 := updStrm c s.id fun x => { x with st := st' }
  if s.reqLen = -1 then
    (updStrm c1 s.id fun x => { x with reqLen := (s.bodyIn + alen : Nat) }, [], true)
  else if s.reqLen ≠ ((s.bodyIn + alen : Nat) : Int) then
    -- (reqbody_queue.bytes_out is 0: handlers in scope do not consume the body)
    (rstState c1 s.id, [.rst s.id E.protocol], false)
  else (c1, [], true)

/-- connection-level receive window credit for a DATA frame of `len` bytes -/
def connWinUpd (c : H2Conn) (len : Nat) : Res :=
  ({ c with fudge := (fudgeUpdate c.fudge len).1 },
   if (fudgeUpdate c.fudge len).2 then [.windowUpdate 0 16384] else [])

/-- h2_recv_data() on a stream the server still tracks -/
def recvDataStream (c : H2Conn) (s : Strm) (sid len alen : Nat) (endStream : Bool) : Res :=
  if s.st = .closed ∨ s.st = .hcRemote then
    -- stream error: the stream is closed and will be retired without further frames
    ((connWinUpd (rstState c sid) len).1, [.rst sid E.streamClosed] ++ (connWinUpd (rstState c sid) len).2)
  else
    let r1 := connWinUpd c len
    if s.reqLen ≥ 0 ∧ s.reqLen < ((s.bodyIn + alen : Nat) : Int) then
      (rstState r1.1 sid, r1.2 ++ [.rst sid E.protocol])
    else
      let e : H2Conn × List Out × Bool := if endStream then recvEndData r1.1 s alen else (r1.1, [], true)
      if !e.2.2 then (e.1, r1.2 ++ e.2.1) else
      let fw := fudgeUpdate s.fudge (if endStream then 0 else len)
      (updStrm e.1 sid fun x => { x with fudge := fw.1, bodyIn := x.bodyIn + alen },
       r1.2 ++ e.2.1 ++ (if fw.2 then [.windowUpdate sid 16384] else []))

/-- h2_recv_data() for a complete frame -/
def recvData (c : H2Conn) (sid len : Nat) (pad : Option Nat) (endStream : Bool) : Res :=
  if sid = 0 ∨ c.cid < sid then sendGoaway c E.protocol else
  match (match pad with | some p => if p ≥ len then none else some (len - (1 + p)) | none => some len) with
  | none => sendGoaway c E.protocol
  | some alen =>
    match findStrm c sid with
    | none =>
      if c.hcRecent then connWinUpd c len
      else if alen = 0 then (c, [])
      else if c.goaway ≠ 0 then (c, [])     -- a GOAWAY is out already: the frame is dropped
      else
        -- not a data sink: GOAWAY(NO_ERROR), and stop parsing this round
        ({ (sendGoaway c 0).1 with stop := true }, (sendGoaway c 0).2)
    | some s => recvDataStream c s sid len alen endStream

/-- h2_recv_window_update() -/
def recvWindowUpdate (c : H2Conn) (sid len inc : Nat) : Res :=
  if len ≠ 4 then sendGoaway c E.frameSize else
  if sid = 0 then
    if inc = 0 then sendGoaway c E.protocol
    else if c.swin > int32Max - inc then sendGoaway c E.flowControl
    else ({ c with swin := c.swin + inc }, [])
  else
    match findStrm c sid with
    | none => if c.cid < sid ∧ c.goaway = 0 then sendGoaway c E.protocol else (c, [])
    | some s =>
      if s.st = .closed ∨ s.st = .hcLocal then (c, [])
      else if inc = 0 then (rstState c sid, [.rst sid E.protocol])
      else if s.swin > int32Max - inc then (rstState c sid, [.rst sid E.flowControl])
      else (updStrm c sid fun x => { x with swin := x.swin + inc }, [])

/-- a stream whose send window SETTINGS_INITIAL_WINDOW_SIZE still applies to -/
def Strm.live (s : Strm) : Bool := decide (s.st ≠ .hcLocal ∧ s.st ≠ .closed)

/-- h2_parse_frame_settings(): apply parameters in order; stops at the first connection error.
    A change of SETTINGS_INITIAL_WINDOW_SIZE that would take the window of ANY live stream out of
    range is a connection FLOW_CONTROL_ERROR (RFC 9113 6.9.2); otherwise the difference is applied
    to every live stream. -/
def applySettings : H2Conn → List (Nat × Nat) → Res
  | c, [] => (c, [])
  | c, (k, v) :: rest =>
    if k = 2 ∧ v > 1 then sendGoaway c E.protocol
    else if k = 4 then
      if (v : Int) > int32Max then sendGoaway c E.flowControl
      else if c.streams.any (fun s => s.live && winOverflows s.swin ((v : Int) - c.initWin)) then
        sendGoaway c E.flowControl
      else
        applySettings { c with initWin := v,
                               streams := c.streams.map fun s =>
                                 if s.live then { s with swin := s.swin + ((v : Int) - c.initWin) } else s } rest
    else if k = 5 then
      if v < 16384 ∨ v > 16777215 then sendGoaway c E.protocol
      else applySettings { c with peerMaxFrame := v } rest
    else applySettings c rest

def recvSettings (c : H2Conn) (ack : Bool) (sid : Nat) (params : List (Nat × Nat)) (junk : Nat) : Res :=
  if sid ≠ 0 then sendGoaway c E.protocol else
  if !ack then
    let r1 := applySettings c params
    -- a connection error inside the parameters ends processing; otherwise trailing bytes are a size error
    let r2 : Res := if r1.1.goaway = c.goaway ∧ junk ≠ 0 then sendGoaway r1.1 E.frameSize else (r1.1, [])
    (r2.1, r1.2 ++ r2.2 ++ (if r2.1.goaway ≤ 0 then [Out.settingsAck] else []))
  else if params ≠ [] ∨ junk ≠ 0 then sendGoaway c E.frameSize
  else if c.sentSettings then ({ c with sentSettings := false }, [])
  else sendGoaway c E.protocol

def recvRstStream (c : H2Conn) (sid len : Nat) : Res :=
  if len ≠ 4 then sendGoaway c E.frameSize else
  if sid = 0 then sendGoaway c E.protocol else
  match findStrm c sid with
  | some _ => (updStrm c sid fun x => { x with st := .closed, err := true }, [])
  | none => if c.cid < sid then sendGoaway c E.protocol else (c, [])

def recvPriority (c : H2Conn) (sid len dep : Nat) : Res :=
  if len ≠ 5 then sendGoaway c E.frameSize else
  if sid = 0 then sendGoaway c E.protocol else
  match findStrm c sid with
  | some _ => if dep = sid then (rstState c sid, [.rst sid E.protocol]) else (c, [])
  | none =>
    -- a stream that was opened and is closed; never for an idle stream (RFC 9113 6.4)
    if dep = sid ∧ sid % 2 = 1 ∧ sid ≤ c.cid then (c, [.rst sid E.protocol]) else (c, [])

def recvGoaway (c : H2Conn) (sid len code : Nat) : Res :=
  if len < 8 then sendGoaway c E.frameSize else
  if sid ≠ 0 then sendGoaway c E.protocol else
  let r := sendGoaway c (if code = 0 then 0 else E.protocol)
  -- with no stream left the connection ends: parsing stops here
  ({ r.1 with stop := r.1.streams.isEmpty }, r.2)

def recvPing (c : H2Conn) (ack : Bool) (sid len : Nat) (octets : Bytes) : Res :=
  if len ≠ 8 then sendGoaway c E.frameSize else
  if sid ≠ 0 then sendGoaway c E.protocol else
  if ack then (c, []) else (c, [.pingAck octets])

/-- h2_send_refused_stream() when it does refuse (the deferrals, return value -1, are `needsSlot`).
    While the server's SETTINGS are not acknowledged: more than 100 streams => GOAWAY
    (ENHANCE_YOUR_CALM); otherwise h2c->half_closed_ts is set so that DATA for the refused stream
    is absorbed. -/
def refuseStream (c : H2Conn) (sid : Nat) : Res :=
  if c.sentSettings ∧ sid > 200 then sendGoaway c E.enhanceCalm else
  let c1 := { c with hcRecent := c.hcRecent || c.sentSettings, cid := sid, nRefused := c.nRefused + 1 }
  let r : Res := if c1.nRefused > 16 then sendGoaway c1 0 else (c1, [])
  (r.1, [.rst sid E.refused] ++ r.2)

/-- sequencing helper: run `f` on the connection of `r`, keep `r`'s frames in front -/
def Res.andThen (r : Res) (f : H2Conn → Res) : Res := ((f r.1).1, r.2 ++ (f r.1).2)

/-- HEADERS on a stream id that is not new: trailers (h2_recv_trailers_r) -/
def recvTrailers (c : H2Conn) (sid : Nat) (kind : HdrKind) (endStream : Bool) : Res :=
  match findStrm c sid with
  | none => (sendGoaway c E.protocol).andThen (discardHeaders · kind)
  | some s =>
    if s.st ≠ .open ∧ s.st ≠ .hcLocal then
      Res.andThen (rstState c sid, [.rst sid E.streamClosed]) (discardHeaders · kind)
    else if !endStream then
      Res.andThen (rstState c sid, [.rst sid E.protocol]) (discardHeaders · kind)
    else
      let e := recvEndData c s 0
      if e.2.2 then
        (match kind with
         | .hpackBad => Res.andThen (e.1, e.2.1) fun c => sendGoaway c E.compression
         | _ => (e.1, e.2.1))
      else Res.andThen (e.1, e.2.1) (discardHeaders · kind)

/-- the stream record h2_init_stream() + h2_recv_headers() create -/
def mkStrm (c : H2Conn) (sid : Nat) (endStream : Bool) (status body : Nat) (reqLen : Int) (incr file : Bool) : Strm :=
  { id := sid, st := if endStream then .hcRemote else .open, swin := c.initWin,
    reqLen := if endStream then 0 else reqLen, status := status, pending := body, incremental := incr,
    file := file }

/-- r->x.h2.prio: urgency (3 unless a PRIORITY_UPDATE frame changed it) and inverted 'incremental' bit -/
def Strm.prio (s : Strm) : Nat := s.urg * 2 + (if s.incremental then 0 else 1)

/-- order of h2c->r[]: by priority value, then by stream id -/
def Strm.gt (x s : Strm) : Bool := decide (x.prio > s.prio) || (x.prio == s.prio && decide (x.id > s.id))
def Strm.lt (x s : Strm) : Bool := decide (x.prio < s.prio) || (x.prio == s.prio && decide (x.id < s.id))

/-- h2_apply_priority_update() for the stream at position `i`, `s` = that stream with its new
    priority: it moves left past greater neighbours, else right past smaller ones -/
def reprio (l : List Strm) (i : Nat) (s : Strm) : List Strm :=
  if ((l.take i).reverse.takeWhile (·.gt s)).length > 0 then
    (l.take i).take (i - ((l.take i).reverse.takeWhile (·.gt s)).length) ++ [s] ++
      (l.take i).drop (i - ((l.take i).reverse.takeWhile (·.gt s)).length) ++ l.drop (i + 1)
  else
    l.take i ++ (l.drop (i + 1)).takeWhile (·.lt s) ++ [s] ++ (l.drop (i + 1)).dropWhile (·.lt s)

/-- h2_recv_priority_update() (RFC 9218 PRIORITY_UPDATE, frame type 0x10) -/
def recvPriorityUpdate (c : H2Conn) (sid len prid prio : Nat) : Res :=
  if len < 4 then sendGoaway c E.frameSize else
  if sid ≠ 0 then sendGoaway c E.protocol else
  if prid = 0 then sendGoaway c E.protocol else
  match findStrm c prid with
  | none => (c, [])
  | some s =>
    if s.prio = prio then (c, []) else
    ({ c with streams := reprio c.streams (c.streams.findIdx (·.id = prid))
                           { s with urg := prio / 2, incremental := prio % 2 = 0 } }, [])

/-- the new stream is appended to h2c->r[] and h2_apply_priority_update() moves it in front of
    the trailing streams of lower priority (stream ids only grow, so ties keep arrival order) -/
def addStrm (c : H2Conn) (s : Strm) : H2Conn :=
  { c with streams := (c.streams.reverse.dropWhile fun x => x.prio > s.prio).reverse ++ [s] ++
                        (c.streams.reverse.takeWhile fun x => x.prio > s.prio).reverse,
           cid := s.id }

/-- HEADERS opening a new stream while a slot is free -/
def newStream (c : H2Conn) (sid : Nat) (kind : HdrKind) (endStream : Bool) : Res :=
  match kind with
  | .hpackBad =>
    -- stream is created, HPACK error: h2_cid := id, GOAWAY COMPRESSION_ERROR
    sendGoaway (addStrm c (mkStrm c sid endStream 0 0 (-1) false false)) E.compression
  | .request status body reqLen incr file =>
    (addStrm c (mkStrm c sid endStream status body reqLen incr file),
     if (if endStream then (0 : Int) else reqLen) ≠ 0 then [.windowUpdate sid 131072] else [])

/-- h2_recv_headers() (a complete, already merged HEADERS + CONTINUATION block) -/
def recvHeaders (c : H2Conn) (sid : Nat) (kind : HdrKind) (endStream : Bool) (dep : Option Nat)
    (padBad : Bool) : Res :=
  if sid % 2 = 0 then sendGoaway c E.protocol else
  if padBad then sendGoaway c E.protocol else
  if dep = some sid ∧ sid > c.cid then
    ((sendGoaway c E.protocol).1, [.rst sid E.protocol] ++ (sendGoaway c E.protocol).2)
  else if sid ≤ c.cid then recvTrailers c sid kind endStream
  else if c.goaway ≠ 0 then discardHeaders c kind
  else if c.streams.length ≥ Extracted.h2MaxStreams then (refuseStream c sid).andThen (discardHeaders · kind)
  else newStream c sid kind endStream

/-- one complete frame of h2_parse_frames(); nothing is parsed after an error GOAWAY -/
def recvFrame (c : H2Conn) (f : FrameIn) : Res :=
  if c.goaway > 0 ∨ c.dead then (c, []) else
  match f with
  | .oversize => sendGoaway c E.frameSize
  | .settings ack sid params junk => recvSettings c ack sid params junk
  | .ping ack sid len octets => recvPing c ack sid len octets
  | .windowUpdate sid len inc => recvWindowUpdate c sid len inc
  | .rstStream sid len _ => recvRstStream c sid len
  | .priority sid len dep => recvPriority c sid len dep
  | .priorityUpdate sid len prid prio => recvPriorityUpdate c sid len prid prio
  | .goaway sid len code => recvGoaway c sid len code
  | .data sid len pad es => recvData c sid len pad es
  | .headers sid kind es dep padBad contBad =>
    if contBad then sendGoaway c E.protocol else recvHeaders c sid kind es dep padBad
  | .continuation _ => sendGoaway c E.protocol
  | .pushPromise _ => sendGoaway c E.protocol
  | .unknown _ => (c, [])
  | .contFlood => sendGoaway c 0

/-! ### send side: h2_process_streams() -/

/-- finish a stream: h2_send_end_stream() + h2_retire_stream(); returns frames and whether
    a local half-close happened (sets hcRecent) -/
def endStream (s : Strm) : List Out × Bool :=
  if s.st = .closed then ([], false)
  else if s.err then ([.rst s.id E.internal], s.st ≠ .hcRemote)
  else
    let d := if s.st ≠ .hcLocal then [Out.data s.id 0 true] else []
    if s.st ≠ .hcRemote then (d ++ [.rst s.id 0], true) else (d, false)

/-- DATA bytes h2_send_cqdata() frames for this stream in its turn -/
def turnAmount (cswin : Int) (budget : Nat) (s : Strm) : Nat :=
  if s.pending = 0 ∨ budget = 0 then 0
  else sendAmount s.swin cswin s.pending (min (if s.incremental then 8192 else 32750) budget)

/-- response HEADERS of a stream (h2_send_headers): END_STREAM on HEADERS iff there is no body -/
def sendHdrs (s : Strm) : Strm × List Out :=
  if s.headersSent then (s, [])
  else
    ({ s with headersSent := true,
              st := if s.pending = 0 then (if s.st = .open then StSt.hcLocal
                                           else if s.st = .hcRemote then .closed else s.st)
                    else s.st },
     [Out.headers s.id s.status (s.pending = 0)])

/-- the loop of h2_send_cqdata(): `n` octets go out in DATA frames of at most `fsize` (the PEER's
    SETTINGS_MAX_FRAME_SIZE) payload octets; from a FILE_CHUNK a full frame is `fsize-9` so that
    header + payload fill a power-of-two buffer.  Fuel: every frame carries at least one octet. -/
def dataSplit (file : Bool) (fsize : Nat) : Nat → Nat → List Nat
  | 0, _ => []
  | _ + 1, 0 => []
  | fuel + 1, n + 1 =>
    (if n + 1 < fsize then n + 1 else if file then fsize - 9 else fsize) ::
      dataSplit file fsize fuel (n + 1 - (if n + 1 < fsize then n + 1 else if file then fsize - 9 else fsize))

/-- the loop of h2_send_hpack(): a header block of `n` octets goes out as one HEADERS frame and
    then CONTINUATION frames, each with at most `fsize` payload octets; the last one carries
    END_HEADERS (an empty block is one empty HEADERS frame).  Result: the payload sizes. -/
def hpackSplit (fsize : Nat) : Nat → Nat → List Nat
  | 0, n => [n]
  | fuel + 1, n => if n ≤ fsize then [n] else fsize :: hpackSplit fsize fuel (n - fsize)

/-- one stream's turn in a pass; returns (stream or none if retired, frames, bytes sent, hcRecent) -/
def strmTurn (fsize : Nat) (cswin : Int) (budget : Nat) (s : Strm) : Option Strm × List Out × Nat × Bool :=
  if s.err then (none, (endStream s).1, 0, (endStream s).2)
  else
    let n := turnAmount cswin budget s
    let s1 : Strm := { (sendHdrs s).1 with swin := s.swin - n, pending := s.pending - n }
    let od := (dataSplit s.file fsize n n).map fun l => Out.data s.id l false
    if s.pending - n = 0 then
      (none, (sendHdrs s).2 ++ od ++ (endStream s1).1, n, (endStream s1).2)
    else (some s1, (sendHdrs s).2 ++ od, n, false)

structure PassOut where
  streams : List Strm
  outs : List Out
  cswin : Int
  hc : Bool

def passAux (fsize : Nat) : Int → Nat → List Strm → PassOut
  | cswin, _, [] => ⟨[], [], cswin, false⟩
  | cswin, budget, s :: rest =>
    let (s', o, n, h) := strmTurn fsize cswin budget s
    let r := passAux fsize (cswin - n) (budget - n) rest
    ⟨(match s' with | some x => x :: r.streams | none => r.streams), o ++ r.outs, r.cswin, h || r.hc⟩

/-- h2_process_streams(): streams are served only while no error GOAWAY is out; after one,
    remaining streams are retired silently -/
def processPass (c : H2Conn) (budget : Nat) : Res :=
  if c.dead then (c, [])
  else if c.goaway > 0 then ({ c with streams := [], dead := true }, [])
  else
    let r := passAux c.peerMaxFrame c.swin budget c.streams
    let c' := { c with streams := r.streams, swin := r.cswin, hcRecent := c.hcRecent || r.hc }
    -- h2_process_streams(): once a GOAWAY is out and no stream is left the connection ends
    ({ c' with dead := c'.goaway ≠ 0 && c'.streams.isEmpty }, r.outs)

def processQuiesce : Nat → H2Conn → Res
  | 0, c => (c, [])
  | fuel + 1, c =>
    let r := processPass c 262144
    if r.2.isEmpty then (r.1, []) else
      let r' := processQuiesce fuel r.1
      (r'.1, r.2 ++ r'.2)

/-- h2_send_refused_stream() == -1: a HEADERS frame that needs a stream slot while all are taken is
    left in the read queue and the streams are served first, when (a) a stream is about to be
    retired, or (b) the server's SETTINGS are not acknowledged yet (the client could not know the
    limit), the id is at most 200, and some stream has its whole request and windows of at least
    2048 octets (below that h2_send_cqdata() sends nothing: such a stream counts as blocked) -/
def needsSlot (c : H2Conn) (f : FrameIn) : Bool :=
  match f with
  | .headers sid _ _ dep padBad contBad =>
    c.goaway = 0 && sid > c.cid && sid % 2 = 1 && !padBad && !contBad && dep ≠ some sid
      && c.streams.length ≥ Extracted.h2MaxStreams
      && (c.streams.any (·.err)
          || (c.sentSettings && sid ≤ 200
              && c.streams.any fun s => s.reqLen = (s.bodyIn : Int) && s.swin ≥ 2048 && c.swin ≥ 2048))
  | _ => false

/-- the streams are served (one pass per call of h2_process_streams()) until the frame can be taken;
    the fuel is never exhausted: a pass either retires a stream or sends at least 2048 octets -/
def preSlot : Nat → H2Conn → FrameIn → Res
  | 0, c, _ => (c, [])
  | fuel + 1, c, f =>
    if needsSlot c f then
      ((preSlot fuel (processPass c 262144).1 f).1, (processPass c 262144).2 ++ (preSlot fuel (processPass c 262144).1 f).2)
    else (c, [])

/-- h2_parse_frames() returned 0: one processing pass happens before parsing resumes -/
def postStop (c : H2Conn) : Res :=
  if c.stop then processPass { c with stop := false } 262144 else (c, [])

/-- a batch of frames read at once, then stream processing until quiescence.
    A HEADERS frame arriving while all slots are taken and some stream is about to be
    retired is deferred until after a processing pass (h2_send_refused_stream() == -1). -/
def recvBatch : H2Conn → List FrameIn → Res
  | c, [] => (c, [])
  | c, f :: rest =>
    let r0 := preSlot 4096 c f
    let r1 := recvFrame r0.1 f
    let r2 := postStop r1.1
    let r3 := recvBatch r2.1 rest
    (r3.1, r0.2 ++ r1.2 ++ r2.2 ++ r3.2)

def h2Step (c : H2Conn) (batch : List FrameIn) : Res :=
  let r1 := recvBatch c batch
  let r2 := processQuiesce 100000 r1.1
  (r2.1, r1.2 ++ r2.2)

end LtVerif
