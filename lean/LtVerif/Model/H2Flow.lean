/-
  HTTP/2 send-side flow control of src/h2.c as a state machine over the events that
  touch the send windows:
    h2_init_con / h2_init_stream      -> `FcConn.init`, `openStream`
    h2_parse_frame_settings (INITIAL_WINDOW_SIZE)   -> `applyInitialWindow`
    h2_recv_window_update             -> `windowUpdate`
    h2_send_cqdata (clamp, <2048 deferral, per-call cap) -> `sendCqData`, `writePass`
  Initial values come from Extracted/H2Const.lean (read back from the real h2_init_con()).
  Every state carries *ghost* fields recording what the CLIENT has granted (RFC 9113 §6.9:
  initial window 65 535 unless changed by SETTINGS_INITIAL_WINDOW_SIZE, applied retroactively,
  plus WINDOW_UPDATE increments) and how much DATA payload was sent, so that the
  property "sent ≤ credit" can be stated against the RFC, not against the code.
-/
import LtVerif.Model.Basic
import LtVerif.Extracted.H2Const
namespace LtVerif

def int32Max : Int := 2147483647
def int32Min : Int := -2147483648

/-- RFC 9113 §6.9.2: initial flow-control window before any SETTINGS -/
def rfcInitialWindow : Int := 65535

inductive FcStState | open | halfClosedLocal | closed
deriving Repr, DecidableEq

structure FcStream where
  id : Nat
  swin : Int                 -- r->x.h2.swin
  pending : Nat              -- bytes queued in r->write_queue (response body not yet framed)
  st : FcStState := .open
  incremental : Bool := false  -- priority "i" flag: per-call cap 8192 instead of 32750
  -- ghost
  credit : Int               -- what the client has granted on this stream so far
  sent : Nat := 0            -- DATA payload bytes emitted on this stream
deriving Repr, DecidableEq

structure FcConn where
  swin : Int                 -- h2r->x.h2.swin
  initWin : Int              -- h2c->s_initial_window_size
  streams : List FcStream := []
  goaway : Option Nat := none   -- error code of a connection error raised by the window logic
  maxId : Nat := 0              -- h2c->h2_cid: highest stream id opened by the client
  -- ghost
  credit : Int               -- connection-level credit granted by the client
  sent : Nat := 0
  clientInit : Int           -- the client's current SETTINGS_INITIAL_WINDOW_SIZE
deriving Repr, DecidableEq

def FcConn.init : FcConn :=
  { swin := Extracted.h2ConnSendWindow, initWin := Extracted.h2PeerInitialWindow,
    credit := rfcInitialWindow, clientInit := rfcInitialWindow }

inductive FcOut
  | data (sid len : Nat)
  | rst (sid code : Nat)
  | goaway (code : Nat)
deriving Repr, DecidableEq

def errProtocol : Nat := 1
def errFlowControl : Nat := 3

/-- r->x.h2.prio for the urgency every stream of this model has (3): `urg << 1 | !incremental`,
    so that ascending order puts incremental streams before non-incremental ones -/
def FcStream.prio (s : FcStream) : Nat := if s.incremental then 6 else 7

/-- h2_apply_priority_update(): the streams are kept sorted by (prio, id) -/
def insertPrio (s : FcStream) : List FcStream → List FcStream
  | [] => [s]
  | x :: xs =>
    if x.prio > s.prio ∨ (x.prio = s.prio ∧ x.id > s.id) then s :: x :: xs else x :: insertPrio s xs

/-- h2_init_stream(): a new response stream with `body` bytes to send, placed in the
    scheduler's order by h2_apply_priority_update() -/
def openStream (c : FcConn) (id body : Nat) (incremental : Bool) : FcConn :=
  { c with maxId := max c.maxId id,
           streams := insertPrio { id := id, swin := c.initWin, pending := body,
                                   incremental := incremental, credit := c.clientInit } c.streams }

/-- would `swin + diff` leave int32? (the guard in h2_parse_frame_settings) -/
def winOverflows (swin diff : Int) : Bool :=
  if diff ≥ 0 then swin > int32Max - diff else swin < int32Min - diff

/-- a stream whose window SETTINGS_INITIAL_WINDOW_SIZE changes apply to -/
def FcStream.live (s : FcStream) : Bool := !(s.st = .halfClosedLocal || s.st = .closed)

/-- h2_parse_frame_settings(), case SETTINGS_INITIAL_WINDOW_SIZE.  A value above 2^31-1, or
    a change that would push the window of any live stream out of range, is a connection
    error FLOW_CONTROL_ERROR (RFC 9113 §6.9.2); otherwise the delta is applied to every live
    stream, which may make windows negative. -/
def applyInitialWindow (c : FcConn) (v : Nat) : FcConn × List FcOut :=
  if (v : Int) > int32Max then ({ c with goaway := some errFlowControl }, [.goaway errFlowControl])
  else if c.streams.any (fun s => s.live && winOverflows s.swin ((v : Int) - c.initWin)) then
    ({ c with goaway := some errFlowControl }, [.goaway errFlowControl])
  else
    ({ c with initWin := v, clientInit := v,
              streams := c.streams.map fun s =>
                if s.live then { s with swin := s.swin + ((v : Int) - c.initWin),
                                        credit := s.credit + ((v : Int) - c.clientInit) }
                else s }, [])

/-- update the stream the id lookup finds (the first one with that id) -/
def updFirst (sid : Nat) (f : FcStream → FcStream) : List FcStream → List FcStream
  | [] => []
  | x :: xs => if x.id = sid then f x :: xs else x :: updFirst sid f xs

/-- h2_recv_window_update() for a frame of valid length -/
def windowUpdate (c : FcConn) (sid inc : Nat) : FcConn × List FcOut :=
  if sid = 0 then
    if inc = 0 then ({ c with goaway := some errProtocol }, [.goaway errProtocol])
    else if c.swin > int32Max - inc then ({ c with goaway := some errFlowControl }, [.goaway errFlowControl])
    else ({ c with swin := c.swin + inc, credit := c.credit + inc }, [])
  else
    match c.streams.find? (·.id = sid) with
    | none =>
      -- idle stream (id above every id seen): connection error; retired stream: ignored
      if sid > c.maxId then ({ c with goaway := some errProtocol }, [.goaway errProtocol]) else (c, [])
    | some s =>
      if s.st = .closed ∨ s.st = .halfClosedLocal then (c, [])
      else if inc = 0 then
        ({ c with streams := updFirst sid (fun x => { x with st := .closed }) c.streams }, [.rst sid errProtocol])
      else if s.swin > int32Max - inc then
        ({ c with streams := updFirst sid (fun x => { x with st := .closed }) c.streams }, [.rst sid errFlowControl])
      else
        ({ c with streams := updFirst sid (fun x => { x with swin := x.swin + inc, credit := x.credit + inc })
                               c.streams }, [])

/-- amount h2_send_cqdata() sends for a request of `dlen` bytes: clamp to the stream window,
    the connection window and the queued data; defer when the window-limited amount is
    below 2048 although at least 2048 bytes are queued -/
def sendAmount (swinS swinC : Int) (pending dlen : Nat) : Nat :=
  if swinS < 0 ∨ swinC < 0 then 0 else
  let d : Nat := min (min dlen swinS.toNat) swinC.toNat
  if d > pending then pending
  else if d < 2048 ∧ pending ≥ 2048 then 0
  else d

/-- the per-call request size of h2_process_streams(): 32768-18 or 8192 if incremental -/
def perCallCap (s : FcStream) : Nat := if s.incremental then 8192 else 32750

/-- one stream's turn in a write pass; a stream whose body has been sent completely is
    ended (END_STREAM) and retired in the same pass -/
def streamTurn (cswin : Int) (budget : Nat) (s : FcStream) : FcStream × Nat :=
  if s.st ≠ .open then (s, 0)
  else if s.pending = 0 then ({ s with st := .closed }, 0)
  else if budget = 0 then (s, 0) else
  let n := sendAmount s.swin cswin s.pending (min (perCallCap s) budget)
  ({ s with swin := s.swin - n, pending := s.pending - n, sent := s.sent + n,
            st := if s.pending - n = 0 then .closed else s.st }, n)

structure PassRes where
  streams : List FcStream
  outs : List FcOut
  cswin : Int
  total : Nat

/-- one pass of h2_process_streams() over all streams with write budget `budget` -/
def writePassAux : Int → Nat → List FcStream → PassRes
  | cswin, _, [] => ⟨[], [], cswin, 0⟩
  | cswin, budget, s :: rest =>
    let t := streamTurn cswin budget s
    let r := writePassAux (cswin - t.2) (budget - t.2) rest
    ⟨t.1 :: r.streams, (if t.2 = 0 then r.outs else FcOut.data s.id t.2 :: r.outs), r.cswin, r.total + t.2⟩

def writePass (c : FcConn) (budget : Nat) : FcConn × List FcOut :=
  if c.goaway.isSome then (c, []) else
  let r := writePassAux c.swin budget c.streams
  ({ c with streams := r.streams, swin := r.cswin, sent := c.sent + r.total }, r.outs)

inductive FcEv
  | openStream (id body : Nat) (incremental : Bool)
  | settingsInitialWindow (v : Nat)
  | windowUpdate (sid inc : Nat)
  | write (budget : Nat)
deriving Repr, DecidableEq

def fcStep (c : FcConn) : FcEv → FcConn × List FcOut
  | .openStream id body inc => (if c.goaway.isSome then c else openStream c id body inc, [])
  | .settingsInitialWindow v => if c.goaway.isSome then (c, []) else applyInitialWindow c v
  | .windowUpdate sid inc => if c.goaway.isSome then (c, []) else windowUpdate c sid inc
  | .write budget => writePass c budget

def fcRun (c : FcConn) : List FcEv → FcConn × List FcOut
  | [] => (c, [])
  | e :: es =>
    let (c', o) := fcStep c e
    let (c'', o') := fcRun c' es
    (c'', o ++ o')

end LtVerif
