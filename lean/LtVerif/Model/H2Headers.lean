/-
  Model of the HTTP/2 header glue of src/h2.c around HPACK (C07):

    http_header_hkey_get()             -> `hkeyGet`   (specification style: the id of the
                                          http_headers[] entry that matches case-insensitively)
    http_header_response_set/insert/append (+ the array_get_buf_ptr_ext() lookup rule:
        known ids by id, HTTP_HEADER_OTHER by case-insensitive key, insertion order kept)
                                       -> `Resp.set` / `Resp.insert` / `Resp.append`
    h2_send_headers()                  -> `respFields`: the name/value list handed to the
        HPACK encoder: ":status", every non-blank response header with its name
        lower-cased (http_header_lc[id] for known ids), repeated fields split at the
        "\r\nname: " separators http_header_response_insert() wrote, internal X-Sendfile /
        X-LIGHTTPD-* headers omitted, "date" and "server" added when absent; nothing at all
        (RST_STREAM INTERNAL_ERROR, decided before the encoder is touched) when the
        expanded size of all headers exceeds 65535
    h2_send_1xx() / h2_send_end_stream_trailers() / h2_send_headers_block()
                                       -> `interimFields` / `trailerFields` / `blockFields`
    h2_parse_frame_settings(SETTINGS_HEADER_TABLE_SIZE), h2_send_hpack_tsz_update()
                                       -> `peerTableSize`, `EncGlue` (the dynamic table size
                                          updates announced before the next header block)

  The id maps are regenerated from h2.c / http_header.c on every run
  (LtVerif/Extracted/H2HeaderMaps.lean).
-/
import LtVerif.Model.Hpack
import LtVerif.Extracted.H2HeaderMaps
namespace LtVerif.H2Headers
open LtVerif B Hpack

def lower (s : Bytes) : Bytes := s.map toLower

/-- http_header_hkey_get(): id of a field-name, HTTP_HEADER_OTHER (0) if unknown -/
def hkeyGet (name : Bytes) : Nat :=
  match Extracted.httpHeaders.find? (fun e => e.2.length == name.length && e.2 == lower name) with
  | some (id, _) => id.toNat
  | none => 0

/-- one element of r->resp_headers: (ds->ext, ds->key, ds->value) -/
structure RespHdr where
  id : Nat
  key : Bytes
  value : Bytes
deriving Repr, DecidableEq

/-- response header state of one request -/
structure Resp where
  arr : List RespHdr := []      -- r->resp_headers.data[], insertion order
  tags : List Nat := []         -- r->resp_htags (ids whose bit is set)
  repeated : Bool := false      -- r->resp_header_repeated
deriving Repr

/-- array_get_index_ext(): known ids are found by id, others by case-insensitive key -/
def sameSlot (id : Nat) (k : Bytes) (e : RespHdr) : Bool :=
  if id ≠ 0 ∨ e.id ≠ 0 then id == e.id else lower k == lower e.key

def Resp.find (r : Resp) (id : Nat) (k : Bytes) : Option RespHdr := r.arr.find? (sameSlot id k)

/-- array_get_buf_ptr_ext() followed by writing `f oldValue` -/
def Resp.update (r : Resp) (id : Nat) (k : Bytes) (f : Bytes → Bytes) : Resp :=
  match r.find id k with
  | some _ => { r with arr := r.arr.map fun e => if sameSlot id k e then { e with value := f e.value } else e }
  | none => { r with arr := r.arr ++ [⟨id, k, f []⟩] }

def bset (tags : List Nat) (id : Nat) : List Nat := if tags.contains id then tags else id :: tags
def bclr (tags : List Nat) (id : Nat) : List Nat := tags.filter (· != id)

/-- http_header_response_set() -/
def Resp.set (r : Resp) (k v : Bytes) : Resp :=
  let id := hkeyGet k
  let tags := if v ≠ [] then bset r.tags id else if id > 0 then bclr r.tags id else r.tags
  { (r.update id k fun _ => v) with tags := tags }

/-- http_header_response_append() -/
def Resp.append (r : Resp) (k v : Bytes) : Resp :=
  if v = [] then r else
  let id := hkeyGet k
  { (r.update id k fun old => if old = [] then v else old ++ ofString ", " ++ v) with
    tags := bset r.tags id }

/-- http_header_response_insert() (HTTP/2: repeated field-name lower-cased in place) -/
def Resp.insert (r : Resp) (k v : Bytes) : Resp :=
  if v = [] then r else
  let id := hkeyGet k
  let blank := match r.find id k with
    | some e => e.value = []
    | none => true
  { (r.update id k fun old =>
      if old = [] then v else old ++ [cr, lf] ++ lower k ++ [colon, sp] ++ v) with
    tags := bset r.tags id
    repeated := r.repeated || !blank }

/-- http_response_omit_header(): X-Sendfile, X-LIGHTTPD-* -/
def omitHeader (k : Bytes) : Bool :=
  lower k == ofString "x-sendfile" || (lower k).take 11 == ofString "x-lighttpd-"

/-- the name the peer sees for an element: for ids with a static-table index
    (`http_header_lshpack_idx[id]`) lshpack encodes the name by that index — the
    octets h2_send_headers() copied out of `http_header_lc[id]` only serve
    lshpack's own table look-ups; otherwise it is the copied / lower-cased name -/
def emitName (e : RespHdr) : Bytes :=
  if e.id ≠ 0 then
    match Extracted.httpHeaderLshpackIdx.getD e.id 0 with
    | 0 =>
      -- memcpy(v, http_header_lc[ds->ext], klen) out of a zero-padded 32-octet row
      let row := Extracted.httpHeaderLc.getD e.id []
      (row ++ List.replicate (32 - row.length) 0).take e.key.length
    | idx + 1 => (staticTable.getD idx ([], [])).1
  else lower e.key

/-- the do/while of h2_send_headers(): pieces of a value that holds repeated fields
    ("v1\r\nname: v2..."), cut exactly as the C does (offsets, not parsing) -/
def splitRepeated (klen : Nat) : Nat → Bytes → List Bytes
  | 0, v => [v]
  | fuel + 1, v =>
    match v.idxOf? lf with
    | none => [v]
    | some i => v.take (i - 1) :: splitRepeated klen fuel (v.drop (i + 1 + klen + 2))

def statusBytes (status : Nat) : Bytes :=
  [(48 + status / 100 % 10).toUInt8, (48 + status / 10 % 10).toUInt8, (48 + status % 10).toUInt8]

/-- marker standing for the current date string (the harness checks it against
    http_date_time_to_str(log_epoch_secs) and prints the same marker) -/
def autoDate : Bytes := ofString "AUTO"

/-- fields of the regular response headers, with the running size `alen`;
    `none` = over 65535 (RST_STREAM INTERNAL_ERROR, nothing sent) -/
def bodyFields (repeated : Bool) : List RespHdr → Nat → Option (List Header × Nat)
  | [], alen => some ([], alen)
  | e :: rest, alen =>
    if e.key = [] ∨ e.value = [] then bodyFields repeated rest alen
    else
      let alen' := alen + e.key.length + e.value.length + 4
      if alen' > 65535 then none
      else if e.id = 0 ∧ (e.key.headD 0 &&& 0xdf) = 88 ∧ omitHeader e.key then
        bodyFields repeated rest alen
      else
        let name := emitName e
        let vals := if repeated then splitRepeated e.key.length e.value.length e.value else [e.value]
        match bodyFields repeated rest alen' with
        | none => none
        | some (fs, a) => some (vals.map (fun v => (name, v)) ++ fs, a)

/-- what the size pre-pass of h2_send_headers() reserves for the "server" field it may add -/
def serverCost (serverTag : Option Bytes) : Nat :=
  match serverTag with
  | some t => 6 + t.length + 4
  | none => 0

/-- h2_send_headers(): the header list given to lshpack_enc_encode() -/
def respFields (status : Nat) (r : Resp) (serverTag : Option Bytes) : Option (List Header) :=
  -- 304 responses drop Content-Encoding
  let r := if status = 304 ∧ r.tags.contains Extracted.hdrContentEncoding then
      { r with arr := r.arr.map fun e =>
          if e.id = Extracted.hdrContentEncoding then { e with value := [] } else e } else r
  -- size pre-pass over every non-blank header (also those omitted below), before
  -- anything is handed to the HPACK encoder
  let total := r.arr.foldl (fun a e => if e.key = [] ∨ e.value = [] then a
                                        else a + e.key.length + e.value.length + 4)
                 (14 + 37 + serverCost serverTag)
  if total > 65535 then none else
  match bodyFields r.repeated r.arr 14 with
  | none => none
  | some (fs, _) =>
    let date := if r.tags.contains Extracted.hdrDate then [] else [(ofString "date", autoDate)]
    let server := match serverTag with
      | some t => if r.tags.contains Extracted.hdrServer then [] else [(ofString "server", t)]
      | none => []
    some ((ofString ":status", statusBytes status) :: fs ++ date ++ server)

/-! ### h2_send_headers_block(): interim (1xx) responses and response trailers

  A text block "name: value\r\n ... \r\n" is cut into lines
  (http_header_parse_hoff) and every line into name / value. -/

/-- lines up to the first blank line, each with its line end; `none` if the blank
    line is missing or comes first, or the text is longer than 65535 -/
def headLines (text : Bytes) : Option (List Bytes) :=
  let rec go : Nat → Bytes → List Bytes → Option (List Bytes)
    | 0, _, _ => none
    | fuel + 1, t, acc =>
      match t.idxOf? lf with
      | none => none
      | some i =>
        let line := t.take (i + 1)
        if line = [lf] ∨ line = [cr, lf] then
          (if acc = [] then none else some acc.reverse)
        else go fuel (t.drop (i + 1)) (line :: acc)
  if text.length > 65535 then none else go (text.length + 1) text []

/-- one "name: value\r\n" line as h2_send_headers_block() reads it -/
def lineField (line : Bytes) : Option Header :=
  if line.length < 2 ∨ line.drop (line.length - 2) ≠ [cr, lf] then none
  else
    let content := line.take (line.length - 2)
    match content.idxOf? colon with
    | none => none
    | some 0 => none
    | some i =>
      let value := (content.drop (i + 1)).dropWhile fun b => b = sp || b = ht
      if value = [] then none else some (content.take i, value)

/-- h2_send_headers_block() -/
def blockFields (text : Bytes) : List Header :=
  match headLines text with
  | none => [(ofString ":status", ofString "502")]
  | some lines =>
    if text.headD 0 = colon then
      -- first line is ":status: NNN"
      (ofString ":status", (text.drop 9).take 3) :: (lines.drop 1).filterMap lineField
    else lines.filterMap lineField

/-- the text h2_send_1xx() builds from the response headers -/
def interimText (status : Nat) (r : Resp) : Bytes :=
  ofString ":status: " ++ natToDec status ++
    (r.arr.filter fun e => e.key ≠ [] ∧ e.value ≠ []).flatMap (fun e =>
      let name := if e.id ≠ 0 then
          let row := Extracted.httpHeaderLc.getD e.id []
          (row ++ List.replicate (32 - row.length) 0).take e.key.length
        else lower e.key
      [cr, lf] ++ name ++ [colon, sp] ++ e.value) ++ [cr, lf, cr, lf]

/-- h2_send_1xx() -/
def interimFields (status : Nat) (r : Resp) : List Header := blockFields (interimText status r)

/-- h2_send_end_stream_trailers(): `none` = no trailers sent (empty DATA frame
    with END_STREAM instead) -/
def trailerFields (text : Bytes) : Option (List Header) :=
  match headLines text with
  | none => none
  | some lines =>
    if lines.any (fun l => l.headD 0 = colon) then none
    else
      -- field-names are lower-cased in place up to the first colon of each line
      let lc := lines.map fun l =>
        match l.idxOf? colon with
        | some i => lower (l.take i) ++ l.drop i
        | none => l
      some (lc.filterMap lineField)

/-- h2_parse_frame_settings(): what the encoder's table size becomes when the
    peer announces SETTINGS_HEADER_TABLE_SIZE = v (never above the default 4096) -/
def peerTableSize (v : Nat) : Nat := min v 4096

/-- the part of h2con that drives the HPACK "dynamic table size update" lighttpd
    owes its peer (RFC 7541 4.2): s_header_table_size, hpack_tsz_update,
    hpack_tsz_min -/
structure EncGlue where
  size : Nat := 4096
  pending : Bool := false
  tszMin : Nat := 0
deriving Repr, DecidableEq

/-- h2_parse_frame_settings(), case SETTINGS_HEADER_TABLE_SIZE -/
def EncGlue.settings (g : EncGlue) (v : Nat) : EncGlue :=
  let v' := peerTableSize v
  if v' = g.size then g
  else { size := v', pending := true, tszMin := if ¬ g.pending ∨ v' < g.tszMin then v' else g.tszMin }

/-- h2_send_hpack_tsz_update(): the sizes announced at the start of the next
    header block (smallest since the prior block, then the final one) -/
def EncGlue.updates (g : EncGlue) : List Nat :=
  if g.pending then (if g.tszMin = g.size then [g.size] else [g.tszMin, g.size]) else []

/-- after the block went out -/
def EncGlue.sent (g : EncGlue) : EncGlue := { g with pending := false }

/-! ### request direction: what h2_recv_headers() does with a complete header block

  (after h2_recv_continuation() merged HEADERS + CONTINUATION and padding /
  priority fields were stripped).  Only what matters for the HPACK state is
  modelled: which blocks are decoded at all, served or discarded, and when the
  connection dies.  The content checks of http_request_parse_header() are not
  modelled and do not matter here: a request it refuses is still decoded to the
  end (h2_discard_headers_frame), and a decoding error there is a connection
  error like anywhere else. -/

/-- an active stream the connection still tracks (h2c->r[]) -/
structure Stream where
  id : Nat
  isOpen : Bool        -- H2_STATE_OPEN (no END_STREAM yet), else HALF_CLOSED_REMOTE / CLOSED
  errored : Bool       -- r->state == CON_STATE_ERROR after an RST_STREAM was sent
  pendingBody : Bool := false   -- Content-Length announced more than the DATA received so far
deriving Repr, DecidableEq

structure GConn where
  dec : Dec := Dec.init
  cid : Nat := 0                -- h2c->h2_cid
  streams : List Stream := []   -- h2c->r[0..rused)
  acked : Bool := false         -- our SETTINGS acknowledged (h2c->sent_settings == 0)
  goaway : Int := 0             -- h2c->sent_goaway (-1 graceful, > 0 error code)
  ndisc : Nat := 0              -- h2c->n_discarded_headers
  nrefused : Nat := 0           -- h2c->n_refused_stream
deriving Repr

/-- what the harness can observe of one HEADERS(+CONTINUATION) sequence -/
inductive Outcome where
  | new (id : Nat)                       -- new stream, block served
  | trailers (id : Nat)                  -- trailers of an active stream, decoded (and ignored)
  | discarded (id : Nat) (rst : Option Nat)   -- decoded and discarded (RST_STREAM code sent, if any)
  | deferred                             -- frame left in the read queue (refusal postponed)
  | nothing                              -- connection error before any decoding
deriving Repr, DecidableEq

def maxStreams : Nat := 8

/-- `rc == LSHPACK_ERR_BAD_DATA || 0 == lsx.name_len` ⇒ COMPRESSION_ERROR, else PROTOCOL_ERROR -/
def errGoaway (e : Err) : Int :=
  match e with
  | .badData => 9
  | .moreBufName => 9
  | _ => 1

/-- h2_send_goaway(): an error replaces a graceful GOAWAY, nothing replaces an error -/
def setGoaway (c : GConn) (code : Int) : GConn :=
  if c.goaway ≠ 0 ∧ (c.goaway > 0 ∨ code = -1) then c
  else
    -- an error GOAWAY resets every active stream (h2_send_goaway_rst_stream)
    let ss := if code = -1 then c.streams else c.streams.map fun (s : Stream) => { s with isOpen := false, errored := true }
    { c with goaway := code, streams := ss }

/-- run the connection's one HPACK decoder over a header block (the loops of
    h2_parse_headers_frame() / h2_discard_headers_frame()); a decoding error is a
    connection error -/
def decodeInto (cap : Nat) (c : GConn) (block : Bytes) : GConn :=
  let r := decodeBlock cap c.dec block
  let c := { c with dec := r.dec }
  match r.err with
  | none => c
  | some e => setGoaway c (errGoaway e)

/-- h2_discard_headers() -/
def discardPath (cap : Nat) (c : GConn) (block : Bytes) : GConn :=
  if c.goaway > 0 then c
  else
    let c := { c with ndisc := c.ndisc + 1 }
    let c := if c.ndisc > 32 then setGoaway c 11 else c        -- H2_E_ENHANCE_YOUR_CALM
    decodeInto cap c block

def rstStream (c : GConn) (id : Nat) : GConn :=
  { c with streams := c.streams.map fun (s : Stream) => if s.id = id then { s with isOpen := false, errored := true } else s }

/-- h2_recv_headers() on a merged frame: stream id, END_STREAM flag, PRIORITY
    stream dependency (if the flag is set), header block -/
def recvHeaders (cap : Nat) (c : GConn) (id : Nat) (endStream : Bool) (dep : Option Nat)
    (block : Bytes) (keep : Bool) (pendingBody : Bool := false) : GConn × Outcome :=
  if id % 2 = 0 then (setGoaway c 1, .nothing)
  else if dep = some id ∧ id > c.cid then (setGoaway c 1, .nothing)
  else if id ≤ c.cid then
    -- trailers
    match c.streams.find? (·.id = id) with
    | none => (setGoaway c 1, .nothing)
    | some s =>
      if ¬ s.isOpen then
        let c := rstStream c id
        (discardPath cap c block, .discarded id (some 5))       -- H2_E_STREAM_CLOSED
      else if ¬ endStream then
        let c := rstStream c id
        (discardPath cap c block, .discarded id (some 1))       -- H2_E_PROTOCOL_ERROR
      else if s.pendingBody then
        -- h2_recv_end_data(): Content-Length does not match the DATA received
        let c := rstStream c id
        (discardPath cap c block, .discarded id (some 1))
      else
        let c := { c with streams := c.streams.map fun (x : Stream) => if x.id = id then { x with isOpen := false } else x }
        (decodeInto cap c block, .trailers id)
  else if c.goaway ≠ 0 then (discardPath cap c block, .discarded id none)
  else if c.streams.length = maxStreams then
    -- h2_send_refused_stream()
    if c.streams.any (·.errored) then (c, .deferred)
    else if ¬ c.acked ∧ id > 200 then (setGoaway c 11, .nothing)
    else if ¬ c.acked ∧ c.streams.any (fun s => ¬ s.isOpen) then (c, .deferred)
    else
      let c := { c with cid := id, nrefused := c.nrefused + 1 }
      let c := if c.nrefused > 16 then setGoaway c (-1) else c
      (discardPath cap c block, .discarded id (some 7))         -- H2_E_REFUSED_STREAM
  else
    let c' := decodeInto cap { c with cid := id } block
    match (decodeBlock cap c.dec block).err with
    | some _ => (c', .nothing)
    | none =>
      (if keep then { c' with streams := c'.streams ++ [⟨id, !endStream, false, pendingBody⟩] } else c', .new id)

/-! ### the loop of h2_parse_headers_frame() with the request parser in it

  `accept f` stands for "http_request_parse_header() takes the field" (any
  predicate: pseudo-header rules, 431 limit, trailers ...).  Fields are decoded
  and handed over one by one; at the first field that is refused the rest of the
  block goes through h2_discard_headers_frame() — the same decoding loop, fields
  dropped — and that is so for a new request (r->http_status == 0, the status is
  stored) and for trailers of a stream whose response has begun (r->http_status
  already set, left alone) alike: the call does not depend on the status.
  `fields` = what was handed over before the refusal. -/
def parseFrameAux (cap : Nat) (accept : Field → Bool) : Nat → Dec → Bytes → List Field → BlockRes
  | 0, d, _, acc => ⟨acc.reverse, some .badData, d⟩
  | fuel + 1, d, bs, acc =>
    if bs = [] then ⟨acc.reverse, none, d⟩
    else
      match decodeItem cap d bs with
      | .err e d' => ⟨acc.reverse, some e, d'⟩
      | .upd rest d' => parseFrameAux cap accept fuel d' rest acc
      | .fld f rest d' =>
        if accept f then parseFrameAux cap accept fuel d' rest (f :: acc)
        else
          -- h2_discard_headers_frame(decoder, psrc, endp, r); break;
          let r := decodeBlockAux cap fuel d' rest []
          ⟨acc.reverse, r.err, r.dec⟩

def parseFrame (cap : Nat) (accept : Field → Bool) (d : Dec) (bs : Bytes) : BlockRes :=
  parseFrameAux cap accept (bs.length + 1) d bs []

end LtVerif.H2Headers
