/-
  RFC 9113 5.1 as a monitor over the frames a server emits on ALL streams of a connection, and the
  output of a whole connection history of the model.  Specification side of the history-level
  legality theorem `c05_history_legal` (Props/C05.lean); no proof in this file.
-/
import LtVerif.Model.H2
namespace LtVerif

/-- what the server has sent so far, per stream (RFC 9113 5.1 seen from its own frames) -/
structure Mon where
  hdr : List Nat := []     -- streams on which the response HEADERS went out
  fin : List Nat := []     -- streams on which END_STREAM or RST_STREAM went out
deriving Repr, DecidableEq

/-- one emitted frame: HEADERS once and not after END_STREAM / RST_STREAM; DATA only after HEADERS
    and not after END_STREAM / RST_STREAM; RST_STREAM, WINDOW_UPDATE and connection frames always -/
def monOut (m : Mon) : Out → Option Mon
  | .headers sid _ es =>
    if sid ∈ m.hdr ∨ sid ∈ m.fin then none else some ⟨sid :: m.hdr, if es then sid :: m.fin else m.fin⟩
  | .data sid _ es =>
    if sid ∈ m.hdr ∧ sid ∉ m.fin then some ⟨m.hdr, if es then sid :: m.fin else m.fin⟩ else none
  | .rst sid _ => some ⟨m.hdr, sid :: m.fin⟩
  | _ => some m

def monAll : Mon → List Out → Option Mon
  | m, [] => some m
  | m, o :: os => match monOut m o with
    | none => none
    | some m' => monAll m' os

/-- everything a connection emits over a history of read batches -/
def runOuts : H2Conn → List (List FrameIn) → List Out
  | _, [] => []
  | c, b :: bs => (h2Step c b).2 ++ runOuts (h2Step c b).1 bs


/-- connection state after a history of read batches -/
def runState : H2Conn → List (List FrameIn) → H2Conn
  | c, [] => c
  | c, b :: bs => runState (h2Step c b).1 bs

end LtVerif
