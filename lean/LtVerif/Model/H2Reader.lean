/-
  Byte-level HTTP/2 frame reader of src/h2.c:

    h2_parse_frames()       9-octet frame header, length against SETTINGS_MAX_FRAME_SIZE
                            (FRAME_SIZE_ERROR), "incomplete frame; go on", dispatch   -> `parseOne`, `drain`
    h2_recv_continuation()  HEADERS without END_HEADERS: scan of the CONTINUATION frames
                            (type / stream id / size checks, 64 KiB cap, 32-frame flood
                            heuristic), removal of the first frame's padding, merge    -> `contScan`, `mergeHeaders`
    h2_frame_cq_compact()   is the identity at this level: the model works on the
                            concatenation of all chunks of con->read_queue, the C code on
                            chunks -- that the chunking is invisible is what the correspondence
                            stream `inproc-h2-splits` checks for every segmentation
    field extraction of h2_recv_data / h2_recv_headers / h2_recv_settings / ... (stream id
    with the reserved bit cleared, Pad Length, PRIORITY fields, SETTINGS pairs)        -> `toFrameIn`

  The reader state is what the C keeps between two reads: the unconsumed octets of
  con->read_queue (`buf`) and whether a reader-level connection error ended parsing (`dead`).
  The size limit is the SETTINGS_MAX_FRAME_SIZE lighttpd ADVERTISES (RFC 9113 4.2); the C code
  uses h2c->s_max_frame_size, i.e. the PEER's setting latched per h2_parse_frames() call, which
  differs once the client has announced a larger value of its own (reported defect, see
  design/C05.md).  PRIORITY_UPDATE (type 0x10): `parsePrio` = h2_parse_priority_update().

  `BConn`, `feedSeg`, `h2StepBytes` compose the reader with the frame-level machine of
  Model/H2.lean.  HPACK is a parameter (`dec : Bytes → HdrKind`), it is C07's.
-/
import LtVerif.Model.H2
namespace LtVerif

/-- big-endian number -/
def be (bs : Bytes) : Nat := bs.foldl (fun a x => a * 256 + x.toNat) 0

/-- `n` octets at offset `off` -/
def slice (b : Bytes) (off n : Nat) : Bytes := (b.drop off).take n

structure FHdr where
  len : Nat
  ftype : Nat
  flags : Nat
  sid : Nat                      -- 32 bits as on the wire (bit 31 = reserved bit)
deriving Repr, DecidableEq

/-- the 9-octet frame header -/
def fhdr (h : Bytes) : FHdr :=
  { len := be (slice h 0 3), ftype := be (slice h 3 1), flags := be (slice h 4 1), sid := be (slice h 5 4) }

structure RawFrame where
  ftype : Nat
  flags : Nat
  sid : Nat
  payload : Bytes
deriving Repr, DecidableEq

/-- flag bit test on a flags octet (`bit` a power of two) -/
def flagSet (flags bit : Nat) : Bool := flags / bit % 2 == 1

inductive Scan
  | more                                   -- incomplete frame; go on
  | err (code k : Nat)                     -- connection error after k complete CONTINUATION frames
  | done (n : Nat) (acc : Bytes) (k : Nat) -- END_HEADERS found: n octets in all, fragments, k frames
deriving Repr, DecidableEq

/-- first loop of h2_recv_continuation(): `n` = offset of the next frame header, `acc` = the
    header block fragments of the CONTINUATION frames so far, `k` = nloops.  The fuel is never
    exhausted: every round adds at least 9 to n, and n stays below 65536. -/
def contScan (fsize id : Nat) (b : Bytes) : Nat → Nat → Bytes → Nat → Scan
  | 0, _, _, _ => .more
  | fuel + 1, n, acc, k =>
    if b.length < n + 9 then .more else
    if (fhdr (slice b n 9)).ftype ≠ 9 then .err E.protocol k else
    if (fhdr (slice b n 9)).sid ≠ id then .err E.protocol k else
    if (fhdr (slice b n 9)).len > fsize then .err E.frameSize k else
    if n + 9 + (fhdr (slice b n 9)).len ≥ 65536 then .err E.frameSize k else
    if b.length < n + 9 + (fhdr (slice b n 9)).len then .more else
    if flagSet (fhdr (slice b n 9)).flags 4 then
      .done (n + 9 + (fhdr (slice b n 9)).len) (acc ++ slice b (n + 9) (fhdr (slice b n 9)).len) (k + 1)
    else
      contScan fsize id b fuel (n + 9 + (fhdr (slice b n 9)).len)
        (acc ++ slice b (n + 9) (fhdr (slice b n 9)).len) (k + 1)

inductive Parse
  | more
  | err (code k : Nat)
  | frame (f : RawFrame) (k used : Nat)    -- k = CONTINUATION frames merged into it
deriving Repr, DecidableEq

/-- second half of h2_recv_continuation(): padding of the HEADERS frame is validated and
    removed (Pad Length octet set to 0; the PRIORITY test looks at the flags of the first
    CONTINUATION frame, `s[n+4]`, as the C does), fragments are concatenated, END_HEADERS set -/
def mergeHeaders (b : Bytes) (h : FHdr) (n : Nat) (acc : Bytes) (k : Nat) : Parse :=
  if flagSet h.flags 8 then
    if h.len < 1 + be (slice b 9 1)
               + (if flagSet (fhdr (slice b (9 + h.len) 9)).flags 32 then 5 else 0) then .err E.protocol k
    else .frame ⟨1, h.flags + 4, h.sid, (0 : UInt8) :: slice b 10 (h.len - 1 - be (slice b 9 1)) ++ acc⟩ k n
  else .frame ⟨1, h.flags + 4, h.sid, slice b 9 h.len ++ acc⟩ k n

def contFuel : Nat := 7282

/-- one round of the loop of h2_parse_frames() on the unconsumed octets `b` -/
def parseOne (fsize : Nat) (b : Bytes) : Parse :=
  if b.length < 9 then .more else
  if (fhdr (slice b 0 9)).len > fsize then .err E.frameSize 0 else
  if b.length < 9 + (fhdr (slice b 0 9)).len then .more else
  if (fhdr (slice b 0 9)).ftype = 1 ∧ flagSet (fhdr (slice b 0 9)).flags 4 = false then
    match contScan fsize ((fhdr (slice b 0 9)).sid % 2147483648) b contFuel (9 + (fhdr (slice b 0 9)).len) [] 0 with
    | .more => .more
    | .err code k => .err code k
    | .done n acc k => mergeHeaders b (fhdr (slice b 0 9)) n acc k
  else
    .frame ⟨(fhdr (slice b 0 9)).ftype, (fhdr (slice b 0 9)).flags, (fhdr (slice b 0 9)).sid,
            slice b 9 (fhdr (slice b 0 9)).len⟩ 0 (9 + (fhdr (slice b 0 9)).len)

/-- what the reader hands to the frame handlers -/
inductive REv
  | frame (f : RawFrame) (k : Nat)
  | err (code k : Nat)
deriving Repr, DecidableEq

structure RSt where
  buf : Bytes := []
  dead : Bool := false
deriving Repr, DecidableEq

/-- the loop of h2_parse_frames(): frames are taken off the front until one is incomplete -/
def drain (fsize : Nat) : Nat → Bytes → RSt × List REv
  | 0, b => (⟨b, false⟩, [])
  | fuel + 1, b =>
    match parseOne fsize b with
    | .more => (⟨b, false⟩, [])
    | .err code k => (⟨[], true⟩, [.err code k])
    | .frame f k used =>
      ((drain fsize fuel (b.drop used)).1, .frame f k :: (drain fsize fuel (b.drop used)).2)

/-- the frame size lighttpd advertises (it never sends SETTINGS_MAX_FRAME_SIZE: the default) -/
def readerMaxFrame : Nat := Extracted.h2AdvMaxFrameSize

/-- one read: `x` is appended to the read queue and h2_parse_frames() runs -/
def readerFeed (st : RSt) (x : Bytes) : RSt × List REv :=
  if st.dead then (st, []) else drain readerMaxFrame (st.buf.length + x.length) (st.buf ++ x)

def readerFeedSegs : RSt → List Bytes → RSt × List REv
  | st, [] => (st, [])
  | st, x :: xs =>
    ((readerFeedSegs (readerFeed st x).1 xs).1, (readerFeed st x).2 ++ (readerFeedSegs (readerFeed st x).1 xs).2)

/-! ### serialisation (reference encoder, for the round-trip theorem and the driver) -/

def beBytes : Nat → Nat → Bytes
  | 0, _ => []
  | k + 1, n => UInt8.ofNat (n / 256 ^ k % 256) :: beBytes k n

def serialize (f : RawFrame) : Bytes :=
  beBytes 3 f.payload.length ++ beBytes 1 f.ftype ++ beBytes 1 f.flags ++ beBytes 4 f.sid ++ f.payload

/-- the CONTINUATION frames carrying the fragments `ps` (the last one with END_HEADERS) -/
def contFrames (sid : Nat) : List Bytes → List RawFrame
  | [] => []
  | [p] => [⟨9, 4, sid, p⟩]
  | p :: q :: ps => ⟨9, 0, sid, p⟩ :: contFrames sid (q :: ps)

/-! ### raw frame -> the abstract frame of Model/H2.lean -/

def u31 (n : Nat) : Nat := n % 2147483648

/-- h2_parse_frame_settings(): 6-octet (identifier, value) pairs -/
def settingsParams : Bytes → List (Nat × Nat)
  | a :: b :: c :: d :: e :: f :: rest => (be [a, b], be [c, d, e, f]) :: settingsParams rest
  | _ => []

/-- field extraction of h2_recv_headers(): Pad Length, PRIORITY fields, header block.
    A frame too short for its padding or its PRIORITY fields is a connection PROTOCOL_ERROR
    raised at the same place (`padBad`). -/
def hdrFrame (dec : Bytes → HdrKind) (f : RawFrame) : FrameIn :=
  if flagSet f.flags 8 ∧ f.payload.length < 1 + be (slice f.payload 0 1) then
    .headers (u31 f.sid) .hpackBad (flagSet f.flags 1) none true false
  else if flagSet f.flags 32 ∧
      f.payload.length - (if flagSet f.flags 8 then 1 + be (slice f.payload 0 1) else 0) < 5 then
    .headers (u31 f.sid) .hpackBad (flagSet f.flags 1) none true false
  else
    .headers (u31 f.sid)
      (dec (slice f.payload ((if flagSet f.flags 8 then 1 else 0) + (if flagSet f.flags 32 then 5 else 0))
              (f.payload.length - (if flagSet f.flags 8 then 1 + be (slice f.payload 0 1) else 0)
                 - (if flagSet f.flags 32 then 5 else 0))))
      (flagSet f.flags 1)
      (if flagSet f.flags 32 then some (be (slice f.payload (if flagSet f.flags 8 then 1 else 0) 4)) else none)
      false false

/-! h2_parse_priority_update(): the Priority field value of RFC 9218 (`u=<0..7>`, `i`, `i=?0|?1`,
    comma separated; parsing stops at the first thing it does not understand) as the C scans it -/

/-- `do { ++i; } while (i < len && prio[i] != ',')`: index of the next comma behind `i` (or len) -/
def prioSkip (p : Bytes) : Nat → Nat → Nat
  | 0, i => i
  | fuel + 1, i => if i + 1 < p.length ∧ p.getD (i + 1) 0 ≠ 44 then prioSkip p fuel (i + 1) else i + 1

def prioSep (b : UInt8) : Bool := b == 32 || b == 9 || b == 44

/-- the for loop; `i` = index examined, result (urgency, incremental) -/
def prioLoop (p : Bytes) : Nat → Nat → Nat → Bool → Nat × Bool
  | 0, _, urg, incr => (urg, incr)
  | fuel + 1, i, urg, incr =>
    if i ≥ p.length then (urg, incr) else
    if prioSep (p.getD i 0) then prioLoop p fuel (i + 1) urg incr else
    if p.getD i 0 = 117 then                              -- 'u'
      if i + 2 < p.length ∧ p.getD (i + 1) 0 = 61 then     -- '='
        if 48 ≤ (p.getD (i + 2) 0).toNat ∧ (p.getD (i + 2) 0).toNat < 56 then
          -- (prio[i] is the digit now: not 'i'); skip to the next comma, the loop steps over it
          prioLoop p fuel (prioSkip p p.length (i + 2) + 1) ((p.getD (i + 2) 0).toNat - 48) incr
        else (urg, incr)
      else (urg, incr)
    else if p.getD i 0 = 105 then                         -- 'i'
      if i + 3 < p.length ∧ p.getD (i + 1) 0 = 61 ∧ p.getD (i + 2) 0 = 63 then   -- "=?"
        if p.getD (i + 3) 0 = 48 ∨ p.getD (i + 3) 0 = 49 then
          prioLoop p fuel (prioSkip p p.length (i + 3) + 1) urg (p.getD (i + 3) 0 = 49)
        else (urg, incr)
      else if i + 1 = p.length ∨ prioSep (p.getD (i + 1) 0) then
        prioLoop p fuel (prioSkip p p.length i + 1) urg true
      else (urg, incr)
    else prioLoop p fuel (prioSkip p p.length i + 1) urg incr

/-- r->x.h2.prio for a Priority field value: urgency << 1 | !incremental (defaults u=3, i=?0) -/
def parsePrio (p : Bytes) : Nat :=
  (prioLoop p (p.length + 1) 0 3 false).1 * 2 + (if (prioLoop p (p.length + 1) 0 3 false).2 then 0 else 1)

def toFrameIn (dec : Bytes → HdrKind) (f : RawFrame) : FrameIn :=
  match f.ftype with
  | 0 => .data (u31 f.sid) f.payload.length
           (if flagSet f.flags 8 then some (be (slice f.payload 0 1)) else none) (flagSet f.flags 1)
  | 1 => hdrFrame dec f
  | 2 => .priority (u31 f.sid) f.payload.length (u31 (be (slice f.payload 0 4)))
  | 3 => .rstStream (u31 f.sid) f.payload.length (be (slice f.payload 0 4))
  | 4 => .settings (flagSet f.flags 1) (u31 f.sid) (settingsParams f.payload) (f.payload.length % 6)
  | 5 => .pushPromise (u31 f.sid)
  | 6 => .ping (flagSet f.flags 1) (u31 f.sid) f.payload.length f.payload
  | 7 => .goaway (u31 f.sid) f.payload.length (be (slice f.payload 4 4))
  | 8 => .windowUpdate (u31 f.sid) f.payload.length (u31 (be (slice f.payload 0 4)))
  | 9 => .continuation (u31 f.sid)
  | 16 => .priorityUpdate (u31 f.sid) f.payload.length (u31 (be (slice f.payload 0 4)))
            (parsePrio (f.payload.drop 4))
  | t => .unknown t

/-- a reader event as frame-level input: the 32-frame CONTINUATION heuristic fires first;
    a reader-level error is the connection error of the same code -/
def evFrames (dec : Bytes → HdrKind) : REv → List FrameIn
  | .frame f k => (if k ≥ 32 then [FrameIn.contFlood] else []) ++ [toFrameIn dec f]
  | .err code k =>
    (if k ≥ 32 then [FrameIn.contFlood] else []) ++ [if code = E.frameSize then .oversize else .continuation 0]

/-! ### connection on octets -/

structure BConn where
  rd : RSt := {}
  c : H2Conn := {}
deriving Repr, DecidableEq

/-- one read segment -/
def feedSeg (dec : Bytes → HdrKind) (s : BConn) (seg : Bytes) : BConn × List Out :=
  (⟨(readerFeed s.rd seg).1, (recvBatch s.c ((readerFeed s.rd seg).2.flatMap (evFrames dec))).1⟩,
   (recvBatch s.c ((readerFeed s.rd seg).2.flatMap (evFrames dec))).2)

def feedSegs (dec : Bytes → HdrKind) : BConn → List Bytes → BConn × List Out
  | s, [] => (s, [])
  | s, x :: xs =>
    ((feedSegs dec (feedSeg dec s x).1 xs).1, (feedSeg dec s x).2 ++ (feedSegs dec (feedSeg dec s x).1 xs).2)

/-- one step: the segments of the step are read, then the streams are served until quiescence -/
def h2StepBytes (dec : Bytes → HdrKind) (s : BConn) (segs : List Bytes) : BConn × List Out :=
  (⟨(feedSegs dec s segs).1.rd, (processQuiesce 100000 (feedSegs dec s segs).1.c).1⟩,
   (feedSegs dec s segs).2 ++ (processQuiesce 100000 (feedSegs dec s segs).1.c).2)

end LtVerif
