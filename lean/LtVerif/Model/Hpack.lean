/-
  Model of HPACK (RFC 7541) as implemented by src/ls-hpack/lshpack.c and used
  by src/h2.c:

    lshpack_dec_dec_int()            -> `decInt`        (as it is: uint32 limit, 5/6-octet rule)
    lshpack_enc_enc_int()            -> `encInt`
    hdec_dec_str()                   -> `decStr`        (as it is: no input left = empty string;
                                                         lshpack_dec_decode() checks for a missing
                                                         value string itself; output-space errors)
    lshpack_enc_enc_str()            -> `encStr` / `encStrLs` (lshpack's own Huffman choice)
    static_table[], dynamic table    -> `staticTable`, `Table` (`evict` = "drop oldest while
                                        over capacity"), `Table.lookup`
    lshpack_dec_decode()             -> `decodeItem`    (one dynamic-table-size update or one
                                                         header field representation)
    the decode loops of h2_parse_headers_frame() / h2_discard_headers_frame()
                                     -> `decodeBlock` / `discardBlock`
    lshpack_dec_set_max_capacity()   -> `Dec.setMaxCapacity`
    lshpack_enc_set_max_capacity()   -> `Table.setMaxCapacity`

  `encodeBlock` is a *reference encoder* parameterised by a list of `Choice`s
  (indexing policy, name reference, Huffman or raw, table size updates): it
  stands for "any conformant peer encoder"; lshpack's own encoder is one such
  policy (its choices are not modelled, its output is checked by decoding).
-/
import LtVerif.Model.HpackHuffman
namespace LtVerif.Hpack
open LtVerif B

abbrev Header := Bytes × Bytes

/-! ### integers (RFC 7541 5.1) -/

def encIntTailF : Nat → Nat → Bytes
  | 0, n => [n.toUInt8]
  | f + 1, n =>
    if n < 128 then [n.toUInt8] else (n % 128 + 128).toUInt8 :: encIntTailF f (n / 128)

/-- continuation octets, least significant group first -/
def encIntTail (n : Nat) : Bytes := encIntTailF n n

/-- lshpack_enc_enc_int(): `hi` = pattern bits already in the first octet
    (a multiple of 2^pbits) -/
def encInt (pbits hi n : Nat) : Bytes :=
  if n < 2 ^ pbits - 1 then [(hi + n).toUInt8]
  else (hi + (2 ^ pbits - 1)).toUInt8 :: encIntTail (n - (2 ^ pbits - 1))

/-- continuation octets of lshpack_dec_dec_int(): at most 4 octets freely
    (M <= 28), a 5th only if it is 1..15 and the sum fits in uint32 -/
def decIntTail : Bytes → (shift acc : Nat) → Option (Nat × Bytes)
  | [], _, _ => none
  | b :: rest, sh, acc =>
    let acc' := acc + (b.toNat % 128) * 2 ^ sh
    if 128 ≤ b.toNat then decIntTail rest (sh + 7) acc'
    else if sh + 7 ≤ 28 then some (acc', rest)
    else if sh + 7 = 35 ∧ 1 ≤ b.toNat ∧ b.toNat ≤ 15 ∧ acc' < 2 ^ 32 then some (acc', rest)
    else none

/-- lshpack_dec_dec_int() (both error codes collapse: every caller maps them to BAD_DATA) -/
def decInt (pbits : Nat) : Bytes → Option (Nat × Bytes)
  | [] => none
  | b :: rest =>
    let v := b.toNat % 2 ^ pbits
    if v < 2 ^ pbits - 1 then some (v, rest) else decIntTail rest 0 v

/-! ### string literals (RFC 7541 5.2) -/

def encStr (huff : Bool) (s : Bytes) : Bytes :=
  if huff then encInt 7 128 (huffEncode s).length ++ huffEncode s
  else encInt 7 0 s.length ++ s

/-- lshpack_enc_enc_str(): Huffman iff the encoding is non-empty and not longer -/
def encStrLs (s : Bytes) : Bytes :=
  encStr (decide (0 < huffEncLen s ∧ huffEncLen s ≤ s.length)) s

/-- hdec_dec_str(dst_len = cap): returns the string and the remaining input -/
def decStr (cap : Nat) : Bytes → Except Err (Bytes × Bytes)
  | [] => .ok ([], [])
  | b :: rest0 =>
    match decInt 7 (b :: rest0) with
    | none => .error .badData
    | some (len, rest) =>
      if rest.length < len then .error .badData
      else if 128 ≤ b.toNat then
        match huffDecode cap (rest.take len) with
        | .ok s => .ok (s, rest.drop len)
        | .error e => .error e
      else if cap < len then .error .moreBuf
      else .ok (rest.take len, rest.drop len)

/-! ### tables -/

def staticTable : List Header := Extracted.hpackStatic

def entrySize (h : Header) : Nat := Extracted.hpackEntryOverhead + h.1.length + h.2.length

def tableSize (t : List Header) : Nat := (t.map entrySize).sum

/-- "drop the oldest entry while the size exceeds cap" on a newest-first list:
    keep the longest prefix that fits -/
def evict (cap : Nat) : List Header → List Header
  | [] => []
  | h :: t => if entrySize h ≤ cap then h :: evict (cap - entrySize h) t else []

/-- dynamic table with its two capacities (newest entry first) -/
structure Table where
  maxCap : Nat          -- limit set through SETTINGS (hpd_max_capacity / hpe_max_capacity)
  curMax : Nat          -- current maximum size (hpd_cur_max_capacity)
  dyn : List Header
deriving DecidableEq, Repr

def Table.init : Table := ⟨Extracted.hpackInitialDynSize, Extracted.hpackInitialDynSize, []⟩

def Table.lookup (t : Table) (i : Nat) : Option Header :=
  if i = 0 then none
  else if i ≤ Extracted.hpackStaticTableSize then staticTable[i - 1]?
  else t.dyn[i - Extracted.hpackStaticTableSize - 1]?

/-- hdec_update_max_capacity() -/
def Table.updateMax (t : Table) (n : Nat) : Table :=
  { t with curMax := n, dyn := evict n t.dyn }

/-- lshpack_dec_set_max_capacity() / lshpack_enc_set_max_capacity() -/
def Table.setMaxCapacity (t : Table) (n : Nat) : Table :=
  { maxCap := n, curMax := n, dyn := evict n t.dyn }

/-- lshpack_dec_push_entry() / lshpack_enc_push_entry() -/
def Table.push (t : Table) (h : Header) : Table :=
  { t with dyn := evict t.curMax (h :: t.dyn) }

/-- decoder state: the table plus, per dynamic entry, the static index hint
    (`dte_name_idx`) lshpack hands to h2.c as `lsx.hpack_index` -/
structure Dec where
  tbl : Table
  hints : List Nat
deriving DecidableEq, Repr

def Dec.init : Dec := ⟨Table.init, []⟩

def Dec.updateMax (d : Dec) (n : Nat) : Dec :=
  let t := d.tbl.updateMax n
  ⟨t, d.hints.take t.dyn.length⟩

def Dec.setMaxCapacity (d : Dec) (n : Nat) : Dec :=
  let t := d.tbl.setMaxCapacity n
  ⟨t, d.hints.take t.dyn.length⟩

def Dec.push (d : Dec) (h : Header) (hint : Nat) : Dec :=
  let t := d.tbl.push h
  ⟨t, (hint :: d.hints).take t.dyn.length⟩

/-- name/value and hint for a table index -/
def Dec.lookup (d : Dec) (i : Nat) : Option (Header × Nat) :=
  match d.tbl.lookup i with
  | none => none
  | some h =>
    if i ≤ Extracted.hpackStaticTableSize then some (h, i)
    else some (h, d.hints.getD (i - Extracted.hpackStaticTableSize - 1) 0)

/-! ### decoder -/

inductive Kind where
  | indexed | incr | without | never
deriving DecidableEq, Repr

structure Field where
  name : Bytes
  value : Bytes
  hint : Nat      -- lsxpack_header.hpack_index left by the decoder
  never : Bool    -- LSXPACK_NEVER_INDEX
deriving DecidableEq, Repr

def Field.header (f : Field) : Header := (f.name, f.value)

/-- first-octet dispatch of lshpack_dec_decode() (octets 32..63 = size update are
    handled before): representation kind and the prefix width of the index, or
    `none` when the name is a literal (the octet is skipped) -/
def reprOf (b : Nat) : Kind × Option Nat :=
  if 128 ≤ b then (.indexed, some 7)
  else if 64 < b then (.incr, some 6)
  else if b = 64 then (.incr, none)
  else if b = 16 then (.never, none)
  else if 16 < b then (.never, some 4)
  else if b = 0 then (.without, none)
  else (.without, some 4)

inductive ItemRes where
  | err (e : Err) (d : Dec)
  | upd (rest : Bytes) (d : Dec)
  | fld (f : Field) (rest : Bytes) (d : Dec)
deriving Repr

/-- value string of a literal representation, then the optional table insert -/
def decodeValue (cap : Nat) (d : Dec) (kind : Kind) (n : Bytes) (hint : Nat) (rest : Bytes) :
    ItemRes :=
  if rest = [] then .err .badData d       -- the value string literal is missing
  else
    match decStr (cap - n.length) rest with
    | .error e => .err e d
    | .ok (v, rest') =>
      .fld ⟨n, v, hint, decide (kind = .never)⟩ rest'
        (if kind = .incr then d.push (n, v) hint else d)

/-- one call of lshpack_dec_decode() restricted to a single item: either one
    dynamic table size update (the C loops over them inside the call; a size
    update that ends the input is BAD_DATA) or one header field.
    `cap` = size of the output buffer (`lsx.val_len` on entry). -/
def decodeItem (cap : Nat) (d : Dec) : Bytes → ItemRes
  | [] => .err .badData d
  | b :: rest0 =>
    if 32 ≤ b.toNat ∧ b.toNat < 64 then
      match decInt 5 (b :: rest0) with
      | none => .err .badData d
      | some (n, rest) =>
        if d.tbl.maxCap < n then .err .badData d
        else if rest = [] then .err .badData (d.updateMax n)
        else .upd rest (d.updateMax n)
    else
      match reprOf b.toNat with
      | (kind, pb) =>
        let idxRes : Option (Nat × Bytes) :=
          match pb with
          | some p => decInt p (b :: rest0)
          | none => some (0, rest0)
        match idxRes with
        | none => .err .badData d
        | some (idx, rest1) =>
          if idx = 0 then
            if kind = .indexed then .err .badData d
            else if rest1 = [] then .err .badData d
            else
              match decStr cap rest1 with
              | .error e => .err (if e = .moreBuf then .moreBufName else e) d
              | .ok (raw, rest2) =>
                if raw = [] then .err .badData d
                else decodeValue cap d kind raw 0 rest2
          else
            match d.lookup idx with
            | none => .err .badData d
            | some ((n, v), hint) =>
              if cap < n.length then .err .moreBufName d
              else if kind = .indexed then
                if cap - n.length < v.length then .err .moreBuf d
                else .fld ⟨n, v, hint, false⟩ rest1 d
              else decodeValue cap d kind n hint rest1

structure BlockRes where
  fields : List Field
  err : Option Err
  dec : Dec
deriving Repr

def decodeBlockAux (cap : Nat) : Nat → Dec → Bytes → List Field → BlockRes
  | 0, d, _, acc => ⟨acc.reverse, some .badData, d⟩
  | fuel + 1, d, bs, acc =>
    if bs = [] then ⟨acc.reverse, none, d⟩
    else
      match decodeItem cap d bs with
      | .err e d' => ⟨acc.reverse, some e, d'⟩
      | .upd rest d' => decodeBlockAux cap fuel d' rest acc
      | .fld f rest d' => decodeBlockAux cap fuel d' rest (f :: acc)

/-- the `while (*psrc < endp) lshpack_dec_decode(...)` loop of
    h2_parse_headers_frame(): fields decoded before the first error, the error,
    and the decoder state left behind -/
def decodeBlock (cap : Nat) (d : Dec) (bs : Bytes) : BlockRes :=
  decodeBlockAux cap (bs.length + 1) d bs []

/-- h2_discard_headers_frame() runs the same loop and throws the fields away:
    `(decodeBlock cap d bs).dec` survives, `(decodeBlock cap d bs).err` is a
    connection error exactly as for a served block. -/
def discardBlock (cap : Nat) (d : Dec) (bs : Bytes) : Dec × Option Err :=
  let r := decodeBlock cap d bs
  (r.dec, r.err)

/-! ### reference encoder (any conformant peer) -/

inductive Mode where
  | indexed | incr | without | never
deriving DecidableEq, Repr

structure Choice where
  resize : List Nat := []     -- dynamic table size updates emitted before the field
  mode : Mode := .incr
  idx : Nat := 0              -- candidate table index (full match or name reference)
  huffName : Bool := false
  huffValue : Bool := false
deriving Repr

def encResize (t : Table) : List Nat → Bytes × Table
  | [] => ([], t)
  | n :: ns =>
    let n' := min n t.maxCap
    let r := encResize (t.updateMax n') ns
    (encInt 5 32 n' ++ r.1, r.2)

/-- one header field representation (after the size updates) -/
def encodeFieldCore (t1 : Table) (c : Choice) (h : Header) : Bytes × Table :=
  if c.mode = .indexed ∧ t1.lookup c.idx = some h then
    (encInt 7 128 c.idx, t1)
  else
    let nameRef := if (t1.lookup c.idx).map (·.1) = some h.1 then c.idx else 0
    let flag : Nat := match c.mode with
      | .incr => 64
      | .never => 16
      | _ => 0
    let pbits : Nat := match c.mode with
      | .incr => 6
      | _ => 4
    let nm := if nameRef ≠ 0 then encInt pbits flag nameRef
              else flag.toUInt8 :: encStr c.huffName h.1
    (nm ++ encStr c.huffValue h.2, if c.mode = .incr then t1.push h else t1)

def encodeField (t : Table) (c : Choice) (h : Header) : Bytes × Table :=
  let pre := encResize t c.resize
  let r := encodeFieldCore pre.2 c h
  (pre.1 ++ r.1, r.2)

def encodeBlock (t : Table) : List Choice → List Header → Bytes × Table
  | _, [] => ([], t)
  | cs, h :: hs =>
    let r1 := encodeField t (cs.headD {}) h
    let r2 := encodeBlock r1.2 cs.tail hs
    (r1.1 ++ r2.1, r2.2)

/-! ### a whole connection -/

/-- what h2_recv_headers() does with a header block: hand the decoded list to
    the request (h2_parse_headers_frame) or decode-and-discard it (refused
    stream, trailers of an unknown stream, stream after a graceful GOAWAY:
    h2_discard_headers) -/
inductive Disp where
  | serve | discard
deriving DecidableEq, Repr

/-- what the encoding peer sends, in order (lighttpd never changes its own
    SETTINGS_HEADER_TABLE_SIZE: the request-direction limit stays 4096) -/
structure ConnItem where
  cs : List Choice
  hs : List Header
  disp : Disp

/-- what travels -/
structure Wire where
  bs : Bytes
  disp : Disp

def encodeConn (t : Table) : List ConnItem → List Wire × Table
  | [] => ([], t)
  | it :: rest =>
    let r := encodeBlock t it.cs it.hs
    let r2 := encodeConn r.2 rest
    (⟨r.1, it.disp⟩ :: r2.1, r2.2)

/-- the receiving end over a connection's life: the header lists handed to
    requests, the final decoder state, and whether the connection is still
    alive (a decoding error in ANY decoded block, served or discarded, is
    answered with GOAWAY) -/
def recvConn (cap : Nat) : Dec → List Wire → List (List Field) × Dec × Bool
  | d, [] => ([], d, true)
  | d, w :: ws =>
    let r := decodeBlock cap d w.bs
    match r.err with
    | some _ => ([], r.dec, false)
    | none =>
      let r2 := recvConn cap r.dec ws
      (if w.disp = .serve then r.fields :: r2.1 else r2.1, r2.2.1, r2.2.2)

/-- header lists of the served blocks -/
def servedLists : List ConnItem → List (List Header)
  | [] => []
  | it :: rest => if it.disp = .serve then it.hs :: servedLists rest else servedLists rest

/-! ### specification predicates used by the theorems -/

/-- table invariant: the size never exceeds the current maximum, which never
    exceeds the SETTINGS limit (an `unsigned` in the C) -/
structure Table.WF (t : Table) : Prop where
  cur_le : t.curMax ≤ t.maxCap
  max_lt : t.maxCap < 2 ^ 32
  size_le : tableSize t.dyn ≤ t.curMax

/-- header fields lshpack's decoder can deliver: non-empty name (any octets),
    name + value fit the decoder's output buffer of `cap` octets -/
structure HeaderOk (cap : Nat) (h : Header) : Prop where
  name_ne : h.1 ≠ []
  fits : h.1.length + h.2.length < cap

end LtVerif.Hpack
