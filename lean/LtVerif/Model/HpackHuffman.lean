/-
  HPACK Huffman coding as implemented by src/ls-hpack/lshpack.c (small-table
  build, LS_HPACK_USE_LARGE_TABLES == 0):

    lshpack_enc_huff_encode()        -> `huffEncode`   (specification style: the
        concatenated codes of `encode_table[]`, padded with 1-bits (EOS prefix)
        to a byte boundary; the C packs the same bit string through a 64-bit
        accumulator)
    lshpack_dec_huff_decode_full()   -> `huffDecode`   (as it is: the 4-bit
    hdec_huff_dec4bits()                automaton over `decode_tables[256][16]`,
                                        including the output-space checks)

  Both tables are regenerated from huff-tables.h on every run
  (LtVerif/Extracted/HpackTables.lean).
-/
import LtVerif.Model.Basic
import LtVerif.Extracted.HpackTables
namespace LtVerif.Hpack
open LtVerif B

/-- LSHPACK_ERR_BAD_DATA (-1), LSHPACK_ERR_TOO_LARGE (-2), LSHPACK_ERR_MORE_BUF (-3) -/
inductive Err where
  | badData | tooLarge | moreBuf
  | moreBufName     -- MORE_BUF raised before lshpack stored the field name (`lsx.name_len` still 0)
deriving DecidableEq, Repr

def Err.code : Err → Int
  | .badData => -1
  | .tooLarge => -2
  | .moreBuf => -3
  | .moreBufName => -3

/-! ### encoder -/

/-- the `n` low bits of `code`, most significant first -/
def bitsOf (code : Nat) : Nat → List Bool
  | 0 => []
  | n + 1 => code.testBit n :: bitsOf code n

/-- code of one octet: `encode_table[b]` -/
def huffCode (b : UInt8) : List Bool :=
  match Extracted.hpackHuffEnc[b.toNat]? with
  | some (c, n) => bitsOf c n
  | none => []

/-- value of a bit string, most significant bit first -/
def natOfBits (l : List Bool) : Nat := l.foldl (fun acc b => 2 * acc + b.toNat) 0

def byteOfBits (l : List Bool) : UInt8 := (natOfBits l).toUInt8

/-- pack a bit string into octets; an incomplete last octet is filled with
    1-bits (the most significant bits of EOS) -/
def bitsToBytes : List Bool → Bytes
  | a :: b :: c :: d :: e :: f :: g :: h :: rest =>
    byteOfBits [a, b, c, d, e, f, g, h] :: bitsToBytes rest
  | [] => []
  | l => [byteOfBits (l ++ List.replicate (8 - l.length) true)]

def huffBits (s : Bytes) : List Bool := s.flatMap huffCode

/-- lshpack_enc_huff_encode() -/
def huffEncode (s : Bytes) : Bytes := bitsToBytes (huffBits s)

/-- length in octets of the Huffman encoding (without producing it) -/
def huffEncLen (s : Bytes) : Nat := ((huffBits s).length + 7) / 8

/-! ### decoder: the 4-bit automaton -/

/-- `decode_tables[state][nibble]`; anything out of range counts as FAIL.
    (the extracted table comes in 16 chunks of 16 states) -/
def huffEntry (state nib : Nat) : Nat × Nat × Nat :=
  (((Extracted.hpackHuffDec.getD (state / 16) []).getD (state % 16) []).getD nib
    (0, Extracted.hpackHuffFail, 0))

/-- hdec_huff_dec4bits(): `none` = FAIL, else (new state, accepted, emitted symbol) -/
def huffStep (state nib : Nat) : Option (Nat × Bool × Option UInt8) :=
  match huffEntry state nib with
  | (st', fl, sym) =>
    if fl &&& Extracted.hpackHuffFail ≠ 0 then none
    else some (st', fl &&& Extracted.hpackHuffAccepted ≠ 0,
               if fl &&& Extracted.hpackHuffSym ≠ 0 then some sym.toUInt8 else none)

def pushSym (s : Option UInt8) (out : Bytes) : Bytes :=
  match s with
  | some x => x :: out
  | none => out

def symLen (s : Option UInt8) : Nat :=
  match s with
  | some _ => 1
  | none => 0

/-- lshpack_dec_huff_decode_full(): `room` = free octets left in dst, `out` is
    the output so far, reversed.  The C checks `p_dst == dst_end` before each
    of the two nibbles of every input octet. -/
def huffDecodeAux : Bytes → (state : Nat) → (eos : Bool) → (room : Nat) → (out : Bytes) →
    Except Err Bytes
  | [], _, eos, _, out => if eos then .ok out.reverse else .error .badData
  | b :: rest, st, _, room, out =>
    if room = 0 then .error .moreBuf else
    match huffStep st (b.toNat / 16) with
    | none => .error .badData
    | some (st1, _, s1) =>
      if room - symLen s1 = 0 then .error .moreBuf else
      match huffStep st1 (b.toNat % 16) with
      | none => .error .badData
      | some (st2, eos2, s2) =>
        huffDecodeAux rest st2 eos2 (room - symLen s1 - symLen s2) (pushSym s2 (pushSym s1 out))

/-- lshpack_dec_huff_decode(src, dst, dst_len = cap) -/
def huffDecode (cap : Nat) (src : Bytes) : Except Err Bytes :=
  huffDecodeAux src 0 true cap []

end LtVerif.Hpack
