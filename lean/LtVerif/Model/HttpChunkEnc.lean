/-
  Model of the response-side chunked *encoder* of lighttpd (src/http_chunk.c):
    http_chunk_len_append()          -> `chunkLenLine`
    http_chunk_append_mem/_buffer/_file_*  (framing only) -> `chunkAppend`
    http_chunk_close()               -> `chunkClose`
  and of the first chunk that http_response_write_prepare() (src/response.c) wraps around
  whatever is already queued when it switches a response to Transfer-Encoding: chunked
  (`chunkFirst`, which uses buffer_append_uint_hex_lc(): an even number of hex digits).

  The bytes are what matters here; whether the C keeps them in memory chunks, file chunks or
  temporary files is the business of the chunk queue (C17) and of the writer (Model/NetWrite).
-/
import LtVerif.Model.H1Chunked
namespace LtVerif
open B

/-- http_chunk_len_append(): `len` in lower-case hex without leading zeros ("0" for 0), CRLF.
    (`encHex` is exact below 16^64; the C argument is a uintmax_t.) -/
def chunkLenLine (n : Nat) : Bytes := encHex n ++ [cr, lf]

/-- base-256 digits of `n`, most significant first, each rendered as two lower-case hex digits -/
def hexBytesGo : Nat → Nat → Bytes
  | 0, _ => []
  | fuel + 1, n =>
    let lo : Bytes := [hexDigitLC ((n % 256) / 16).toUInt8, hexDigitLC (n % 16).toUInt8]
    if n < 256 then lo else hexBytesGo fuel (n / 256) ++ lo

/-- buffer_append_uint_hex_lc(): whole bytes are rendered, i.e. an even number of digits ("05") -/
def hexBytesLc (n : Nat) : Bytes := hexBytesGo 64 n

/-- one call of http_chunk_append_mem() / _buffer() / _file_ref_range() ...: nothing for an empty
    piece; the piece itself when the response is not chunked; else size line, piece, CRLF -/
def chunkAppend (chunked : Bool) (d : Bytes) : Bytes :=
  if d.isEmpty then []
  else if chunked then chunkLenLine d.length ++ d ++ [cr, lf]
  else d

/-- http_chunk_append_file_ref_range(): a range of a file of `content`, clamped to the file size;
    nothing if the clamped range is empty -/
def chunkAppendFileRange (chunked : Bool) (content : Bytes) (off len : Nat) : Bytes :=
  let len' := if content.length - off < len then content.length - off else len
  chunkAppend chunked ((content.drop off).take len')

/-- http_chunk_append_file_fd_range(): no clamping, the caller passes an existing non-empty range -/
def chunkAppendFdRange (chunked : Bool) (content : Bytes) (off len : Nat) : Bytes :=
  let d := (content.drop off).take len
  if chunked then chunkLenLine len ++ d ++ [cr, lf] else d

/-- http_chunk_append_read_fd_range(): `len` bytes are announced, then pread()s until `len` bytes or
    EOF; `avail` is what the file really holds from `off` on.  Returns the queued bytes and the rc
    (-1 on a short read: the file is shorter than the size it was stat()ed with). -/
def chunkAppendReadFd (chunked : Bool) (content : Bytes) (off len : Nat) : Bytes × Int :=
  let d := (content.drop off).take len
  ((if chunked then chunkLenLine len else []) ++ d ++ (if chunked then [cr, lf] else []),
   if d.length = len then 0 else -1)

/-- http_chunk_append_file_fd() / http_chunk_append_file_ref() with the size `sz` the caller
    believes the file to have: files up to 32 KiB of a chunked response are read into memory -/
def chunkAppendWholeFile (chunked : Bool) (content : Bytes) (sz : Nat) : Bytes × Int :=
  if sz > 32768 || !chunked then (chunkAppend chunked (content.take sz), 0)
  else if sz = 0 then ([], 0)
  else chunkAppendReadFd chunked content 0 sz

/-- http_chunk_close() (no backend trailers): the last-chunk and the final CRLF -/
def chunkClose (chunked : Bool) : Bytes :=
  if chunked then [48, cr, lf, cr, lf] else []

/-- http_response_write_prepare(), switching to chunked with `queued` already in the write
    queue: nothing if the queue is empty, else "<hex>\r\n" is prepended and "\r\n" appended -/
def chunkFirst (queued : Bytes) : Bytes :=
  if queued.isEmpty then [] else hexBytesLc queued.length ++ [cr, lf] ++ queued ++ [cr, lf]

/-- a whole streamed body: pieces appended one by one, then (if the handler ends normally) closed -/
def chunkStream (chunked : Bool) (pieces : List Bytes) (close : Bool) : Bytes :=
  pieces.flatMap (chunkAppend chunked) ++ (if close then chunkClose chunked else [])

/-- chunk sizes the C can represent in an off_t without tripping the overflow guard of the
    decoder model (`ckSizeLimit`): the domain of the round-trip statements -/
def chunkSizeOk (n : Nat) : Prop := n < 2 ^ 62

end LtVerif
