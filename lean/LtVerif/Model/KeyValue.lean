/-
  Model of src/keyvalue.c (template substitution and first-match rule selection used by
  mod_rewrite / mod_redirect), of the rule application of src/mod_rewrite.c
  (process_rewrite_rules + the HANDLER_COMEBACK re-dispatch, loop limit) and
  src/mod_redirect.c, of mod_alias_remap() (src/mod_alias.c) and of the document-root
  composition of src/mod_simple_vhost.c and src/mod_evhost.c.

  PCRE2 is external: a rule's regular expression is represented by the *result* of
  matching it (`MatchRes`), which the correspondence harness obtains from the real
  PCRE2 and checks again when the case is replayed (trace validation).
  Templates and subjects are NUL-free byte strings (C strings).
-/
import LtVerif.Model.BurlAppend
namespace LtVerif
open B

/-! ## captures and the substitution environment -/

/-- an ovector: pair `k` is `some (start, end)` or `none` (PCRE2_UNSET);
    the list length is pcre2_match()'s return value `n` (resp. `cond_match_t.captures`) -/
abbrev OVec := List (Option (Nat × Nat))

structure Caps where
  subject : Bytes
  ovec : OVec
deriving Repr, DecidableEq

/-- capture `k` and the bytes following it in the subject (see `burlAppend`) -/
def Caps.get (c : Caps) (k : Nat) : Bytes × Bytes :=
  match c.ovec[k]? with
  | some (some (s, e)) => ((c.subject.drop s).take (e - s), c.subject.drop e)
  | _ => ([], [])

/-- struct burl_parts_t as filled in by mod_rewrite / mod_redirect -/
structure UrlParts where
  scheme : Option Bytes
  authority : Option Bytes
  port : Nat
  path : Bytes               -- r->target: url-path including the query part
  query : Option Bytes       -- r->uri.query; `none` = no '?' in the request-target
deriving Repr, DecidableEq

structure Env where
  rule : Caps                -- captures of the matching rule ($N)
  cond : Option Caps         -- captures of the enclosing condition (%N), if any
  url : UrlParts
deriving Repr, DecidableEq

def dollar : UInt8 := 36
def lbrace : UInt8 := 123
def rbrace : UInt8 := 125

/-- pcre_keyvalue_buffer_append_match / _append_ctxmatch: `sigil` = '$' or '%' -/
def capAppend (env : Env) (sigil : UInt8) (num flags : Nat) : Bytes :=
  if sigil = dollar then
    let (s, look) := env.rule.get num
    burlAppend flags s look
  else
    match env.cond with
    | none => []
    | some c =>
      let (s, look) := c.get num
      burlAppend flags s look

/-! ## `${...}` / `%{...}` -/

def startsWith (pre s : Bytes) : Bool := pre.isPrefixOf s

/-- strchr(): index of the first occurrence -/
def idxOf? (x : UInt8) (s : Bytes) : Option Nat :=
  let i := s.idxOf x
  if i < s.length then some i else none

def sEsc := ofString "esc"
def sApe := ofString "ape:"
def sNde := ofString "nde:"
def sPsnde := ofString "psnde:"
def sNo := ofString "no"
def sEscC := ofString "esc:"
def sEscapeC := ofString "escape:"
def sTo := ofString "to"
def sLowerC := ofString "lower:"
def sUpperC := ofString "upper:"
def sUrlDot := ofString "url."
def sScheme := ofString "scheme}"
def sAuthority := ofString "authority}"
def sPort := ofString "port}"
def sPath := ofString "path}"
def sQuery := ofString "query}"
def sQsa := ofString "qsa}"
def sEncB64 := ofString "encb64u:"
def sDecB64 := ofString "decb64u:"

/-- a buffer's content seen as a C string: up to the first NUL -/
def cstr : Bytes → Bytes
  | [] => []
  | b :: rest => if b = 0 then [] else b :: cstr rest

/-- `${qsa}`: append the query string, joined by '?' or '&' -/
def qsaAppend (url : UrlParts) (flags : Nat) (out : Bytes) : Bytes :=
  match url.query with
  | none => out
  | some q =>
    -- strchr(b->ptr, '?') looks at the C string (up to the first NUL)
    let hasQ := (cstr out).contains qmark
    let out' := if hasQ then (if q.isEmpty then out else out ++ [38]) else out ++ [qmark]
    out' ++ burlAppend flags q []

/-- the numeric tail of `${...N}`: `p` starts with a digit.  Returns the capture number and
    the offset of the closing '}' in `p`. -/
def extNumber (p : Bytes) : Option (Nat × Nat) :=
  match p with
  | d :: rest =>
    let (num, used) :=
      match rest with
      | d2 :: _ => if isDigit d2 then ((d.toNat - 48) * 10 + (d2.toNat - 48), 2) else (d.toNat - 48, 1)
      | [] => (d.toNat - 48, 1)
    match idxOf? rbrace (p.drop used) with
    | some j => some (num, used + j)
    | none => none
  | [] => none

/-- flags used for a capture: the default encoding applies unless an encoding modifier was given
    (`0 == (flags & ~(BURL_TOLOWER|BURL_TOUPPER))`); a lone case modifier does not suppress it -/
def capFlags (fl : Nat) : Nat :=
  if fl ||| (Extracted.burlToLower ||| Extracted.burlToUpper) = Extracted.burlToLower ||| Extracted.burlToUpper
  then fl ||| Extracted.kvMod_default else fl

/-- pcre_keyvalue_buffer_subst_ext(): `p` = template after "${" (or "%{"), `out` = result
    so far.  Returns the new result and the number of template bytes consumed after the '{'
    (through the closing '}'), or `none` for a malformed template (result is truncated).
    `skip` = bytes of `p` already consumed by a recognised keyword, `pos` = offset in `p`. -/
def extGo (env : Env) (sigil : UInt8) (out : Bytes) : Bytes → Nat → Nat → Nat → Option (Bytes × Nat)
  | [], _, _, _ => none
  | _ :: rest, skip + 1, pos, fl => extGo env sigil out rest skip (pos + 1) fl
  | b :: rest, 0, pos, fl =>
    let p := b :: rest
    if isDigit b then
      match extNumber p with
      | none => none
      | some (num, j) =>
        some (out ++ capAppend env sigil num (capFlags fl), pos + j + 1)
    else if b = rbrace then some (out, pos + 1)
    else if startsWith sEsc p then
      let q := p.drop 3
      if startsWith [colon] q then extGo env sigil out rest 3 (pos + 1) (fl ||| Extracted.kvMod_esc)
      else if startsWith sApe q then extGo env sigil out rest 6 (pos + 1) (fl ||| Extracted.kvMod_escape)
      else if startsWith sNde q then extGo env sigil out rest 6 (pos + 1) (fl ||| Extracted.kvMod_escnde)
      else if startsWith sPsnde q then extGo env sigil out rest 8 (pos + 1) (fl ||| Extracted.kvMod_escpsnde)
      else match idxOf? colon q with
        | none => none
        | some j => extGo env sigil out rest (3 + j) (pos + 1) fl
    else if startsWith sNo p then
      let q := p.drop 2
      if startsWith sEscC q then extGo env sigil out rest 5 (pos + 1) (fl ||| Extracted.kvMod_noesc)
      else if startsWith sEscapeC q then extGo env sigil out rest 8 (pos + 1) (fl ||| Extracted.kvMod_noescape)
      else match idxOf? colon q with
        | none => none
        | some j => extGo env sigil out rest (2 + j) (pos + 1) fl
    else if startsWith sTo p then
      let q := p.drop 2
      if startsWith sLowerC q then extGo env sigil out rest 7 (pos + 1) (fl ||| Extracted.kvMod_tolower)
      else if startsWith sUpperC q then extGo env sigil out rest 7 (pos + 1) (fl ||| Extracted.kvMod_toupper)
      else match idxOf? colon q with
        | none => none
        | some j => extGo env sigil out rest (2 + j) (pos + 1) fl
    else if startsWith sUrlDot p then
      let q := p.drop 4
      if startsWith sScheme q then
        some (out ++ (match env.url.scheme with | some s => burlAppend fl s [] | none => []), pos + 4 + 7)
      else if startsWith sAuthority q then
        some (out ++ (match env.url.authority with | some s => burlAppend fl s [] | none => []), pos + 4 + 10)
      else if startsWith sPort q then some (out ++ natToDec env.url.port, pos + 4 + 5)
      else if startsWith sPath q then
        -- the url-path: r->target up to the first '?'; the '?' (if any) follows in memory
        let path := env.url.path.takeWhile (· ≠ qmark)
        some (out ++ burlAppend fl path (env.url.path.drop path.length), pos + 4 + 5)
      else if startsWith sQuery q then
        some (out ++ (match env.url.query with | some s => burlAppend fl s [] | none => []), pos + 4 + 6)
      else match idxOf? rbrace q with
        | none => none
        | some j => some (out, pos + 4 + j + 1)
    else if startsWith sQsa p then some (qsaAppend env.url fl out, pos + 4)
    else if startsWith sEncB64 p then extGo env sigil out rest 7 (pos + 1) (fl ||| Extracted.kvMod_encb64u)
    else if startsWith sDecB64 p then extGo env sigil out rest 7 (pos + 1) (fl ||| Extracted.kvMod_decb64u)
    else extGo env sigil out rest 0 (pos + 1) fl

def substExt (env : Env) (sigil : UInt8) (out p : Bytes) : Option (Bytes × Nat) :=
  extGo env sigil out p 0 0 0

/-! ## pcre_keyvalue_buffer_subst -/

/-- one pass over the template; `skip` = template bytes already consumed by the
    placeholder that started earlier. -/
def substGo (env : Env) : Bytes → Nat → Bytes → Bytes
  | [], _, out => out
  | _ :: rest, skip + 1, out => substGo env rest skip out
  | c :: rest, 0, out =>
    if c = dollar || c = pct then
      match rest with
      | [] => out ++ [c]                        -- last byte is always literal
      | d :: _ =>
        if d = lbrace then
          match substExt env c out (rest.drop 1) with
          | none => out                          -- malformed: result truncated here
          | some (out', k) => substGo env rest (k + 1) out'
        else if isDigit d then substGo env rest 1 (out ++ capAppend env c (d.toNat - 48) 0)
        else substGo env rest 1 (out ++ (if c = d then [c] else [c, d]))
    else substGo env rest 0 (out ++ [c])

/-- pcre_keyvalue_buffer_subst(): expand `tmpl` -/
def subst (env : Env) (tmpl : Bytes) : Bytes := substGo env tmpl 0 []

/-! ## pcre_keyvalue_buffer_process: first match wins -/

/-- outcome of pcre2_match() for one rule -/
inductive MatchRes
  | nomatch
  | error                      -- any PCRE2 error other than NOMATCH
  | matched (ovec : OVec)
deriving Repr, DecidableEq

inductive ProcRes
  | goOn (m : Option Nat)      -- HANDLER_GO_ON: no rule matched, or rule `m` matched with blank value
  | error                      -- HANDLER_ERROR
  | finished (m : Nat) (result : Bytes)   -- HANDLER_FINISHED: rule `m` applied
deriving Repr, DecidableEq

/-- `rules` = (substitution template, match result of the rule's regex on `subject`),
    in configuration order; `i` = index of the head rule -/
def processFrom (cond : Option Caps) (url : UrlParts) (subject : Bytes) :
    List (Bytes × MatchRes) → Nat → ProcRes
  | [], _ => .goOn none
  | (tmpl, r) :: rest, i =>
    match r with
    | .nomatch => processFrom cond url subject rest (i + 1)
    | .error => .error
    | .matched ov =>
      if tmpl.isEmpty then .goOn (some i)
      else .finished i (subst { rule := { subject := subject, ovec := ov }, cond := cond, url := url } tmpl)

def process (cond : Option Caps) (url : UrlParts) (subject : Bytes)
    (rules : List (Bytes × MatchRes)) : ProcRes :=
  processFrom cond url subject rules 0

/-! ## config-time normalisation of rule keys / values -/

/-- pcre_keyvalue_burl_percent_toupper(): upper-case the hex digits of every %XX -/
def normKeyGo : Bytes → Nat → Bytes
  | [], _ => []
  | b :: rest, skip + 1 => (if b ≥ 97 then b &&& 0xdf else b) :: normKeyGo rest skip
  | b :: rest, 0 =>
    if b = pct then
      match rest with
      | h :: l :: _ => b :: normKeyGo rest (if (hexVal h).isSome && (hexVal l).isSome then 2 else 0)
      | _ => b :: normKeyGo rest 0
    else b :: normKeyGo rest 0

/-- pcre_keyvalue_burl_percent_percent_toupper(): same for %%XX in substitution values -/
def normValGo : Bytes → Nat → Bytes
  | [], _ => []
  | b :: rest, skip + 1 => (if b ≥ 97 then b &&& 0xdf else b) :: normValGo rest skip
  | b :: rest, 0 =>
    if b = pct then
      match rest with
      | p2 :: h :: l :: _ =>
        b :: normValGo rest (if p2 = pct && (hexVal h).isSome && (hexVal l).isSome then 3 else 0)
      | _ => b :: normValGo rest 0
    else b :: normValGo rest 0

/-- pcre_keyvalue_burl_percent_high_UTF8 / _percent_percent_high_UTF8 -/
def highPct (dbl : Bool) (s : Bytes) : Bytes :=
  s.flatMap fun b => if b > 0x7F then (if dbl then pct :: pctEnc b else pctEnc b) else [b]

/-- pcre_keyvalue_burl_normalize_key() -/
def normalizeKey (k : Bytes) : Bytes := highPct false (normKeyGo k 0)
/-- pcre_keyvalue_burl_normalize_value() -/
def normalizeValue (v : Bytes) : Bytes := highPct true (normValGo v 0)

/-! ## mod_redirect -/

/-- status of a redirect: url.redirect-code, else 301 for GET/HEAD or HTTP/1.0, else 308 -/
def redirectStatus (code : Nat) (getOrHead http10 : Bool) : Nat :=
  if code ≠ 0 then code else if getOrHead || http10 then 301 else 308

/-- mod_redirect_uri_handler(): `some (status, Location)` when a rule applies -/
def redirect (code : Nat) (getOrHead http10 : Bool) (cond : Option Caps) (url : UrlParts)
    (rules : List (Bytes × MatchRes)) : Except Unit (Option (Nat × Bytes)) :=
  match process cond url url.path rules with
  | .finished _ loc => .ok (some (redirectStatus code getOrHead http10, loc))
  | .goOn _ => .ok none
  | .error => .error ()

/-! ## mod_rewrite: process_rewrite_rules and the HANDLER_COMEBACK loop -/

/-- r->plugin_ctx[p->id] of mod_rewrite: NULL (`none`) until the first rewrite; afterwards the
    call counter (low bits) and REWRITE_STATE_FINISHED -/
structure RwState where
  count : Nat
  finished : Bool
deriving Repr, DecidableEq

def rwLoopLimit : Nat := 100

inductive RwRes
  | goOn                         -- HANDLER_GO_ON: continue with the current request-target
  | comeback (target : Bytes)    -- HANDLER_COMEBACK: request-target replaced, request re-dispatched
  | loopError                    -- "ENDLESS LOOP IN rewrite-rule DETECTED"
  | invalidResult                -- substitution result does not begin with '/'
  | pcreError
deriving Repr, DecidableEq

/-- process_rewrite_rules(): `repeatIdx` = kvb->x1 (rules below it are rewrite-once rules),
    `rules` = templates paired with the match results of their patterns on `url.path` (= r->target) -/
def rwCall (repeatIdx : Nat) (cond : Option Caps) (url : UrlParts) (rules : List (Bytes × MatchRes))
    (h : Option RwState) : RwRes × Option RwState :=
  let h1 : Option RwState := h.map fun st => { st with count := st.count + 1 }
  match h1 with
  | some st =>
    if st.count > rwLoopLimit then (.loopError, h1)
    else if st.finished then (.goOn, h1)
    else body h1
  | none => body h1
where
  body (h1 : Option RwState) : RwRes × Option RwState :=
    match process cond url url.path rules with
    | .finished m res =>
      if res.head? = some slash then
        let st := h1.getD { count := 0, finished := false }
        (.comeback res, some { st with finished := st.finished || m < repeatIdx })
      else (.invalidResult, h1)
    | .error => (.pcreError, h1)
    | .goOn _ => (.goOn, h1)

/-- what stat() (following symbolic links, as stat_cache_path_stat() does) says about
    r->physical.path -/
inductive FsKind
  | missing      -- stat fails: ENOENT, ENOTDIR (path below a regular file, or non-directory + '/'), dangling link
  | regular      -- S_ISREG
  | directory    -- S_ISDIR
  | other        -- fifo, socket, device
deriving Repr, DecidableEq

/-- mod_rewrite_physical(): url.rewrite-if-not-file / url.rewrite-repeat-if-not-file.  The rule list
    (`rules`, rewrite-if-not-file rules below `repeatIdx`) is processed by process_rewrite_rules()
    unless another module has already taken the request (`handlerSet`), the list is empty, or the
    physical path is a *regular file*. -/
def rwPhysical (handlerSet : Bool) (kind : FsKind) (repeatIdx : Nat) (cond : Option Caps) (url : UrlParts)
    (rules : List (Bytes × MatchRes)) (h : Option RwState) : RwRes × Option RwState :=
  if handlerSet then (.goOn, h)
  else if rules.isEmpty then (.goOn, h)
  else if kind = .regular then (.goOn, h)
  else rwCall repeatIdx cond url rules h

/-- how a request leaves the rewrite stage -/
inductive RwFinal
  | served (target : Bytes) (rewrites : Nat)     -- request continues with this request-target
  | status (code : Nat) (rewrites : Nat)         -- rewritten target rejected by the URL parser
  | failed (why : RwRes) (rewrites : Nat)        -- HANDLER_ERROR
  | outOfFuel
deriving Repr, DecidableEq

/-- query part of a (normalised) request-target as http_request_parse_target() sets r->uri.query -/
def targetQuery (t : Bytes) : Option Bytes :=
  if t.contains qmark then some ((t.dropWhile (· ≠ qmark)).drop 1) else none

/-- struct burl_parts_t as mod_rewrite / mod_redirect fill it in for a request: `authority` =
    r->uri.authority (the lower-cased Host), replaced by r->server_name (`serverName`) when blank;
    path = r->target, query = r->uri.query -/
def requestUrl (scheme authority serverName : Bytes) (port : Nat) (target : Bytes) : UrlParts :=
  { scheme := some scheme, authority := some (if authority.isEmpty then serverName else authority),
    port := port, path := target, query := targetQuery target }

/-- http_response_handler()'s COMEBACK loop around mod_rewrite_uri_handler():
    `matcher target` = match results of all rule patterns on `target`. -/
def rwRun (matcher : Bytes → List MatchRes) (templates : List Bytes) (repeatIdx : Nat)
    (cond : Option Caps) (opts : Opts) (scheme authority serverName : Bytes) (port : Nat) :
    Nat → Bytes → Option RwState → Nat → RwFinal
  | 0, _, _, _ => .outOfFuel
  | fuel + 1, target, h, n =>
    let url : UrlParts := requestUrl scheme authority serverName port target
    match rwCall repeatIdx cond url (templates.zip (matcher target)) h with
    | (.goOn, _) => .served target n
    | (.comeback t', h') =>
      match parseTarget opts false t' with
      | .error e => .status e (n + 1)
      | .ok tg => rwRun matcher templates repeatIdx cond opts scheme authority serverName port fuel tg.target h' (n + 1)
    | (r, _) => .failed r n

/-- mod_rewrite_uri_handler(): url.rewrite-once / url.rewrite-repeat; returns before touching the
    per-request state when the list is empty -/
def rwUri (repeatIdx : Nat) (cond : Option Caps) (url : UrlParts) (rules : List (Bytes × MatchRes))
    (h : Option RwState) : RwRes × Option RwState :=
  if rules.isEmpty then (.goOn, h) else rwCall repeatIdx cond url rules h

/-- what the two hooks of mod_rewrite meet on one pass of a request through http_response_prepare():
    the configuration patched for the request as it is now (after a rewrite other conditions may
    hold: other rule lists, other %N captures), the PCRE2 verdicts on the current target, and the
    filesystem object the physical path names -/
structure RwPass where
  uriRules : List (Bytes × MatchRes)      -- url.rewrite-once ++ url.rewrite-repeat
  uriIdx : Nat
  nfRules : List (Bytes × MatchRes)       -- url.rewrite-if-not-file ++ url.rewrite-repeat-if-not-file
  nfIdx : Nat
  cond : Option Caps
  handlerSet : Bool
  kind : FsKind

/-- the whole rewrite stage: both hooks share r->plugin_ctx (counter + finished flag); every
    HANDLER_COMEBACK re-parses the target and starts a new pass -/
def rwRunG (pass : Bytes → RwPass) (opts : Opts) (scheme authority serverName : Bytes) (port : Nat) :
    Nat → Bytes → Option RwState → Nat → RwFinal
  | 0, _, _, _ => .outOfFuel
  | fuel + 1, target, h, n =>
    let p := pass target
    let url := requestUrl scheme authority serverName port target
    let again (t' : Bytes) (h' : Option RwState) : RwFinal :=
      match parseTarget opts false t' with
      | .error e => .status e (n + 1)
      | .ok tg => rwRunG pass opts scheme authority serverName port fuel tg.target h' (n + 1)
    match rwUri p.uriIdx p.cond url p.uriRules h with
    | (.comeback t', h') => again t' h'
    | (.goOn, h1) =>
      (match rwPhysical p.handlerSet p.kind p.nfIdx p.cond url p.nfRules h1 with
       | (.comeback t', h') => again t' h'
       | (.goOn, _) => .served target n
       | (r, _) => .failed r n)
    | (r, _) => .failed r n

/-! ## mod_alias -/

inductive AliasRes
  | unchanged
  | forbidden                               -- 403: "." / ".." right behind a slash-less alias
  | remapped (path basedir : Bytes)
deriving Repr, DecidableEq

def aliasKeyMatches (nocase : Bool) (uri : Bytes) (kv : Bytes × Bytes) : Bool :=
  kv.1.length ≤ uri.length &&
    (if nocase then eqIcase (uri.take kv.1.length) kv.1 else uri.take kv.1.length == kv.1)

/-- length of r->physical.basedir without its trailing slash: where the url-path starts in
    r->physical.path -/
def baseLen (basedir : Bytes) : Nat :=
  if basedir.getLast? = some slash then basedir.length - 1 else basedir.length

/-- what follows the matched alias is "." or ".." as a whole path segment -/
def dotSegAhead : Bytes → Bool
  | d :: t =>
    d = dot &&
      (let t' := match t with
                 | d2 :: t2 => if d2 = dot then t2 else t
                 | [] => t
       t'.isEmpty || t'.head? = some slash)
  | [] => false

/-- mod_alias_remap(): `basedir` = r->physical.basedir, `path` = r->physical.path -/
def aliasRemap (nocase : Bool) (aliases : List (Bytes × Bytes)) (basedir path : Bytes) : AliasRes :=
  if path.isEmpty || path.length < baseLen basedir then .unchanged else
  match aliases.find? (aliasKeyMatches nocase (path.drop (baseLen basedir))) with
  | none => .unchanged
  | some (k, v) =>
    if dotSegAhead ((path.drop (baseLen basedir)).drop k.length) && !k.isEmpty && k.getLast? ≠ some slash
        && !v.isEmpty && v.getLast? = some slash then
      .forbidden
    else .remapped (v ++ (path.drop (baseLen basedir)).drop k.length) v

/-! ## mod_simple_vhost / mod_evhost document roots -/

/-- buffer_append_slash() -/
def appendSlash (b : Bytes) : Bytes :=
  if !b.isEmpty && b.getLast? ≠ some slash then b ++ [slash] else b

/-- buffer_append_path_len() -/
def appendPath (b a : Bytes) : Bytes :=
  if b.getLast? = some slash then b ++ (if a.head? = some slash then a.drop 1 else a)
  else b ++ (if a.head? = some slash then a else slash :: a)

/-- host name without the port: up to the first ':' -/
def hostNoPort (host : Bytes) : Bytes := host.takeWhile (· ≠ colon)

/-- build_doc_root_path() of mod_simple_vhost: server-root + host + document-root -/
def simpleVhostRoot (sroot : Bytes) (host : Option Bytes) (droot : Option Bytes) : Bytes :=
  let out := sroot ++ (match host with | some h => hostNoPort h | none => [])
  match droot with
  | some d => appendPath out d
  | none => appendSlash out

/-- mod_evhost_parse_pattern(): split evhost.path-pattern into literal and %-pieces -/
def evParseGo : Bytes → Nat → Bytes → List Bytes → Option (List Bytes)
  | [], _, lit, acc => some (if lit.isEmpty then acc.reverse else (lit.reverse :: acc).reverse)
  | _ :: rest, skip + 1, lit, acc => evParseGo rest skip lit acc
  | b :: rest, 0, lit, acc =>
    if b = pct then
      if acc.length ≥ 126 then none else
      let len : Option Nat :=
        match rest with
        | d :: r2 =>
          if d = pct || d = uscore || isDigit d then some 2
          else if d = lbrace then
            match r2 with
            | x :: y :: r3 =>
              if !isDigit x then none
              else if y = dot then
                (match r3 with
                 | z :: w :: _ => if isDigit z && w = rbrace then some 6 else none
                 | _ => none)
              else if y = rbrace then some 4
              else none
            | _ => none
          else none
        | [] => none
      match len with
      | none => none
      | some n => evParseGo rest (n - 1) [] ((b :: rest).take n :: lit.reverse :: acc)
    else evParseGo rest 0 (b :: lit) acc

def evParsePattern (pat : Bytes) : Option (List Bytes) := evParseGo pat 0 [] []

/-- first loop of mod_evhost_parse_host(): scan backwards from the end for "domain.tld";
    `i` = current index (the byte at index `len` is the NUL).  Returns (ptr, colon). -/
def evScanDomain (a : Bytes) : Nat → Nat → Bool → Nat × Nat
  | 0, col, _ => (0, col)
  | i + 1, col, first =>
    let ch := a.getD (i + 1) 0
    if ch = dot then (if first then evScanDomain a i col false else (i + 1, col))
    else if ch = colon then evScanDomain a i (i + 1) true
    else evScanDomain a i col first

/-- second loop: labels right-to-left; `i` = current index, `col` = end of the current label,
    `k` = next label number.  Returns the labels found (number, value). -/
def evScanLabels (a : Bytes) : Nat → Nat → Nat → List (Nat × Bytes) → List (Nat × Bytes)
  | 0, col, k, acc => if col ≠ 0 then (k, a.take col) :: acc else acc
  | i + 1, col, k, acc =>
    if a.getD (i + 1) 0 = dot then
      if i + 1 ≠ col - 1 then evScanLabels a i (i + 1) (k + 1) ((k, (a.drop (i + 2)).take (col - i - 2)) :: acc)
      else evScanLabels a i (i + 1) k acc
    else evScanLabels a i col k acc

def slice (a : Bytes) (s e : Nat) : Bytes := (a.drop s).take (e - s)

/-- index of the last ']' + 1 scanning backwards from `i` (do { --ptr } while (ptr > start && ptr[-1] != ']')) -/
def evBackToBracket (a : Bytes) : Nat → Nat
  | 0 => 0
  | i + 1 => if i = 0 then 0 else if a.getD (i - 1) 0 = 93 then i else evBackToBracket a i

/-- mod_evhost_parse_host(): the %N table -/
def evParseHost (a : Bytes) : List (Nat × Bytes) :=
  let len := a.length
  if a.head? = some 91 then      -- '[' IPv6 literal
    if a.getLast? = some 93 then [(0, a)]
    else
      let p := evBackToBracket a len
      if a.getD p 0 = colon then [(0, a.take p)] else []
  else
    let (ptr, col) := evScanDomain a len len true
    let ptr' := if a.getD ptr 0 = dot then ptr + 1 else ptr
    let e0 := (0, slice a ptr' col)
    if col ≠ 0 then e0 :: (evScanLabels a (col - 1) col 1 []).reverse else [e0]

def evLookup (tbl : List (Nat × Bytes)) (n : Nat) : Option Bytes :=
  -- array_set_key_value overwrites: the last entry for a key wins
  (tbl.reverse.find? (·.1 = n)).map (·.2)

/-- expansion of one piece of the parsed pattern -/
def evPiece (tbl : List (Nat × Bytes)) (authority : Bytes) (piece : Bytes) : Bytes :=
  match piece with
  | p0 :: p1 :: rest =>
    if p0 ≠ pct then piece
    else if p1 = pct then [pct]
    else if p1 = uscore then hostNoPort authority
    else if p1 = lbrace then
      match rest with
      | x :: y :: z :: _ =>
        (match evLookup tbl (x.toNat - 48) with
         | some v =>
           if y ≠ dot || z = 48 then v
           else (let m := z.toNat - 48; if m ≤ v.length then [v.getD (m - 1) 0] else [])
         | none => [])
      | x :: _ => (evLookup tbl (x.toNat - 48)).getD []
      | [] => []
    else (evLookup tbl (p1.toNat - 48)).getD []
  | _ => piece

/-- mod_evhost_build_doc_root_path() -/
def evhostRoot (pieces : List Bytes) (authority : Bytes) : Bytes :=
  let tbl := evParseHost authority
  appendSlash (pieces.flatMap (evPiece tbl authority))

end LtVerif
