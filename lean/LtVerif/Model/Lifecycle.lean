/-
  Model of connection lifetime in lighttpd (C13): timeouts, size limits, admission control,
  graceful stop.

  Layer A — the C functions as they are:
    h1_check_timeout()                      checkTimeoutH1
    h2_check_timeout()                      checkTimeoutH2
    server_overload_check/server_load_check loadCheck        (the branch of server_main_loop())
    network_server_handle_fdevent()         acceptCount      (min(lim_conns, 100))
  Layer B — one HTTP/1.x connection between two rests of the main loop (connections.c:
    connection_state_machine_loop(), connection_handle_*_state(), connection_set_fdevent_interest(),
    connection_check_timeout(), connection_graceful_shutdown_maint(); h1.c: h1_recv_headers() 431,
    h1_reqbody_read()/h1_chunked() 413, h1_send_headers(); response.c: http_response_config() 413):
    `Conn` holds r->state, con->request_count, the IN/OUT interest bits, the three timestamps,
    con->keep_alive_idle, r->keep_alive and the progress of the request in flight; the transitions are
    `recv` (bytes arrive), `clientRead` / `finishResponse` (the client drains its socket), `finConn`
    (client FIN / close), `tickConn` (the once-per-second sweep), `gracefulConn`.
  Layer C — the server: `Sys` = clock, lim_conns, cur_fds, sockets_disabled, graceful flags, listen
    backlog, connections, scripted clients; `step` applies one scripted action and then runs the main
    loop to rest (`settle`: load check / overload check / accept loop to a fixed point, or the graceful
    maintenance pass).  `observe` prints what the harness prints.

  Times are absolute seconds of the monotonic clock (the C code uses 0 as "unset" for
  write_request_ts and graceful_expire_ts); the line protocol prints them relative to `base`.
  Core Lean only.
-/
import LtVerif.Model.Basic
import LtVerif.Extracted.LifeConst

namespace LtVerif.Lifecycle
open LtVerif.Extracted

/-- request_state_t (request.h), in enum order -/
inductive CState where
  | connect | reqStart | read | reqEnd | readPost | handleReq | respStart | write | respEnd
  | error | close
deriving DecidableEq, Repr, Inhabited

def CState.code : CState → Nat
  | .connect => 0 | .reqStart => 1 | .read => 2 | .reqEnd => 3 | .readPost => 4
  | .handleReq => 5 | .respStart => 6 | .write => 7 | .respEnd => 8 | .error => 9 | .close => 10

def CState.ofCode : Nat → Option CState
  | 0 => some .connect | 1 => some .reqStart | 2 => some .read | 3 => some .reqEnd
  | 4 => some .readPost | 5 => some .handleReq | 6 => some .respStart | 7 => some .write
  | 8 => some .respEnd | 9 => some .error | 10 => some .close | _ => none

/-! ## Layer A: the timeout checks -/

/-- what h1_check_timeout() reads -/
structure H1View where
  st : CState
  inEv : Bool        -- fdevent_fdnode_interest(con->fdn) & FDEVENT_IN
  n : Nat            -- con->request_count
  h1 : Bool          -- r->http_version <= HTTP_VERSION_1_1
  rts : Int          -- con->read_idle_ts
  wts : Int          -- con->write_request_ts
  cts : Int          -- con->close_timeout_ts
  kaIdle : Int       -- con->keep_alive_idle
  ri : Int           -- r->conf.max_read_idle
  wi : Int           -- r->conf.max_write_idle
deriving Repr

/-- h1_check_timeout(): (changed, r->state afterwards) -/
def checkTimeoutH1 (v : H1View) (now : Int) : Bool × CState :=
  let first : Bool × CState :=
    if v.st = .close then (decide (now - v.cts > lingerTimeoutH1), v.st)
    else if v.inEv then
      let idle := if v.n ≠ 1 ∧ v.st = .read then v.kaIdle else v.ri
      if now - v.rts > idle then (true, .error) else (false, v.st)
    else (false, v.st)
  if v.h1 ∧ first.2 = .write ∧ v.wts ≠ 0 then
    if now - v.wts > v.wi then (true, .error) else first
  else first

/-- one active HTTP/2 stream as h2_check_timeout() sees it -/
structure H2Stream where
  st : CState              -- rr->state
  bodyPending : Bool       -- rr->reqbody_length != rr->reqbody_queue.bytes_in
  ri : Int                 -- rr->conf.max_read_idle
deriving Repr, Inhabited

structure H2View where
  st : CState              -- h2r->state
  streams : List H2Stream  -- h2c->r[0 .. rused)
  rts : Int
  wts : Int
  kaIdle : Int
  wi : Int                 -- h2r->conf.max_write_idle
deriving Repr

/-- the body of the per-stream loop: (changed, h2r->state) -/
def h2StreamStep (v : H2View) (now : Int) (acc : Bool × CState) (s : H2Stream) : Bool × CState :=
  if s.st = .error then (true, acc.2)
  else
    let a1 : Bool × CState :=
      if s.bodyPending ∧ now - v.rts > s.ri then (true, .error) else acc
    if s.st ≠ .readPost ∧ v.wts ≠ 0 ∧ now - v.wts > v.wi then (true, .error) else a1

/-- h2_check_timeout(): (changed, h2r->state afterwards, con->is_readable left untouched) -/
def checkTimeoutH2 (v : H2View) (now : Int) : Bool × CState × Bool :=
  if v.st ≠ .write then (true, v.st, true)
  else
    let r : Bool × CState :=
      if v.streams ≠ [] then v.streams.foldl (h2StreamStep v now) (false, v.st)
      else if now - v.rts > v.kaIdle then (true, .respEnd) else (false, v.st)
    (r.1, r.2, !r.1)

/-! ### HTTP/2 request size limits (Layer A) -/

/-- what h2_recv_data() keeps about the request body of one stream -/
structure H2Body where
  bytesIn : Nat := 0          -- r->reqbody_queue.bytes_in
  status : Nat := 0           -- r->http_status (0: none yet)
  isOpen : Bool := true       -- r->x.h2.state == H2_STATE_OPEN
  cl : Option Nat := none     -- r->reqbody_length when >= 0 (Content-Length)
deriving Repr, Inhabited, DecidableEq

/-- `r->reqbody_length >= 0 && r->reqbody_length < dst->bytes_in + alen` -/
def H2Body.overLength (b : H2Body) (alen : Nat) : Bool :=
  match b.cl with
  | some n => decide (n < b.bytesIn + alen)
  | none => false

/-- "tolerate up to 64k additional data before resetting stream" -/
def h2SinkAllowance : Nat := 65536

/-- h2_recv_data() for one DATA frame of `alen` payload bytes (`es`: END_STREAM) on a stream found in
    h2c->r[]; `max` = max_request_size in bytes (0: unlimited).  Returns the new state and the error code
    of the RST_STREAM frame it sends, if any.  (Connection-level flow control is C06's.) -/
def h2DataStep (max : Nat) (b : H2Body) (alen : Nat) (es : Bool) : H2Body × Option Nat :=
  if !b.isOpen then (b, some 5)                                   -- H2_E_STREAM_CLOSED
  else if b.overLength alen then
    ({ b with isOpen := false }, some 1)                          -- more than Content-Length: PROTOCOL_ERROR
  else if es then
    -- h2_recv_end_data(): the final frame is taken whatever max_request_size says
    match b.cl with
    | none => ({ b with isOpen := false, cl := some (b.bytesIn + alen), bytesIn := b.bytesIn + alen }, none)
    | some n =>
      if n ≠ b.bytesIn + alen then ({ b with isOpen := false }, some 1)
      else ({ b with isOpen := false, bytesIn := b.bytesIn + alen }, none)
  else if max = 0 ∨ b.bytesIn + alen ≤ max then ({ b with bytesIn := b.bytesIn + alen }, none)
  else if b.bytesIn + alen - max > h2SinkAllowance ∨ b.status = 0 then
    (if b.status = 0 then ({ b with status := 413 }, none)        -- refused, 413 prepared
     else (b, some 5))                                            -- beyond the allowance: RST_STREAM
  else ({ b with bytesIn := b.bytesIn + alen }, none)             -- sunk so that the 413 can be sent

def h2DataRun (max : Nat) : H2Body → List (Nat × Bool) → H2Body
  | b, [] => b
  | b, f :: fs => h2DataRun max (h2DataStep max b f.1 f.2).1 fs

/-- http_request_parse_header() as called for every decoded field of an HTTP/2 header block:
    `hpctx->hlen += klen + vlen + 4` against max_request_field_size; (status, index of the refused field) -/
def h2HeadScan (fs : Nat) : Nat → Nat → List (Nat × Nat) → Nat × Nat
  | _, _, [] => (0, 0)
  | hlen, i, (k, v) :: rest =>
    if hlen + k + v + 4 > fs then (431, i) else h2HeadScan fs (hlen + k + v + 4) (i + 1) rest

def h2HeadStatus (fs : Nat) (fields : List (Nat × Nat)) : Nat := (h2HeadScan fs 0 0 fields).1

/-! ## configuration -/

structure Cfg where
  mc : Nat := 4          -- server.max-connections
  mf : Nat := 64         -- server.max-fds
  cf : Int := 10         -- descriptors in use when the main loop starts
  ri : Nat := 2          -- server.max-read-idle
  wi : Nat := 3          -- server.max-write-idle
  ka : Nat := 1          -- server.max-keep-alive-idle
  kr : Nat := 100        -- server.max-keep-alive-requests
  rs : Nat := 0          -- server.max-request-size (kB; 0 = unlimited)
  fs : Nat := 8192       -- server.max-request-field-size
  gt : Nat := 4          -- server.graceful-shutdown-timeout (0 = never expires)
deriving Repr, Inhabited

def Cfg.maxFds (c : Cfg) : Nat := if c.mf < minMaxFds then minMaxFds else c.mf

/-- server_main_setup(): the effective connection limit for a configured server.max-connections `mc`
    (0 = unset) and descriptor limit `maxFds`: at most maxFds/2, default maxFds/3 -/
def effMaxConns (mc maxFds : Nat) : Nat :=
  if mc > maxFds / 2 then maxFds / 2 else if mc ≠ 0 then mc else maxFds / 3
def Cfg.lowat (c : Cfg) : Int := ((c.maxFds * lowatNum / lowatDen : Nat) : Int)
def Cfg.hiwat (c : Cfg) : Int := ((c.maxFds * hiwatNum / hiwatDen : Nat) : Int)

/-- sockets_disabled after the load-check step of one main-loop iteration (no graceful shutdown):
    `server_overload_check` when disabled, `server_load_check` otherwise -/
def loadCheck (curFds lowat hiwat : Int) (lim : Nat) (disabled : Nat) : Nat :=
  if disabled ≠ 0 then
    (if curFds < lowat ∧ lim ≠ 0 then 0 else disabled)
  else
    (if curFds > hiwat ∨ lim = 0 then 1 else 0)

/-- network_server_handle_fdevent(): number of accept() calls attempted for one readiness event -/
def acceptCount (lim : Nat) : Nat := if lim > acceptLoopCap then acceptLoopCap else lim

/-! ## Layer B: one HTTP/1.x connection -/

inductive RKind where
  | get | post | chunked
deriving DecidableEq, Repr, Inhabited

/-- a scripted request: exact head length, declared body, wanted response -/
structure Req where
  kind : RKind := .get
  ka : Bool := true        -- false: "Connection: close"
  big : Bool := false      -- response larger than any socket buffer
  H : Nat := 0             -- length of the request head (through the empty line)
  B : Nat := 0             -- body bytes (Content-Length, or sum of the chunks)
  csz : Nat := 0           -- chunk size (chunked)
deriving DecidableEq, Repr, Inhabited

def hexLen (n : Nat) : Nat := (Nat.toDigits 16 n).length
/-- "<hex>\r\n" data "\r\n" -/
def chunkUnit (csz : Nat) : Nat := hexLen csz + 2 + csz + 2
def chunkCount (r : Req) : Nat := if r.csz = 0 then 0 else r.B / r.csz
/-- length of the chunked body stream including the last-chunk "0\r\n\r\n" -/
def chunkedTotal (r : Req) : Nat := chunkCount r * chunkUnit r.csz + 5
def bodyStreamLen (r : Req) : Nat :=
  match r.kind with
  | .get => 0
  | .post => r.B
  | .chunked => chunkedTotal r
def reqLen (r : Req) : Nat := r.H + bodyStreamLen r

/-- h1_chunked(): the size line of chunk k (k ≥ 1) has been received completely and
    `max_request_size < te_chunked || max_request_size - te_chunked < dst_cq->bytes_in` -/
def chunk413 (cfg : Cfg) (r : Req) (got : Nat) : Bool :=
  cfg.rs ≠ 0 && r.csz ≠ 0 &&
    (let max := cfg.rs * 1024
     let k := max / r.csz + 1
     decide (k ≤ chunkCount r) && decide ((k - 1) * chunkUnit r.csz + hexLen r.csz + 2 ≤ got))

structure Conn where
  st : CState := .read
  n : Nat := 1               -- con->request_count
  inEv : Bool := true
  outEv : Bool := false
  rts : Int := 0
  wts : Int := 0
  cts : Int := 0
  kaIdle : Nat := 0          -- con->keep_alive_idle
  keepAlive : Bool := false  -- r->keep_alive > 0 (request in flight)
  hdrBuf : Nat := 0          -- bytes of an incomplete request head in con->read_queue
  req : Req := {}            -- request in flight
  bodyGot : Nat := 0         -- bytes of the body stream received
  finSeen : Bool := false    -- client FIN seen while the response is being written
deriving Repr, Inhabited

/-- next state of a connection (`none`: closed and released) and status codes written to the client -/
abbrev CRes := Option Conn × List Nat

def Conn.view (cfg : Cfg) (c : Conn) : H1View :=
  { st := c.st, inEv := c.inEv, n := c.n, h1 := true, rts := c.rts, wts := c.wts, cts := c.cts,
    kaIdle := c.kaIdle, ri := cfg.ri, wi := cfg.wi }

/-- connection_handle_shutdown() + connection_handle_close_state(): shutdown(SHUT_WR), enter
    CON_STATE_CLOSE, read for end-of-stream; a FIN that is already there closes at once -/
def toClose (now : Int) (c : Conn) : Option Conn :=
  if c.finSeen then none
  else some { c with st := .close, cts := now, inEv := true, outEv := false, keepAlive := false }

/-- the response has been written completely: connection_handle_response_end_state() and, for
    keep-alive, the next pass through CON_STATE_REQUEST_START / CON_STATE_READ -/
def finishResponse (now : Int) (c : Conn) : Option Conn :=
  if c.keepAlive then
    some { c with st := .read, n := c.n + 1, inEv := true, outEv := false, rts := now, hdrBuf := 0,
                  bodyGot := 0, keepAlive := false }
  else toClose now c

/-- h1_send_headers() and the first connection_handle_write_state() -/
def respond (cfg : Cfg) (now : Int) (c : Conn) (status : Nat) (big : Bool) (bodyComplete : Bool)
    (keepAlive : Bool) : CRes :=
  let ka := keepAlive && cfg.ka ≠ 0 && decide (c.n ≤ cfg.kr) && bodyComplete
  let c := { c with kaIdle := cfg.ka, wts := now, st := .write, keepAlive := ka }
  if big then (some { c with inEv := false, outEv := true }, [status])
  else (finishResponse now c, [status])

/-- h1_reqbody_read() with `add` more bytes of the body stream -/
def bodyStep (cfg : Cfg) (now : Int) (c : Conn) (add : Nat) : CRes :=
  let got := c.bodyGot + add
  let r := c.req
  match r.kind with
  | .get => respond cfg now c 200 r.big true r.ka
  | .post =>
    if got ≥ r.B then respond cfg now c 200 r.big true r.ka
    else (some { c with st := .readPost, bodyGot := got, inEv := true, outEv := false }, [])
  | .chunked =>
    if chunk413 cfg r got then respond cfg now c 413 false false false
    else if got ≥ chunkedTotal r then respond cfg now c 200 r.big true r.ka
    else (some { c with st := .readPost, bodyGot := got, inEv := true, outEv := false }, [])

/-- `n > 0` bytes of the client's request `r` arrive (FDEVENT_IN, connection_state_machine()) -/
def recv (cfg : Cfg) (now : Int) (c : Conn) (r : Req) (n : Nat) : CRes :=
  match c.st with
  | .read =>
    let c := { c with rts := now }
    let buf := c.hdrBuf + n
    if buf < r.H then
      -- incomplete head: h1_recv_headers() compares what is buffered with max_request_field_size
      if buf > cfg.fs then respond cfg now { c with hdrBuf := 0, req := {} } 431 false true false
      else (some { c with hdrBuf := buf }, [])
    else if r.H > cfg.fs then respond cfg now { c with hdrBuf := 0, req := {} } 431 false true false
    else
      let c := { c with hdrBuf := 0, req := r, bodyGot := 0 }
      match r.kind with
      | .get => respond cfg now c 200 r.big true r.ka
      | .post =>
        -- http_response_config(): Content-Length beyond max_request_size
        if cfg.rs ≠ 0 ∧ r.B > cfg.rs * 1024 then respond cfg now c 413 false false false
        else bodyStep cfg now c (buf - r.H)
      | .chunked => bodyStep cfg now c (buf - r.H)
  | .readPost => bodyStep cfg now { c with rts := now } n
  | _ => (some c, [])        -- CON_STATE_CLOSE: read and discarded

/-- the client reads what is in its socket while the response is blocked: FDEVENT_OUT,
    connection_write_chunkqueue() runs again -/
def clientRead (now : Int) (c : Conn) : Conn :=
  if c.st = .write then { c with wts := now } else c

/-- the client reads until the server has nothing more to send -/
def clientDrain (now : Int) (c : Conn) : Option Conn :=
  if c.st = .write then finishResponse now { c with wts := now } else some c

/-- the client shuts down its sending side (`full = false`) or closes (`full = true`) -/
def finConn (full : Bool) (c : Conn) : Option Conn :=
  if c.st = .write ∧ ¬ full then some { c with finSeen := true, keepAlive := false }
  else none

/-- connection_check_timeout() and the state machine pass it triggers -/
def tickConn (cfg : Cfg) (now : Int) (c : Conn) : Option Conn :=
  let r := checkTimeoutH1 (c.view cfg) now
  if r.1 then
    (if c.st = .close then none else toClose now c)
  else some c

/-- connection_graceful_shutdown_maint() for one connection, iterated to rest -/
def gracefulConn (expired : Bool) (c : Conn) : Option Conn :=
  if c.st = .close then none
  else if c.st = .read ∧ c.n > 1 ∧ c.hdrBuf = 0 then none
  else if expired then none
  else some { c with keepAlive := false }

/-! ### vocabulary of the limits statement -/

/-- what the configured limits demand for a request, stated on the request alone — not on how, when
    or in how many pieces it arrives -/
def expectedStatus (cfg : Cfg) (r : Req) : Nat :=
  if r.H > cfg.fs then 431
  else match r.kind with
    | .get => 200
    | .post => if cfg.rs ≠ 0 ∧ r.B > cfg.rs * 1024 then 413 else 200
    | .chunked => if cfg.rs ≠ 0 ∧ chunkCount r * r.csz > cfg.rs * 1024 then 413 else 200

/-- a request arriving in pieces `(second, bytes)`; the statuses written in answer -/
def feed (cfg : Cfg) (r : Req) : Option Conn → List (Int × Nat) → Option Conn × List Nat
  | oc, [] => (oc, [])
  | none, _ :: _ => (none, [])
  | some c, (now, n) :: rest =>
    let x := recv cfg now c r n
    let y := feed cfg r x.1 rest
    (y.1, x.2 ++ y.2)

def segSum (segs : List (Int × Nat)) : Nat := (segs.map Prod.snd).sum

/-! ### vocabulary of the liveness statement -/

/-- the instant after which the once-per-second sweep gives up on a connection at rest -/
def Conn.deadline (cfg : Cfg) (c : Conn) : Int :=
  match c.st with
  | .close => c.cts + lingerTimeoutH1
  | .read => c.rts + (if c.n ≠ 1 then (c.kaIdle : Int) else (cfg.ri : Int))
  | .write => c.wts + (cfg.wi : Int)
  | _ => c.rts + (cfg.ri : Int)

/-- the shapes in which the main loop leaves an HTTP/1.x connection between two events: waiting for
    request bytes (FDEVENT_IN wanted), waiting for the client to read (write_request_ts set), or
    lingering in the close state -/
def Conn.Rest (c : Conn) : Prop :=
  (c.st = .read ∧ c.inEv = true) ∨ (c.st = .readPost ∧ c.inEv = true) ∨
  (c.st = .write ∧ c.inEv = false ∧ c.wts ≠ 0) ∨ c.st = .close

/-- what can happen to a connection while its client does nothing -/
inductive IdleEv where
  | tick (now : Int)             -- the periodic sweep, at whatever second
  | wake                         -- the state machine runs without any I/O being possible
  | graceful (expired : Bool)    -- graceful-shutdown maintenance
deriving Repr

def idleStep (cfg : Cfg) (c : Conn) : IdleEv → Option Conn
  | .tick now => tickConn cfg now c
  | .wake => some c
  | .graceful e => gracefulConn e c

def runIdle (cfg : Cfg) : Option Conn → List IdleEv → Option Conn
  | none, _ => none
  | some c, [] => some c
  | some c, e :: es => runIdle cfg (idleStep cfg c e) es

/-! ## Layer C: the server and its scripted clients -/

def base : Int := 1000
def maxClients : Nat := 96

structure Client where
  opened : Bool := false
  fdOpen : Bool := false
  accepted : Bool := false       -- a connection for this client has been seen at rest
  req : Option Req := none
  off : Nat := 0                 -- bytes of `req` sent
  pre : Nat := 0                 -- bytes sent while waiting in the listen backlog
  preClosed : Bool := false      -- closed while waiting in the listen backlog
  preFin : Bool := false         -- sending side shut down while waiting in the listen backlog
  inbox : List Nat := []         -- responses written by the server, not yet read
  seen : List Nat := []
  srvFin : Bool := false         -- the server's FIN / hang-up is visible
  reset : Nat := 0               -- 1: ECONNRESET pending, 2: delivered
  eof : Bool := false
  rderr : Bool := false
deriving Repr, Inhabited

structure Sys where
  now : Int := base
  lim : Nat := 0                 -- srv->lim_conns
  curFds : Int := 0              -- srv->cur_fds
  disabled : Nat := 0            -- srv->sockets_disabled
  graceful : Bool := false       -- graceful_shutdown
  expireTs : Int := 0            -- srv->graceful_expire_ts
  exited : Bool := false         -- server_main_loop() has returned
  backlog : List Nat := []       -- clients waiting in the listen queue (FIFO)
  conns : List (Nat × Conn) := []
  clients : List Client := []
deriving Repr, Inhabited

def Sys.init (cfg : Cfg) : Sys :=
  { lim := cfg.mc, curFds := cfg.cf, clients := List.replicate maxClients {} }

def Sys.client (s : Sys) (i : Nat) : Client := s.clients.getD i {}
def Sys.setClient (s : Sys) (i : Nat) (c : Client) : Sys := { s with clients := s.clients.set i c }
def Sys.modClient (s : Sys) (i : Nat) (f : Client → Client) : Sys := s.setClient i (f (s.client i))

def lookupConn : List (Nat × Conn) → Nat → Option Conn
  | [], _ => none
  | (j, c) :: rest, i => if j = i then some c else lookupConn rest i

def Sys.conn (s : Sys) (i : Nat) : Option Conn := lookupConn s.conns i

def eraseConn : List (Nat × Conn) → Nat → List (Nat × Conn)
  | [], _ => []
  | (j, c) :: rest, i => if j = i then rest else (j, c) :: eraseConn rest i

/-- connection_close(): the slot and the descriptor are returned -/
def Sys.release (s : Sys) (i : Nat) : Sys :=
  match lookupConn s.conns i with
  | none => s
  | some _ => { s with conns := eraseConn s.conns i, lim := s.lim + 1, curFds := s.curFds - 1 }

def setConn : List (Nat × Conn) → Nat → Conn → List (Nat × Conn)
  | [], _, _ => []
  | (j, c) :: rest, i, c' => if j = i then (j, c') :: rest else (j, c) :: setConn rest i c'

/-- store the outcome of a transition of connection `i`; hand the written responses to the client -/
def Sys.putConn (s : Sys) (i : Nat) (r : CRes) : Sys :=
  let s := s.modClient i fun cl => { cl with inbox := cl.inbox ++ r.2 }
  match r.1 with
  | none => (s.release i).modClient i fun cl => { cl with srvFin := true }
  | some c =>
    let s := { s with conns := setConn s.conns i c }
    if c.st = .close then s.modClient i fun cl => { cl with srvFin := true } else s

/-- apply a transition to connection `i` if it exists -/
def Sys.onConn (s : Sys) (i : Nat) (f : Conn → CRes) : Sys :=
  match s.conn i with
  | none => s
  | some c => s.putConn i (f c)

/-- connection_accepted(): a slot and a descriptor are taken -/
def Sys.pushConn (s : Sys) (i : Nat) (c : Conn) : Sys :=
  { s with conns := (i, c) :: s.conns, lim := s.lim - 1, curFds := s.curFds + 1 }

/-- what a freshly accepted connection finds in its socket: bytes sent while the client was waiting in
    the listen queue, and possibly its FIN -/
def Sys.acceptBytes (cfg : Cfg) (s : Sys) (i : Nat) (cl : Client) (c0 : Conn) : Sys :=
  match cl.req with
  | some r => if cl.pre > 0 then s.putConn i (recv cfg s.now c0 r cl.pre) else s
  | none => s

def Sys.acceptData (cfg : Cfg) (s : Sys) (i : Nat) (cl : Client) (c0 : Conn) : Sys :=
  let s := s.acceptBytes cfg i cl c0
  if cl.preFin then s.onConn i fun c => (finConn false c, []) else s

/-- connection_accepted() + the first connection_state_machine() for the head of the backlog -/
def Sys.accept (cfg : Cfg) (s : Sys) (i : Nat) : Sys :=
  let cl := s.client i
  let c0 : Conn := { rts := s.now }
  let s := s.pushConn i c0
  if cl.preClosed then s.release i else s.acceptData cfg i cl c0

def acceptMany (cfg : Cfg) : Nat → Sys → Sys
  | 0, s => s
  | k + 1, s =>
    match s.backlog with
    | [] => s
    | i :: rest => acceptMany cfg k (Sys.accept cfg { s with backlog := rest } i)

/-- one iteration of server_main_loop() without graceful shutdown: load check, then the accept loop
    if the listen socket is enabled -/
def Sys.round (cfg : Cfg) (s : Sys) : Sys :=
  let d := loadCheck s.curFds cfg.lowat cfg.hiwat s.lim s.disabled
  let s := { s with disabled := d }
  if d = 0 then acceptMany cfg (acceptCount s.lim) s else s

def admitLoop (cfg : Cfg) : Nat → Sys → Sys
  | 0, s => s
  | k + 1, s => admitLoop cfg k (s.round cfg)

/-- all connections through `f`; those that end are released -/
def Sys.sweep (s : Sys) (f : Conn → Option Conn) : Sys :=
  s.conns.foldl (fun s p =>
    match f p.2 with
    | none => s.putConn p.1 (none, [])
    | some c => s.putConn p.1 (some c, [])) s

/-- the connections still in the listen queue are reset when the listen sockets are closed -/
def Sys.resetBacklog (s : Sys) : Sys :=
  s.backlog.foldl (fun s i => s.modClient i fun cl => { cl with srvFin := true, reset := 1 }) s

/-- server_sockets_close() -/
def Sys.closeListen (s : Sys) : Sys :=
  { s.resetBacklog with backlog := [], disabled := 3 }

/-- the first server_graceful_state(): graceful_expire_ts is fixed, the listen sockets are closed -/
def Sys.gracefulStart (cfg : Cfg) (s : Sys) : Sys :=
  if s.disabled = 3 then s
  else { s.closeListen with expireTs := if cfg.gt = 0 then 0 else s.now + cfg.gt }

/-- `srv->graceful_expire_ts && srv->graceful_expire_ts < log_monotonic_secs` -/
def Sys.expired (s : Sys) : Bool := decide (s.expireTs ≠ 0 ∧ s.expireTs < s.now)

/-- `NULL == srv->conns && graceful_shutdown`: the main loop ends -/
def Sys.exitIfIdle (s : Sys) : Sys :=
  if s.conns.isEmpty then { s with exited := true } else s

/-- server_graceful_state(), iterated to rest -/
def Sys.gracefulPass (cfg : Cfg) (s : Sys) : Sys :=
  let s := s.gracefulStart cfg
  (s.sweep (gracefulConn s.expired)).exitIfIdle

def Sys.markAccepted (s : Sys) : Sys :=
  s.conns.foldl (fun s p => s.modClient p.1 fun cl => { cl with accepted := true }) s

/-- after server_main_loop() has returned nothing is served any more -/
def Sys.halt (s : Sys) : Sys :=
  if s.exited then { s with conns := [], backlog := [] } else s

def Sys.loopToRest (cfg : Cfg) (s : Sys) : Sys :=
  if s.graceful then s.gracefulPass cfg else admitLoop cfg (2 * s.backlog.length + 3) s

/-- run the main loop until nothing more happens -/
def Sys.settle (cfg : Cfg) (s : Sys) : Sys :=
  if s.exited then s.halt else ((s.loopToRest cfg).halt).markAccepted

inductive Op where
  | tick (n : Nat)
  | open_ (i : Nat)
  | prepare (i : Nat) (r : Req)
  | send (i : Nat) (n : Nat)
  | read (i : Nat)
  | drain (i : Nat)
  | fin (i : Nat)
  | close (i : Nat)
  | graceful
  | wake
deriving Repr, Inhabited

/-- what the client learns from a read of everything available -/
def Client.afterRead (cl : Client) : Client :=
  let cl := { cl with seen := cl.seen ++ cl.inbox, inbox := [] }
  if cl.reset = 1 then { cl with reset := 2, rderr := true }
  else if cl.srvFin then { cl with eof := true }
  else cl

def Sys.usable (s : Sys) (i : Nat) : Bool := (s.client i).opened && (s.client i).fdOpen

/-- a client that has sent bytes without (so far) having been seen with a connection: it is waiting
    in the listen queue (or was reset in it).  What such a client does next — a new request, FIN,
    close — reaches the server only when its connection is accepted, and then takes effect one or two
    loop iterations after the accept; that interleaving with the load check is not modelled, so
    these three actions are outside the scenario language (the harness skips them too). -/
def Sys.stranded (s : Sys) (i : Nat) : Bool :=
  decide ((s.client i).pre > 0) && !(s.client i).accepted && (s.conn i).isNone

/-- the scripted action itself (before the main loop reacts) -/
def Sys.act (cfg : Cfg) (s : Sys) : Op → Sys
  | .tick n =>
    let s := { s with now := s.now + n }
    if s.exited then s else s.sweep (tickConn cfg s.now)
  | .open_ i =>
    -- (a client id connects at most once: the last two tests are implied by the first for every state
    --  a script can reach, and spare the proofs an invariant about the client table)
    if (s.client i).opened ∨ i ≥ maxClients ∨ s.backlog.contains i ∨ (s.conn i).isSome then s
    else if s.disabled = 3 then s.setClient i { opened := true, fdOpen := false, rderr := true }
    else { s.setClient i { opened := true, fdOpen := true } with backlog := s.backlog ++ [i] }
  | .prepare i r =>
    if !s.usable i ∨ s.stranded i then s
    else s.modClient i fun cl => { cl with req := some r, off := 0 }
  | .send i n =>
    if !s.usable i then s else
    let cl := s.client i
    match cl.req with
    | none => s
    | some r =>
      let left := reqLen r - cl.off
      let k := if n = 0 ∨ n > left then left else n
      if k = 0 then s
      else
        let s := s.modClient i fun cl => { cl with off := cl.off + k }
        if s.backlog.contains i then s.modClient i fun cl => { cl with pre := cl.pre + k }
        else s.onConn i fun c => recv cfg s.now c r k
  | .read i =>
    if !s.usable i then s else
    let s := s.onConn i fun c => (some (clientRead s.now c), [])
    s.modClient i Client.afterRead
  | .drain i =>
    if !s.usable i then s else
    let s := s.onConn i fun c => (clientDrain s.now c, [])
    s.modClient i Client.afterRead
  | .fin i =>
    if !s.usable i ∨ s.stranded i then s else
    if s.backlog.contains i then s.modClient i fun cl => { cl with preFin := true }
    else s.onConn i fun c => (finConn false c, [])
  | .close i =>
    if !s.usable i ∨ s.stranded i then s else
    let s := s.modClient i fun cl => { cl with fdOpen := false }
    if s.backlog.contains i then s.modClient i fun cl => { cl with preClosed := true }
    else s.onConn i fun c => (finConn true c, [])
  | .graceful =>
    if s.exited then s
    else if s.graceful then { s with exited := true } else { s with graceful := true }
  | .wake => s

def Sys.step (cfg : Cfg) (s : Sys) (op : Op) : Sys := (s.act cfg op).settle cfg

def Sys.run (cfg : Cfg) (s : Sys) (ops : List Op) : Sys := ops.foldl (Sys.step cfg) s

/-! ## what the harness prints -/

def showStatuses (l : List Nat) : String := String.intercalate "," (l.map toString)

def Conn.show (c : Conn) : String :=
  let ph := match c.st with
    | .read => "R" | .readPost => "P" | .handleReq => "H" | .write => "W" | .close => "C"
    | .reqStart => "S" | .error => "E" | .respEnd => "N" | _ => "?"
  ph ++ (if c.inEv then "i" else "") ++ (if c.outEv then "o" else "") ++ s!",n{c.n}" ++
    (if c.inEv ∧ c.st ≠ .close then s!",r{c.rts - base}" else "") ++
    (if c.st = .write then s!",w{c.wts - base}" else "") ++
    (if c.st = .close then s!",c{c.cts - base}" else "")

def Sys.showClient (s : Sys) (i : Nat) : String :=
  let cl := s.client i
  let body := match (if s.exited then none else s.conn i) with
    | some c => c.show
    | none => if cl.accepted then "." else "-"
  s!" {i}:" ++ body ++ (if cl.fdOpen ∧ cl.srvFin then "F" else "") ++ (if cl.eof then "Z" else "") ++
    (if cl.rderr then "!" else "") ++ (if cl.seen ≠ [] then "=" ++ showStatuses cl.seen else "")

def Sys.observe (s : Sys) : String :=
  s!"L{s.lim}D{s.disabled}" ++ (if s.exited then "X" else "") ++
    String.join (((List.range maxClients).filter fun i => (s.client i).opened).map s.showClient)

/-- observations after every action of a script -/
def runObserve (cfg : Cfg) : Sys → List Op → List String
  | _, [] => []
  | s, op :: rest => let s' := s.step cfg op; s'.observe :: runObserve cfg s' rest

end LtVerif.Lifecycle
