/-
  Model of the HTTP/1.x socket writer (src/network_write.c) over a chunk-queue model, with the
  kernel's answers as an input (*write-result schedule*):

    chunkqueue_mark_written(), chunkqueue_remove_finished_chunks()  (src/chunk.c)
    network_writev_mem_chunks()            -> `writevMem`     (iovec assembly, MAX_CHUNKS, max_bytes clamp)
    network_write_file_chunk_no_mmap()     -> `fileNoMmap`    (pread into a 16 KiB buffer, write)
    network_write_file_chunk_sendfile()    -> `fileSendfile`  (Linux sendfile, EINVAL fallback)
    network_write_accounting()             -> `account`
    network_write_chunkqueue_writev/_sendfile() -> `networkWrite`
    repeated calls on writable events (connections.c connection_handle_write) -> `drive`

  (HAVE_PREADV2 is defined on this platform, so NETWORK_WRITE_USE_MMAP is not: the writev backend
  sends file chunks through the read buffer.)  A file chunk carries the content of the file it
  refers to; `fend` is the C's `c->file.length` (absolute end offset), `off` is `c->offset`.
-/
import LtVerif.Model.Basic
import LtVerif.Extracted.H1RespTables
namespace LtVerif
open B

inductive Chunk where
  | mem (data : Bytes) (off : Nat)
  | file (content : Bytes) (off fend : Nat)
deriving Repr, DecidableEq

namespace Chunk

/-- chunk_remaining_length() -/
def remLen : Chunk → Nat
  | mem d o => d.length - o
  | file _ o e => e - o

/-- the bytes the chunk still has to deliver -/
def rem : Chunk → Bytes
  | mem d o => d.drop o
  | file c o e => (c.take e).drop o

def isMem : Chunk → Bool
  | mem .. => true
  | file .. => false

/-- `c->offset += n` -/
def advance : Chunk → Nat → Chunk
  | mem d o, n => mem d (o + n)
  | file c o e, n => file c (o + n) e

/-- offsets inside the data; the file has (at least) the length the chunk was created for -/
def WF : Chunk → Prop
  | mem d o => o ≤ d.length
  | file c o e => o ≤ e ∧ e ≤ c.length

end Chunk

abbrev Cq := List Chunk

/-- well-formed queue: offsets inside the data, files at least as long as when they were queued
    (hypothesis of the write-path theorems: the files served are not truncated meanwhile) -/
def CqWF (q : Cq) : Prop := ∀ c ∈ q, c.WF

/-- the byte string a queue stands for -/
def cqFlat (q : Cq) : Bytes := q.flatMap Chunk.rem

def cqLen (q : Cq) : Nat := (q.map Chunk.remLen).sum

/-- chunkqueue_mark_written(cq, len) -/
def markWritten : Cq → Nat → Cq
  | [], _ => []
  | c :: rest, len =>
    if len ≥ c.remLen then markWritten rest (len - c.remLen)
    else c.advance len :: rest

/-- chunkqueue_remove_finished_chunks() -/
def removeFinished : Cq → Cq
  | [] => []
  | c :: rest => if c.remLen = 0 then removeFinished rest else c :: rest

/-- what one write()/writev()/sendfile() call returns -/
inductive WrRes where
  | ok (n : Nat)        -- the kernel accepts min(n, requested) bytes
  | eagain | eintr | epipe | econnreset | enotconn | einval | eio
deriving Repr, DecidableEq

inductive Sys where
  | writev (cnt total : Nat)
  | write (len : Nat)
  | sendfile (count off : Nat)
deriving Repr, DecidableEq

structure NwSt where
  q : Cq
  sched : List WrRes
  acc : Bytes := []          -- bytes accepted by the socket so far, in order
  out : Nat := 0             -- cq->bytes_out
  faults : Nat := 0          -- results other than "everything accepted"
  trace : List Sys := []
deriving Repr

/-- next scripted result; an exhausted schedule answers EAGAIN -/
def popRes : List WrRes → WrRes × List WrRes
  | [] => (.eagain, [])
  | r :: t => (r, t)

/-- network_write_error(): EAGAIN/EINTR -3, EPIPE/ECONNRESET -2, anything else (ENOTCONN, EINVAL, EIO …) -1 -/
def writeErrRc : WrRes → Int
  | .eagain | .eintr => -3
  | .epipe | .econnreset => -2
  | _ => -1

/-- network_write_accounting() for `wr >= 0`: `data` is what was handed to the kernel -/
def account (st : NwSt) (maxBytes wr toSend : Nat) (data : Bytes) : Int × NwSt × Nat :=
  let max' := maxBytes - wr
  let rc : Int := if wr = toSend ∧ max' > 0 then 0 else -3
  (rc, { st with q := markWritten st.q wr, acc := st.acc ++ data.take wr, out := st.out + wr,
                 faults := st.faults + (if wr = toSend then 0 else 1) }, max')

/-- the iovec array of network_writev_mem_chunks(): leading MEM chunks, empty ones skipped, at
    most MAX_CHUNKS entries, clamped to `maxBytes` in total -/
def gatherIov (maxBytes : Nat) : Cq → Nat → Nat → List Bytes
  | [], _, _ => []
  | .file .. :: _, _, _ => []
  | .mem d o :: rest, toSend, num =>
    if d.length - o > 0 then
      let cl := min (d.length - o) (maxBytes - toSend)
      let iov := (d.drop o).take cl
      if num + 1 = Extracted.maxIovChunks ∨ toSend + cl ≥ maxBytes then [iov]
      else iov :: gatherIov maxBytes rest (toSend + cl) (num + 1)
    else gatherIov maxBytes rest toSend num

def writevMem (st : NwSt) (maxBytes : Nat) : Int × NwSt × Nat :=
  let iovs := gatherIov maxBytes st.q 0 0
  if iovs.isEmpty then (0, { st with q := removeFinished st.q }, maxBytes)
  else
    let data := iovs.flatten
    let toSend := data.length
    let (res, sched') := popRes st.sched
    let st1 := { st with sched := sched', trace := st.trace ++ [Sys.writev iovs.length toSend] }
    match res with
    | .ok n => account st1 maxBytes (min n toSend) toSend data
    | e => (writeErrRc e, { st1 with faults := st1.faults + 1 }, maxBytes)

def fileNoMmap (st : NwSt) (maxBytes : Nat) : Int × NwSt × Nat :=
  match st.q with
  | .file c o e :: _ =>
    let want := min (e - o) maxBytes
    if want = 0 then (0, { st with q := removeFinished st.q }, maxBytes)
    else
      let buf := (c.drop o).take (min want Extracted.noMmapBufSize)   -- pread at c->offset
      if buf.isEmpty then (-1, st, maxBytes)                           -- unexpected EOF
      else
        let toSend := buf.length
        let (res, sched') := popRes st.sched
        let st1 := { st with sched := sched', trace := st.trace ++ [Sys.write toSend] }
        match res with
        | .ok n => account st1 maxBytes (min n toSend) toSend buf
        | e => (writeErrRc e, { st1 with faults := st1.faults + 1 }, maxBytes)
  | _ => (-1, st, maxBytes)

def fileSendfile (st : NwSt) (maxBytes : Nat) : Int × NwSt × Nat :=
  match st.q with
  | .file c o e :: _ =>
    let nbytes := min (e - o) maxBytes
    if nbytes = 0 then (0, { st with q := removeFinished st.q }, maxBytes)
    else
      let (res, sched') := popRes st.sched
      let st1 := { st with sched := sched', trace := st.trace ++ [Sys.sendfile nbytes o] }
      match res with
      | .ok n =>
        let wr := min (min n nbytes) (c.length - o)     -- the kernel reads the file at `offset`
        let data := (c.drop o).take wr
        let fl := if n < nbytes then 1 else 0
        if wr > 0 then
          let st2 := { st1 with q := markWritten st1.q wr, acc := st1.acc ++ data, out := st1.out + wr,
                                faults := st1.faults + fl }
          let max' := maxBytes - wr
          (if max' = 0 then -3 else if wr = nbytes then 0 else -3, st2, max')
        else (-1, { st1 with faults := st1.faults + fl }, maxBytes)   -- "file truncated"
      | .eagain | .eintr => (-3, { st1 with faults := st1.faults + 1 }, maxBytes)
      | .epipe | .econnreset | .enotconn => (-2, { st1 with faults := st1.faults + 1 }, maxBytes)
      | .einval => fileNoMmap { st1 with faults := st1.faults + 1 } maxBytes
      | .eio => (-1, { st1 with faults := st1.faults + 1 }, maxBytes)
  | _ => (-1, st, maxBytes)

inductive Backend where
  | writev | sendfile
deriving Repr, DecidableEq

/-- one iteration of the `while (NULL != cq->first)` loop -/
def nwStep (b : Backend) (st : NwSt) (maxBytes : Nat) : Int × NwSt × Nat :=
  match st.q with
  | [] => (0, st, maxBytes)
  | .mem .. :: _ => writevMem st maxBytes
  | .file .. :: _ =>
    match b with
    | .writev => fileNoMmap st maxBytes
    | .sendfile => fileSendfile st maxBytes

def nwLoop (b : Backend) : Nat → NwSt → Nat → Int × NwSt
  | 0, st, _ => (0, st)
  | fuel + 1, st, maxBytes =>
    if st.q.isEmpty then (0, st)
    else
      match nwStep b st maxBytes with
      | (rc, st', max') =>
        if rc ≠ 0 then (if rc = -3 then 0 else rc, st') else nwLoop b fuel st' max'

/-- network_write_chunkqueue_writev() / network_write_chunkqueue_sendfile() -/
def networkWrite (b : Backend) (st : NwSt) (maxBytes : Nat) : Int × NwSt :=
  nwLoop b (cqLen st.q + st.q.length + 1) st maxBytes

/-- the backend called again on every writable event until the queue is empty, an error is
    reported, or the schedule is used up: (last rc, number of calls, state) -/
def driveGo (b : Backend) (maxBytes : Nat) : Nat → Int → Nat → NwSt → Int × Nat × NwSt
  | 0, rc, calls, st => (rc, calls, st)
  | fuel + 1, rc, calls, st =>
    if st.q.isEmpty || st.sched.isEmpty then (rc, calls, st)
    else
      match networkWrite b st maxBytes with
      | (rc', st') => if rc' < 0 then (rc', calls + 1, st') else driveGo b maxBytes fuel rc' (calls + 1) st'

def drive (b : Backend) (maxBytes : Nat) (st : NwSt) : Int × Nat × NwSt :=
  driveGo b maxBytes (st.sched.length + st.q.length + 2) 0 0 st

/-! ### schedule classes used as hypotheses of the progress theorems -/

/-- every answer is a non-empty acceptance (a socket that is never full) -/
def AllOkPos (s : List WrRes) : Prop := ∀ r ∈ s, ∃ k, r = .ok k ∧ k > 0

/-- socket answers after which the write is simply tried again -/
def Retryable : WrRes → Prop
  | .ok k => 0 < k
  | .eagain => True
  | .eintr => True
  | _ => False


end LtVerif
