/-
  Model of the path canonicalisation pipeline of src/buffer.c:
    buffer_urldecode_path()   -> `urldecodePath`
    buffer_path_simplify()    -> `pathSimplify`
  The C code is in-place pointer code; the model is specification-style
  (segment stack).  The tie to the C is the differential check `h_url`
  (exhaustive over short strings on the metacharacter alphabet).
  Inputs are NUL-free byte strings (the request parser rejects NUL first).
-/
import LtVerif.Model.Basic
namespace LtVerif
open B

/-- buffer_urldecode_path(): decode %XX, mapping control bytes to '_';
    a '%' not followed by two hex digits is left as is. -/
def decodeByte (hv lv : UInt8) : UInt8 :=
  let x : UInt8 := (hv <<< 4) ||| lv
  if x ≥ 32 && x ≠ 127 then x else uscore

def urldecodePath : Bytes → Bytes
  | [] => []
  | [b] => [b]
  | [a, b] => a :: urldecodePath [b]
  | b :: h :: l :: rest =>
    if b = pct then
      match hexVal h, hexVal l with
      | some hv, some lv => decodeByte hv lv :: urldecodePath rest
      | _, _ => b :: urldecodePath (h :: l :: rest)
    else b :: urldecodePath (h :: l :: rest)

def segDot : Bytes := [dot]
def segDotDot : Bytes := [dot, dot]

/-- state of the segment machine: `rel` = the bottom element of `stack` is a
    relative head segment (path did not start with '/'); popping it turns the
    path into an absolute one (as the C code does by writing '/' at b->ptr). -/
structure SimpSt where
  rel : Bool
  stack : List Bytes      -- bottom first
deriving Repr, DecidableEq

def SimpSt.pop (st : SimpSt) : SimpSt :=
  match st.stack.dropLast with
  | [] => { rel := false, stack := [] }
  | l => { st with stack := l }

def SimpSt.push (st : SimpSt) (s : Bytes) : SimpSt :=
  { st with stack := st.stack ++ [s] }

/-- a segment followed by '/' -/
def simpMid (st : SimpSt) (seg : Bytes) : SimpSt :=
  if seg = [] ∨ seg = segDot then st
  else if seg = segDotDot then st.pop
  else st.push seg

/-- the last segment (followed by end of string); returns trailing-slash flag -/
def simpLast (st : SimpSt) (seg : Bytes) : SimpSt × Bool :=
  if seg = [] ∨ seg = segDot then (st, true)
  else if seg = segDotDot then (st.pop, true)
  else (st.push seg, false)

def SimpSt.render (st : SimpSt) (trailing : Bool) : Bytes :=
  let body := join slash st.stack
  let pre : Bytes := if st.rel then [] else [slash]
  if trailing && !st.stack.isEmpty then pre ++ body ++ [slash] else pre ++ body

def simpRun (st : SimpSt) (segs : List Bytes) : Bytes :=
  match segs.getLast? with
  | none => st.render false          -- not used
  | some last =>
    let (st', tr) := simpLast (segs.dropLast.foldl simpMid st) last
    st'.render tr

/-- buffer_path_simplify() -/
def pathSimplify (s : Bytes) : Bytes :=
  match s with
  | [] => []
  | _ =>
    match splitOn slash s with
    | [] => []
    | f :: rest =>
      if f = [] then          -- absolute path: s starts with '/'
        simpRun { rel := false, stack := [] } rest
      else
        match rest with
        | [] => if f = segDot ∨ f = segDotDot then [] else f
        | _ =>
          if f = segDot ∨ f = segDotDot then
            simpRun { rel := false, stack := [] } rest
          else
            simpRun { rel := true, stack := [f] } rest

end LtVerif
