/-
  Cursor-level transcription of src/buffer.c: buffer_path_simplify() and buffer_urldecode_path(),
  statement by statement, for comparison with the C text.

  Rendering of the pointers: the buffer is `B = s ++ ['/']` (the C overwrites the terminating NUL at
  `end` with '/').  The read cursor `walk` is the list `rest = B[walk .. end]`; the write cursor `out`
  is the list `po` = the bytes `B'[0 .. out]` written so far, REVERSED, so that `po.head = *out`.
  Reads go through `rest`, writes through `po`; that the in-place writes never reach an unread byte
  (`out < walk`) is `ptrCopy_length` / `ptrBackScan_length` in Proofs/PathPtr.lean: every step moves
  bytes from `rest` to `po` or drops them, so `|po| + |rest|` never grows.
  NUL is an ordinary byte for buffer_path_simplify() (it works on `b->used`), whereas
  buffer_urldecode_path() stops at the first NUL behind the first '%'.

  Proofs/PathPtr.lean proves `pathSimplifyPtr = pathSimplify` (for every byte string) and
  `urldecodePathC = urldecodePath` on NUL-free input, so the canonical-path theorems are about the
  algorithm the C runs; the correspondence harness compares the C with these transcriptions.
-/
import LtVerif.Model.Path
namespace LtVerif
open B

/-! ### buffer_path_simplify() -/

/-- `while ((*++out = *walk++) != '/') ;` - also the rendering of the pre-scan's
    `do { ++walk; } while (*walk != '/');` (nothing is written there; the bytes stay where they are,
    which is the same as copying them onto themselves: `out = walk-1` afterwards) -/
def ptrCopy : Bytes → Bytes → Bytes × Bytes
  | po, [] => (po, [])                 -- not reached: the sentinel at `end` is a '/'
  | po, c :: r => if c = slash then (c :: po, r) else ptrCopy (c :: po) r

/-- `while (out > b->ptr && *--out != '/') ;` on the written prefix (head = `*out`) -/
def ptrBackScan : Bytes → Bytes
  | [] => []
  | [x] => [x]                         -- out == b->ptr
  | _ :: y :: rest => if y = slash then y :: rest else ptrBackScan (y :: rest)

/-- the main loop `while (walk <= end) { ... }` and the final `*out = *end = '\0'; used = out+1` -/
def ptrLoop : Nat → Bytes → Bytes → Bytes
  | 0, po, _ => (po.drop 1).reverse                       -- (fuel: not reached)
  | _ + 1, po, [] => (po.drop 1).reverse                  -- walk > end: `*out = '\0'` cuts the byte at `out`
  | fuel + 1, po, c :: r =>
    if c = slash then
      -- skip repeated '/':  if (++walk < end) continue; else { ++out; break; }
      if 1 < r.length then ptrLoop fuel po r else po.reverse
    else if c = dot then
      if r.head? = some dot ∧ (r.drop 1).head? = some slash then
        -- "../"  (walk[1] == '.' && walk[2] == '/'):  back up to the previous '/', `*out = '/'`, walk += 3
        let po' := slash :: (ptrBackScan po).drop 1
        let r2 := r.drop 2
        if r2.length ≤ 1 then po'.reverse else ptrLoop fuel po' r2
      else if r.head? = some slash then
        -- "./"  (walk[1] == '/'):  walk += 2
        let r2 := r.drop 1
        if r2.length ≤ 1 then po.reverse else ptrLoop fuel po r2
      else
        -- accept "." if not part of "../" or "./":  *++out = '.'; ++walk;  then copy the segment
        let (po', rest') := ptrCopy (dot :: po) r
        ptrLoop fuel po' rest'
    else
      let (po', rest') := ptrCopy po (c :: r)
      ptrLoop fuel po' rest'

/-- the pre-scan of an absolute path ("scan to detect (potential) need for path simplification"):
    `do { if (*++walk == '.' || *walk == '/') break; do { ++walk; } while (*walk != '/'); } while (walk != end);`
    `none` = `walk == end`: nothing to do; `some (po, rest)`: `out = walk-1` -/
def ptrPreScan : Nat → Bytes → Bytes → Option (Bytes × Bytes)
  | 0, _, _ => none
  | _ + 1, _, [] => none
  | fuel + 1, po, c :: r =>
    if c = dot ∨ c = slash then (if r = [] then none else some (po, c :: r))
    else
      let (po', rest') := ptrCopy po (c :: r)
      if rest' = [] then none else ptrPreScan fuel po' rest'

/-- buffer_path_simplify() -/
def pathSimplifyPtr (s : Bytes) : Bytes :=
  match s with
  | [] => []
  | c0 :: t =>
    let n := s.length + 2
    if c0 = slash then
      match ptrPreScan n [slash] (t ++ [slash]) with
      | none => s                                        -- `*end = '\0'; return;`
      | some (po, rest) => ptrLoop n po rest
    else
      let b1 := t ++ [slash]                             -- the bytes behind walk[0]
      if c0 = dot ∧ b1.head? = some slash then
        ptrLoop n [slash] (b1.drop 1)                    -- "./":  *out = *++walk; ++walk
      else if c0 = dot ∧ b1.head? = some dot ∧ (b1.drop 1).head? = some slash then
        ptrLoop n [slash] (b1.drop 2)                    -- "../": *out = *(walk += 2); ++walk
      else
        -- while (*++walk != '/') ; out = walk; ++walk   (the head byte is never compared)
        let (po, rest) := ptrCopy [c0] b1
        ptrLoop n po rest

/-! ### buffer_urldecode_path() -/

/-- value of a hex digit as the C's hex2int(): `none` = 0xFF -/
def hexC (b : UInt8) : Option UInt8 := hexVal b

/-- the decode attempt at `*src == '%'`: `po.head` is the byte at `dst` (that '%'), `r` the bytes behind
    `src`; reading past the end reads the terminating NUL.
    `high = src[1]; low = high ? hex2int(src[2]) : 0xFF;` - on success `*dst = decoded; src += 2;` -/
def urldecodeStep (po r : Bytes) : Bytes × Bytes :=
  let high := r.getD 0 0
  let low : Option UInt8 := if high ≠ 0 then hexC (r.getD 1 0) else none
  match hexC high, low with
  | some hv, some lv => (decodeByte hv lv :: po.drop 1, r.drop 2)
  | _, _ => (po, r)

/-- the body of `do { ... } while (*src);` -/
def urldecodeLoop : Nat → Bytes → Bytes → Bytes
  | 0, po, _ => po.reverse
  | fuel + 1, po, r =>
    let st := urldecodeStep po r
    -- while ((*++dst = *++src) != '%' && *src) ;
    let seg := st.2.takeWhile (fun b => b ≠ pct && b ≠ 0)
    match st.2.drop seg.length with
    | [] => (seg.reverse ++ st.1).reverse                -- *src == NUL (end of string)
    | b :: r2 =>
      if b = 0 then (seg.reverse ++ st.1).reverse        -- embedded NUL: the C stops here
      else urldecodeLoop fuel (b :: (seg.reverse ++ st.1)) r2     -- b = '%'

/-- buffer_urldecode_path(): `memchr(b->ptr, '%', len)`, then the loop -/
def urldecodePathC (s : Bytes) : Bytes :=
  let pre := s.takeWhile (· ≠ pct)
  match s.drop pre.length with
  | [] => s
  | b :: r => urldecodeLoop (s.length + 1) (b :: pre.reverse) r

end LtVerif
