/-
  Model of the reverse-proxy request builder of src/mod_proxy.c:
    proxy_create_env()     -> `Proxy.createEnv`   (request line, Host, Content-Length /
                                                   Transfer-Encoding, hop-by-hop filtering,
                                                   Connection line)
    proxy_set_Forwarded()  -> `Proxy.setForwarded` (Forwarded for/proto/host/remote_user and
                                                   the legacy X-Forwarded-* / X-Host fields;
                                                   `by=` and mod_extforward overrides not modelled)
    proxy_stdin_append()   -> `Proxy.stdinAppend`  (chunked upload)
  URL/host remapping (proxy.header url-path / host maps) is not modelled (off in the harness).
  Header ids (ds->ext) are a function of the case-insensitive field name (http_headers[]).
  Core Lean only.
-/
import LtVerif.Model.Scgi
namespace LtVerif
open B

namespace Proxy

abbrev Hdrs := List (Bytes × Bytes)

def crlf : Bytes := [cr, lf]

def nameIs (k : Bytes) (n : String) : Bool := eqIcase k (ofString n)

/-- http_header_request_get(): non-blank value of the field -/
def getHdr (hs : Hdrs) (n : String) : Option Bytes :=
  match hs.find? fun (k, v) => nameIs k n && !v.isEmpty with
  | some (_, v) => some v
  | none => none

/-- http_header_request_set(): replace in place (key as first stored), else append -/
def setHdr (hs : Hdrs) (n : String) (v : Bytes) : Hdrs :=
  if hs.any (fun (k, _) => nameIs k n) then
    hs.map fun (k, old) => if nameIs k n then (k, v) else (k, old)
  else hs ++ [(ofString n, v)]

/-- http_header_request_append(): ", "-join onto an existing non-blank value -/
def appendHdr (hs : Hdrs) (n : String) (v : Bytes) : Hdrs :=
  if v.isEmpty then hs
  else if hs.any (fun (k, _) => nameIs k n) then
    hs.map fun (k, old) =>
      if nameIs k n then (k, if old.isEmpty then v else old ++ [44, sp] ++ v) else (k, old)
  else hs ++ [(ofString n, v)]

/-- buffer_append_string_backslash_escaped() -/
def bsEscape (s : Bytes) : Bytes :=
  s.flatMap fun c => if c = 34 || c = 92 || c = 127 || (c < 32 && c ≠ ht) then [92, c] else [c]

/-- tokens of an X-Forwarded-For value: separated by SP, HT, ',' -/
def xffTokens (s : Bytes) : List Bytes :=
  let isSep (b : UInt8) : Bool := b = sp || b = ht || b = 44
  let step (acc : List Bytes × Bytes) (b : UInt8) : List Bytes × Bytes :=
    if isSep b then (if acc.2.isEmpty then acc else (acc.1 ++ [acc.2], [])) else (acc.1, acc.2 ++ [b])
  let (done, cur) := s.foldl step ([], [])
  if cur.isEmpty then done else done ++ [cur]

structure Cfg where
  forceHttp10 : Bool := false
  replaceHost : Option Bytes := none     -- proxy.replace-http-host with a non-blank host id
  forwarded : Nat := 0                   -- PROXY_FORWARDED_* bits (0x08 `by` not modelled)
  authorizer : Bool := false
  streaming : Bool := false              -- server.stream-request-body 1 or 2
deriving Repr

structure Req where
  method : Bytes := []
  isGetOrHead : Bool := true
  target : Bytes := []                   -- r->target
  h2ConnectExt : Bool := false
  version : Nat := 1
  host : Option Bytes := none            -- r->http_host
  bodyLen : Int := 0
  scheme : Bytes := []
  isSsl : Bool := false                  -- con->srv_socket->is_ssl
  remoteAddr : Bytes := []               -- con->dst_addr_buf (IPv4 text in the harness)
  remoteUser : Option Bytes := none      -- r->env REMOTE_USER
  headers : Hdrs := []
deriving Repr

/-- proxy_set_Forwarded() -/
def setForwarded (flags : Nat) (r : Req) (hs : Hdrs) : Hdrs :=
  let hostNonBlank : Option Bytes := match r.host with
    | some h => if h.isEmpty then none else some h
    | none => none
  -- "Forwarded"
  let hs1 : Hdrs :=
    if flags = 0 then hs else
    let existing := getHdr hs "Forwarded"
    let base : Bytes := match existing with
      | some b => b ++ [44, sp]
      | none =>
        match getHdr hs "X-Forwarded-For" with
        | some xff =>
          (xffTokens xff).flatMap fun t =>
            if t.contains colon then ofString "for=\"[" ++ bsEscape t ++ ofString "]\", "
            else ofString "for=\"" ++ bsEscape t ++ ofString "\", "
        | none => []
    let (b1, semi1) : Bytes × Bool :=
      if flags &&& 1 ≠ 0 then (base ++ ofString "for=" ++ r.remoteAddr, true) else (base, false)
    let (b2, semi2) : Bytes × Bool :=
      if flags &&& 2 ≠ 0 then
        (b1 ++ (if semi1 then [59] else []) ++
          ofString (if r.isSsl then "proto=https" else "proto=http"), true)
      else (b1, semi1)
    let (b3, semi3) : Bytes × Bool :=
      if flags &&& 4 ≠ 0 then
        match hostNonBlank with
        | some h => (b2 ++ (if semi2 then [59] else []) ++ ofString "host=\"" ++ bsEscape h ++ [34], true)
        | none => (b2, semi2)
      else (b2, semi2)
    let b4 : Bytes :=
      if flags &&& 16 ≠ 0 then
        match r.remoteUser with
        | some u => b3 ++ (if semi3 then [59] else []) ++ ofString "remote_user=\"" ++ bsEscape u ++ [34]
        | none => b3
      else b3
    setHdr hs "Forwarded" b4
  -- legacy X-* fields
  let hs2 := appendHdr hs1 "X-Forwarded-For" r.remoteAddr
  let hs3 := match hostNonBlank with
    | some h => setHdr (setHdr hs2 "X-Host" h) "X-Forwarded-Host" h
    | none => hs2
  setHdr hs3 "X-Forwarded-Proto" r.scheme

/-- what the header loop of proxy_create_env() does with one stored request field -/
inductive Act
  | skip
  | emit
deriving DecidableEq, Repr

def fieldAct (c : Cfg) (version : Nat) (k v : Bytes) : Act :=
  if nameIs k "Host" then .skip
  else if nameIs k "Content-Length" && c.authorizer then .skip
  else if nameIs k "Proxy-Connection" || nameIs k "Proxy" then .skip
  else if nameIs k "TE" &&
          (c.forceHttp10 || version = 0 || !eqIcase v (ofString "trailers")) then .skip
  else if nameIs k "Upgrade" && c.forceHttp10 then .skip
  else if nameIs k "Connection" then .skip
  else if nameIs k "Set-Cookie" then .skip
  else if k.isEmpty || v.isEmpty then .skip
  else .emit

def emitField (k v : Bytes) : Bytes := crlf ++ k ++ [colon, sp] ++ v

def emitFields (c : Cfg) (version : Nat) (hs : Hdrs) : Bytes :=
  hs.flatMap fun (k, v) => if fieldAct c version k v = .emit then emitField k v else []

inductive Res
  | status (code : Nat)
  | ok (st : RawSt) (chunked : Bool)     -- chunked: hctx->stdin_append = proxy_stdin_append
deriving Repr

/-- buffer_append_uint_hex_lc(): lower-case hex, whole bytes (even number of digits) -/
def hexLcBytes : Nat → Nat → Bytes → Bytes
  | 0, _, acc => acc
  | fuel + 1, n, acc =>
    let acc' := hexDigitLC ((n / 16 % 16).toUInt8) :: hexDigitLC ((n % 16).toUInt8) :: acc
    if n / 256 = 0 then acc' else hexLcBytes fuel (n / 256) acc'

def hexLc (n : Nat) : Bytes := hexLcBytes (n + 1) n []

def lastChunk : Bytes := ofString "0\r\n\r\n"

/-- proxy_stdin_append() -/
def stdinAppend (st : RawSt) : RawSt :=
  let st1 : RawSt :=
    if st.pending.isEmpty then st else
    let tb := hexLc st.pending.length ++ crlf
    let len : Int := ((tb.length + 2 + st.pending.length : Nat) : Int)
    { out := st.out ++ tb ++ st.pending ++ crlf, pending := [],
      reqlen := if st.reqlen = -1 then st.reqlen
                else if st.reqlen ≥ 0 then st.reqlen + len else st.reqlen - len }
  if (st1.out.length : Int) = st1.reqlen then
    -- (wb_reqlen grows by sizeof("0\r\n\r\n") = 6, one more than the 5 bytes queued)
    { st1 with out := st1.out ++ lastChunk, reqlen := st1.reqlen + 6 }
  else st1

/-- the header block of proxy_create_env(): `none` = 411 -/
def headerBlock (c : Cfg) (r : Req) : Option (Bytes × Bool) :=
  let m := if r.h2ConnectExt then ofString "GET" else r.method
  let line0 := m ++ [sp] ++ r.target ++ ofString (if c.forceHttp10 then " HTTP/1.0" else " HTTP/1.1")
  let line : Bytes :=
    match c.replaceHost, r.host with
    | some h, _ => line0 ++ ofString "\r\nHost: " ++ h
    | none, some h => line0 ++ ofString "\r\nHost: " ++ h
    | none, none => line0.dropLast ++ [48]
  -- Content-Length / Transfer-Encoding
  let step : Option (Bytes × Hdrs × Bool) :=
    if c.authorizer then some (line ++ ofString "\r\nContent-Length: 0", r.headers, false)
    else if r.bodyLen > 0 ∨ (r.bodyLen = 0 ∧ !r.isGetOrHead) then
      (match getHdr r.headers "Content-Length" with
       | some _ => some (line, r.headers, false)
       | none => some (line, setHdr r.headers "Content-Length" (intDec r.bodyLen), false))
    else if r.h2ConnectExt then some (line, r.headers, false)
    else if r.bodyLen < 0 ∧ c.streaming then
      (if c.forceHttp10 then (if r.bodyLen = -1 then none else some (line, r.headers, false))
       else some (line ++ ofString "\r\nTransfer-Encoding: chunked", r.headers, true))
    else some (line, r.headers, false)
  match step with
  | none => none
  | some (b0, hs0, chunked) =>
    let hs := setForwarded c.forwarded r hs0
    let connhdr : Option Bytes := (hs.find? fun (k, _) => nameIs k "Connection").map (·.2)
    let te : Bool := hs.any fun (k, v) => nameIs k "TE" && fieldAct c r.version k v = .emit
    let upgrade : Bool := hs.any fun (k, v) => nameIs k "Upgrade" && !c.forceHttp10 && !v.isEmpty
    let b1 := b0 ++ emitFields c r.version hs
    let tail : Bytes :=
      if connhdr.isSome && !c.forceHttp10 && r.version ≥ 1
         && !(match connhdr with | some v => eqIcase v (ofString "close") | none => false) then
        ofString "\r\nConnection: close" ++ (if te then ofString ", te" else []) ++
          (if upgrade then ofString ", upgrade" else []) ++ ofString "\r\n\r\n"
      else if r.h2ConnectExt then
        (if (getHdr hs "Sec-WebSocket-Key").isSome then []
         else ofString "\r\nSec-WebSocket-Key: MDAwMDAwMDAwMDAwMDAwMA==") ++
        ofString "\r\nUpgrade: websocket\r\nConnection: close, upgrade\r\n\r\n"
      else ofString "\r\nConnection: close\r\n\r\n"
    some (b1 ++ tail, chunked)

/-- proxy_create_env() -/
def createEnv (c : Cfg) (r : Req) (pending : Bytes) : Res :=
  match headerBlock c r with
  | none => .status 411
  | some (hdr, chunked) =>
    if r.bodyLen ≠ 0 ∧ !c.authorizer then
      let reqlen : Int := if r.bodyLen > 0 then (hdr.length : Int) + r.bodyLen else -(hdr.length : Int)
      if chunked then .ok (stdinAppend { out := hdr, reqlen := reqlen, pending := pending }) true
      else .ok { out := hdr ++ pending, reqlen := reqlen, pending := [] } false
    else .ok { out := hdr, reqlen := hdr.length, pending := pending } chunked

/-- more body arrives, gw_write_refill_wb() runs -/
def arrive (c : Cfg) (chunked : Bool) (st : RawSt) (seg : Bytes) : RawSt :=
  let st' := { st with pending := st.pending ++ seg }
  if st'.pending.isEmpty ∨ c.authorizer then st'
  else if chunked then stdinAppend st' else st'.moveAll

/-- gw_handle_subrequest(): chunked client body just completed -/
def complete (chunked : Bool) (st : RawSt) : RawSt :=
  if st.reqlen < -1 then
    (if chunked then stdinAppend { st with reqlen := -st.reqlen }
     else RawSt.moveAll { st with reqlen := -st.reqlen })
  else st

/-- a streamed (Transfer-Encoding: chunked) upload as the gateway runs it: create_env with the
    first segment queued and the total length unknown (wb_reqlen negative), later arrivals
    re-chunked by proxy_stdin_append(), then completion -/
def runChunked (hdr seg0 : Bytes) (segs : List Bytes) : RawSt :=
  let st0 := stdinAppend { out := hdr, reqlen := -(hdr.length : Int), pending := seg0 }
  complete true (segs.foldl (arrive {} true) st0)

/-! receiving side: HTTP/1.1 chunked transfer coding (RFC 9112 7.1), no extensions/trailers -/

def hexValNat (b : UInt8) : Option Nat := (hexVal b).map (·.toNat)

def parseHexLine : Bytes → Nat → Nat → Option (Nat × Bytes)
  | [], _, _ => none
  | b :: rest, acc, ndig =>
    match hexValNat b with
    | some d => parseHexLine rest (acc * 16 + d) (ndig + 1)
    | none =>
      if b = cr ∧ rest.head? = some lf ∧ ndig > 0 then some (acc, rest.drop 1) else none

def dechunk : Nat → Bytes → Option (Bytes × Bytes)
  | 0, _ => none
  | fuel + 1, s =>
    match parseHexLine s 0 0 with
    | none => none
    | some (n, rest) =>
      if n = 0 then
        (if rest.take 2 = crlf then some ([], rest.drop 2) else none)
      else if rest.length < n + 2 ∨ (rest.drop n).take 2 ≠ crlf then none
      else match dechunk fuel (rest.drop (n + 2)) with
        | some (body, tail) => some (rest.take n ++ body, tail)
        | none => none

end Proxy
end LtVerif
