/-
  Model of the reverse-proxy request builder of src/mod_proxy.c:
    proxy_create_env()     -> `Proxy.createEnv`   (request line, Host, Content-Length /
                                                   Transfer-Encoding, hop-by-hop filtering,
                                                   Connection line)
    proxy_set_Forwarded()  -> `Proxy.setForwarded` (Forwarded for/proto/host/remote_user and
                                                   the legacy X-Forwarded-* / X-Host fields;
                                                   `by=` and mod_extforward overrides not modelled)
    proxy_stdin_append()   -> `Proxy.stdinAppend`  (chunked upload)
  URL/host remapping (proxy.header url-path / host maps) is not modelled (off in the harness).
  Header ids (ds->ext) are a function of the case-insensitive field name (http_headers[]).
  Core Lean only.
-/
import LtVerif.Model.Scgi
namespace LtVerif
open B

namespace Proxy

abbrev Hdrs := List (Bytes × Bytes)

def crlf : Bytes := [cr, lf]

def nameIs (k : Bytes) (n : String) : Bool := eqIcase k (ofString n)

/-- http_header_request_get(): non-blank value of the field -/
def getHdr (hs : Hdrs) (n : String) : Option Bytes :=
  match hs.find? fun (k, v) => nameIs k n && !v.isEmpty with
  | some (_, v) => some v
  | none => none

/-- http_header_request_set(): replace in place (key as first stored), else append -/
def setHdr (hs : Hdrs) (n : String) (v : Bytes) : Hdrs :=
  if hs.any (fun (k, _) => nameIs k n) then
    hs.map fun (k, old) => if nameIs k n then (k, v) else (k, old)
  else hs ++ [(ofString n, v)]

/-- http_header_request_append(): ", "-join onto an existing non-blank value -/
def appendHdr (hs : Hdrs) (n : String) (v : Bytes) : Hdrs :=
  if v.isEmpty then hs
  else if hs.any (fun (k, _) => nameIs k n) then
    hs.map fun (k, old) =>
      if nameIs k n then (k, if old.isEmpty then v else old ++ [44, sp] ++ v) else (k, old)
  else hs ++ [(ofString n, v)]

/-- buffer_append_string_backslash_escaped() -/
def bsEscape (s : Bytes) : Bytes :=
  s.flatMap fun c => if c = 34 || c = 92 || c = 127 || (c < 32 && c ≠ ht) then [92, c] else [c]

/-- tokens of an X-Forwarded-For value: separated by SP, HT, ',' -/
def xffTokens (s : Bytes) : List Bytes :=
  let isSep (b : UInt8) : Bool := b = sp || b = ht || b = 44
  let step (acc : List Bytes × Bytes) (b : UInt8) : List Bytes × Bytes :=
    if isSep b then (if acc.2.isEmpty then acc else (acc.1 ++ [acc.2], [])) else (acc.1, acc.2 ++ [b])
  let (done, cur) := s.foldl step ([], [])
  if cur.isEmpty then done else done ++ [cur]

structure Cfg where
  forceHttp10 : Bool := false
  replaceHost : Option Bytes := none     -- proxy.replace-http-host with a non-blank host id
  forwarded : Nat := 0                   -- PROXY_FORWARDED_* bits (0x08 `by` not modelled)
  authorizer : Bool := false
  streaming : Bool := false              -- server.stream-request-body 1 or 2
deriving Repr

structure Req where
  method : Bytes := []
  isGetOrHead : Bool := true
  target : Bytes := []                   -- r->target
  h2ConnectExt : Bool := false
  version : Nat := 1
  host : Option Bytes := none            -- r->http_host
  bodyLen : Int := 0
  scheme : Bytes := []
  isSsl : Bool := false                  -- con->srv_socket->is_ssl
  remoteAddr : Bytes := []               -- con->dst_addr_buf (IPv4 text in the harness)
  remoteUser : Option Bytes := none      -- r->env REMOTE_USER
  headers : Hdrs := []
deriving Repr

/-- r->http_host when it is not blank -/
def hostNonBlank (r : Req) : Option Bytes :=
  match r.host with
  | some h => if h.isEmpty then none else some h
  | none => none

/-- value of the "Forwarded" field proxy_set_Forwarded() writes (flags ≠ 0) -/
def forwardedValue (flags : Nat) (r : Req) (hs : Hdrs) : Bytes :=
  let base : Bytes := match getHdr hs "Forwarded" with
    | some b => b ++ [44, sp]
    | none =>
      match getHdr hs "X-Forwarded-For" with
      | some xff =>
        (xffTokens xff).flatMap fun t =>
          if t.contains colon then ofString "for=\"[" ++ bsEscape t ++ ofString "]\", "
          else ofString "for=\"" ++ bsEscape t ++ ofString "\", "
      | none => []
  let (b1, semi1) : Bytes × Bool :=
    if flags &&& 1 ≠ 0 then (base ++ ofString "for=" ++ r.remoteAddr, true) else (base, false)
  let (b2, semi2) : Bytes × Bool :=
    if flags &&& 2 ≠ 0 then
      (b1 ++ (if semi1 then [59] else []) ++
        ofString (if r.isSsl then "proto=https" else "proto=http"), true)
    else (b1, semi1)
  let (b3, semi3) : Bytes × Bool :=
    if flags &&& 4 ≠ 0 then
      match hostNonBlank r with
      | some h => (b2 ++ (if semi2 then [59] else []) ++ ofString "host=\"" ++ bsEscape h ++ [34], true)
      | none => (b2, semi2)
    else (b2, semi2)
  if flags &&& 16 ≠ 0 then
    match r.remoteUser with
    | some u => b3 ++ (if semi3 then [59] else []) ++ ofString "remote_user=\"" ++ bsEscape u ++ [34]
    | none => b3
  else b3

/-- "Forwarded" (only with proxy.forwarded options) -/
def setFwdForwarded (flags : Nat) (r : Req) (hs : Hdrs) : Hdrs :=
  if flags = 0 then hs else setHdr hs "Forwarded" (forwardedValue flags r hs)

/-- X-Host / X-Forwarded-Host -/
def setFwdHost (r : Req) (hs : Hdrs) : Hdrs :=
  match hostNonBlank r with
  | some h => setHdr (setHdr hs "X-Host" h) "X-Forwarded-Host" h
  | none => hs

/-- proxy_set_Forwarded() -/
def setForwarded (flags : Nat) (r : Req) (hs : Hdrs) : Hdrs :=
  setHdr (setFwdHost r (appendHdr (setFwdForwarded flags r hs) "X-Forwarded-For" r.remoteAddr))
    "X-Forwarded-Proto" r.scheme

/-- what the header loop of proxy_create_env() does with one stored request field -/
inductive Act
  | skip
  | emit
deriving DecidableEq, Repr

def fieldAct (c : Cfg) (version : Nat) (k v : Bytes) : Act :=
  if nameIs k "Host" then .skip
  else if nameIs k "Content-Length" && c.authorizer then .skip
  else if nameIs k "Proxy-Connection" || nameIs k "Proxy" then .skip
  else if nameIs k "TE" &&
          (c.forceHttp10 || version = 0 || !eqIcase v (ofString "trailers")) then .skip
  else if nameIs k "Upgrade" && c.forceHttp10 then .skip
  else if nameIs k "Connection" then .skip
  else if nameIs k "Set-Cookie" then .skip
  else if k.isEmpty || v.isEmpty then .skip
  else .emit

def emitField (k v : Bytes) : Bytes := crlf ++ k ++ [colon, sp] ++ v

def emitFields (c : Cfg) (version : Nat) (hs : Hdrs) : Bytes :=
  hs.flatMap fun (k, v) => if fieldAct c version k v = .emit then emitField k v else []

inductive Res
  | status (code : Nat)
  | ok (st : RawSt) (chunked : Bool)     -- chunked: hctx->stdin_append = proxy_stdin_append
deriving Repr

/-- buffer_append_uint_hex_lc(): lower-case hex, whole bytes (even number of digits) -/
def hexLcBytes : Nat → Nat → Bytes → Bytes
  | 0, _, acc => acc
  | fuel + 1, n, acc =>
    let acc' := hexDigitLC ((n / 16 % 16).toUInt8) :: hexDigitLC ((n % 16).toUInt8) :: acc
    if n / 256 = 0 then acc' else hexLcBytes fuel (n / 256) acc'

def hexLc (n : Nat) : Bytes := hexLcBytes (n + 1) n []

def lastChunk : Bytes := ofString "0\r\n\r\n"

/-- proxy_stdin_append() -/
def stdinAppend (st : RawSt) : RawSt :=
  let st1 : RawSt :=
    if st.pending.isEmpty then st else
    let tb := hexLc st.pending.length ++ crlf
    let len : Int := ((tb.length + 2 + st.pending.length : Nat) : Int)
    { out := st.out ++ tb ++ st.pending ++ crlf, pending := [],
      reqlen := if st.reqlen = -1 then st.reqlen
                else if st.reqlen ≥ 0 then st.reqlen + len else st.reqlen - len }
  if (st1.out.length : Int) = st1.reqlen then
    -- (wb_reqlen grows by sizeof("0\r\n\r\n") = 6, one more than the 5 bytes queued)
    { st1 with out := st1.out ++ lastChunk, reqlen := st1.reqlen + 6 }
  else st1

/-- request line and the Host field.  Without any Host the request is sent as HTTP/1.0
    (`b->ptr[b->used-2] = '0'`) -/
def reqLine (c : Cfg) (r : Req) : Bytes × Option (Bytes × Bytes) :=
  let m := if r.h2ConnectExt then ofString "GET" else r.method
  let line0 := m ++ [sp] ++ r.target ++ ofString (if c.forceHttp10 then " HTTP/1.0" else " HTTP/1.1")
  match c.replaceHost, r.host with
  | some h, _ => (line0, some (ofString "Host", h))
  | none, some h => (line0, some (ofString "Host", h))
  | none, none => (line0.dropLast ++ [48], none)

/-- Content-Length / Transfer-Encoding decision of proxy_create_env(): the field written right
    after Host (if any), the stored request fields afterwards (a Content-Length may have been
    added to them), and whether the body is sent chunked; `none` = 411 -/
def framing (c : Cfg) (r : Req) : Option (Option (Bytes × Bytes) × Hdrs × Bool) :=
  if c.authorizer then some (some (ofString "Content-Length", ofString "0"), r.headers, false)
  else if r.bodyLen > 0 ∨ (r.bodyLen = 0 ∧ !r.isGetOrHead) then
    (match getHdr r.headers "Content-Length" with
     | some _ => some (none, r.headers, false)
     | none => some (none, setHdr r.headers "Content-Length" (intDec r.bodyLen), false))
  else if r.h2ConnectExt then some (none, r.headers, false)
  else if r.bodyLen < 0 ∧ c.streaming then
    (if c.forceHttp10 then (if r.bodyLen = -1 then none else some (none, r.headers, false))
     else some (some (ofString "Transfer-Encoding", ofString "chunked"), r.headers, true))
  else some (none, r.headers, false)

/-- did the client send a Connection field other than "close" to an HTTP/1.1 backend request?
    (then "te" / "upgrade" are listed after "close") -/
def connListed (c : Cfg) (r : Req) (hs : Hdrs) : Bool :=
  match (hs.find? fun (k, _) => nameIs k "Connection").map (·.2) with
  | some v => !c.forceHttp10 && decide (r.version ≥ 1) && !eqIcase v (ofString "close")
  | none => false

def connValue (c : Cfg) (r : Req) (hs : Hdrs) : Bytes :=
  let te : Bool := hs.any fun (k, v) => nameIs k "TE" && fieldAct c r.version k v = .emit
  let upgrade : Bool := hs.any fun (k, v) => nameIs k "Upgrade" && !c.forceHttp10 && !v.isEmpty
  ofString "close" ++ ((if te then ofString ", te" else []) ++ (if upgrade then ofString ", upgrade" else []))

/-- the fields that close the header block: mod_proxy always sends Connection: close -/
def connTail (c : Cfg) (r : Req) (hs : Hdrs) : Hdrs :=
  if connListed c r hs then [(ofString "Connection", connValue c r hs)]
  else if r.h2ConnectExt then
    (if (getHdr hs "Sec-WebSocket-Key").isSome then []
     else [(ofString "Sec-WebSocket-Key", ofString "MDAwMDAwMDAwMDAwMDAwMA==")]) ++
    [(ofString "Upgrade", ofString "websocket"), (ofString "Connection", ofString "close, upgrade")]
  else [(ofString "Connection", ofString "close")]

/-- the request head proxy_create_env() builds, structured: request line, the fields in the
    order they are written, chunked?; `none` = 411 -/
def headFields (c : Cfg) (r : Req) : Option (Bytes × Hdrs × Bool) :=
  let (line, hostF) := reqLine c r
  match framing c r with
  | none => none
  | some (ff, hs0, chunked) =>
    let hs := setForwarded c.forwarded r hs0
    some (line,
          hostF.toList ++ ff.toList ++ hs.filter (fun (k, v) => fieldAct c r.version k v = .emit) ++
            connTail c r hs,
          chunked)

/-- serialisation: request line, CRLF name ": " value for every field, blank line -/
def renderHead (line : Bytes) (fs : Hdrs) : Bytes :=
  line ++ fs.flatMap (fun (k, v) => emitField k v) ++ crlf ++ crlf

/-- the header block of proxy_create_env(): `none` = 411 -/
def headerBlock (c : Cfg) (r : Req) : Option (Bytes × Bool) :=
  match headFields c r with
  | none => none
  | some (line, fs, chunked) => some (renderHead line fs, chunked)

/-- proxy_create_env() -/
def createEnv (c : Cfg) (r : Req) (pending : Bytes) : Res :=
  match headerBlock c r with
  | none => .status 411
  | some (hdr, chunked) =>
    if r.bodyLen ≠ 0 ∧ !c.authorizer then
      let reqlen : Int := if r.bodyLen > 0 then (hdr.length : Int) + r.bodyLen else -(hdr.length : Int)
      if chunked then .ok (stdinAppend { out := hdr, reqlen := reqlen, pending := pending }) true
      else .ok { out := hdr ++ pending, reqlen := reqlen, pending := [] } false
    else .ok { out := hdr, reqlen := hdr.length, pending := pending } chunked

/-- more body arrives, gw_write_refill_wb() runs -/
def arrive (c : Cfg) (chunked : Bool) (st : RawSt) (seg : Bytes) : RawSt :=
  let st' := { st with pending := st.pending ++ seg }
  if st'.pending.isEmpty ∨ c.authorizer then st'
  else if chunked then stdinAppend st' else st'.moveAll

/-- gw_handle_subrequest(): chunked client body just completed -/
def complete (chunked : Bool) (st : RawSt) : RawSt :=
  if st.reqlen < -1 then
    (if chunked then stdinAppend { st with reqlen := -st.reqlen }
     else RawSt.moveAll { st with reqlen := -st.reqlen })
  else st

/-- what the request parser guarantees about the stored request (request.c): Transfer-Encoding
    is consumed, never stored; when it decides the framing (reqbody_length < 0) a Content-Length
    is refused or unset; a field name is stored once -/
structure WfReq (r : Req) : Prop where
  noTE : ∀ p ∈ r.headers, nameIs p.1 "Transfer-Encoding" = false
  clOpen : r.bodyLen < 0 → ∀ p ∈ r.headers, nameIs p.1 "Content-Length" = true → p.2 = []

/-- whole request as the gateway runs it: create_env with `seg0` queued, later arrivals,
    completion of a streamed chunked body, everything flushed; `none` = 411 -/
def run (c : Cfg) (r : Req) (seg0 : Bytes) (segs : List Bytes) : Option (RawSt × Bool) :=
  match createEnv c r seg0 with
  | .status _ => none
  | .ok st chunked =>
    let st1 := complete chunked (segs.foldl (arrive c chunked) st)
    some (if st1.pending.isEmpty ∨ c.authorizer then st1
          else if chunked then stdinAppend st1 else st1.moveAll, chunked)

/-! receiving side: the head of an HTTP/1.x request (RFC 9112 2.1, 5): request line, field lines
    "name:" OWS value, empty line -/

def isOws (b : UInt8) : Bool := b = sp || b = ht

/-- bytes up to the first CRLF, and what follows it -/
def takeLine : Bytes → Option (Bytes × Bytes)
  | [] => none
  | a :: t =>
    match t with
    | [] => none
    | b :: rest =>
      if a = cr ∧ b = lf then some ([], rest)
      else match takeLine t with
        | some (l, r) => some (a :: l, r)
        | none => none

def decodeFields : Nat → Bytes → Option (Hdrs × Bytes)
  | 0, _ => none
  | fuel + 1, s =>
    match takeLine s with
    | none => none
    | some (l, rest) =>
      if l.isEmpty then some ([], rest) else
      match splitAtByte colon l with
      | (_, none) => none
      | (k, some v) =>
        match decodeFields fuel rest with
        | some (fs, body) => some ((k, v.dropWhile isOws) :: fs, body)
        | none => none

/-- (request line, fields, bytes after the empty line) -/
def decodeHead (s : Bytes) : Option (Bytes × Hdrs × Bytes) :=
  match takeLine s with
  | none => none
  | some (line, rest) =>
    match decodeFields (rest.length + 1) rest with
    | some (fs, body) => some (line, fs, body)
    | none => none

/-- a field the serialisation is faithful for: token-like name, value without CR and without
    leading whitespace (what the request parser stores) -/
def WfField (f : Bytes × Bytes) : Prop :=
  f.1 ≠ [] ∧ colon ∉ f.1 ∧ cr ∉ f.1 ∧ cr ∉ f.2 ∧ ∀ b, f.2.head? = some b → isOws b = false

/-- a streamed (Transfer-Encoding: chunked) upload as the gateway runs it: create_env with the
    first segment queued and the total length unknown (wb_reqlen negative), later arrivals
    re-chunked by proxy_stdin_append(), then completion -/
def runChunked (hdr seg0 : Bytes) (segs : List Bytes) : RawSt :=
  let st0 := stdinAppend { out := hdr, reqlen := -(hdr.length : Int), pending := seg0 }
  complete true (segs.foldl (arrive {} true) st0)

/-! receiving side: HTTP/1.1 chunked transfer coding (RFC 9112 7.1), no extensions/trailers -/

def hexValNat (b : UInt8) : Option Nat := (hexVal b).map (·.toNat)

def parseHexLine : Bytes → Nat → Nat → Option (Nat × Bytes)
  | [], _, _ => none
  | b :: rest, acc, ndig =>
    match hexValNat b with
    | some d => parseHexLine rest (acc * 16 + d) (ndig + 1)
    | none =>
      if b = cr ∧ rest.head? = some lf ∧ ndig > 0 then some (acc, rest.drop 1) else none

def dechunk : Nat → Bytes → Option (Bytes × Bytes)
  | 0, _ => none
  | fuel + 1, s =>
    match parseHexLine s 0 0 with
    | none => none
    | some (n, rest) =>
      if n = 0 then
        (if rest.take 2 = crlf then some ([], rest.drop 2) else none)
      else if rest.length < n + 2 ∨ (rest.drop n).take 2 ≠ crlf then none
      else match dechunk fuel (rest.drop (n + 2)) with
        | some (body, tail) => some (rest.take n ++ body, tail)
        | none => none


/-- a field value the serialisation is faithful for -/
def ValueOk (v : Bytes) : Prop := cr ∉ v ∧ ∀ b, v.head? = some b → isOws b = false

/-- what the request parser and the configuration parser guarantee about the byte strings
    proxy_create_env() copies into the head: stored fields are `WfField`, no CR / leading blank in
    the host, the proxy host id, the peer address text and the scheme; no CR in method and target -/
structure HeadWf (c : Cfg) (r : Req) : Prop where
  fields : ∀ f ∈ r.headers, WfField f
  host : ∀ h, r.host = some h → ValueOk h
  replaceHost : ∀ h, c.replaceHost = some h → ValueOk h
  remoteAddr : ValueOk r.remoteAddr
  scheme : ValueOk r.scheme
  method : cr ∉ r.method
  target : cr ∉ r.target

end Proxy
end LtVerif
