/-
  Model of src/http_range.c (C15) and of the chunk-queue operations it uses
  (chunkqueue_mark_written, chunkqueue_steal, chunkqueue_append_cq_range of
  src/chunk.c, at the level of chunk contents):
    strtoll(3)                       -> `strtoll`        (libc; validated through the C functions)
    http_range_parse_next()          -> `parseNext`, `parseSpec`
    http_range_parse()               -> `parseStep`, `parseLoop`, `parse`
    http_range_coalesce_unsorted()   -> `coalescePass`, `coalesce`
    http_range_single()              -> `single`
    http_range_multi()               -> `multi`
    http_range_not_satisfiable(), http_range_process() -> `process`
    http_range_rfc7233()             -> `rfc7233`
  The C parser walks one NUL-terminated string; no step of it crosses a ','
  (strtoll consumes blanks, a sign and digits only), so the model parses the
  ','-separated pieces independently (`parseSpec`), which is what the
  correspondence check `h_range` validates.  Limits and the multipart boundary
  come from Extracted/RangeConst.lean (regenerated from the source each run).
  Header values are NUL-free.
-/
import LtVerif.Model.Date
import LtVerif.Extracted.RangeConst
set_option linter.unusedSimpArgs false
set_option linter.unusedVariables false
namespace LtVerif
namespace Range
open B Date

def LLONG_MAX : Int := Extracted.llongMax
def LLONG_MIN : Int := Extracted.llongMin
/-- limits in number of ranges (the C code counts array slots, two per range) -/
def RMAX : Nat := Extracted.rangeRMAX
def RMAX_UNSORTED : Nat := Extracted.rangeRMAXUnsorted

abbrev Rng := Int × Int

/-! ### strtoll -/

/-- isspace() in the C locale -/
def isSpace (b : UInt8) : Bool := b = 32 || (9 ≤ b && b ≤ 13)

/-- optional sign: (negative?, rest) -/
def takeSign : Bytes → Bool × Bytes
  | 45 :: t => (true, t)
  | 43 :: t => (false, t)
  | s => (false, s)

def clampLL (neg : Bool) (v : Nat) : Int :=
  if neg then (if -(v : Int) < LLONG_MIN then LLONG_MIN else -(v : Int))
  else (if (v : Int) > LLONG_MAX then LLONG_MAX else (v : Int))

/-- strtoll(s, &e, 10): `none` = no conversion performed (value 0, e = s);
    otherwise the value clamped to [LLONG_MIN, LLONG_MAX] and the text at e -/
def strtoll (s : Bytes) : Option (Int × Bytes) :=
  let (neg, s2) := takeSign (s.dropWhile isSpace)
  let ds := s2.takeWhile isDigit
  if ds = [] then none
  else some (clampLL neg (decVal ds), s2.dropWhile isDigit)

/-! ### one range-spec -/

def isBlank (b : UInt8) : Bool := b = 32 || b = 9
def skipWs (s : Bytes) : Bytes := s.dropWhile isBlank

/-- http_range_parse_next(): the range (none = ranges[1] left at -1) and the
    text at the returned pointer.  `len` > 0 is the representation length. -/
def parseNext (s : Bytes) (len : Int) : Option Rng × Bytes :=
  match strtoll s with
  | none => (none, skipWs s)                       -- n = 0 and s == e
  | some (n, e) =>
    if n ≥ 0 then
      if n ≠ LLONG_MAX ∧ n < len then
        match skipWs e with
        | 45 :: s2 =>
          match strtoll s2 with
          | none => (some (n, len - 1), skipWs s2)          -- "first-"
          | some (m, e2) =>
            -- (the C test `n == 0 && e[-1] != '0'` cannot hold after a conversion)
            -- (a last-pos clamped to LLONG_MAX is ≥ len: "to the end")
            if n ≤ m then (some (n, if m < len then m else len - 1), skipWs e2)
            else (none, skipWs e2)
        | e1 => (none, skipWs e1)
      else (none, skipWs e)
    else
      -- suffix "-n"; a suffix-length clamped to LLONG_MIN selects the whole representation
      (some (if n ≠ LLONG_MIN ∧ len > -n then len + n else 0, len - 1), skipWs e)

/-- one ','-separated piece of the header: valid iff a range was produced and
    the parser stopped at the end of the piece (C: at ',' or NUL) -/
def parseSpec (piece : Bytes) (len : Int) : Option Rng :=
  match parseNext piece len with
  | (some rg, []) => some rg
  | _ => none

/-! ### the list of ranges -/

/-- parser state: accepted ranges, most recent first; current limit -/
structure PSt where
  rs : List Rng
  lim : Nat
deriving Repr, DecidableEq

/-- body of the do-while loop of http_range_parse() for one accepted range;
    the Bool is the `break` -/
def parseStep (st : PSt) (rg : Rng) : PSt × Bool :=
  match st.rs with
  | [] => ({ st with rs := [rg] }, false)
  | prev :: more =>
    if prev.1 ≤ rg.1 then
      if prev.2 < rg.1 - 80 then ({ st with rs := rg :: prev :: more }, false)
      else ({ st with rs := (prev.1, if prev.2 < rg.2 then rg.2 else prev.2) :: more }, false)
    else if more.length + 2 > RMAX_UNSORTED then (st, true)
    else ({ rs := rg :: prev :: more, lim := RMAX_UNSORTED }, false)

def parseLoop (len : Int) : PSt → List Bytes → PSt
  | st, [] => st
  | st, p :: ps =>
    match parseSpec p len with
    | none => parseLoop len st ps
    | some rg =>
      let (st', brk) := parseStep st rg
      if brk ∨ st'.rs.length ≥ st'.lim then st' else parseLoop len st' ps

/-- the "continue" test of http_range_coalesce_unsorted() negated -/
def overlaps (b e : Int) (r : Rng) : Bool :=
  !(if b ≤ r.1 then e < r.1 - 80 else r.2 < b - 80)

/-- first later range that range (b,e) combines with: the combined range and
    the remaining later ranges -/
def mergeFirst (b e : Int) : List Rng → Option (Rng × List Rng)
  | [] => none
  | r :: rest =>
    if overlaps b e r then
      some ((if b ≤ r.1 then b else r.1, if e ≥ r.2 then e else r.2), rest)
    else
      match mergeFirst b e rest with
      | none => none
      | some (m, rest') => some (m, r :: rest')

/-- one combination step: the first pair (i, j), i < j, in loop order that combines -/
def coalescePass : List Rng → Option (List Rng)
  | [] => none
  | r :: rest =>
    match mergeFirst r.1 r.2 rest with
    | some (m, rest') => some (m :: rest')
    | none =>
      match coalescePass rest with
      | none => none
      | some rest' => some (r :: rest')

theorem mergeFirst_length {b e : Int} {l : List Rng} {m : Rng} {l' : List Rng}
    (h : mergeFirst b e l = some (m, l')) : l'.length + 1 = l.length := by
  induction l generalizing m l' with
  | nil => simp [mergeFirst] at h
  | cons r rest ih =>
    unfold mergeFirst at h
    split at h
    · simp only [Option.some.injEq, Prod.mk.injEq] at h
      rw [← h.2]; simp
    · split at h
      · simp at h
      · rename_i m' rest' hm
        simp only [Option.some.injEq, Prod.mk.injEq] at h
        rw [← h.2]
        simp [ih hm]

theorem coalescePass_length {l l' : List Rng} (h : coalescePass l = some l') :
    l'.length + 1 = l.length := by
  induction l generalizing l' with
  | nil => simp [coalescePass] at h
  | cons r rest ih =>
    unfold coalescePass at h
    split at h
    · rename_i m rest' hm
      simp only [Option.some.injEq] at h
      rw [← h]
      simp [mergeFirst_length hm]
    · split at h
      · simp at h
      · rename_i rest' hc
        simp only [Option.some.injEq] at h
        rw [← h]
        simp [ih hc]

/-- http_range_coalesce_unsorted(): combine until no pair combines
    (the C loop restarts from the first range after every combination) -/
def coalesce (l : List Rng) : List Rng :=
  match h : coalescePass l with
  | none => l
  | some l' => coalesce l'
termination_by l.length
decreasing_by have := coalescePass_length h; omega

/-- http_range_parse(): `s` is the header text after "bytes=" -/
def parse (s : Bytes) (len : Int) : List Rng :=
  let st := parseLoop len { rs := [], lim := RMAX } (splitOn 44 s)
  let rs := st.rs.reverse
  if rs.length ≤ 1 then rs
  else if st.lim = RMAX then rs
  else coalesce rs

/-! ### chunk queue contents -/

/-- a chunk queue as the list of its chunks' remaining bytes -/
abbrev Cq := List Bytes

def cqLen (cq : Cq) : Nat := cq.flatten.length

/-- chunkqueue_mark_written(): consume n bytes from the front -/
def cqDrop : Nat → Cq → Cq
  | _, [] => []
  | n, c :: cs => if n ≥ c.length then cqDrop (n - c.length) cs else c.drop n :: cs

/-- chunkqueue_steal(): the first n bytes, whole chunks then a partial one -/
def cqTake : Nat → Cq → Cq
  | _, [] => []
  | n, c :: cs =>
    if n ≥ c.length then c :: cqTake (n - c.length) cs
    else if n = 0 then [] else [c.take n]

/-- chunkqueue_append_cq_range(): the bytes copied from `src` for (offset, len) -/
def cqRange : Cq → Nat → Nat → Bytes
  | [], _, _ => []
  | c :: cs, off, len =>
    if len = 0 then []
    else if off ≥ c.length then cqRange cs (off - c.length) len
    else
      let clen := if len < c.length - off then len else c.length - off
      (c.drop off).take clen ++ cqRange cs 0 (len - clen)

/-! ### response assembly -/

def crlf : Bytes := [13, 10]
def boundary : Bytes := Extracted.rangeBoundary
/-- "\r\n--" BOUNDARY -/
def boundaryPrefix : Bytes := crlf ++ [45, 45] ++ boundary
/-- "\r\n--" BOUNDARY "--\r\n" -/
def boundaryEnd : Bytes := crlf ++ [45, 45] ++ boundary ++ [45, 45] ++ crlf
/-- "multipart/byteranges; boundary=" BOUNDARY -/
def multipartType : Bytes := ofString "multipart/byteranges; boundary=" ++ boundary

/-- "bytes a-b/total" -/
def contentRange (a b total : Nat) : Bytes :=
  ofString "bytes " ++ natDec a ++ [45] ++ natDec b ++ [47] ++ natDec total

/-- "bytes */total" -/
def contentRangeUnsat (total : Nat) : Bytes := ofString "bytes */" ++ natDec total

/-- boundary line and part header, as built in r->tmp_buf -/
def partHeader (ctype : Option Bytes) (a b total : Nat) : Bytes :=
  boundaryPrefix
    ++ (match ctype with
        | some ct => crlf ++ ofString "Content-Type: " ++ ct
        | none => [])
    ++ crlf ++ ofString "Content-Range: " ++ contentRange a b total ++ crlf ++ crlf

/-- http_range_single(): a queue of one chunk is trimmed in place, otherwise
    the bytes are moved out and the range moved back -/
def single (cq : Cq) (a b : Nat) : Cq :=
  match cq with
  | [c] => [(c.drop a).take (b - a + 1)]
  | _ => cqTake (b - a + 1) (cqDrop a cq)

/-- http_range_multi(): part headers and copies of the ranges are appended to
    the queue itself, then the original bytes and the first CRLF are consumed -/
def multi (cq : Cq) (ctype : Option Bytes) (rs : List (Nat × Nat)) : Cq :=
  let total := cqLen cq
  let q := rs.foldl (fun q r => q ++ [partHeader ctype r.1 r.2 total, cqRange q r.1 (r.2 - r.1 + 1)]) cq
  cqDrop (total + 2) (q ++ [boundaryEnd])

/-! ### request / response state seen by http_range_rfc7233() -/

structure Req where
  method : Int            -- http_method_t: 0 GET, 1 HEAD, 2 QUERY, 3 POST, …
  version : Int           -- http_version_t: 0 HTTP/1.0, 1 HTTP/1.1, 2 HTTP/2
  allow10 : Bool          -- server.feature-flags "http10.range"
  range : Option Bytes
  ifRange : Option Bytes
deriving Repr, DecidableEq

structure Resp where
  status : Int
  finished : Bool                  -- r->resp_body_finished
  encoded : Bool                   -- Transfer-Encoding or Content-Encoding already set
  body : Cq                        -- r->write_queue
  etag : Option Bytes
  lastModified : Option Bytes
  contentType : Option Bytes
  acceptRanges : Option Bytes
  contentRange : Option Bytes := none
  contentLength : Option Bytes := none
deriving Repr, DecidableEq

def bytesEq : Bytes := ofString "bytes="

def toNatRng (r : Rng) : Nat × Nat := (r.1.toNat, r.2.toNat)

/-- http_range_process() -/
def process (rs : Resp) (hdr : Bytes) : Resp :=
  let total := cqLen rs.body
  if total = 0 then rs
  else if hdr.length < 6 ∨ !eqIcase (hdr.take 6) bytesEq then rs
  else
    match parse (hdr.drop 6) total with
    | [] => { rs with status := 416, contentRange := some (contentRangeUnsat total) }
    | [r] =>
      let body := single rs.body r.1.toNat r.2.toNat
      { rs with status := 206, body := body,
                contentRange := some (contentRange r.1.toNat r.2.toNat total),
                contentLength := some (natDec (cqLen body)) }
    | l =>
      let body := multi rs.body rs.contentType (l.map toNatRng)
      { rs with status := 206, body := body, contentType := some multipartType,
                contentLength := some (natDec (cqLen body)) }

/-- "Accept-Ranges: bytes" is advertised unless the field is already set -/
def withAcceptRanges (rs : Resp) : Resp :=
  if rs.acceptRanges.isNone then { rs with acceptRanges := some (ofString "bytes") } else rs

/-- If-Range: exact (strong) match against the ETag when the value starts with
    '"', else against Last-Modified; a missing validator never matches -/
def ifRangePass (ifRange : Option Bytes) (rs : Resp) : Bool :=
  match ifRange with
  | none => true
  | some ir => decide ((if ir.head? = some 34 then rs.etag else rs.lastModified) = some ir)

/-- http_range_rfc7233() -/
def rfc7233 (rq : Req) (rs : Resp) : Resp :=
  if !rs.finished then rs
  else if rs.status ≠ 200 then rs
  else if !(rq.method ≤ 1) then rs                     -- GET or HEAD
  else if rq.version < 1 ∧ !rq.allow10 then rs         -- no Range in HTTP/1.0
  else if rs.encoded then rs
  else if rs.acceptRanges = some (ofString "none") then rs
  else if rq.method ≠ 0 then withAcceptRanges rs       -- GET only
  else
    match rq.range with
    | none => withAcceptRanges rs
    | some hdr =>
      if ifRangePass rq.ifRange rs then process (withAcceptRanges rs) hdr
      else withAcceptRanges rs

end Range
end LtVerif
