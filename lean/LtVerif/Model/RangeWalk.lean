/-
  Pointer-level model of the loop of src/http_range.c:http_range_parse() (C15).

  Model/Range.lean parses the ','-separated pieces of the header independently
  (`parseLoop` over `splitOn 44`).  The C code does not split anything: it walks
  ONE NUL-terminated string with a `const char *s`,
      do {
          s = http_range_parse_next(s, len, ranges+n);
          if ((*s == '\0' || *s == ',') && ranges[n+1] != -1) { … accept/merge/break … }
          else while (*s != '\0' && *s != ',') ++s;          /* ignore invalid ranges */
      } while (*s++ != '\0' && n < lim);
  and http_range_parse_next() itself is handed the WHOLE remaining header (strtoll
  and the blank-skipping loops stop where they stop).  This file models exactly
  that walk: the text is the NUL-free remainder of the header (`[]` = the pointer
  is at the NUL), `parseNext` (Model/Range.lean) is applied to the whole remainder
  and its returned text is the returned pointer.
    while (*s != '\0' && *s != ',') ++s      -> `skipToComma`
    body of one do-while iteration           -> `walkItem`
    the do-while with `*s++` and `n < lim`   -> `walk` (fuel = one unit per iteration;
                                                 every iteration consumes ≥ 1 byte or stops)
    http_range_parse()                       -> `parsePtr`
  Proofs/RangeWalk.lean proves `parsePtr = parse` for every header and length.
-/
import LtVerif.Model.Range
set_option linter.unusedVariables false
namespace LtVerif
namespace Range
open B Date

/-- `while (*s != '\0' && *s != ',') ++s;` -/
def skipToComma (s : Bytes) : Bytes := s.dropWhile (fun b => b != 44)

/-- one iteration of the do-while body of http_range_parse() with `s` at the
    start of the iteration: the new state, the `break` flag, and the text at `s`
    when the loop condition is evaluated (at a ',' or at the NUL) -/
def walkItem (len : Int) (st : PSt) (s : Bytes) : PSt × Bool × Bytes :=
  match parseNext s len with
  | (some rg, []) =>                       -- *s == '\0' && ranges[n+1] != -1
    let (st', brk) := parseStep st rg
    (st', brk, [])
  | (some rg, 44 :: t) =>                  -- *s == ',' && ranges[n+1] != -1
    let (st', brk) := parseStep st rg
    (st', brk, 44 :: t)
  | (_, e) => (st, false, skipToComma e)   -- invalid: skip to ',' or NUL

/-- the do-while loop: `break` leaves at once; otherwise `*s++ != '\0' && n < lim` -/
def walk (len : Int) : Nat → PSt → Bytes → PSt
  | 0, st, _ => st
  | fuel + 1, st, s =>
    match walkItem len st s with
    | (st', true, _) => st'
    | (st', false, []) => st'                                   -- *s == '\0'
    | (st', false, _ :: t) =>                                   -- s now after the ','
      if st'.rs.length < st'.lim then walk len fuel st' t else st'

/-- http_range_parse() as the pointer walk over the text after "bytes=" -/
def parsePtr (s : Bytes) (len : Int) : List Rng :=
  let st := walk len (s.length + 1) { rs := [], lim := RMAX } s
  let rs := st.rs.reverse
  if rs.length ≤ 1 then rs
  else if st.lim = RMAX then rs
  else coalesce rs

/-- http_range_process() with the ranges computed by the pointer walk
    (text of `process` with `parsePtr` for `parse`) -/
def processPtr (rs : Resp) (hdr : Bytes) : Resp :=
  let total := cqLen rs.body
  if total = 0 then rs
  else if hdr.length < 6 ∨ !eqIcase (hdr.take 6) bytesEq then rs
  else
    match parsePtr (hdr.drop 6) total with
    | [] => { rs with status := 416, contentRange := some (contentRangeUnsat total) }
    | [r] =>
      let body := single rs.body r.1.toNat r.2.toNat
      { rs with status := 206, body := body,
                contentRange := some (contentRange r.1.toNat r.2.toNat total),
                contentLength := some (natDec (cqLen body)) }
    | l =>
      let body := multi rs.body rs.contentType (l.map toNatRng)
      { rs with status := 206, body := body, contentType := some multipartType,
                contentLength := some (natDec (cqLen body)) }

end Range
end LtVerif
