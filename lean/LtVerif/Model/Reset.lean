/-
  Model of the per-request state of lighttpd and of the functions that recycle it:
    request_st                          (request.h)         -> `ReqSt`
    request_init_data()                 (reqpool.c)         -> `ReqSt.init`
    http_response_body_clear()          (http-header-glue.c)-> `bodyClear`
    http_response_reset()               (http-header-glue.c)-> `responseReset`
    plugins_call_handle_request_reset() (plugin.c + the reset hooks of the modules,
                                         which clear their r->plugin_ctx slot)  -> `pluginsReset`
    request_reset(), request_reset_ex() (reqpool.c)         -> `requestReset`, `requestResetEx`
    request_release() / request_acquire()                   -> `requestRelease`
    h2_init_stream()                    (h2.c)              -> `h2InitStream`
    connection_reset()                  (connections.c)     -> `requestReset` on con->request
  and of the small setters the rest of the server uses to write response state
  (http_header_{request,response,env}_set/append/insert/unset, chunkqueue append).

  A `buffer` is `Option Bytes`: `none` is the unset state (used == 0), `some []` a blank string.
  The model is written field by field after the C ("as it is"): fields request_reset() leaves
  alone on purpose (uri.path / uri.query / uri.authority / target_orig kept for mod_status until
  request_reset_ex(); the condition cache, reset in response.c; tmp_sce; state) stay untouched.
-/
import LtVerif.Model.Basic
namespace LtVerif.Req
open LtVerif LtVerif.B

abbrev Buf := Option Bytes

def Buf.bytes (b : Buf) : Bytes := b.getD []
/-- buffer_is_blank(): unset or empty string -/
def Buf.blank (b : Buf) : Bool := b.bytes.isEmpty

/-- BUFFER_MAX_REUSE_SIZE (buffer.h) -/
def bufferMaxReuse : Nat := 4096

/-- one entry of r->cond_cache -/
structure CondEnt where
  result : Int := 0
  localResult : Int := 0
deriving Repr, DecidableEq

/-- chunkqueue: pending bytes and the two byte counters -/
structure Cq where
  data : Bytes := []
  bytesIn : Nat := 0
  bytesOut : Nat := 0
deriving Repr, DecidableEq

def Cq.append (q : Cq) (b : Bytes) : Cq :=
  { q with data := q.data ++ b, bytesIn := q.bytesIn + b.length }
/-- chunkqueue_reset() -/
def Cq.reset (_ : Cq) : Cq := {}

/-- the part of `request_config` the model looks at; `other` stands for all remaining
    members (0 = as in the defaults) -/
structure Conf where
  parseopts : Nat := 0
  maxRequestFieldSize : Nat := 8192
  streamRequestBody : Nat := 0
  maxKeepAliveRequests : Nat := 100
  rangeRequests : Bool := true
  docRoot : Bytes := []
  serverTag : Bytes := []
  extra : List (Bytes × Bytes) := []     -- response headers configured for the matching scope
  serverName : Option Bytes := none      -- server.name
  allowHttp11 : Bool := true             -- server.protocol-http11
  maxRequestSize : Nat := 0              -- server.max-request-size (kB; 0 = unlimited)
  other : Nat := 0
deriving Repr, DecidableEq

/-- which buffer r->server_name points to -/
inductive SrvName
  | authority      -- &r->uri.authority
  | nameBuf        -- &r->server_name_buf
  | conf           -- r->conf.server_name
  | h2r (n : Nat)  -- inherited pointer of the connection request (h2_init_stream)
deriving Repr, DecidableEq

/-- what a module keeps in its r->plugin_ctx slot (mod_setenv: the header list that matched) -/
abbrev PCtx := List (Bytes × Bytes)

/-- header id (enum http_header_e); 0 = HTTP_HEADER_OTHER -/
abbrev HId := Nat

/-- an array of data_string as used for request headers, response headers and env:
    (id, key, value) in insertion order -/
abbrev HList := List (HId × Bytes × Bytes)

/-- where r->cond_match[i] points -/
inductive CmRef
  | null            -- NULL (never matched)
  | own             -- r->cond_match_data + i
  | h2r             -- the connection request's data (copied by h2_init_stream)
deriving Repr, DecidableEq

/-- fields that request_reset() and request_reset_ex() both leave alone: the condition cache and
    its validity bits (reset in response.c / on accept), server_name_buf ("reset when used"),
    physical.doc_root / basedir (cleared only while physical.path is allocated; rewritten by
    http_response_prepare()), state (callers), the connection's read queue, the saved method of
    the error handler (valid only while error_handler_saved_status is set), and the allocation
    state of physical.path -/
structure ReqStale where
  conValid : Nat := 0                   -- r->conditional_is_valid
  condCache : List CondEnt := []
  serverNameBuf : Buf := none
  physDocRoot : Buf := none
  physBasedir : Buf := none
  state : Nat := 0                      -- CON_STATE_CONNECT
  readQueue : Cq := {}
  errorHandlerSavedMethod : Int := 0    -- (not valid unless errorHandlerSavedStatus is set)
  physPathPtr : Bool := false           -- r->physical.path.ptr != NULL
  physPathBig : Bool := false           -- r->physical.path.size > BUFFER_MAX_REUSE_SIZE
  x0 : Int := 0                         -- r->x viewed as x.h1: bytes_written_ckpt  (h2: state, id)
  x1 : Int := 0                         --                     bytes_read_ckpt     (h2: rwin, swin)
                                        -- zeroed by request_reset(), then set again by its h1 / h2 caller:
                                        -- accounting carried from request to request, not response state
  condMatch : List CmRef := []          -- r->cond_match[i]: regex captures of config conditions
  dstOwn : Bool := true                 -- r->dst_addr / dst_addr_buf point at the connection's (mod_extforward
                                        -- redirects them and must restore them in its reset hook)
deriving Repr, DecidableEq

/-- fields request_reset() keeps (for mod_status) until request_reset_ex() clears them -/
structure ReqKept where
  uriAuthority : Buf := none
  uriPath : Buf := none
  uriQuery : Buf := none
  targetOrig : Buf := none
  serverName : SrvName := .authority
  physPath : Buf := none
  physRelPath : Buf := none
deriving Repr, DecidableEq

/-- fields request_reset() restores to their initial value -/
structure ReqLive where
  httpStatus : Int := 0
  x2 : Int := 0                         -- r->x viewed as x.h1: te_chunked (h2: rwin_fudge, prio)
  method : Int := -1                    -- HTTP_METHOD_UNSET
  version : Int := -1                   -- HTTP_VERSION_UNSET
  handlerModule : Bool := false         -- r->handler_module != NULL
  pluginCtx : List (Nat × PCtx) := []   -- the non-NULL slots (i, r->plugin_ctx[i])
  conf : Conf := {}
  rqstHeaderLen : Nat := 0
  rqstHtags : List HId := []            -- set bits of r->rqst_htags, ascending
  rqstHeaders : HList := []
  uriScheme : Buf := none
  env : HList := []
  reqbodyLength : Int := 0
  respBodyScratchpad : Int := -1
  httpHost : Option Bytes := none       -- r->http_host (pointer into rqst_headers) or NULL
  target : Buf := none
  pathinfo : Buf := none
  respHeaderLen : Nat := 0
  respHtags : List HId := []
  respHeaders : HList := []
  respBodyFinished : Bool := false
  respBodyStarted : Bool := false
  respSendChunked : Bool := false
  respDecodeChunked : Bool := false
  respHeaderRepeated : Bool := false
  loopsPerRequest : Nat := 0
  keepAlive : Int := 0
  asyncCallback : Bool := false
  gwDechunk : Bool := false             -- r->gw_dechunk != NULL
  errorHandlerSavedStatus : Int := 0
  writeQueue : Cq := {}
  reqbodyQueue : Cq := {}
  h2ConnectExt : Bool := false
deriving Repr, DecidableEq

/-- the fields at least one of the two reset functions restores -/
structure ReqCore extends ReqLive, ReqKept
deriving Repr, DecidableEq

/-- request_st: all modelled fields, grouped by what the reset functions do with them.
    The type of a function says which group of fields it can look at or change: functions over
    `ReqLive` (resp. `ReqCore`) are applied to a request with `onLive` (resp. `onCore`). -/
structure ReqSt extends ReqCore, ReqStale
deriving Repr, DecidableEq

def ReqCore.onLive (s : ReqCore) (f : ReqLive → ReqLive) : ReqCore := { s with toReqLive := f s.toReqLive }
def ReqSt.onCore (s : ReqSt) (f : ReqCore → ReqCore) : ReqSt := { s with toReqCore := f s.toReqCore }
def ReqSt.onLive (s : ReqSt) (f : ReqLive → ReqLive) : ReqSt := s.onCore (·.onLive f)

/-- static facts of the server a request object is created for -/
structure SrvEnv where
  nPlugins : Nat := 2                   -- srv->plugins.used
  nContexts : Nat := 4                  -- srv->config_context->used
  nCaptures : Nat := 2                  -- srv->config_captures
  resetHooks : List Nat := [1, 2]       -- plugin ids whose handle_request_reset hook clears r->plugin_ctx[id]
  defaults : Conf := {}                 -- request_config_defaults
deriving Repr, DecidableEq

/-- request_init_data() on a zeroed object -/
def ReqSt.init (e : SrvEnv) : ReqSt :=
  { condCache := List.replicate e.nContexts {},
    condMatch := List.replicate e.nCaptures .null,
    conf := e.defaults }

/-! ### id sets (bit fields rqst_htags / resp_htags) -/

def bset (s : List HId) (i : HId) : List HId :=
  if s.contains i then s else
  let rec ins : List HId → List HId
    | [] => [i]
    | a :: rest => if i < a then i :: a :: rest else a :: ins rest
  ins s
def bclr (s : List HId) (i : HId) : List HId := s.filter (· ≠ i)
def btst (s : List HId) (i : HId) : Bool := s.contains i

/-! ### header arrays (array.c keyed by (id, key); keys compare case-insensitively) -/

def hfind (a : HList) (id : HId) (k : Bytes) : Option Bytes :=
  match a.find? (fun e => e.1 = id ∧ eqIcase e.2.1 k) with
  | some e => some e.2.2
  | none => none

/-- array_get_buf_ptr_ext() followed by a write of the value computed from the old one
    (`none` = the key was not present: a new element with an empty value is inserted first) -/
def hupdate (a : HList) (id : HId) (k : Bytes) (f : Bytes → Bytes) : HList :=
  if (a.any fun e => e.1 = id ∧ eqIcase e.2.1 k) then
    a.map fun e => if e.1 = id ∧ eqIcase e.2.1 k then (e.1, e.2.1, f e.2.2) else e
  else a ++ [(id, k, f [])]

/-- http_header_token_append() -/
def tokenAppend (old v : Bytes) : Bytes := if old.isEmpty then v else old ++ [44, sp] ++ v

/-- http_header_response_set() -/
def respSet (s : ReqLive) (id : HId) (k v : Bytes) : ReqLive :=
  { s with respHtags := if v.isEmpty then (if id > 0 then bclr s.respHtags id else s.respHtags)
                        else bset s.respHtags id,
           respHeaders := hupdate s.respHeaders id k (fun _ => v) }

/-- http_header_response_unset() -/
def respUnset (s : ReqLive) (id : HId) (k : Bytes) : ReqLive :=
  if btst s.respHtags id then
    { s with respHtags := if id > 0 then bclr s.respHtags id else s.respHtags,
             respHeaders := hupdate s.respHeaders id k (fun _ => []) }
  else s

/-- http_header_response_append() -/
def respAppend (s : ReqLive) (id : HId) (k v : Bytes) : ReqLive :=
  if v.isEmpty then s else
  { s with respHtags := bset s.respHtags id,
           respHeaders := hupdate s.respHeaders id k (fun old => tokenAppend old v) }

/-- http_header_response_insert(): a repeated field goes on a new line inside the value -/
def respInsert (s : ReqLive) (id : HId) (k v : Bytes) : ReqLive :=
  if v.isEmpty then s else
  let h2 := s.version ≥ 2
  let rep := (hfind s.respHeaders id k).any (fun old => !old.isEmpty)
  { s with respHtags := bset s.respHtags id,
           respHeaderRepeated := s.respHeaderRepeated || (rep && h2),
           respHeaders := hupdate s.respHeaders id k (fun old =>
             if old.isEmpty then v
             else old ++ [cr, lf] ++ (if h2 then k.map toLower else k) ++ [colon, sp] ++ v) }

/-- http_header_response_get() -/
def respGet (s : ReqLive) (id : HId) (k : Bytes) : Option Bytes :=
  if btst s.respHtags id then
    match hfind s.respHeaders id k with
    | some v => if v.isEmpty then none else some v
    | none => none
  else none

/-- http_header_request_set() -/
def rqstSet (s : ReqLive) (id : HId) (k v : Bytes) : ReqLive :=
  { s with rqstHtags := if v.isEmpty then (if id > 0 then bclr s.rqstHtags id else s.rqstHtags)
                        else bset s.rqstHtags id,
           rqstHeaders := hupdate s.rqstHeaders id k (fun _ => v) }

/-- http_header_request_unset() -/
def rqstUnset (s : ReqLive) (id : HId) (k : Bytes) : ReqLive :=
  if btst s.rqstHtags id then
    { s with rqstHtags := if id > 0 then bclr s.rqstHtags id else s.rqstHtags,
             rqstHeaders := hupdate s.rqstHeaders id k (fun _ => []) }
  else s

/-- http_header_request_get() -/
def rqstGet (s : ReqLive) (id : HId) (k : Bytes) : Option Bytes :=
  if btst s.rqstHtags id then
    match hfind s.rqstHeaders id k with
    | some v => if v.isEmpty then none else some v
    | none => none
  else none

/-- http_header_env_set() (env entries carry no id) -/
def envSet (s : ReqLive) (k v : Bytes) : ReqLive :=
  { s with env := hupdate s.env 0 k (fun _ => v) }

/-! ### the recycling functions -/

/-- id of Transfer-Encoding / Content-Length in enum http_header_e -/
structure HdrIds where
  transferEncoding : HId
  contentLength : HId
deriving Repr, DecidableEq

/-- http_response_body_clear() -/
def bodyClear (h : HdrIds) (s : ReqLive) (preserveLength : Bool) : ReqLive :=
  let s := { s with respBodyFinished := false, respBodyStarted := false, respSendChunked := false,
                    respBodyScratchpad := -1 }
  let s := if btst s.respHtags h.transferEncoding then
             respUnset s h.transferEncoding (ofString "Transfer-Encoding") else s
  let s := if !preserveLength then
             let s := if btst s.respHtags h.contentLength then
                        respUnset s h.contentLength (ofString "Content-Length") else s
             { s with respDecodeChunked := false, gwDechunk := false }
           else s
  { s with writeQueue := s.writeQueue.reset }

/-- array_reset_data_strings() -/
def hreset (_ : HList) : HList := []

/-- http_response_reset() -/
def responseReset (h : HdrIds) (s : ReqSt) : ReqSt :=
  let s := { s with httpStatus := 0, handlerModule := false }
  let s := if s.physPathPtr then        -- if (r->physical.path.ptr)
             { s with physDocRoot := none, physBasedir := none, physPath := none, physRelPath := none,
                      physPathPtr := s.physPathPtr && !s.physPathBig, physPathBig := false }
           else s
  let s := { s with respHtags := [], respHeaderLen := 0, respHeaderRepeated := false,
                    respHeaders := hreset s.respHeaders }
  s.onLive (bodyClear h · false)

/-- plugins_call_handle_request_reset(): request_reset() itself does not touch r->plugin_ctx[];
    a slot is cleared only if its module registered a handle_request_reset hook that does so
    (`hooks`; which modules do is an obligation checked from the source, Extracted/ReqConst.lean) -/
def pluginsReset (hooks : List Nat) (s : ReqLive) : ReqLive :=
  { s with pluginCtx := s.pluginCtx.filter fun p => !hooks.contains p.1 }

def pctxGet (s : ReqLive) (i : Nat) : Option PCtx :=
  match s.pluginCtx.find? (·.1 = i) with
  | some e => some e.2
  | none => none

def pctxSet (s : ReqLive) (i : Nat) (c : PCtx) : ReqLive :=
  { s with pluginCtx := (i, c) :: s.pluginCtx.filter (·.1 ≠ i) }

/-- request_reset() -/
def requestReset (h : HdrIds) (e : SrvEnv) (s : ReqSt) : ReqSt :=
  let s := s.onLive (pluginsReset e.resetHooks)
  let s := responseReset h s
  { s with
    loopsPerRequest := 0, keepAlive := 0,
    x0 := 0, x1 := 0, x2 := 0,
    method := -1, version := -1,
    httpHost := none, reqbodyLength := 0, respBodyScratchpad := -1, rqstHtags := [],
    asyncCallback := false, errorHandlerSavedStatus := 0, h2ConnectExt := false,
    uriScheme := none,
    rqstHeaders := [], target := none, pathinfo := none,     -- (both branches of the size test)
    rqstHeaderLen := 0,
    env := hreset s.env,
    reqbodyQueue := s.reqbodyQueue.reset,
    conf := e.defaults }

/-- request_reset_ex() -/
def requestResetEx (s : ReqSt) : ReqSt :=
  { s with serverName := .authority, uriAuthority := none, uriPath := none, uriQuery := none,
           physPath := none, physPathPtr := s.physPathPtr && !s.physPathBig, physPathBig := false,
           physRelPath := none, targetOrig := none, target := none, pathinfo := none }

/-- request_release() followed by request_acquire() on the same connection -/
def requestRelease (h : HdrIds) (e : SrvEnv) (s : ReqSt) : ReqSt :=
  let s := { s with readQueue := s.readQueue.reset }
  let s := requestResetEx (requestReset h e s)
  { s with state := 0, dstOwn := true }              -- request_acquire(): request_set_con()

/-- h2_init_stream(): the (recycled) stream request inherits the configuration state of the
    connection request `h2r` -/
def h2InitStream (h2r : ReqSt) (swin : Nat) (s : ReqSt) : ReqSt :=
  { s with x1 := 65536 + (swin : Int) * 4294967296, x2 := 7 * 65536,
           version := 2,
           conValid := h2r.conValid, condCache := h2r.condCache,
           condMatch := h2r.condMatch.map (fun m => match m with | .null => .null | _ => .h2r),
           serverName := match h2r.serverName with
                         | .authority => .h2r 0
                         | .nameBuf => .h2r 1
                         | .conf => .h2r 2
                         | .h2r n => .h2r n,
           conf := h2r.conf }

end LtVerif.Req
