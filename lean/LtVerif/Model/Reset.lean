/-
  Model of the per-request state of lighttpd and of the functions that recycle it:
    request_st                          (request.h)         -> `ReqSt`
    request_init_data()                 (reqpool.c)         -> `ReqSt.init`
    http_response_body_clear()          (http-header-glue.c)-> `bodyClear`
    http_response_reset()               (http-header-glue.c)-> `responseReset`
    plugins_call_handle_request_reset() (plugin.c + the reset hooks of the modules,
                                         which clear their r->plugin_ctx slot)  -> `pluginsReset`
    request_reset(), request_reset_ex() (reqpool.c)         -> `requestReset`, `requestResetEx`
    request_release() / request_acquire()                   -> `requestRelease`
    h2_init_stream()                    (h2.c)              -> `h2InitStream`
    connection_reset()                  (connections.c)     -> `requestReset` on con->request
  and of the small setters the rest of the server uses to write response state
  (http_header_{request,response,env}_set/append/insert/unset, chunkqueue append).

  A `buffer` is `Option Bytes`: `none` is the unset state (used == 0), `some []` a blank string.
  The model is written field by field after the C ("as it is"): fields request_reset() leaves
  alone on purpose (uri.path / uri.query / uri.authority / target_orig kept for mod_status until
  request_reset_ex(); the condition cache, reset in response.c; tmp_sce; state) stay untouched.
-/
import LtVerif.Model.Basic
namespace LtVerif.Req
open LtVerif LtVerif.B

abbrev Buf := Option Bytes

def Buf.bytes (b : Buf) : Bytes := b.getD []
/-- buffer_is_blank(): unset or empty string -/
def Buf.blank (b : Buf) : Bool := b.bytes.isEmpty

/-- BUFFER_MAX_REUSE_SIZE (buffer.h) -/
def bufferMaxReuse : Nat := 4096

/-- one entry of r->cond_cache -/
structure CondEnt where
  result : Int := 0
  localResult : Int := 0
deriving Repr, DecidableEq

/-- chunkqueue: pending bytes and the two byte counters -/
structure Cq where
  data : Bytes := []
  bytesIn : Nat := 0
  bytesOut : Nat := 0
deriving Repr, DecidableEq

def Cq.append (q : Cq) (b : Bytes) : Cq :=
  { q with data := q.data ++ b, bytesIn := q.bytesIn + b.length }
/-- chunkqueue_reset() -/
def Cq.reset (_ : Cq) : Cq := {}

/-- the part of `request_config` the model looks at; `other` stands for all remaining
    members (0 = as in the defaults) -/
structure Conf where
  parseopts : Nat := 0
  maxRequestFieldSize : Nat := 8192
  streamRequestBody : Nat := 0
  maxKeepAliveRequests : Nat := 100
  rangeRequests : Bool := true
  docRoot : Bytes := []
  serverTag : Bytes := []
  extra : List (Bytes × Bytes) := []     -- response headers configured for the matching scope
  serverName : Option Bytes := none      -- server.name
  allowHttp11 : Bool := true             -- server.protocol-http11
  maxRequestSize : Nat := 0              -- server.max-request-size (kB; 0 = unlimited)
  other : Nat := 0
deriving Repr, DecidableEq

/-- which buffer r->server_name points to -/
inductive SrvName
  | authority      -- &r->uri.authority
  | nameBuf        -- &r->server_name_buf
  | conf           -- r->conf.server_name
  | h2r (n : Nat)  -- inherited pointer of the connection request (h2_init_stream)
deriving Repr, DecidableEq

/-- what a module keeps in its r->plugin_ctx slot (mod_setenv: the header list that matched) -/
abbrev PCtx := List (Bytes × Bytes)

/-- header id (enum http_header_e); 0 = HTTP_HEADER_OTHER -/
abbrev HId := Nat

/-- an array of data_string as used for request headers, response headers and env:
    (id, key, value) in insertion order -/
abbrev HList := List (HId × Bytes × Bytes)

/-- where r->cond_match[i] points -/
inductive CmRef
  | null            -- NULL (never matched)
  | own             -- r->cond_match_data + i
  | h2r             -- the connection request's data (copied by h2_init_stream)
deriving Repr, DecidableEq

/-- fields that request_reset() and request_reset_ex() both leave alone: the condition cache and
    its validity bits (reset in response.c / on accept), server_name_buf ("reset when used"),
    physical.doc_root / basedir (cleared only while physical.path is allocated; rewritten by
    http_response_prepare()), state (callers), the connection's read queue, the saved method of
    the error handler (valid only while error_handler_saved_status is set), and the allocation
    state of physical.path -/
structure ReqStale where
  conValid : Nat := 0                   -- r->conditional_is_valid
  condCache : List CondEnt := []
  serverNameBuf : Buf := none
  physDocRoot : Buf := none
  physBasedir : Buf := none
  state : Nat := 0                      -- CON_STATE_CONNECT
  readQueue : Cq := {}
  errorHandlerSavedMethod : Int := 0    -- (not valid unless errorHandlerSavedStatus is set)
  physPathPtr : Bool := false           -- r->physical.path.ptr != NULL
  physPathBig : Bool := false           -- r->physical.path.size > BUFFER_MAX_REUSE_SIZE
  x0 : Int := 0                         -- r->x viewed as x.h1: bytes_written_ckpt  (h2: state, id)
  x1 : Int := 0                         --                     bytes_read_ckpt     (h2: rwin, swin)
                                        -- zeroed by request_reset(), then set again by its h1 / h2 caller:
                                        -- accounting carried from request to request, not response state
  condMatch : List CmRef := []          -- r->cond_match[i]: regex captures of config conditions
  dstOwn : Bool := true                 -- r->dst_addr / dst_addr_buf point at the connection's (mod_extforward
                                        -- redirects them and must restore them in its reset hook)
deriving Repr, DecidableEq

/-- fields request_reset() keeps (for mod_status) until request_reset_ex() clears them -/
structure ReqKept where
  uriAuthority : Buf := none
  uriPath : Buf := none
  uriQuery : Buf := none
  targetOrig : Buf := none
  serverName : SrvName := .authority
  physPath : Buf := none
  physRelPath : Buf := none
deriving Repr, DecidableEq

/-- fields request_reset() restores to their initial value -/
structure ReqLive where
  httpStatus : Int := 0
  x2 : Int := 0                         -- r->x viewed as x.h1: te_chunked (h2: rwin_fudge, prio)
  method : Int := -1                    -- HTTP_METHOD_UNSET
  version : Int := -1                   -- HTTP_VERSION_UNSET
  handlerModule : Bool := false         -- r->handler_module != NULL
  pluginCtx : List (Nat × PCtx) := []   -- the non-NULL slots (i, r->plugin_ctx[i])
  conf : Conf := {}
  rqstHeaderLen : Nat := 0
  rqstHtags : List HId := []            -- set bits of r->rqst_htags, ascending
  rqstHeaders : HList := []
  uriScheme : Buf := none
  env : HList := []
  reqbodyLength : Int := 0
  respBodyScratchpad : Int := -1
  httpHost : Option Bytes := none       -- r->http_host (pointer into rqst_headers) or NULL
  target : Buf := none
  pathinfo : Buf := none
  respHeaderLen : Nat := 0
  respHtags : List HId := []
  respHeaders : HList := []
  respBodyFinished : Bool := false
  respBodyStarted : Bool := false
  respSendChunked : Bool := false
  respDecodeChunked : Bool := false
  respHeaderRepeated : Bool := false
  loopsPerRequest : Nat := 0
  keepAlive : Int := 0
  asyncCallback : Bool := false
  gwDechunk : Bool := false             -- r->gw_dechunk != NULL
  errorHandlerSavedStatus : Int := 0
  writeQueue : Cq := {}
  reqbodyQueue : Cq := {}
  h2ConnectExt : Bool := false
deriving Repr, DecidableEq

/-- the fields at least one of the two reset functions restores -/
structure ReqCore extends ReqLive, ReqKept
deriving Repr, DecidableEq

/-- request_st: all modelled fields, grouped by what the reset functions do with them.
    The type of a function says which group of fields it can look at or change: functions over
    `ReqLive` (resp. `ReqCore`) are applied to a request with `onLive` (resp. `onCore`). -/
structure ReqSt extends ReqCore, ReqStale
deriving Repr, DecidableEq

def ReqCore.onLive (s : ReqCore) (f : ReqLive → ReqLive) : ReqCore := { s with toReqLive := f s.toReqLive }
def ReqSt.onCore (s : ReqSt) (f : ReqCore → ReqCore) : ReqSt := { s with toReqCore := f s.toReqCore }
def ReqSt.onLive (s : ReqSt) (f : ReqLive → ReqLive) : ReqSt := s.onCore (·.onLive f)

/-- static facts of the server a request object is created for -/
structure SrvEnv where
  nPlugins : Nat := 2                   -- srv->plugins.used
  nContexts : Nat := 4                  -- srv->config_context->used
  nCaptures : Nat := 2                  -- srv->config_captures
  resetHooks : List Nat := [1, 2]       -- plugin ids whose handle_request_reset hook clears r->plugin_ctx[id]
  defaults : Conf := {}                 -- request_config_defaults
deriving Repr, DecidableEq

/-- request_init_data() on a zeroed object -/
def ReqSt.init (e : SrvEnv) : ReqSt :=
  { condCache := List.replicate e.nContexts {},
    condMatch := List.replicate e.nCaptures .null,
    conf := e.defaults }

/-! ### id sets (bit fields rqst_htags / resp_htags) -/

def bset (s : List HId) (i : HId) : List HId :=
  if s.contains i then s else
  let rec ins : List HId → List HId
    | [] => [i]
    | a :: rest => if i < a then i :: a :: rest else a :: ins rest
  ins s
def bclr (s : List HId) (i : HId) : List HId := s.filter (· ≠ i)
def btst (s : List HId) (i : HId) : Bool := s.contains i

/-! ### header arrays (array.c keyed by (id, key); keys compare case-insensitively) -/

def hfind (a : HList) (id : HId) (k : Bytes) : Option Bytes :=
  match a.find? (fun e => e.1 = id ∧ eqIcase e.2.1 k) with
  | some e => some e.2.2
  | none => none

/-- array_get_buf_ptr_ext() followed by a write of the value computed from the old one
    (`none` = the key was not present: a new element with an empty value is inserted first) -/
def hupdate (a : HList) (id : HId) (k : Bytes) (f : Bytes → Bytes) : HList :=
  if (a.any fun e => e.1 = id ∧ eqIcase e.2.1 k) then
    a.map fun e => if e.1 = id ∧ eqIcase e.2.1 k then (e.1, e.2.1, f e.2.2) else e
  else a ++ [(id, k, f [])]

/-- http_header_token_append() -/
def tokenAppend (old v : Bytes) : Bytes := if old.isEmpty then v else old ++ [44, sp] ++ v

/-- http_header_response_set() -/
def respSet (s : ReqLive) (id : HId) (k v : Bytes) : ReqLive :=
  { s with respHtags := if v.isEmpty then (if id > 0 then bclr s.respHtags id else s.respHtags)
                        else bset s.respHtags id,
           respHeaders := hupdate s.respHeaders id k (fun _ => v) }

/-- http_header_response_unset() -/
def respUnset (s : ReqLive) (id : HId) (k : Bytes) : ReqLive :=
  if btst s.respHtags id then
    { s with respHtags := if id > 0 then bclr s.respHtags id else s.respHtags,
             respHeaders := hupdate s.respHeaders id k (fun _ => []) }
  else s

/-- http_header_response_append() -/
def respAppend (s : ReqLive) (id : HId) (k v : Bytes) : ReqLive :=
  if v.isEmpty then s else
  { s with respHtags := bset s.respHtags id,
           respHeaders := hupdate s.respHeaders id k (fun old => tokenAppend old v) }

/-- http_header_response_insert(): a repeated field goes on a new line inside the value -/
def respInsert (s : ReqLive) (id : HId) (k v : Bytes) : ReqLive :=
  if v.isEmpty then s else
  let h2 := s.version ≥ 2
  let rep := (hfind s.respHeaders id k).any (fun old => !old.isEmpty)
  { s with respHtags := bset s.respHtags id,
           respHeaderRepeated := s.respHeaderRepeated || (rep && h2),
           respHeaders := hupdate s.respHeaders id k (fun old =>
             if old.isEmpty then v
             else old ++ [cr, lf] ++ (if h2 then k.map toLower else k) ++ [colon, sp] ++ v) }

/-- http_header_response_get() -/
def respGet (s : ReqLive) (id : HId) (k : Bytes) : Option Bytes :=
  if btst s.respHtags id then
    match hfind s.respHeaders id k with
    | some v => if v.isEmpty then none else some v
    | none => none
  else none

/-- http_header_request_set() -/
def rqstSet (s : ReqLive) (id : HId) (k v : Bytes) : ReqLive :=
  { s with rqstHtags := if v.isEmpty then (if id > 0 then bclr s.rqstHtags id else s.rqstHtags)
                        else bset s.rqstHtags id,
           rqstHeaders := hupdate s.rqstHeaders id k (fun _ => v) }

/-- http_header_request_unset() -/
def rqstUnset (s : ReqLive) (id : HId) (k : Bytes) : ReqLive :=
  if btst s.rqstHtags id then
    { s with rqstHtags := if id > 0 then bclr s.rqstHtags id else s.rqstHtags,
             rqstHeaders := hupdate s.rqstHeaders id k (fun _ => []) }
  else s

/-- http_header_request_get() -/
def rqstGet (s : ReqLive) (id : HId) (k : Bytes) : Option Bytes :=
  if btst s.rqstHtags id then
    match hfind s.rqstHeaders id k with
    | some v => if v.isEmpty then none else some v
    | none => none
  else none

/-- http_header_env_set() (env entries carry no id) -/
def envSet (s : ReqLive) (k v : Bytes) : ReqLive :=
  { s with env := hupdate s.env 0 k (fun _ => v) }

/-! ### the recycling functions -/

/-- id of Transfer-Encoding / Content-Length in enum http_header_e -/
structure HdrIds where
  transferEncoding : HId
  contentLength : HId
deriving Repr, DecidableEq

/-- http_response_body_clear() -/
def bodyClear (h : HdrIds) (s : ReqLive) (preserveLength : Bool) : ReqLive :=
  let s := { s with respBodyFinished := false, respBodyStarted := false, respSendChunked := false,
                    respBodyScratchpad := -1 }
  let s := if btst s.respHtags h.transferEncoding then
             respUnset s h.transferEncoding (ofString "Transfer-Encoding") else s
  let s := if !preserveLength then
             let s := if btst s.respHtags h.contentLength then
                        respUnset s h.contentLength (ofString "Content-Length") else s
             { s with respDecodeChunked := false, gwDechunk := false }
           else s
  { s with writeQueue := s.writeQueue.reset }

/-- array_reset_data_strings() -/
def hreset (_ : HList) : HList := []

/-- http_response_reset() -/
def responseReset (h : HdrIds) (s : ReqSt) : ReqSt :=
  let s := { s with httpStatus := 0, handlerModule := false }
  let s := if s.physPathPtr then        -- if (r->physical.path.ptr)
             { s with physDocRoot := none, physBasedir := none, physPath := none, physRelPath := none,
                      physPathPtr := s.physPathPtr && !s.physPathBig, physPathBig := false }
           else s
  let s := { s with respHtags := [], respHeaderLen := 0, respHeaderRepeated := false,
                    respHeaders := hreset s.respHeaders }
  s.onLive (bodyClear h · false)

/-- plugins_call_handle_request_reset(): request_reset() itself does not touch r->plugin_ctx[];
    a slot is cleared only if its module registered a handle_request_reset hook that does so
    (`hooks`; which modules do is an obligation checked from the source, Extracted/ReqConst.lean) -/
def pluginsReset (hooks : List Nat) (s : ReqLive) : ReqLive :=
  { s with pluginCtx := s.pluginCtx.filter fun p => !hooks.contains p.1 }

def pctxGet (s : ReqLive) (i : Nat) : Option PCtx :=
  match s.pluginCtx.find? (·.1 = i) with
  | some e => some e.2
  | none => none

def pctxSet (s : ReqLive) (i : Nat) (c : PCtx) : ReqLive :=
  { s with pluginCtx := (i, c) :: s.pluginCtx.filter (·.1 ≠ i) }

/-- request_reset() -/
def requestReset (h : HdrIds) (e : SrvEnv) (s : ReqSt) : ReqSt :=
  let s := s.onLive (pluginsReset e.resetHooks)
  let s := responseReset h s
  { s with
    loopsPerRequest := 0, keepAlive := 0,
    x0 := 0, x1 := 0, x2 := 0,
    method := -1, version := -1,
    httpHost := none, reqbodyLength := 0, respBodyScratchpad := -1, rqstHtags := [],
    asyncCallback := false, errorHandlerSavedStatus := 0, h2ConnectExt := false,
    uriScheme := none,
    rqstHeaders := [], target := none, pathinfo := none,     -- (both branches of the size test)
    rqstHeaderLen := 0,
    env := hreset s.env,
    reqbodyQueue := s.reqbodyQueue.reset,
    conf := e.defaults }

/-- request_reset_ex() -/
def requestResetEx (s : ReqSt) : ReqSt :=
  { s with serverName := .authority, uriAuthority := none, uriPath := none, uriQuery := none,
           physPath := none, physPathPtr := s.physPathPtr && !s.physPathBig, physPathBig := false,
           physRelPath := none, targetOrig := none, target := none, pathinfo := none }

/-- request_release() followed by request_acquire() on the same connection -/
def requestRelease (h : HdrIds) (e : SrvEnv) (s : ReqSt) : ReqSt :=
  let s := { s with readQueue := s.readQueue.reset }
  let s := requestResetEx (requestReset h e s)
  { s with state := 0, dstOwn := true }              -- request_acquire(): request_set_con()

/-- h2_init_stream(): the (recycled) stream request inherits the configuration state of the
    connection request `h2r` -/
def h2InitStream (h2r : ReqSt) (swin : Nat) (s : ReqSt) : ReqSt :=
  { s with x1 := 65536 + (swin : Int) * 4294967296, x2 := 7 * 65536,
           version := 2,
           conValid := h2r.conValid, condCache := h2r.condCache,
           condMatch := h2r.condMatch.map (fun m => match m with | .null => .null | _ => .h2r),
           serverName := match h2r.serverName with
                         | .authority => .h2r 0
                         | .nameBuf => .h2r 1
                         | .conf => .h2r 2
                         | .h2r n => .h2r n,
           conf := h2r.conf }

/-! ### every member of `struct request_st` and `struct connection`, classified

The member lists come from the C declarations (clang AST, Extracted/ReqConst.lean); Props/C08.lean
proves that the tables below cover them exactly, so a member added to or removed from either
struct fails the build until it has been classified here. -/

inductive FieldClass
  | live        -- restored by request_reset()                                   (field of `ReqLive`)
  | kept        -- kept by request_reset(), restored by request_reset_ex()       (field of `ReqKept`)
  | carried     -- restored by neither; modelled, typed out of the response path (field of `ReqStale`)
  | const       -- written by request_init_data() / connection_init() only
  | scratch     -- no model field: written before it is read on every path that reads it (argument in the note)
  | conn        -- connection member the model has (`Conn`)
  | connOutside -- connection member the model does not have: socket, timers, I/O plumbing, list links,
                -- module state per connection; may legitimately persist for the life of the connection
deriving Repr, DecidableEq

/-- (C member, class, model field(s) or note) -/
def requestStClass : List (String × FieldClass × String) := [
  ("state", .carried, "state"),
  ("http_status", .live, "httpStatus"),
  ("x.h2.state", .carried, "x0"),
  ("x.h2.id", .carried, "x0"),
  ("x.h2.rwin", .carried, "x1"),
  ("x.h2.swin", .carried, "x1"),
  ("x.h2.rwin_fudge", .live, "x2"),
  ("x.h2.prio", .live, "x2"),
  ("x.h1.bytes_written_ckpt", .carried, "x0"),
  ("x.h1.bytes_read_ckpt", .carried, "x1"),
  ("x.h1.te_chunked", .live, "x2"),
  ("http_method", .live, "method"),
  ("http_version", .live, "version"),
  ("handler_module", .live, "handlerModule"),
  ("plugin_ctx", .live, "pluginCtx"),
  ("con", .const, "back pointer"),
  ("conditional_is_valid", .carried, "conValid"),
  ("cond_cache", .carried, "condCache"),
  ("cond_match", .carried, "condMatch"),
  ("cond_match_data", .scratch, "capture storage; reachable only through cond_match[i], which is set by the match that fills it"),
  ("conf", .live, "conf"),
  ("rqst_header_len", .live, "rqstHeaderLen"),
  ("rqst_htags", .live, "rqstHtags"),
  ("rqst_headers", .live, "rqstHeaders"),
  ("uri", .kept, "uriAuthority uriPath uriQuery; live: uriScheme"),
  ("physical", .kept, "physPath physRelPath; carried: physDocRoot physBasedir physPathPtr physPathBig"),
  ("env", .live, "env"),
  ("reqbody_length", .live, "reqbodyLength"),
  ("resp_body_scratchpad", .live, "respBodyScratchpad"),
  ("http_host", .live, "httpHost"),
  ("server_name", .kept, "serverName"),
  ("target", .live, "target"),
  ("target_orig", .kept, "targetOrig"),
  ("pathinfo", .live, "pathinfo"),
  ("server_name_buf", .carried, "serverNameBuf"),
  ("dst_addr", .carried, "dstOwn"),
  ("dst_addr_buf", .carried, "dstOwn"),
  ("resp_header_len", .live, "respHeaderLen"),
  ("resp_htags", .live, "respHtags"),
  ("resp_headers", .live, "respHeaders"),
  ("resp_body_finished", .live, "respBodyFinished"),
  ("resp_body_started", .live, "respBodyStarted"),
  ("resp_send_chunked", .live, "respSendChunked"),
  ("resp_decode_chunked", .live, "respDecodeChunked"),
  ("resp_header_repeated", .live, "respHeaderRepeated"),
  ("loops_per_request", .live, "loopsPerRequest"),
  ("keep_alive", .live, "keepAlive"),
  ("async_callback", .live, "asyncCallback"),
  ("tmp_buf", .const, "pointer to the server-wide scratch buffer; its contents are scratch (users clear before use)"),
  ("gw_dechunk", .live, "gwDechunk"),
  ("start_hp", .scratch, "timestamp written when the first byte of a request arrives (connections.c, h1.c, h2.c) before any read; feeds logs / timeouts, not the response"),
  ("error_handler_saved_status", .live, "errorHandlerSavedStatus"),
  ("error_handler_saved_method", .carried, "errorHandlerSavedMethod"),
  ("write_queue", .live, "writeQueue"),
  ("read_queue", .carried, "readQueue"),
  ("reqbody_queue", .live, "reqbodyQueue"),
  ("tmp_sce", .scratch, "written by http_response_physical_path_check() (response.c) before its only readers, the handle_subrequest_start hooks of mod_staticfile / mod_cgi, which also compare its name with physical.path"),
  ("cond_captures", .const, "SrvEnv.nCaptures"),
  ("h2_connect_ext", .live, "h2ConnectExt")]

def connectionClass : List (String × FieldClass × String) := [
  ("request", .conn, "Conn.r"),
  ("request_count", .conn, "Conn.requestCount"),
  ("fd", .conn, "Conn.isOpen (fd != -1)"),
  ("hx", .connOutside, "HTTP/2 connection state (HPACK tables, windows, GOAWAY): properties C05 / C06 / C07"),
  ("fdn", .connOutside, "event registration"),
  ("jqnext", .connOutside, "job queue link"),
  ("is_readable", .connOutside, "socket readiness"),
  ("is_writable", .connOutside, "socket readiness"),
  ("is_ssl_sock", .connOutside, "set on accept from the listening socket"),
  ("traffic_limit_reached", .connOutside, "throttling"),
  ("revents_err", .connOutside, "socket error events"),
  ("proto_default_port", .connOutside, "set on accept; mod_extforward overwrites it from X-Forwarded-Proto and nothing restores it: known finding KF1, seen by the end-to-end history stream only"),
  ("write_queue", .connOutside, "pointer to request.write_queue"),
  ("read_queue", .connOutside, "pointer to request.read_queue"),
  ("bytes_written_cur_second", .connOutside, "throttling"),
  ("network_write", .connOutside, "I/O function"),
  ("network_read", .connOutside, "I/O function"),
  ("reqbody_read", .connOutside, "I/O function"),
  ("fn", .connOutside, "protocol dispatch table"),
  ("srv", .connOutside, "back pointer"),
  ("plugin_slots", .connOutside, "back pointer"),
  ("plugin_ctx", .connOutside, "module state per connection (TLS, mod_extforward): end-to-end streams only"),
  ("config_data_base", .connOutside, "back pointer"),
  ("dst_addr", .connOutside, "peer address, set on accept (mod_extforward swaps r->dst_addr, not this)"),
  ("dst_addr_buf", .connOutside, "peer address text, set on accept"),
  ("srv_socket", .connOutside, "listening socket"),
  ("read_idle_ts", .connOutside, "timer"),
  ("close_timeout_ts", .connOutside, "timer"),
  ("write_request_ts", .connOutside, "timer"),
  ("connection_start", .connOutside, "timer"),
  ("keep_alive_idle", .connOutside, "timer setting, copied from the configuration at the end of each request"),
  ("next", .connOutside, "list link"),
  ("prev", .connOutside, "list link")]

/-- the two lists name the same things (each exactly once on the left) -/
def sameNames (members : List String) (table : List (String × FieldClass × String)) : Bool :=
  members.all (fun m => (table.filter (·.1 = m)).length = 1) && table.all (fun t => members.contains t.1)

end LtVerif.Req
