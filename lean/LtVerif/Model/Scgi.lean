/-
  Model of src/mod_scgi.c:
    scgi_env_add_scgi()   -> `Scgi.pair`        ("name" NUL "value" NUL)
    scgi_env_add_uwsgi()  -> `Uwsgi.pair`       (16-bit little-endian sizes)
    scgi_create_env()     -> `Scgi.createEnv`, `Uwsgi.createEnv`
  plus the non-stdin_append branch of gw_write_refill_wb() (body bytes are passed on
  unframed) and the receiving side as the SCGI specification / the uwsgi protocol
  description define it (`Scgi.decode`, `Uwsgi.decode`).  Core Lean only.
-/
import LtVerif.Model.Fcgi
namespace LtVerif
open B

/-- request stream of a backend whose body is sent unframed after the header block
    (SCGI, uwsgi, proxy with Content-Length) -/
structure RawSt where
  out : Bytes := []        -- every byte appended to hctx->wb (wb.bytes_in = out.length)
  reqlen : Int := 0        -- hctx->wb_reqlen
  pending : Bytes := []    -- r->reqbody_queue
deriving Repr, DecidableEq

namespace RawSt
/-- chunkqueue_append_chunkqueue(&hctx->wb, &r->reqbody_queue) (or the tempfile variant):
    all queued body bytes move to the write queue, unchanged -/
def moveAll (st : RawSt) : RawSt := { st with out := st.out ++ st.pending, pending := [] }

/-- after the header block: body hand-over and wb_reqlen bookkeeping shared by
    scgi_create_env() and proxy_create_env() (Content-Length case) -/
def startBody (hdr : Bytes) (bodyLen : Int) (pending : Bytes) : RawSt :=
  if bodyLen ≠ 0 then
    { out := hdr ++ pending, pending := [],
      reqlen := if bodyLen > 0 then (hdr.length : Int) + bodyLen else -(hdr.length : Int) }
  else { out := hdr, reqlen := hdr.length, pending := pending }

/-- more body bytes arrive and gw_write_refill_wb() (repeated on write progress) passes them on -/
def arrive (st : RawSt) (seg : Bytes) : RawSt := moveAll { st with pending := st.pending ++ seg }

/-- gw_handle_subrequest(): chunked body just completed -/
def complete (st : RawSt) : RawSt :=
  if st.reqlen < -1 then moveAll { st with reqlen := -st.reqlen } else st

/-- whole request: header block, first body segment present at create_env, the others arriving
    later, everything flushed -/
def run (hdr : Bytes) (bodyLen : Int) (seg0 : Bytes) (segs : List Bytes) : RawSt :=
  (segs.foldl arrive (startBody hdr bodyLen seg0)).moveAll
end RawSt

namespace Scgi

def pair (k v : Bytes) : Bytes := k ++ 0 :: v ++ [0]

def pairs (env : List (Bytes × Bytes)) : Bytes := env.flatMap fun (k, v) => pair k v

/-- the netstring: decimal length, ':', the pairs (CONTENT_LENGTH first, "SCGI" "1" last), ',' -/
def encodeHeader (env : List (Bytes × Bytes)) : Bytes :=
  let body := pairs (env ++ [(ofString "SCGI", ofString "1")])
  natDec body.length ++ colon :: body ++ [44]

/-- scgi_create_env(), LI_PROTOCOL_SCGI -/
def createEnv (env : List (Bytes × Bytes)) (bodyLen : Int) (pending : Bytes) : RawSt :=
  RawSt.startBody (encodeHeader env) bodyLen pending

/-! receiving side -/

def parseDec : Bytes → Nat → Option (Nat × Bytes)
  | [], _ => none
  | b :: rest, acc =>
    if isDigit b then parseDec rest (acc * 10 + (b.toNat - 48))
    else if b = colon then some (acc, rest) else none

/-- split "a NUL b NUL c NUL ..." into NUL-terminated strings -/
def splitNul : Nat → Bytes → Option (List Bytes)
  | 0, s => if s.isEmpty then some [] else none
  | fuel + 1, s =>
    if s.isEmpty then some [] else
    match splitAtByte 0 s with
    | (_, none) => none
    | (x, some rest) =>
      match splitNul fuel rest with
      | some l => some (x :: l)
      | none => none

def pairUp : List Bytes → Option (List (Bytes × Bytes))
  | [] => some []
  | [_] => none
  | k :: v :: rest =>
    match pairUp rest with
    | some l => some ((k, v) :: l)
    | none => none

/-- SCGI request as the application reads it: (headers, body); the first header must be a
    digit string (the specification requires CONTENT_LENGTH first) -/
def decode (s : Bytes) : Option (List (Bytes × Bytes) × Bytes) :=
  if !(s.head?.map isDigit).getD false then none else
  match parseDec s 0 with
  | none => none
  | some (n, rest) =>
    if rest.length < n + 1 ∨ rest.getD n 0 ≠ 44 then none else
    match splitNul (n + 1) (rest.take n) with
    | none => none
    | some strs =>
      match pairUp strs with
      | none => none
      | some env => some (env, rest.drop (n + 1))

end Scgi

namespace Uwsgi

def le16 (n : Nat) : Bytes := [(n % 256).toUInt8, (n / 256 % 256).toUInt8]

def pair (k v : Bytes) : Bytes := le16 k.length ++ k ++ le16 v.length ++ v

/-- scgi_env_add_uwsgi(): -1 when a name or value does not fit 16 bits -/
def addAll : Bytes → List (Bytes × Bytes) → Option Bytes
  | acc, [] => some acc
  | acc, (k, v) :: rest =>
    if k.length > Extracted.C09.ushrtMax ∨ v.length > Extracted.C09.ushrtMax then none
    else addAll (acc ++ pair k v) rest

inductive Res
  | ok (st : RawSt)
  | status (code : Nat)      -- 400: callback failed; 431: block larger than 65535
deriving Repr

/-- uwsgi packet header: modifier1 = 0, datasize (LE16), modifier2 = 0 -/
def encodeHeader (vars : Bytes) : Bytes := 0 :: le16 vars.length ++ 0 :: vars

/-- scgi_create_env(), LI_PROTOCOL_UWSGI -/
def createEnv (env : List (Bytes × Bytes)) (bodyLen : Int) (pending : Bytes) : Res :=
  match addAll [] env with
  | none => .status 400
  | some vars =>
    if vars.length > Extracted.C09.ushrtMax then .status 431
    else .ok (RawSt.startBody (encodeHeader vars) bodyLen pending)

/-! receiving side -/

def decodeVars : Nat → Bytes → Option (List (Bytes × Bytes))
  | 0, s => if s.isEmpty then some [] else none
  | fuel + 1, s =>
    match s with
    | [] => some []
    | k0 :: k1 :: r1 =>
      let kl := k0.toNat + 256 * k1.toNat
      if r1.length < kl then none else
      match r1.drop kl with
      | v0 :: v1 :: r2 =>
        let vl := v0.toNat + 256 * v1.toNat
        if r2.length < vl then none else
        match decodeVars fuel (r2.drop vl) with
        | some l => some ((r1.take kl, r2.take vl) :: l)
        | none => none
      | _ => none
    | _ => none

/-- uwsgi request as the application reads it: (vars, body) -/
def decode (s : Bytes) : Option (List (Bytes × Bytes) × Bytes) :=
  match s with
  | m1 :: l0 :: l1 :: _m2 :: rest =>
    let n := l0.toNat + 256 * l1.toNat
    if m1 ≠ 0 ∨ rest.length < n then none else
    match decodeVars (n + 1) (rest.take n) with
    | some env => some (env, rest.drop n)
    | none => none
  | _ => none

end Uwsgi

/-! ### scgi_create_env() at buffer level

  The C function does not build "length ':' variables ','" front to back: it writes 10 blanks, lets
  http_cgi_headers() append the variables behind them, renders the length afterwards, copies it
  right-aligned INTO the blanks (SCGI) or pokes the 4-byte packet header into b[6..9] (uwsgi), and
  hides the unused blanks by advancing the chunk offset (chunkqueue_mark_written) and taking
  `offset` off wb.bytes_in / wb.bytes_out again.  `ScgiBuf` models exactly these steps;
  `c09_scgi_buffer` / `c09_uwsgi_buffer` prove that the visible result is `Scgi.createEnv` /
  `Uwsgi.createEnv`. -/
namespace ScgiBuf

/-- buffer_copy_string_len(b, CONST_STR_LEN("          ")) -/
def placeholder : Bytes := List.replicate 10 32

/-- memcpy(b->ptr + off, src, |src|) (inside the used part of b) -/
def poke (b : Bytes) (off : Nat) (src : Bytes) : Bytes :=
  b.take off ++ src ++ b.drop (off + src.length)

structure St where
  hidden : Bytes     -- b->ptr[0 .. offset): in the chunk's buffer but in front of its read offset
  offset : Nat       -- offset of the first chunk of hctx->wb after chunkqueue_mark_written()
  bytesIn : Int      -- hctx->wb.bytes_in  (commit: += clen; then -= offset; body: += moved)
  bytesOut : Int     -- hctx->wb.bytes_out (mark_written: += offset; then -= offset)
  st : RawSt         -- what a reader of hctx->wb sees, wb_reqlen, what is left in reqbody_queue
deriving Repr, DecidableEq

/-- scgi_create_env() from "hctx->wb_reqlen = buffer_clen(b) - offset" to the end -/
def commit (b : Bytes) (offset : Nat) (bodyLen : Int) (pending : Bytes) : St :=
  let reqlen0 : Int := (b.length : Int) - (offset : Int)
  let in0 : Int := (0 : Int) + (b.length : Int) - (offset : Int)
  let out0 : Int := (0 : Int) + (offset : Int) - (offset : Int)
  let vis := b.drop offset
  if bodyLen ≠ 0 then
    { hidden := b.take offset, offset := offset, bytesIn := in0 + (pending.length : Int), bytesOut := out0,
      st := { out := vis ++ pending, pending := [],
              reqlen := if bodyLen > 0 then reqlen0 + bodyLen else -reqlen0 } }
  else
    { hidden := b.take offset, offset := offset, bytesIn := in0, bytesOut := out0,
      st := { out := vis, reqlen := reqlen0, pending := pending } }

/-- LI_PROTOCOL_SCGI.  `none`: the rendered "<len>:" is longer than the 10 reserved bytes, the
    size_t `offset = 10 - len` wraps and memcpy() writes outside the buffer (undefined; needs a
    variable block of 10^9 bytes or more - the request header limit keeps it below 2^17) -/
def scgi (env : List (Bytes × Bytes)) (bodyLen : Int) (pending : Bytes) : Option St :=
  let b := placeholder ++ Scgi.pairs (env ++ [(ofString "SCGI", ofString "1")])
  let tb := natDec (b.length - 10) ++ [colon]
  if tb.length > 10 then none
  else
    let offset := 10 - tb.length
    some (commit (poke b offset tb ++ [44]) offset bodyLen pending)

inductive Res
  | ok (s : St)
  | status (code : Nat)
deriving Repr, DecidableEq

/-- LI_PROTOCOL_UWSGI -/
def uwsgi (env : List (Bytes × Bytes)) (bodyLen : Int) (pending : Bytes) : Res :=
  match Uwsgi.addAll placeholder env with
  | none => .status 400
  | some b =>
    let len := b.length - 10
    if len > Extracted.C09.ushrtMax then .status 431
    else .ok (commit (poke b 6 [0, (len % 256).toUInt8, (len / 256 % 256).toUInt8, 0]) 6 bodyLen pending)

end ScgiBuf
end LtVerif
