/-
  Model of how one request is turned into one response on a (recycled) request object, and of
  the connection automata built from it:

    http_request_headers_process()      (request.c)   -> `parseIntoH1`  (via Model/H1Parse.lean)
    http_request_parse_header(), http_request_validate_pseudohdrs(),
    http_request_headers_process_h2()   (request.c)   -> `h2Fields`, `validatePseudo`, `parseIntoH2`
    http_response_handler(): http_response_prepare(), http_response_config(),
      the uri_clean / docroot / subrequest_start hooks of mod_access, mod_setenv, mod_indexfile,
      mod_staticfile (+ http_response_send_file(), http_response_handle_cachable()),
      http_response_has_error_handler() (no error handler configured),
      http_response_write_prepare(), http_response_static_errdoc()   (response.c) -> `respond`
    h1_send_headers() / h2_send_headers()                             -> `h1Output`, `h2Output`
    h1_recv_headers() + connection_handle_response_end_state() +
      connection_reset()/connection_close()   (h1.c, connections.c)   -> `h1Msg`, `h1Run`
    h2_recv_headers() + h2_init_stream() + h2_retire_stream()         -> `h2Stream`, `h2Run`

  The functions read and write the request state field by field the way the C does (response
  headers and body are appended to what is already there, "set unless already set" tests look at
  the existing bits, ...), so that a field that is not reset between requests shows up as a
  different response.  The type of a function tells which group of request_st fields it touches:
  `ReqLive` (restored by request_reset()), `ReqCore` (+ the fields kept until
  request_reset_ex()), `ReqSt` (+ the fields no reset function restores).  Of the latter the
  response path only maintains the allocation state of physical.path (which
  http_response_reset() looks at) and conditional_is_valid; the condition cache is C14's model.
-/
import LtVerif.Model.Reset
import LtVerif.Model.H1Parse
import LtVerif.Extracted.ReqConst
namespace LtVerif.Req
open LtVerif LtVerif.B

/-! ### header ids -/

def hid (lcName : Bytes) : HId :=
  match Extracted.headerIds.find? (fun p => ofString p.1 = lcName) with
  | some p => p.2
  | none => 0

def idHost : HId := hid (ofString "host")
def idContentLength : HId := hid (ofString "content-length")
def idTransferEncoding : HId := hid (ofString "transfer-encoding")
def idContentType : HId := hid (ofString "content-type")
def idETag : HId := hid (ofString "etag")
def idLocation : HId := hid (ofString "location")
def idAllow : HId := hid (ofString "allow")
def idConnection : HId := hid (ofString "connection")
def idIfNoneMatch : HId := hid (ofString "if-none-match")
def idWwwAuthenticate : HId := hid (ofString "www-authenticate")
def idUpgrade : HId := hid (ofString "upgrade")

def hdrIds : HdrIds := { transferEncoding := idTransferEncoding, contentLength := idContentLength }

def methodId (m : Bytes) : Int :=
  match methodTable.findIdx? (· = m) with
  | some i => (i : Int)
  | none => -1
def methodName (i : Int) : Bytes := if i < 0 then [] else methodTable.getD i.toNat []

def mGET : Int := methodId (ofString "GET")
def mHEAD : Int := methodId (ofString "HEAD")
def mQUERY : Int := methodId (ofString "QUERY")
def mPOST : Int := methodId (ofString "POST")
def mCONNECT : Int := methodId (ofString "CONNECT")
def mOPTIONS : Int := methodId (ofString "OPTIONS")

/-! ### request head -> request state -/

/-- the parser's working record as the C finds it in the request object -/
def toPReq (s : ReqLive) : PReq :=
  { version := if s.version ≤ 0 then 0 else s.version.toNat,
    keepAlive := s.keepAlive ≠ 0,
    method := methodName s.method,
    target := s.target.bytes,
    host := s.httpHost,
    bodyLen := s.reqbodyLength,
    headers := s.rqstHeaders.map fun e => (e.2.1.map toLower, e.2.2),
    clSeen := btst s.rqstHtags idContentLength }

/-- result of the request line applied to the state the parser starts from
    (http_request_parse_reqline() writes version, keep-alive, method, target and possibly Host) -/
def mergeReqline (pre r1 : PReq) : PReq :=
  let s1 := { pre with version := r1.version, keepAlive := r1.keepAlive, method := r1.method,
                       target := r1.target }
  match r1.host with
  | some h => setHost s1 h
  | none => s1

/-- version / method that http_request_parse_reqline() has already stored when it fails later -/
def reqlinePrefix (o : Opts) (line : Bytes) : Int × Int :=
  if line.length < 13 then (-1, -1) else
  let body? : Option Bytes :=
    if line.getD (line.length - 2) 0 = cr then some (line.take (line.length - 2))
    else if !o.headerStrict then some (line.take (line.length - 1))
    else none
  match body? with
  | none => (-1, -1)
  | some l =>
    let n := l.length
    let proto := l.drop (n - 8)
    let ver : Int :=
      if l.getD (n - 9) 0 = sp && proto = ofString "HTTP/1.1" then 1
      else if l.getD (n - 9) 0 = sp && proto = ofString "HTTP/1.0" then 0
      else -1
    if ver = -1 then (-1, -1)
    else if l.getD (n - 10) 0 = sp then (ver, -1)
    else (ver, methodId (l.takeWhile (· ≠ sp)))

/-- host part of http_request_parse(): http_request_host_policy() on r->http_host, Host required
    from HTTP/1.1 on.  `none` = IPv6 literal (not modelled), `some none` = rejected (400) -/
def hostPolicy (o : Opts) (schemePort : Nat) (r : PReq) : Option (Option PReq) :=
  match r.host with
  | none => if r.version ≥ 1 then some none else some (some r)
  | some h =>
    if h.head? = some 91 && (o.hostStrict || o.hostNormalize) then none else
    let h1? : Option Bytes :=
      if o.hostStrict then checkHostnameV4 h
      else if h.any (fun b => b = 0 || b = cr || b = lf) then none else some h
    match h1? with
    | none => some none
    | some h1 =>
      let h2? := if o.hostNormalize then hostNormalizeV4 schemePort h1 else some h1
      match h2? with
      | none => some none
      | some h2 =>
        some (some { r with host := some h2,
                            headers := r.headers.map fun (k, v) =>
                              if k = ofString "host" then (k, h2) else (k, v) })

/-- the cross-field rules at the end of http_request_parse() -/
def postChecks (o : Opts) (r : PReq) (t : Target) : HeadRes :=
  if r.version ≠ 1 && (hasTag r (ofString "upgrade") || hasTag r (ofString "http2-settings")) then .err 400
  else if r.bodyLen = 0 then
    if r.method = ofString "POST" && r.version ≤ 1 && !r.clSeen then .err 411 else .ok r t
  else
    let tecl := r.bodyLen = -1 && r.clSeen
    if tecl && o.headerStrict then .err 400 else
    let r := if tecl then { unsetHeader r (ofString "content-length") with keepAlive := false, clSeen := false } else r
    if (r.method = ofString "GET" || r.method = ofString "HEAD") && !o.methodGetBody then .err 400
    else .ok r t

/-- http_request_parse() for every protocol version: `parsePost` of Model/H1Parse.lean with the
    version condition of the 411 rule (HTTP/1.x only) and the RFC 8441 CONNECT flag added -/
def parsePostV (o : Opts) (schemePort : Nat) (ext : Bool) (r : PReq) : HeadRes :=
  let special := (r.method = ofString "CONNECT" && !ext) || (r.method = ofString "OPTIONS" && r.target = [42])
  match parseTarget o special r.target with
  | .error e => .err e
  | .ok t =>
    match hostPolicy o schemePort r with
    | none => .skipV6
    | some none => .err 400
    | some (some r) => postChecks o r t

/-- write an accepted request into the request object (the fields http_request_parse_hoff() /
    http_request_parse() set on success) -/
def storeParsed (s : ReqCore) (ver : Int) (r : PReq) (t : Target) (raw : Bytes) (special : Bool)
    (schemePort : Nat) (hlen : Nat) : ReqCore :=
  let hs : HList := r.headers.map fun (k, v) => (hid k, k, v)
  let tags := (hs.filter fun e => !e.2.2.isEmpty).foldl (fun acc e => bset acc e.1) []
  { s with
    httpStatus := 0,
    version := ver,
    keepAlive := if r.keepAlive then 1 else 0,
    method := methodId r.method,
    target := some t.target,
    targetOrig := some raw,
    httpHost := r.host,
    rqstHeaders := hs,
    rqstHtags := tags,
    reqbodyLength := r.bodyLen,
    uriScheme := some (ofString (if schemePort = 443 then "https" else "http")),
    uriAuthority := some (r.host.getD []),
    uriPath := some t.path,
    uriQuery := if !special && t.target.contains qmark then some t.query else none,
    rqstHeaderLen := hlen }

/-- http_request_headers_fin() after a parse error -/
def storeError (s : ReqLive) (status : Nat) (ver meth : Int) : ReqLive :=
  { s with httpStatus := status, keepAlive := 0, reqbodyLength := 0,
           version := if ver = -1 then s.version else ver,
           method := if meth = -1 then s.method else meth }

inductive IntoRes (σ : Type)
  | incomplete
  | blank
  | skipV6
  | done (s : σ)             -- request head consumed; s.httpStatus ≠ 0 = rejected
deriving Repr

/-- h1_recv_headers() limit checks + http_request_headers_process() -/
def parseIntoH1C (s : ReqCore) (block : Bytes) : IntoRes ReqCore :=
  let o : Opts := ⟨s.conf.parseopts⟩
  match recvHead s.conf.maxRequestFieldSize block with
  | .incomplete => .incomplete
  | .tooLarge => .done (s.onLive fun l => { l with httpStatus := 431, keepAlive := 0 })
  | .blank _ => .blank
  | .head lines len =>
    match lines with
    | [] => .blank
    | rl :: fields =>
      let (pv, pm) := reqlinePrefix o rl
      match parseReqline o rl (block.take len) with
      | .error e => .done (s.onLive (storeError · e pv pm))
      | .ok r1 =>
        -- http_request_parse_headers(): in strict mode the blank line that ends the head must be CRLF too
        if o.headerStrict && block.getD (len - 2) 0 != cr then .done (s.onLive (storeError · 400 pv pm)) else
        match parseHeaders o (mergeReqline (toPReq s.toReqLive) r1) fields with
        | .error e => .done (s.onLive (storeError · e pv pm))
        | .ok r2 =>
          let special := (r2.method = ofString "CONNECT" && !s.h2ConnectExt)
                          || (r2.method = ofString "OPTIONS" && r2.target = [42])
          match parsePostV o 80 s.h2ConnectExt r2 with
          | .err e => .done (s.onLive (storeError · e pv pm))
          | .skipV6 => .skipV6
          | .ok r t => .done (storeParsed s (r.version : Int) r t r2.target special 80 len)

/-- all config conditions are valid after a successfully parsed head (http_request_headers_fin()) -/
def parsedStale (d : ReqStale) (c : ReqCore) : ReqStale :=
  if c.httpStatus = 0 then { d with conValid := 4294967295 } else d

def liftInto (s : ReqSt) : IntoRes ReqCore → IntoRes ReqSt
  | .incomplete => .incomplete
  | .blank => .blank
  | .skipV6 => .skipV6
  | .done c => .done { toReqCore := c, toReqStale := parsedStale s.toReqStale c }

def parseIntoH1 (s : ReqSt) (block : Bytes) : IntoRes ReqSt := liftInto s (parseIntoH1C s.toReqCore block)

/-! ### HTTP/2 header fields (after HPACK decoding) -/

structure H2Ctx where
  pseudo : Bool := true
  scheme : Bool := false
  hlen : Nat := 0
  ext : Bool := false            -- r->h2_connect_ext
deriving Repr, DecidableEq

/-- http_request_parse_single_header() for a request of version `r.version`
    (2 = HTTP/2: Connection is an error, Content-Length always sets the body length) -/
def singleHeaderV (r : PReq) (name v : Bytes) : PRes :=
  if r.version ≤ 1 then singleHeader r name v else
  match classifyHeader name with
  | .connection => .error 400
  | .contentLength =>
    if !r.clSeen then
      match strtoInt64 v with
      | some n => .ok { appendHeader r name v with bodyLen := (n : Int), clSeen := true }
      | none => .error 400
    else .error 400
  | _ => singleHeader r name v

/-- http_request_validate_pseudohdrs() -/
def validatePseudo (o : Opts) (r : PReq) (c : H2Ctx) : Except Nat (PReq × H2Ctx) :=
  if r.method.isEmpty then .error 400 else
  let c := if r.method ≠ ofString "CONNECT" then { c with ext := false } else c
  let r? : Except Nat PReq :=
    if r.method ≠ ofString "CONNECT" || c.ext then
      if !c.scheme then .error 400
      else if r.target.isEmpty then .error 400
      else if r.target.head? ≠ some slash
              && !(r.target = [42] && r.method = ofString "OPTIONS") then .error 400
      else .ok r
    else
      match r.host with
      | none => .error 400
      | some h => if !r.target.isEmpty || c.scheme then .error 400 else .ok { r with target := h }
  match r? with
  | .error e => .error e
  | .ok r =>
    let bad : Bool :=
      if o.headerStrict then
        (if o.ctrlsReject then fragmentInvalidStrict r.target else r.target.any uriCharInvalidStrict)
      else r.target.any (fun b => b = 0 || b = cr || b = lf)
    if bad then .error 400 else .ok (r, c)

def trimWs (v : Bytes) : Bytes := dropTrailingWs (v.dropWhile isWs)

/-- http_request_parse_header() for one decoded field (not trailers; field not in the
    HPACK static table) -/
def h2Field (o : Opts) (maxField : Nat) (rc : PReq × H2Ctx) (kv : Bytes × Bytes) : Except Nat (PReq × H2Ctx) :=
  let (r, c) := rc
  let (k, v) := kv
  if k.isEmpty then .error 400 else
  let c := { c with hlen := c.hlen + k.length + v.length + 4 }
  if c.hlen > maxField then .error 431 else
  if k.head? = some colon then
    if !c.pseudo then .error 400
    else if v.isEmpty then .error 400
    else if k = ofString ":authority" then
      if r.host.isSome then .error 400
      else if v.length ≥ 1024 then .error 400
      else .ok (setHost r v, c)
    else if k = ofString ":method" then
      if !r.method.isEmpty then .error 400
      else if !methodTable.contains v then .error 501
      else .ok ({ r with method := v }, c)
    else if k = ofString ":path" then
      if !r.target.isEmpty then .error 400 else .ok ({ r with target := v }, c)
    else if k = ofString ":scheme" then
      if c.scheme then .error 400 else .ok (r, { c with scheme := true })
    else if k = ofString ":protocol" then
      if v ≠ ofString "websocket" then .error 405 else .ok (r, { c with ext := true })
    else .error 400
  else
    let step : Except Nat (PReq × H2Ctx) :=
      if c.pseudo then validatePseudo o r { c with pseudo := false } else .ok (r, c)
    match step with
    | .error e => .error e
    | .ok (r, c) =>
      if v.isEmpty then .ok (r, c) else
      let badv := if o.headerStrict then v.any lineCharInvalidStrict
                  else v.any (fun b => b = 0 || b = cr || b = lf)
      if badv then .error 400 else
      let v := trimWs v
      if v.isEmpty then .ok (r, c) else
      let tail := k.dropWhile fun b => isLower b || b = 45
      if tail.any (nameCharBad o.headerStrict) || tail.any isUpper then .error 400 else
      if k = ofString "te" && !eqIcase v (ofString "trailers") then .error 400 else
      match singleHeaderV r k v with
      | .error e => .error e
      | .ok r => .ok (r, c)

def h2FieldStep (o : Opts) (maxField : Nat) (acc : Except Nat (PReq × H2Ctx)) (kv : Bytes × Bytes) :
    Except Nat (PReq × H2Ctx) :=
  match acc with
  | .error e => .error e
  | .ok rc => h2Field o maxField rc kv

/-- the field loop of h2_parse_headers_frame() followed by the final pseudo-header check -/
def h2Fields (o : Opts) (maxField : Nat) (r : PReq) (c : H2Ctx) (fs : List (Bytes × Bytes)) :
    Except Nat (PReq × H2Ctx) :=
  match fs.foldl (h2FieldStep o maxField) (.ok (r, c)) with
  | .error e => .error e
  | .ok (r, c) => if c.pseudo then validatePseudo o r c else .ok (r, c)

/-- r->http_method when the field loop stopped: http_request_parse_header() stores it as soon as
    `:method` is seen, and it stays when a later field (or the pseudo-header check) is rejected —
    the error response to a rejected HEAD has no body -/
def h2StopMethod (o : Opts) (maxField : Nat) : PReq × H2Ctx → List (Bytes × Bytes) → Bytes
  | rc, [] => rc.1.method
  | rc, kv :: rest =>
    match h2Field o maxField rc kv with
    | .ok rc' => h2StopMethod o maxField rc' rest
    | .error _ => rc.1.method

/-- h2_recv_headers() (after h2_init_stream()) + http_request_headers_process_h2();
    `endStream` = END_STREAM flag on the HEADERS frame -/
def parseIntoH2C (s : ReqCore) (fs : List (Bytes × Bytes)) (endStream : Bool) : IntoRes ReqCore :=
  let o : Opts := ⟨s.conf.parseopts⟩
  let s := { s with reqbodyLength := if endStream then 0 else -1 }
  let pre := { toPReq s.toReqLive with version := 2 }
  let hlen := (fs.map fun kv => kv.1.length + kv.2.length + 4).sum + 2
  match h2Fields o s.conf.maxRequestFieldSize pre { ext := s.h2ConnectExt } fs with
  | .error e =>
    .done (s.onLive fun l => storeError { l with version := 2 } e 2
             (methodId (h2StopMethod o s.conf.maxRequestFieldSize (pre, { ext := s.h2ConnectExt }) fs)))
  | .ok (r, c) =>
    let special := (r.method = ofString "CONNECT" && !c.ext) || (r.method = ofString "OPTIONS" && r.target = [42])
    match parsePostV o 80 c.ext r with
    | .err e => .done (s.onLive fun l => storeError { l with version := 2, h2ConnectExt := c.ext } e 2 (methodId r.method))
    | .skipV6 => .skipV6
    | .ok r' t =>
      .done { storeParsed s 2 r' t r.target special 80 (s.rqstHeaderLen + hlen) with h2ConnectExt := c.ext }

def parseIntoH2 (s : ReqSt) (fs : List (Bytes × Bytes)) (endStream : Bool) : IntoRes ReqSt :=
  liftInto s (parseIntoH2C s.toReqCore fs endStream)

/-! ### the served site -/

inductive FsNode
  | file (ctype : Bytes) (content : Bytes) (etag : Bytes)
  | dir
deriving Repr, DecidableEq

/-- a conditional configuration block `$HTTP["url"] =^ prefix { ... }` / `$HTTP["host"] == h { ... }` /
    `$REQUEST_HEADER[name] == v { ... }` / `$HTTP["request-method"] == m { ... }` with the settings the
    model knows -/
inductive Cond
  | urlPrefix (p : Bytes)
  | hostEq (h : Bytes)
  | headerEq (lcName v : Bytes)
  | methodIs (name : Bytes)
deriving Repr, DecidableEq

structure Scope where
  cond : Cond
  extra : Option (List (Bytes × Bytes)) := none     -- setenv.add-response-header
  rangeRequests : Option Bool := none
  maxKeepAliveRequests : Option Nat := none
  docRoot : Option Bytes := none
  allowHttp11 : Option Bool := none
deriving Repr, DecidableEq

structure Site where
  nodes : List (Bytes × FsNode) := []     -- physical path -> node
  indexNames : List Bytes := []           -- index-file.names
  denySuffix : List Bytes := []           -- url.access-deny
  excludeExt : List Bytes := []           -- static-file.exclude-extensions
  sinkExt : List Bytes := []              -- extensions handled by a body-reading handler module (CGI-like)
  sinkBody : Bytes := []                  -- what that handler answers
  scopes : List Scope := []
deriving Repr, DecidableEq

def Site.lookup (site : Site) (p : Bytes) : Option FsNode :=
  match site.nodes.find? (·.1 = p) with
  | some e => some e.2
  | none => none

def endsWith (s suf : Bytes) : Bool := suf.length ≤ s.length && s.drop (s.length - suf.length) = suf

def evalCond (s : ReqCore) : Cond → Bool
  | .urlPrefix p => (s.uriPath.bytes.take p.length) = p
  | .hostEq h => s.uriAuthority.bytes = h
  | .headerEq n v =>
    match s.rqstHeaders.find? (fun e => e.2.1.map toLower = n) with
    | some e => e.2.2 = v
    | none => v.isEmpty
  | .methodIs m => methodName s.method = m

def applyScope (c : Conf) (sc : Scope) : Conf :=
  { c with extra := sc.extra.getD c.extra,
           rangeRequests := sc.rangeRequests.getD c.rangeRequests,
           maxKeepAliveRequests := sc.maxKeepAliveRequests.getD c.maxKeepAliveRequests,
           docRoot := sc.docRoot.getD c.docRoot,
           allowHttp11 := sc.allowHttp11.getD c.allowHttp11 }

/-- http_response_config(): config_cond_cache_reset() + config_patch_config() (every block is
    evaluated against the current request, never against cached results of an earlier one; the
    matching blocks are merged, in file order, over r->conf), server_name, the HTTP/1.1 -> 1.0
    downgrade of server.protocol-http11 = "disable".  The max-request-size check that follows is
    in `prepareSetup`. -/
def httpResponseConfig (site : Site) (s : ReqCore) : ReqCore :=
  let conf := site.scopes.foldl (fun c sc => if evalCond s sc.cond then applyScope c sc else c) s.conf
  let s := { s with conf := conf, serverName := if conf.serverName.isSome then .conf else .authority }
  if !conf.allowHttp11 && s.version = 1 then
    s.onLive fun l => rqstUnset { l with version := 0, keepAlive := 0 } idUpgrade (ofString "upgrade")
  else s

/-! ### response generation -/

def statusReason (st : Int) : Bytes :=
  ofString (match st with
    | 200 => "OK" | 206 => "Partial Content" | 301 => "Moved Permanently" | 302 => "Found"
    | 304 => "Not Modified" | 400 => "Bad Request" | 401 => "Unauthorized" | 403 => "Forbidden"
    | 404 => "Not Found" | 405 => "Method Not Allowed" | 411 => "Length Required"
    | 412 => "Precondition Failed" | 413 => "Payload Too Large" | 416 => "Range Not Satisfiable"
    | 417 => "Expectation Failed" | 431 => "Request Header Fields Too Large"
    | 500 => "Internal Server Error" | 501 => "Not Implemented" | 505 => "HTTP Version Not Supported"
    | _ => "")

def statusText (st : Int) : Bytes := natToDec st.toNat ++ [sp] ++ statusReason st

/-- default error page of http_response_static_errdoc() -/
def errorPage (st : Int) : Bytes :=
  ofString "<!DOCTYPE html>\n<html lang=\"en\">\n <head>\n  <meta charset=\"UTF-8\" />\n  <title>"
  ++ statusText st ++ ofString "</title>\n </head>\n <body>\n  <h1>" ++ statusText st
  ++ ofString "</h1>\n </body>\n</html>\n"

def isGetHeadQuery (m : Int) : Bool := m = mGET || m = mHEAD || m = mQUERY
def isGetHeadQueryPost (m : Int) : Bool := isGetHeadQuery m || m = mPOST

/-- http_status_set_error_close() -/
def errorClose (s : ReqLive) (st : Int) : ReqLive :=
  { s with keepAlive := 0, respBodyFinished := true, handlerModule := false, httpStatus := st }

/-- http_response_prepare_options_star() -/
def optionsStar (s : ReqLive) : ReqLive :=
  respAppend { s with httpStatus := 200, respBodyFinished := true } idAllow (ofString "Allow")
    (ofString "OPTIONS, GET, HEAD, POST")

/-- buffer_copy_path_len2(): join with exactly one slash -/
def joinPath (a b : Bytes) : Bytes :=
  let a' := if a.getLast? = some slash then a.dropLast else a
  let b' := if b.head? = some slash then b.drop 1 else b
  a' ++ [slash] ++ b'

/-- mod_setenv: handle_uri_clean (plugin slot 1): the per-request context is created once and
    keeps the configuration that matched when it was created -/
def setenvUriClean (s : ReqLive) : ReqLive :=
  match pctxGet s 1 with
  | some _ => s                                   -- hctx->handled: nothing to do
  | none => pctxSet s 1 s.conf.extra

/-- mod_setenv: handle_response_start -/
def setenvResponseStart (s : ReqLive) : ReqLive :=
  match pctxGet s 1 with
  | none => s
  | some hs => hs.foldl (fun s kv => respInsert s (hid (kv.1.map toLower)) kv.1 kv.2) s

/-- http_response_send_file() + http_response_handle_cachable() for a regular file -/
def sendFile (s : ReqLive) (ctype content etag : Bytes) : ReqLive :=
  let implicitOctet := ctype.isEmpty
  let s := if !btst s.respHtags idContentType then
             respSet s idContentType (ofString "Content-Type")
               (if ctype.isEmpty then ofString "application/octet-stream" else ctype)
           else s
  let allowCaching := !implicitOctet && (s.httpStatus = 0 || s.httpStatus = 200)
  let s := if allowCaching && !btst s.respHtags idETag && !etag.isEmpty then
             respSet s idETag (ofString "ETag") etag else s
  let notModified : Bool :=
    allowCaching &&
    (match rqstGet s idIfNoneMatch (ofString "If-None-Match"), respGet s idETag (ofString "ETag") with
     | some inm, some tag => inm = tag || inm = [42]
     | _, _ => false)
  if notModified then
    if isGetHeadQuery s.method then { s with httpStatus := 304 }
    else { bodyClear hdrIds s false with handlerModule := false, httpStatus := 412 }
  else
    let s := { s with writeQueue := s.writeQueue.append content, httpStatus := 200, respBodyFinished := true }
    respSet s idContentLength (ofString "Content-Length") (natToDec content.length)

/-- the "no handler" fallback at the end of http_response_prepare() -/
def noHandler (s : ReqLive) : ReqLive :=
  if s.handlerModule then s else
  if s.httpStatus = 0 then
    if s.method = mOPTIONS then optionsStar (bodyClear hdrIds s false)
    else if s.method = mCONNECT then errorClose s 405
    else if !isGetHeadQueryPost s.method then { s with httpStatus := 501 }
    else { s with httpStatus := 403 }
  else s

/-- a handler module that takes the request at subrequest_start and reads the whole request body
    before answering (mod_cgi and the other gateways with the default, non-streaming request
    body): r->handler_module stays set until request_reset(); a chunked body ends with
    reqbody_length = number of bytes received -/
def sinkHandle (site : Site) (s : ReqLive) : ReqLive :=
  let len : Int := if s.reqbodyLength < 0 then 0 else s.reqbodyLength
  let s := { s with handlerModule := true, reqbodyLength := len,
                    reqbodyQueue := { s.reqbodyQueue with bytesIn := len.toNat } }
  let s := respSet s idContentType (ofString "Content-Type") (ofString "text/plain")
  { s with httpStatus := 200, respBodyFinished := true, writeQueue := s.writeQueue.append site.sinkBody }

/-- the subrequest_start hooks (mod_indexfile, mod_access, the gateway-like handler, mod_staticfile)
    and the fallback -/
def subrequestStart (site : Site) (s : ReqCore) : ReqCore :=
  -- mod_indexfile
  let s :=
    if !s.handlerModule && s.uriPath.bytes.getLast? = some slash then
      match site.indexNames.find? (fun n => (site.lookup (s.physPath.bytes ++ n)).isSome) with
      | some n => { s with physPath := some (s.physPath.bytes ++ n), uriPath := some (s.uriPath.bytes ++ n) }
      | none => s
    else s
  -- mod_access (second call)
  if site.denySuffix.any (fun d => endsWith s.uriPath.bytes d) then
    s.onLive fun l => { l with httpStatus := 403, handlerModule := false }
  else
  -- body-reading handler module (before mod_staticfile in module order)
  let isFile := match site.lookup s.physPath.bytes with | some (.file _ _ _) => true | _ => false
  if !s.handlerModule && isFile && site.sinkExt.any (fun x => endsWith s.physPath.bytes x) then
    s.onLive (sinkHandle site)
  else
  -- mod_staticfile
  let excluded := site.excludeExt.any (fun x => endsWith s.physPath.bytes x)
  let s :=
    if !s.handlerModule && isGetHeadQueryPost s.method && !excluded
       && s.uriPath.bytes.getLast? ≠ some slash then
      match site.lookup s.physPath.bytes with
      | some (.file ct content etag) => s.onLive (sendFile · ct content etag)
      | _ => s
    else s
  s.onLive noHandler

/-- first part of http_response_prepare(), done once per request (only while physical.path is
    still unset): configuration, uri_clean hooks, logical -> physical path.
    `.error` = a hook finished the request -/
def prepareSetup (site : Site) (s : ReqCore) : Except ReqCore ReqCore :=
  if s.physPath.isNone then
    let s := httpResponseConfig site s
    if s.reqbodyLength > 0 && s.conf.maxRequestSize ≠ 0
       && s.reqbodyLength > (s.conf.maxRequestSize : Int) * 1024 then
      .error (s.onLive (errorClose · 413))            -- 413 Payload Too Large, connection closed
    else
    -- uri_clean hooks in module order: mod_access (a rejection ends the hook chain), mod_setenv
    if site.denySuffix.any (fun d => endsWith s.uriPath.bytes d) then
      .error (s.onLive fun l => { l with httpStatus := 403, handlerModule := false })
    else
    let s := s.onLive setenvUriClean
    if s.method = mOPTIONS && s.uriPath.bytes = [42] then .error (s.onLive optionsStar)
    else if s.method = mCONNECT && (s.handlerModule || !s.h2ConnectExt) then
      .error (if s.handlerModule then s else s.onLive (errorClose · 405))
    else
      -- (physical.doc_root and physical.basedir are set here too; nothing in the model reads them)
      .ok { s with physRelPath := some s.uriPath.bytes,
                   physPath := some (joinPath s.conf.docRoot s.uriPath.bytes) }
  else .ok s

/-- second part of http_response_prepare(): http_response_physical_path_check(), directory
    redirect, subrequest_start hooks -/
def prepareServe (site : Site) (s : ReqCore) : ReqCore :=
  if s.handlerModule then s else
  match site.lookup s.physPath.bytes with
  | none =>
    if s.method = mOPTIONS && btst s.respHtags idAllow then s.onLive fun l => { l with httpStatus := 200 }
    else s.onLive fun l => { l with httpStatus := 404 }
  | some node =>
    if node = .dir && s.uriPath.bytes.getLast? ≠ some slash then
      -- http_response_redirect_to_directory()
      let loc := s.uriPath.bytes ++ [slash] ++
                 (match s.uriQuery with | some q => qmark :: q | none => [])
      s.onLive fun l =>
        { respSet l idLocation (ofString "Location") loc with httpStatus := 301, respBodyFinished := true }
    else subrequestStart site s

/-- http_response_prepare() -/
def responsePrepare (site : Site) (s : ReqCore) : ReqCore :=
  if s.httpStatus > 200 then
    if !s.respBodyFinished then s.onLive (bodyClear hdrIds · false) else s
  else
    match prepareSetup site s with
    | .error s => s
    | .ok s => prepareServe site s

/-- does http_response_static_errdoc() replace the response (status is 4xx/5xx)? -/
def errdocApplies (s : ReqLive) : Bool :=
  s.httpStatus ≥ 400 && s.httpStatus < 600 &&
  !(if !s.handlerModule then s.errorHandlerSavedStatus ≥ 65535
    else s.errorHandlerSavedStatus ≠ 0)                     -- (error_intercept is off)

/-- http_response_errdoc_init() + the default page of http_response_static_errdoc()
    (physical.path is reset as well: see `respond`) -/
def staticErrdoc (s : ReqLive) : ReqLive :=
  let www := if s.httpStatus = 401 then respGet s idWwwAuthenticate (ofString "WWW-Authenticate") else none
  let s := { s with respHtags := [], respHeaders := [] }
  let s := bodyClear hdrIds s false
  let s := match www with
           | some v => respSet s idWwwAuthenticate (ofString "WWW-Authenticate") v
           | none => s
  let s := { s with respBodyFinished := true, writeQueue := s.writeQueue.append (errorPage s.httpStatus) }
  respSet s idContentType (ofString "Content-Type") (ofString "text/html")

/-- http_response_write_prepare(), first part: header-only status classes, error document -/
def wpStatus (s : ReqLive) : ReqLive :=
  if s.httpStatus = 204 || s.httpStatus = 205 || s.httpStatus = 304 then
    let s := if s.httpStatus ≠ 304 then respUnset s idContentLength (ofString "Content-Length") else s
    { bodyClear hdrIds s true with respBodyFinished := true }
  else if errdocApplies s then staticErrdoc s
  else s

/-- http_response_write_prepare(), after the response_start hooks: Content-Length /
    Transfer-Encoding (Range handling is C15's model; not repeated here) -/
def wpFraming (s : ReqLive) : ReqLive :=
  if s.respBodyFinished then
    if !(btst s.respHtags idContentLength || btst s.respHtags idTransferEncoding) then
      let qlen := s.writeQueue.data.length
      if qlen > 0 then respSet s idContentLength (ofString "Content-Length") (natToDec qlen)
      else if s.method ≠ mHEAD && s.httpStatus ≠ 204 && s.httpStatus ≠ 304 then
        respSet s idContentLength (ofString "Content-Length") [48]
      else s
    else s
  else if s.version ≥ 2 then s
  else if !(btst s.respHtags idContentLength || btst s.respHtags idTransferEncoding
            || btst s.respHtags idUpgrade) then
    if s.version = 1 then
      respAppend { s with respSendChunked := true } idTransferEncoding (ofString "Transfer-Encoding")
        (ofString "chunked")
    else { s with keepAlive := 0 }
  else s

/-- http_response_write_prepare(), end: a HEAD response has no body -/
def wpHead (s : ReqLive) : ReqLive :=
  if s.method = mHEAD then { bodyClear hdrIds s true with respBodyFinished := true } else s

/-- http_response_write_prepare() -/
def writePrepare (s : ReqLive) : ReqLive := wpHead (wpFraming (setenvResponseStart (wpStatus s)))

/-- http_response_has_error_handler() with no error handler configured: only the restoration
    from error_handler_saved_status / error_handler_saved_method (`savedMethod`) remains -/
def hasErrorHandler (savedMethod : Int) (s : ReqLive) : ReqLive :=
  let s := if s.errorHandlerSavedStatus > 0 then { s with method := savedMethod } else s
  if !s.handlerModule then
    if s.errorHandlerSavedStatus ≠ 0 then
      let sub := s.httpStatus
      let s := if s.errorHandlerSavedStatus > 0 then { s with httpStatus := s.errorHandlerSavedStatus }
               else if s.httpStatus = 404 then { s with httpStatus := -s.errorHandlerSavedStatus }
               else s
      if 200 ≤ sub && sub ≤ 299 then { s with errorHandlerSavedStatus := 65535 } else s
    else s
  else s

/-- http_response_handler() between http_response_prepare() and http_response_write_prepare():
    default status, error-handler bookkeeping -/
def preWrite (savedMethod : Int) (s : ReqLive) : ReqLive :=
  let s := if s.httpStatus = 0 then { s with httpStatus := 200 } else s
  if s.httpStatus < 400 && s.errorHandlerSavedStatus = 0 then s else hasErrorHandler savedMethod s

/-- state after http_response_prepare(); a handler module left over from an earlier request
    would be run instead (shown as a 500) -/
def prepared (site : Site) (s : ReqCore) : ReqCore :=
  if s.handlerModule then s.onLive fun l => { l with httpStatus := 500 } else responsePrepare site s

/-- http_response_handler() on the core fields, for a request no module takes over
    asynchronously; `savedMethod` = r->error_handler_saved_method -/
def respondC (site : Site) (savedMethod : Int) (s : ReqCore) : ReqCore :=
  let a := prepared site s
  let p := preWrite savedMethod a.toReqLive
  let b : ReqCore := { a with toReqLive := writePrepare p }
  -- http_response_errdoc_init(): buffer_reset(&r->physical.path)
  if errdocApplies p then { b with physPath := none } else b

/-- http_response_handler(): `respondC` plus the allocation state of physical.path -/
def respond (site : Site) (s : ReqSt) : ReqSt :=
  let a := prepared site s.toReqCore
  let c := respondC site s.errorHandlerSavedMethod s.toReqCore
  let allocated := s.physPathPtr || a.physPath.isSome
  let reset := a.physPath.isSome && c.physPath.isNone          -- buffer_reset() in the error document path
  { toReqCore := c,
    toReqStale := { s.toReqStale with physPathPtr := if reset then allocated && !s.physPathBig else allocated,
                                      physPathBig := if reset then false else s.physPathBig } }

/-! ### what the client sees -/

structure Out where
  status : Int
  version : Int                            -- status-line version (h1) / 2
  headers : List (Bytes × Bytes)           -- as sent (h2: lower-case names), without Date / Server
  body : Bytes
  keepAlive : Bool
deriving Repr, DecidableEq

def headerLines (s : ReqLive) : List (Bytes × Bytes) :=
  (s.respHeaders.filter fun e => !e.2.1.isEmpty && !e.2.2.isEmpty).map fun e => (e.2.1, e.2.2)

/-- h1_send_headers(): keep-alive decision, Connection header -/
def h1SendHeaders (requestCount : Nat) (s : ReqLive) : ReqLive :=
  let s :=
    if requestCount > s.conf.maxKeepAliveRequests then { s with keepAlive := 0 }
    else if s.reqbodyLength ≠ 0 && s.reqbodyLength ≠ (s.reqbodyQueue.bytesIn : Int) && !s.handlerModule then
      { s with keepAlive := 0 }
    else s
  if btst s.respHtags idUpgrade && s.version = 1 then
    respSet s idConnection (ofString "Connection") (ofString "upgrade")
  else if s.keepAlive ≤ 0 then respSet s idConnection (ofString "Connection") (ofString "close")
  else if s.version = 0 then respSet s idConnection (ofString "Connection") (ofString "keep-alive")
  else s

def h1Output (s : ReqLive) : Out :=
  { status := s.httpStatus, version := if s.version = 1 then 1 else 0,
    headers := headerLines s, body := s.writeQueue.data, keepAlive := s.keepAlive > 0 }

def h2Output (s : ReqLive) : Out :=
  { status := s.httpStatus, version := 2,
    headers := (headerLines s).map fun kv => (kv.1.map toLower, kv.2),
    body := s.writeQueue.data, keepAlive := true }

/-- the comparable part of a response: status, representation headers, body -/
def Out.core (o : Out) : Int × List (Bytes × Bytes) × Bytes :=
  (o.status, (o.headers.filter fun kv => kv.1.map toLower ≠ ofString "connection").map
               (fun kv => (kv.1.map toLower, kv.2)), o.body)

/-! ### HTTP/1.x connection -/

structure Conn where
  r : ReqSt
  requestCount : Nat := 0
  isOpen : Bool := true
  pendingBlank : Bool := false     -- one blank line is waiting in the read queue (keep-alive only)
deriving Repr, DecidableEq

def Conn.fresh (e : SrvEnv) : Conn := { r := ReqSt.init e }

def isCtl (block : Bytes) : Bool := match block.head? with | some b => b < 32 | none => false
def startsBlank (block : Bytes) : Bool := block.head? = some cr || block.head? = some lf

/-- "invalid request-line -> sending Status 400" of h1_recv_headers() -/
def reject400 (r0 : ReqSt) : IntoRes ReqSt :=
  .done (r0.onLive fun l => { l with httpStatus := 400, keepAlive := 0 })

/-- h1_recv_headers() on data that does not start with a blank line to be discarded: the limit
    checks come before request_reset_ex(), which is only done from the second request on -/
def h1ParseNoDiscard (c : Conn) (r0 : ReqSt) (head : Bytes) : IntoRes ReqSt :=
  match recvHead r0.conf.maxRequestFieldSize head with
  | .tooLarge => .done (r0.onLive fun l => { l with httpStatus := 431, keepAlive := 0 })
  | .head _ _ => parseIntoH1 (if c.requestCount + 1 > 1 then requestResetEx r0 else r0) head
  | .incomplete => if isCtl head then reject400 r0 else .incomplete
  | .blank _ => reject400 r0

/-- h1_recv_headers() for the next data on the connection.  Between keep-alive requests ONE blank
    line is discarded (if the data ends there the server waits: `.blank`); a blank line at the start
    of the first request, a second blank line, or any other control byte where a request should
    start is answered 400 -/
def h1Parse (c : Conn) (head : Bytes) : IntoRes ReqSt :=
  -- connection_handle_request_start_state(); the bytes arrive in the connection's read queue
  let r0 := c.r.onLive fun l => { l with loopsPerRequest := 0 }
  let r0 : ReqSt := { r0 with readQueue := { r0.readQueue with bytesIn := r0.readQueue.bytesIn + head.length } }
  if c.pendingBlank then
    if startsBlank head then reject400 r0 else h1ParseNoDiscard c r0 head
  else
    match recvHead r0.conf.maxRequestFieldSize head with
    | .blank len =>
      if c.requestCount + 1 > 1 then
        if head.length = len then .blank
        else if startsBlank (head.drop len) then reject400 r0
        else h1ParseNoDiscard c r0 (head.drop len)
      else reject400 r0
    | _ => h1ParseNoDiscard c r0 head

/-- http_response_handler(), h1_send_headers(), connection_handle_response_end_state() for the
    `count`-th request of the connection.  A request body is read only by a handler module
    (`sinkHandle`); otherwise r->reqbody_queue stays empty and a request that announces a body is
    answered with keep-alive off. -/
def h1Finish (site : Site) (e : SrvEnv) (count : Nat) (r1 : ReqSt) : Conn × Option Out :=
  let r2 := (respond site r1).onLive (h1SendHeaders count)
  let out := h1Output r2.toReqLive
  let incomplete := r2.reqbodyLength ≠ (r2.reqbodyQueue.bytesIn : Int)
  let ka := r2.keepAlive > 0 && !incomplete
  if ka then
    -- request_reset(), then the accounting checkpoints of the next keep-alive request
    let r3 := requestReset hdrIds e r2
    ({ r := { r3 with x0 := r3.writeQueue.bytesOut, x1 := r3.readQueue.bytesIn, state := 1 },
       requestCount := count, isOpen := true }, some { out with keepAlive := true })
  else
    -- connection_handle_shutdown() -> connection_reset(); connection_close() -> request_reset_ex()
    ({ r := { requestResetEx (requestReset hdrIds e r2) with state := 0 }, requestCount := 0, isOpen := false },
     some { out with keepAlive := false })

/-- the next data (one request head, possibly preceded by a blank line) on an HTTP/1.x connection -/
def h1Msg (site : Site) (e : SrvEnv) (c : Conn) (head : Bytes) : Conn × Option Out :=
  if !c.isOpen then (c, none) else
  match h1Parse c head with
  | .done r1 => h1Finish site e (c.requestCount + 1) r1
  | .blank => ({ c with pendingBlank := true }, none)      -- wait for more data
  | _ =>
    -- incomplete head and the client went away: connection_reset(), connection_close()
    ({ r := { requestResetEx (requestReset hdrIds e c.r) with state := 0 }, requestCount := 0, isOpen := false }, none)

/-- a closed connection object is taken from the pool again by connection_accepted() -/
def Conn.reaccept (c : Conn) : Conn :=
  { c with isOpen := true, requestCount := 0,
           r := { c.r with condCache := c.r.condCache.map fun _ => ({} : CondEnt), conValid := 258 } }

def h1Run (site : Site) (e : SrvEnv) : Conn → List Bytes → List (Option Out)
  | _, [] => []
  | c, head :: rest =>
    let (c', o) := h1Msg site e c head
    o :: h1Run site e c' rest

/-! ### HTTP/2 streams -/

/-- one stream, start to finish, on a pooled request object `pooled` of a connection whose
    connection-level request is `h2r`: h2_init_stream(), header fields, response, release -/
def h2Stream (site : Site) (e : SrvEnv) (h2r : ReqSt) (swin : Nat) (pooled : ReqSt)
    (fs : List (Bytes × Bytes)) (endStream : Bool) : ReqSt × Option Out :=
  let r0 := h2InitStream h2r swin pooled
  match parseIntoH2 r0 fs endStream with
  | .done r1 =>
    let r2 := respond site r1
    (requestRelease hdrIds e r2, some (h2Output r2.toReqLive))
  | _ => (requestRelease hdrIds e r0, none)

/-- the request pool as a stack of released objects (request_pool_push / request_pool_pop);
    streams that are open at the same time hold different objects -/
def h2Run (site : Site) (e : SrvEnv) (h2r : ReqSt) (swin : Nat) :
    List ReqSt → List (List (Bytes × Bytes) × Bool) → List (Option Out)
  | _, [] => []
  | pool, (fs, es) :: rest =>
    let (obj, pool') := match pool with
                        | [] => (ReqSt.init e, [])       -- request_init()
                        | p :: ps => (p, ps)
    let (released, o) := h2Stream site e h2r swin obj fs es
    o :: h2Run site e h2r swin (released :: pool') rest

end LtVerif.Req
