/-
  Model of the address comparisons of src/sock_addr.c used by
  `$HTTP["remoteip"]` conditions:
    sock_addr_is_addr_eq()       -> `addrEq`
    sock_addr_is_addr_eq_bits()  -> `addrEqBits`  (CIDR match)
  Addresses are byte lists in network order (4 bytes AF_INET, 16 bytes AF_INET6),
  as they sit in `struct in_addr` / `struct in6_addr`.
-/
import LtVerif.Model.Basic
namespace LtVerif

inductive SockAddr where
  | v4 (b : List UInt8)     -- sin_addr, 4 bytes
  | v6 (b : List UInt8)     -- sin6_addr, 16 bytes
  | other                   -- AF_UNIX / AF_UNSPEC (never equal under a mask)
deriving DecidableEq, Repr, Inhabited

namespace SockAddr

/-- big-endian value of a byte string (ntohl() of s_addr for 4 bytes) -/
def beVal : List UInt8 → Nat
  | [] => 0
  | x :: xs => x.toNat * 2 ^ (8 * xs.length) + beVal xs

/-- IN6_IS_ADDR_V4MAPPED: ::ffff:a.b.c.d -/
def isV4Mapped (b : List UInt8) : Bool :=
  b.take 10 == List.replicate 10 0 && (b.drop 10).take 2 == [0xff, 0xff]

/-- low 4 bytes of an IPv6 address (s6_addr32[3]) -/
def low4 (b : List UInt8) : List UInt8 := b.drop 12

/-- IPv4 netmask built by the AF_INET branch, host order:
    `~((1u << (32 - (0 != bits ? bits : 32))) - 1)` after `if (bits > 32) bits = 32` -/
def mask4 (bits : Nat) : Nat :=
  let b := if bits > 32 then 32 else bits
  let sh := 32 - (if b ≠ 0 then b else 32)
  (2 ^ 32 - 1) ^^^ (2 ^ sh - 1)

/-- netmask of the AF_INET6-vs-AF_INET (v4-mapped) branch, host order:
    `bits < 128 ? ~(~0u >> (bits > 96 ? bits - 96 : 0)) : ~0u` -/
def mask4of6 (bits : Nat) : Nat :=
  if bits < 128 then (2 ^ 32 - 1) ^^^ ((2 ^ 32 - 1) >>> (if bits > 96 then bits - 96 else 0))
  else 2 ^ 32 - 1

/-- the do/while loop of the AF_INET6 branch:
      do { match = (bits >= 8) ? *c++ == *d++ : (*c >> (8-bits)) == (*d >> (8-bits)); }
      while (match && (bits -= 8) > 0);  -/
def eqBits6 : List UInt8 → List UInt8 → Nat → Bool
  | c :: cs, d :: ds, bits =>
    if bits ≥ 8 then
      c == d && (if bits - 8 > 0 then eqBits6 cs ds (bits - 8) else true)
    else
      -- (uint8 promoted to int; shift by 8 - bits ∈ 1..8)
      c.toNat >>> (8 - bits) == d.toNat >>> (8 - bits)
  | _, _, _ => true    -- not reached: bits ≤ 128 and both addresses have 16 bytes

/-- sock_addr_is_addr_eq() -/
def addrEq : SockAddr → SockAddr → Bool
  | .v4 a, .v4 b => a == b
  | .v6 a, .v6 b => a == b
  | _, _ => false

/-- sock_addr_is_addr_eq_bits(a, b, bits): `a` is the configured network, `b` the peer -/
def addrEqBits (a b : SockAddr) (bits : Nat) : Bool :=
  match a, b with
  | .v4 x, .v4 y => beVal x &&& mask4 bits == beVal y &&& mask4 bits
  | .v4 x, .v6 y => isV4Mapped y && (beVal x &&& mask4 bits == beVal (low4 y) &&& mask4 bits)
  | .v6 x, .v6 y => eqBits6 x y (if bits > 128 then 128 else bits)
  | .v6 x, .v4 y =>
    let bits := if bits > 128 then 128 else bits
    isV4Mapped x && (beVal (low4 x) &&& mask4of6 bits == beVal y &&& mask4of6 bits)
  | _, _ => false

end SockAddr
end LtVerif
