/-
  Helper lemmas for Props/C03.lean: case-insensitive comparison, suffix / prefix matching,
  path resolution and the request pipeline of Model/Access.lean.
-/
import LtVerif.Model.Access
import LtVerif.Model.Docroot
namespace LtVerif.Access
open LtVerif B

/-! ### bytes -/

/-- a Boolean predicate that holds for 0..255 holds for every byte -/
theorem forall_uint8 (P : UInt8 → Bool)
    (h : ((List.range 256).all fun i => P (UInt8.ofNat i)) = true) (a : UInt8) : P a = true := by
  rw [List.all_eq_true] at h
  have := h a.toNat (by simp only [List.mem_range]; exact a.toNat_lt)
  simpa using this

theorem toLower_xor (a : UInt8) : (toLower a ^^^ a == 0 || toLower a ^^^ a == 0x20) = true :=
  forall_uint8 (fun a => toLower a ^^^ a == 0 || toLower a ^^^ a == 0x20) (by decide +kernel) a

theorem alpha_iff_fold (a : UInt8) :
    (lightIsAlpha a == (toLower a == toLower (a ^^^ 0x20))) = true :=
  forall_uint8 (fun a => lightIsAlpha a == (toLower a == toLower (a ^^^ 0x20))) (by decide +kernel) a

theorem toLower_idem (a : UInt8) : toLower (toLower a) = toLower a := by
  have := forall_uint8 (fun a => toLower (toLower a) == toLower a) (by decide +kernel) a
  simpa using this

theorem xor_eq_iff (a b c : UInt8) : a ^^^ b = c ↔ b = a ^^^ c := by
  constructor
  · intro h; rw [← h, ← UInt8.xor_assoc, UInt8.xor_self, UInt8.zero_xor]
  · intro h; rw [h, ← UInt8.xor_assoc, UInt8.xor_self, UInt8.zero_xor]

/-- buffer_eq_icase_ssn() compares bytes up to ASCII case: its byte test is equality of the
    lower-cased bytes -/
theorem eqIcaseByte_eq (a b : UInt8) : eqIcaseByte a b = (toLower a == toLower b) := by
  by_cases hab : a = b
  · subst hab; simp [eqIcaseByte]
  · have hne : (a == b) = false := by simpa using hab
    simp only [eqIcaseByte, hne, Bool.false_or]
    by_cases hx : a ^^^ b = 0x20
    · have hb : b = a ^^^ 0x20 := (xor_eq_iff a b 0x20).1 hx
      have := alpha_iff_fold a
      rw [hb]
      simp only [beq_iff_eq] at this
      simp [this, ← UInt8.xor_assoc, UInt8.xor_self]
    · have hx' : (a ^^^ b == 0x20) = false := by simpa using hx
      simp only [hx', Bool.false_and]
      symm
      rw [beq_eq_false_iff_ne]
      intro heq
      have ha := toLower_xor a
      have hb := toLower_xor b
      simp only [Bool.or_eq_true, beq_iff_eq] at ha hb
      -- toLower a = a ^^^ m, toLower b = b ^^^ n with m, n ∈ {0, 0x20}
      have hab' : a ^^^ b = (toLower a ^^^ a) ^^^ (toLower b ^^^ b) := by
        rw [heq]
        calc a ^^^ b = (toLower b ^^^ toLower b) ^^^ (a ^^^ b) := by rw [UInt8.xor_self, UInt8.zero_xor]
          _ = toLower b ^^^ a ^^^ (toLower b ^^^ b) := by
            simp only [UInt8.xor_assoc]
            congr 1
            rw [← UInt8.xor_assoc, UInt8.xor_comm (toLower b) a, UInt8.xor_assoc]
      rcases ha with ha | ha <;> rcases hb with hb | hb <;> rw [ha, hb] at hab'
      · apply hab; have := (xor_eq_iff a b _).1 hab'; simpa using this.symm
      · exact hx (by simpa using hab')
      · exact hx (by simpa using hab')
      · apply hab; have := (xor_eq_iff a b _).1 hab'; simpa using this.symm

theorem eqIcaseN_eq : ∀ (x v : Bytes), x.length = v.length →
    eqIcaseN x v = (x.map toLower == v.map toLower)
  | [], [], _ => by simp [eqIcaseN]
  | a :: as, b :: bs, h => by
    have h' : as.length = bs.length := by simpa using h
    simp only [eqIcaseN, eqIcaseByte_eq, eqIcaseN_eq as bs h', List.map_cons]
    by_cases h1 : toLower a = toLower b <;> simp [h1]
  | [], _ :: _, h => by simp at h
  | _ :: _, [], h => by simp at h

/-! ### suffix / prefix tests -/

theorem sufMatch_nc_eq (v b : Bytes) :
    sufMatch true v b = sufMatch false (v.map toLower) (b.map toLower) := by
  unfold sufMatch
  by_cases h : v.length ≤ b.length
  · have hl : (b.drop (b.length - v.length)).length = v.length := by simp; omega
    simp [h, eqIcaseN_eq _ _ hl, List.map_drop]
  · simp [h]

theorem preMatch_nc_eq (v b : Bytes) :
    preMatch true v b = preMatch false (v.map toLower) (b.map toLower) := by
  unfold preMatch
  by_cases h : v.length ≤ b.length
  · have hl : (b.take v.length).length = v.length := by simp; omega
    simp [h, eqIcaseN_eq _ _ hl, List.map_take]
  · simp [h]

/-- the plain suffix test is `List.IsSuffix` -/
theorem sufMatch_iff (v b : Bytes) : sufMatch false v b = true ↔ v <:+ b := by
  unfold sufMatch
  constructor
  · intro h
    simp only [Bool.and_eq_true, decide_eq_true_eq, Bool.false_eq_true, ↓reduceIte, beq_iff_eq] at h
    rw [← h.2]
    exact List.drop_suffix _ _
  · intro h
    obtain ⟨t, rfl⟩ := h
    simp

/-- the plain prefix test is `List.IsPrefix` -/
theorem preMatch_iff (v b : Bytes) : preMatch false v b = true ↔ v <+: b := by
  unfold preMatch
  constructor
  · intro h
    simp only [Bool.and_eq_true, decide_eq_true_eq, Bool.false_eq_true, ↓reduceIte, beq_iff_eq] at h
    rw [← h.2]
    exact List.take_prefix _ _
  · intro h
    obtain ⟨t, rfl⟩ := h
    simp

theorem map_toLower_idem (p : Bytes) : (p.map toLower).map toLower = p.map toLower := by
  simp [List.map_map, Function.comp_def, toLower_idem]

/-- case-insensitive tests look at the lower-cased path only -/
theorem sufMatch_casefold (v p q : Bytes) (h : p.map toLower = q.map toLower) :
    sufMatch true v p = sufMatch true v q := by
  rw [sufMatch_nc_eq, sufMatch_nc_eq, h]

theorem preMatch_casefold (v p q : Bytes) (h : p.map toLower = q.map toLower) :
    preMatch true v p = preMatch true v q := by
  rw [preMatch_nc_eq, preMatch_nc_eq, h]

/-- a matching prefix still matches when the path is extended (trailing path-info) -/
theorem preMatch_append (nc : Bool) (v b x : Bytes) (h : preMatch nc v b = true) :
    preMatch nc v (b ++ x) = true := by
  cases nc
  · rw [preMatch_iff] at h ⊢
    exact h.trans (List.prefix_append _ _)
  · rw [preMatch_nc_eq, preMatch_iff] at h
    rw [preMatch_nc_eq, preMatch_iff, List.map_append]
    exact h.trans (List.prefix_append _ _)

theorem findIdx?_congr {α : Type} (p q : α → Bool) (l : List α) (h : ∀ x ∈ l, p x = q x) :
    l.findIdx? p = l.findIdx? q := by
  induction l with
  | nil => rfl
  | cons a t ih =>
    simp only [List.findIdx?_cons, h a (by simp)]
    rw [ih (fun x hx => h x (by simp [hx]))]

/-- index of the first match can only move to the front when more entries match -/
theorem findIdx?_mono {α : Type} (p q : α → Bool) (l : List α) (h : ∀ x ∈ l, p x = true → q x = true)
    (i : Nat) (hi : l.findIdx? p = some i) : ∃ j, j ≤ i ∧ l.findIdx? q = some j := by
  induction l generalizing i with
  | nil => simp at hi
  | cons a t ih =>
    simp only [List.findIdx?_cons] at hi ⊢
    by_cases hq : q a = true
    · exact ⟨0, Nat.zero_le _, by simp [hq]⟩
    · have hp : p a = false := by
        cases hpa : p a with
        | false => rfl
        | true => exact absurd (h a (by simp) hpa) hq
      simp only [hp, Bool.false_eq_true, ↓reduceIte, Option.map_eq_some_iff] at hi
      obtain ⟨k, hk, rfl⟩ := hi
      obtain ⟨j, hj, hjq⟩ := ih (fun x hx => h x (by simp [hx])) k hk
      refine ⟨j + 1, by omega, ?_⟩
      simp [hq, hjq]

/-! ### path resolution -/

theorem relPath_length (lc : Bool) (p : Bytes) : (relPath lc p).length = p.length := by
  cases lc <;> simp [relPath]

theorem relPath_take (lc : Bool) (p : Bytes) (i : Nat) : relPath lc (p.take i) = (relPath lc p).take i := by
  cases lc <;> simp [relPath, List.map_take]

theorem relPath_fold (p : Bytes) : relPath true p = p.map toLower := rfl

theorem splitGo_spec (fs : Fs) (rel : Bytes) (is : List Nat) (i : Nat) (h : splitGo fs rel is = some i) :
    i ∈ is ∧ fs (rel.take i) = some .file := by
  induction is with
  | nil => simp [splitGo] at h
  | cons k ks ih =>
    simp only [splitGo] at h
    split at h
    · obtain ⟨h1, h2⟩ := ih h
      exact ⟨by simp [h1], h2⟩
    · injection h with h; subst h
      exact ⟨by simp, by assumption⟩
    · simp at h

theorem slashIdx_lt (p : Bytes) (i : Nat) (h : i ∈ slashIdx p) : i < p.length ∧ p.getD i 0 = slash := by
  simp only [slashIdx, List.mem_filter, List.mem_range, beq_iff_eq] at h
  exact h

theorem getD_of_lt (l : Bytes) (i : Nat) (h : i < l.length) : l.getD i 0 = l[i] := by
  simp [List.getD_eq_getElem?_getD, h]

theorem walkDirs_err (fs : Fs) (p : Bytes) (is : List Nat) (e : Stat) (h : walkDirs fs p is = some e) :
    e = .enotdir ∨ e = .enoent := by
  induction is with
  | nil => simp [walkDirs] at h
  | cons k ks ih =>
    simp only [walkDirs] at h
    split at h
    · exact ih h
    · injection h with h; exact Or.inl h.symm
    · injection h with h; exact Or.inr h.symm

theorem statFull_file (fs : Fs) (rel : Bytes) (h : statFull fs rel = .ok .file) : fs rel = some .file := by
  unfold statFull at h
  simp only at h
  split at h
  · rename_i e he
    rcases walkDirs_err _ _ _ _ he with rfl | rfl <;> simp at h
  · split at h
    · simp at h
    · rename_i hf
      split at h
      · simp at h
      · rename_i hts
        simp only [hts] at hf
        simpa using hf
    · simp at h

/-- a path that resolves to a regular file: the file is the prefix of the (case-folded) path
    that is left after removing the path-info, it exists as a regular file, and the path-info
    (if any) starts at a '/' -/
theorem resolve_file (fs : Fs) (lc : Bool) (p script : Bytes) (n : Nat)
    (h : resolve fs lc p = .file script n) :
    n ≤ p.length ∧ script = relPath lc (p.take (p.length - n)) ∧ fs script = some .file ∧
      (n ≠ 0 → p.getD (p.length - n) 0 = slash) := by
  unfold resolve at h
  simp only at h
  split at h
  · -- the whole path is a regular file
    rename_i hs
    injection h with h1 h2
    subst h1 h2
    refine ⟨Nat.zero_le _, by simp, statFull_file fs _ hs, by simp⟩
  · split at h <;> simp at h
  · simp at h
  · split at h
    · rename_i i hi
      injection h with h1 h2
      obtain ⟨him, hfile⟩ := splitGo_spec fs _ _ i hi
      obtain ⟨hlt, hsl⟩ := slashIdx_lt _ i him
      rw [relPath_length] at hlt h2
      subst h1 h2
      have hk : p.length - (p.length - i) = i := by omega
      refine ⟨by omega, by rw [hk, relPath_take], hfile, fun _ => ?_⟩
      rw [hk]
      cases lc
      · simpa [relPath] using hsl
      · -- '/' is not a letter: lower-casing keeps it
        simp only [relPath, ↓reduceIte] at hsl
        have hlt' : i < p.length := hlt
        rw [getD_of_lt _ _ (by simpa using hlt')] at hsl
        rw [getD_of_lt _ _ hlt']
        simp only [List.getElem_map] at hsl
        have := forall_uint8 (fun a => !(toLower a == slash) || a == slash) (by decide +kernel) p[i]
        simpa [hsl] using this
    · simp at h

end LtVerif.Access

namespace LtVerif.Access
open LtVerif B

/-! ### the request pipeline -/

/-- what a served file has gone through (everything `serveFrom` checks before it answers 200) -/
theorem serveFrom_file (s : Server) (t : Target) (e : Env) (user : Option Bytes) (f : Bytes)
    (h : (serveFrom s t e user).file = some f) :
    ∃ n, n ≤ e.url.length ∧
      (serveFrom s t e user).status = 200 ∧
      (serveFrom s t e user).uri = e.url.take (e.url.length - n) ∧
      (serveFrom s t e user).addr = e.addr.text ∧
      f = relPath s.lc (e.url.take (e.url.length - n)) ∧
      s.fs f = some .file ∧
      (n ≠ 0 → e.url.getD (e.url.length - n) 0 = slash) ∧
      accessHook s.cfg e s.lc = true ∧
      accessHook s.cfg { e with url := e.url.take (e.url.length - n) } s.lc = true ∧
      staticExclude (listOf (setting (·.exclude) s.cfg { e with url := e.url.take (e.url.length - n) }))
        (s.docroot ++ f) = false ∧
      authPass s.cfg e s.lc user = true ∧
      ((setting (·.noPathinfo) s.cfg { e with url := e.url.take (e.url.length - n) }).getD false = true → n = 0) := by
  unfold serveFrom at h ⊢
  simp only at h ⊢
  split at h
  · simp at h
  · rename_i hacc
    split at h
    · simp at h
    · rename_i hauth
      split at h
      · simp at h
      · simp at h
      · simp at h
      · rename_i script n hres
        obtain ⟨hn, hscript, hfs, hsl⟩ := resolve_file s.fs s.lc e.url script n hres
        split at h
        · simp at h
        · rename_i hacc2
          split at h
          · simp at h
          · rename_i hnp
            split at h
            · simp at h
            · rename_i hex
              simp only [Option.some.injEq] at h
              subst h
              refine ⟨n, hn, ?_⟩
              simp only [hacc, hauth, hacc2, hnp, hex, Bool.false_eq_true, ↓reduceIte]
              refine ⟨by first | rfl | trivial, by first | rfl | trivial, by first | rfl | trivial,
                      hscript, hfs, hsl, ?_, ?_, ?_, ?_, ?_⟩
              · simpa using hacc
              · simpa using hacc2
              · simpa using hex
              · simpa using hauth
              · intro hp
                simp only [hp, Bool.true_and, bne_iff_ne, ne_eq, Decidable.not_not] at hnp
                exact hnp

/-- the decision fields of `serveFrom` do not depend on the spelling of the request-target
    (only PATH_INFO's letter case does) nor on the parse options -/
theorem serveFrom_indep (s : Server) (o : Opts) (t t' : Target) (e : Env) (user : Option Bytes) :
    (serveFrom s t e user).status = (serveFrom { s with opts := o } t' e user).status ∧
    (serveFrom s t e user).uri = (serveFrom { s with opts := o } t' e user).uri ∧
    (serveFrom s t e user).addr = (serveFrom { s with opts := o } t' e user).addr ∧
    (serveFrom s t e user).file = (serveFrom { s with opts := o } t' e user).file := by
  unfold serveFrom
  simp only
  split
  · simp
  · split
    · simp
    · split <;> try simp
      split
      · simp
      · split
        · simp
        · split <;> simp

/-- the response is `serveFrom` of the once-decoded path and the effective client address
    (mechanical unfolding of `serve`; kept as a helper, not a property theorem) -/
theorem serve_eq_serveFrom (bf : Bool) (parse : Bytes → Option SockAddr) (s : Server) (r : Req) (t : Target)
    (a : Addr) (h : parseTarget s.opts false r.target = .ok t) (ha : effAddr bf parse s r t.path = some a) :
    serve bf parse s r = serveFrom s t ⟨t.path, r.host, a⟩ r.user := by
  unfold serve
  simp [h, ha]

end LtVerif.Access

namespace LtVerif.Access
open LtVerif B

/-! ### rule lists -/

theorem matchValueSuffix_casefold (a : List Bytes) (p q : Bytes) (h : p.map toLower = q.map toLower) :
    matchValueSuffix true a p = matchValueSuffix true a q :=
  findIdx?_congr _ _ a (fun v _ => sufMatch_casefold v p q h)

theorem matchKeyPrefix_casefold (a : List Bytes) (p q : Bytes) (h : p.map toLower = q.map toLower) :
    matchKeyPrefix true a p = matchKeyPrefix true a q :=
  findIdx?_congr _ _ a (fun v _ => preMatch_casefold v p q h)

/-- case-insensitive first-match = plain first-match on lower-cased rules and path -/
theorem matchValueSuffix_nc_eq (a : List Bytes) (p : Bytes) :
    matchValueSuffix true a p = matchValueSuffix false (a.map (·.map toLower)) (p.map toLower) := by
  unfold matchValueSuffix
  rw [List.findIdx?_map]
  exact findIdx?_congr _ _ a (fun v _ => by simp [sufMatch_nc_eq])

theorem matchKeyPrefix_nc_eq (a : List Bytes) (p : Bytes) :
    matchKeyPrefix true a p = matchKeyPrefix false (a.map (·.map toLower)) (p.map toLower) := by
  unfold matchKeyPrefix
  rw [List.findIdx?_map]
  exact findIdx?_congr _ _ a (fun v _ => by simp [preMatch_nc_eq])

theorem accessCheck_casefold (allow deny : List Bytes) (p q : Bytes) (h : p.map toLower = q.map toLower) :
    accessCheck allow deny p true = accessCheck allow deny q true := by
  unfold accessCheck
  rw [matchValueSuffix_casefold allow p q h, matchValueSuffix_casefold deny p q h]

theorem accessCheck_nc_eq (allow deny : List Bytes) (p : Bytes) :
    accessCheck allow deny p true =
      accessCheck (allow.map (·.map toLower)) (deny.map (·.map toLower)) (p.map toLower) false := by
  unfold accessCheck
  rw [matchValueSuffix_nc_eq allow, matchValueSuffix_nc_eq deny]
  simp

/-! ### conditional configuration -/

theorem holds_caseBlind (sc : Scope) (hb : sc.caseBlind) (u v h : Bytes) (a : Addr)
    (huv : u.map toLower = v.map toLower) : sc.holds ⟨u, h, a⟩ = sc.holds ⟨v, h, a⟩ := by
  induction sc with
  | global => rfl
  | url op s => exact absurd hb (by simp [Scope.caseBlind])
  | urlRe neg m =>
    simp only [Scope.caseBlind] at hb
    simp [Scope.holds, hb u v huv]
  | host op s => cases op <;> rfl
  | hostRe neg m => rfl
  | ip neg net bits => rfl
  | ipRe neg m => rfl
  | both x y ihx ihy =>
    simp only [Scope.caseBlind] at hb
    simp [Scope.holds, ihx hb.1, ihy hb.2]
  | non x ih =>
    simp only [Scope.caseBlind] at hb
    simp [Scope.holds, ih hb]

theorem holds_urlFree (sc : Scope) (hb : sc.urlFree) (u v h : Bytes) (a : Addr) :
    sc.holds ⟨u, h, a⟩ = sc.holds ⟨v, h, a⟩ := by
  induction sc with
  | global => rfl
  | url op s => exact absurd hb (by simp [Scope.urlFree])
  | urlRe neg m => exact absurd hb (by simp [Scope.urlFree])
  | host op s => cases op <;> rfl
  | hostRe neg m => rfl
  | ip neg net bits => rfl
  | ipRe neg m => rfl
  | both x y ihx ihy =>
    simp only [Scope.urlFree] at hb
    simp [Scope.holds, ihx hb.1, ihy hb.2]
  | non x ih =>
    simp only [Scope.urlFree] at hb
    simp [Scope.holds, ih hb]

theorem setting_congr {α : Type} (sel : Block → Option α) (cfg : List Block) (e e' : Env)
    (h : ∀ b ∈ cfg, (sel b).isSome = true → b.scope.holds e = b.scope.holds e') :
    setting sel cfg e = setting sel cfg e' := by
  unfold setting
  generalize (none : Option α) = acc
  induction cfg generalizing acc with
  | nil => rfl
  | cons b bs ih =>
    simp only [List.foldl_cons]
    have hb := h b (by simp)
    cases hs : sel b with
    | none =>
      simp only [ite_self]
      exact ih (fun b' hb' => h b' (by simp [hb'])) acc
    | some v =>
      rw [hb (by simp [hs])]
      exact ih (fun b' hb' => h b' (by simp [hb'])) _

/-- under force-lowercase-filenames the mod_access hook looks at the lower-cased URL only,
    provided no block that assigns url.access-allow / url.access-deny compares the URL
    case-sensitively -/
theorem accessHook_casefold (cfg : List Block)
    (hcb : ∀ b ∈ cfg, (b.allow.isSome = true ∨ b.deny.isSome = true) → b.scope.caseBlind)
    (u v h : Bytes) (a : Addr) (huv : u.map toLower = v.map toLower) :
    accessHook cfg ⟨u, h, a⟩ true = accessHook cfg ⟨v, h, a⟩ true := by
  unfold accessHook
  rw [setting_congr (·.allow) cfg ⟨u, h, a⟩ ⟨v, h, a⟩
        (fun b hb hs => holds_caseBlind _ (hcb b hb (Or.inl hs)) u v h a huv),
      setting_congr (·.deny) cfg ⟨u, h, a⟩ ⟨v, h, a⟩
        (fun b hb hs => holds_caseBlind _ (hcb b hb (Or.inr hs)) u v h a huv)]
  exact accessCheck_casefold _ _ u v huv

/-! ### auth.require prefixes -/

theorem authRule_casefold (rules : List Bytes) (p q : Bytes) (h : p.map toLower = q.map toLower) :
    authRule rules p true = authRule rules q true :=
  matchKeyPrefix_casefold rules p q h

/-- a guarded path stays guarded (by the same or an earlier rule) when anything is appended -/
theorem authRule_append (rules : List Bytes) (p x : Bytes) (lc : Bool) (i : Nat)
    (h : authRule rules p lc = some i) : ∃ j, j ≤ i ∧ authRule rules (p ++ x) lc = some j :=
  findIdx?_mono _ _ rules (fun k _ hk => preMatch_append lc k p x hk) i h

theorem authRule_lt (rules : List Bytes) (p : Bytes) (lc : Bool) (i : Nat)
    (h : authRule rules p lc = some i) : i < rules.length := by
  unfold authRule matchKeyPrefix at h
  rw [List.findIdx?_eq_some_iff_getElem] at h
  exact h.1

end LtVerif.Access

namespace LtVerif.Access
open LtVerif B

/-! ### PCRE2's UTF-8 check does not depend on ASCII letter case -/

theorem u8Lead_fold (b : UInt8) : u8Lead (toLower b) = u8Lead b := by
  have := forall_uint8 (fun b => u8Lead (toLower b) == u8Lead b) (by decide +kernel) b
  simpa using this

theorem u8Has_fold (r : U8Range) (b : UInt8) : r.has (toLower b) = r.has b := by
  cases r
  all_goals
    first
    | (have := forall_uint8 (fun b => U8Range.has .r80bf (toLower b) == U8Range.has .r80bf b) (by decide +kernel) b
       simpa using this)
    | (have := forall_uint8 (fun b => U8Range.has .ra0bf (toLower b) == U8Range.has .ra0bf b) (by decide +kernel) b
       simpa using this)
    | (have := forall_uint8 (fun b => U8Range.has .r809f (toLower b) == U8Range.has .r809f b) (by decide +kernel) b
       simpa using this)
    | (have := forall_uint8 (fun b => U8Range.has .r90bf (toLower b) == U8Range.has .r90bf b) (by decide +kernel) b
       simpa using this)
    | (have := forall_uint8 (fun b => U8Range.has .r808f (toLower b) == U8Range.has .r808f b) (by decide +kernel) b
       simpa using this)

theorem u8Step_fold (st : Option U8St) (b : UInt8) : u8Step st (toLower b) = u8Step st b := by
  cases st with
  | none => rfl
  | some st => simp only [u8Step, u8Lead_fold, u8Has_fold]

theorem validUtf8_fold (u : Bytes) : validUtf8 (u.map toLower) = validUtf8 u := by
  unfold validUtf8
  rw [List.foldl_map]
  simp only [u8Step_fold]

/-- `(?i)^lit` / `(?i)lit$` (PCRE2, UTF mode) do not distinguish the letter case of the URL -/
theorem reCaselessPrefix_fold (lit u v : Bytes) (h : u.map toLower = v.map toLower) :
    reCaselessPrefix lit u = reCaselessPrefix lit v := by
  unfold reCaselessPrefix
  rw [← validUtf8_fold u, ← validUtf8_fold v, h, preMatch_casefold lit u v h]

theorem reCaselessSuffix_fold (lit u v : Bytes) (h : u.map toLower = v.map toLower) :
    reCaselessSuffix lit u = reCaselessSuffix lit v := by
  unfold reCaselessSuffix
  rw [← validUtf8_fold u, ← validUtf8_fold v, h, sufMatch_casefold lit u v h]

end LtVerif.Access

namespace LtVerif.Access
open LtVerif B

/-! ### `$HTTP["host"] ==`: names match with or without a port -/

theorem hostEq_unfold (s l : Bytes) :
    hostEq s l = if s.head? ≠ some slash ∧ l ≠ [] ∧ l.length ≠ s.length then Cond.hostPort l s else l == s := by
  simp [hostEq, Cond.eqLike, Cond.attr]

theorem getD_ne_of_not_mem (l : Bytes) (k : Nat) (x : UInt8) (hx : x ≠ 0) (h : x ∉ l) : l.getD k 0 ≠ x := by
  induction l generalizing k with
  | nil => simpa using hx.symm
  | cons a t ih =>
    cases k with
    | zero => simp only [List.getD_cons_zero]; intro e; exact h (by simp [e])
    | succ k => simp only [List.getD_cons_succ]; exact ih k (fun hm => h (by simp [hm]))

theorem colon_ne_zero : colon ≠ 0 := by decide

theorem getD_colon_iff (n port : Bytes) (k : Nat) (hn : colon ∉ n) (hp : colon ∉ port) :
    (n ++ colon :: port).getD k 0 = colon ↔ k = n.length := by
  induction n generalizing k with
  | nil =>
    cases k with
    | zero => simp
    | succ k =>
      simp only [List.nil_append, List.getD_cons_succ, List.length_nil]
      constructor
      · intro e; exact absurd e (getD_ne_of_not_mem port k colon colon_ne_zero hp)
      · intro e; omega
  | cons a t ih =>
    cases k with
    | zero =>
      simp only [List.cons_append, List.getD_cons_zero, List.length_cons]
      constructor
      · intro e; exact absurd (by simp [e]) hn
      · intro e; omega
    | succ k =>
      simp only [List.cons_append, List.getD_cons_succ, List.length_cons]
      rw [ih k (fun hm => hn (by simp [hm]))]
      omega

/-- against a configured name without port, an authority without port matches iff it is that name -/
theorem hostEq_plain (s n : Bytes) (hs : colon ∉ s) (hn : colon ∉ n) :
    hostEq s n = (n == s) := by
  rw [hostEq_unfold]
  split
  · rename_i h
    obtain ⟨_, _, hlen⟩ := h
    have hne : (n == s) = false := by
      rw [beq_eq_false_iff_ne]; intro e; exact hlen (by rw [e])
    rw [hne]
    unfold Cond.hostPort
    split
    · have := getD_ne_of_not_mem n s.length colon colon_ne_zero hn
      simp only [List.getD_eq_getElem?_getD] at this
      simp [this]
    · have := getD_ne_of_not_mem s n.length colon colon_ne_zero hs
      simp only [List.getD_eq_getElem?_getD] at this
      simp [this]
  · rfl

/-- … and an authority `name:port` (port of at most five characters) matches iff `name` is that
    name: the port-tolerant comparison (`llen - dlen <= 6`) -/
theorem hostEq_port (s n port : Bytes) (hs : colon ∉ s) (hn : colon ∉ n) (hp : colon ∉ port)
    (hsl : s.head? ≠ some slash) (hlen : port.length ≤ 5) :
    hostEq s (n ++ colon :: port) = (n == s) := by
  rw [hostEq_unfold]
  have hl : (n ++ colon :: port).length = n.length + 1 + port.length := by simp; omega
  have hmem : colon ∈ n ++ colon :: port := by simp
  by_cases hsn : s.length = n.length
  · -- same length as the name part: the byte after it is ':' and at most 6 bytes follow
    have hc : s.head? ≠ some slash ∧ n ++ colon :: port ≠ [] ∧ (n ++ colon :: port).length ≠ s.length :=
      ⟨hsl, by simp, by omega⟩
    rw [if_pos hc]
    unfold Cond.hostPort
    have hgt : (n ++ colon :: port).length > s.length := by omega
    rw [if_pos hgt]
    have h1 : (n ++ colon :: port).getD s.length 0 = colon := (getD_colon_iff n port _ hn hp).2 hsn
    have h2 : (n ++ colon :: port).take s.length = n := by rw [hsn]; simp
    simp only [h1, h2, beq_self_eq_true, Bool.true_and]
    have h3 : (n ++ colon :: port).length - s.length ≤ 6 := by omega
    simp only [h3, decide_true, Bool.true_and]
  · have hne : (n == s) = false := by
      rw [beq_eq_false_iff_ne]; intro e; exact hsn (by rw [e])
    rw [hne]
    split
    · unfold Cond.hostPort
      split
      · have : (n ++ colon :: port).getD s.length 0 ≠ colon := by
          intro e; exact hsn ((getD_colon_iff n port _ hn hp).1 e)
        simp only [beq_eq_false_iff_ne.2 this, Bool.false_and]
      · have := getD_ne_of_not_mem s (n ++ colon :: port).length colon colon_ne_zero hs
        simp only [beq_eq_false_iff_ne.2 this, Bool.false_and]
    · rw [beq_eq_false_iff_ne]
      intro e
      exact hs (e ▸ hmem)

/-- conditions that cannot tell `name` from `name:port` evaluate alike on both -/
theorem holds_portBlind (sc : Scope) (hb : sc.portBlind) (u n port : Bytes) (a : Addr)
    (hn : colon ∉ n) (hp : colon ∉ port) (hlen : port.length ≤ 5) :
    sc.holds ⟨u, n ++ colon :: port, a⟩ = sc.holds ⟨u, n, a⟩ := by
  induction sc with
  | global => rfl
  | url op s => rfl
  | urlRe neg m => rfl
  | host op s =>
    cases op with
    | eq =>
      simp only [Scope.portBlind] at hb
      simp only [Scope.holds, hostEq_port s n port hb.1 hn hp hb.2 hlen, hostEq_plain s n hb.1 hn]
    | ne =>
      simp only [Scope.portBlind] at hb
      simp only [Scope.holds, hostEq_port s n port hb.1 hn hp hb.2 hlen, hostEq_plain s n hb.1 hn]
    | prefix_ => exact absurd hb (by simp [Scope.portBlind])
    | suffix => exact absurd hb (by simp [Scope.portBlind])
  | hostRe neg m =>
    simp only [Scope.portBlind] at hb
    simp [Scope.holds, hb n port hn hp hlen]
  | ip neg net bits => rfl
  | ipRe neg m => rfl
  | both x y ihx ihy =>
    simp only [Scope.portBlind] at hb
    simp [Scope.holds, ihx hb.1, ihy hb.2]
  | non x ih =>
    simp only [Scope.portBlind] at hb
    simp [Scope.holds, ih hb]

/-- the whole response depends on the authority only through the conditions of the configuration -/
theorem serve_host_congr (bf : Bool) (parse : Bytes → Option SockAddr) (s : Server) (r : Req) (h' : Bytes)
    (hh : ∀ b ∈ s.cfg, ∀ u a, b.scope.holds ⟨u, h', a⟩ = b.scope.holds ⟨u, r.host, a⟩) :
    serve bf parse s { r with host := h' } = serve bf parse s r := by
  have hset : ∀ {α : Type} (sel : Block → Option α) (u : Bytes) (a : Addr),
      setting sel s.cfg ⟨u, h', a⟩ = setting sel s.cfg ⟨u, r.host, a⟩ :=
    fun sel u a => setting_congr sel s.cfg _ _ (fun b hb _ => hh b hb u a)
  unfold serve effAddr extConf
  simp only [hset]
  split
  · rfl
  · split
    · rfl
    · unfold serveFrom accessHook authPass authHook authRules
      simp only [hset]

end LtVerif.Access

namespace LtVerif.Access
open LtVerif B

/-! ### mod_simple_vhost cuts the authority at the first ':' -/

theorem hostPart_port (n port : Bytes) (hn : colon ∉ n) : hostPart (n ++ colon :: port) = n := by
  unfold hostPart
  induction n with
  | nil => simp
  | cons a t ih =>
    have ha : a ≠ colon := fun e => hn (by simp [e])
    simp only [List.cons_append, List.takeWhile_cons, ha, ne_eq, not_false_eq_true, decide_true, ↓reduceIte]
    rw [ih (fun hm => hn (by simp [hm]))]

theorem hostPart_plain (n : Bytes) (hn : colon ∉ n) : hostPart n = n := by
  unfold hostPart
  induction n with
  | nil => rfl
  | cons a t ih =>
    have ha : a ≠ colon := fun e => hn (by simp [e])
    simp only [List.takeWhile_cons, ha, ne_eq, not_false_eq_true, decide_true, ↓reduceIte]
    rw [ih (fun hm => hn (by simp [hm]))]

end LtVerif.Access
