/-
  Helper lemmas for the machine-arithmetic model (Model/Arith.lean), C12.
-/
import LtVerif.Model.Arith
import LtVerif.Proofs.Range
namespace LtVerif
namespace Arith
open B

theorem u8_all {P : UInt8 → Prop} (h : ∀ n, n < 256 → P (UInt8.ofNat n)) (b : UInt8) : P b := by
  have := h b.toNat b.toNat_lt
  simpa using this

theorem i64Max_eq : i64Max = 9223372036854775807 := by decide
theorem i64Min_eq : i64Min = -9223372036854775808 := by decide
theorem u32Max_eq : u32Max = 4294967295 := by decide
theorem uszMax_eq : uszMax = 18446744073709551615 := by decide
theorem u16Max_eq : u16Max = 65535 := by decide

theorem inI64_iff (x : Int) : inI64 x = true ↔ (-9223372036854775808 ≤ x ∧ x ≤ 9223372036854775807) := by
  simp [inI64, i64Max_eq, i64Min_eq]

set_option maxRecDepth 4000 in
theorem digit_sub (b : UInt8) : (b - 48 > 9) = !isDigit b := by
  revert b; apply u8_all; decide
set_option maxRecDepth 4000 in
theorem digit_val_le (b : UInt8) : isDigit b = true → (b - 48).toNat ≤ 9 := by
  revert b; apply u8_all; decide

def decFrom (a : Nat) (v : Bytes) : Nat := v.foldl (fun a d => a * 10 + (d - 48).toNat) a

theorem decFrom_ge (v : Bytes) : ∀ a, a ≤ decFrom a v := by
  induction v with
  | nil => intro a; simp [decFrom]
  | cons b rest ih =>
    intro a
    have := ih (a * 10 + (b - 48).toNat)
    simp only [decFrom, List.foldl_cons] at this ⊢
    omega

theorem strtoI64Go_cons (b : UInt8) (rest : Bytes) (a i : Nat) (ha : a ≤ 9223372036854775807) :
    strtoI64Go (b :: rest) (a : Int) i =
      if isDigit b = false then .ok ((a : Int), i)
      else if a > 922337203685477580 then .ok ((a : Int), i)
      else if a * 10 + (b - 48).toNat > 9223372036854775807 then .ok (((a * 10 : Nat) : Int), i)
      else strtoI64Go rest ((a * 10 + (b - 48).toNat : Nat) : Int) (i + 1) := by
  by_cases hd : isDigit b = true
  · have hc : ¬ (b - 48 > 9) := by rw [digit_sub]; simp [hd]
    have hv := digit_val_le b hd
    simp only [strtoI64Go, if_neg hc, hd, Bool.true_eq_false, if_false]
    by_cases h1 : a > 922337203685477580
    · have h1' : (a : Int) > i64Max / 10 := by rw [i64Max_eq]; omega
      simp only [if_pos h1', if_pos h1]
    · have h1' : ¬ ((a : Int) > i64Max / 10) := by rw [i64Max_eq]; omega
      have hr10 : inI64 ((a : Int) * 10) = true := by rw [inI64_iff]; omega
      have hlim : inI64 (i64Max - ((b - 48).toNat : Int)) = true := by rw [inI64_iff, i64Max_eq]; omega
      simp only [if_neg h1', if_neg h1, hr10, hlim, Bool.not_true, Bool.false_eq_true, if_false]
      by_cases h2 : a * 10 + (b - 48).toNat > 9223372036854775807
      · have h2' : (a : Int) * 10 > i64Max - ((b - 48).toNat : Int) := by rw [i64Max_eq]; omega
        simp only [if_pos h2', if_pos h2]
        simp
      · have h2' : ¬ ((a : Int) * 10 > i64Max - ((b - 48).toNat : Int)) := by rw [i64Max_eq]; omega
        have hr : inI64 ((a : Int) * 10 + ((b - 48).toNat : Int)) = true := by rw [inI64_iff]; omega
        simp only [if_neg h2', if_neg h2, hr, Bool.not_true, Bool.false_eq_true, if_false]
        simp
  · have hc : (b - 48 > 9) := by rw [digit_sub]; simp [hd]
    have hd' : isDigit b = false := by simpa using hd
    simp only [strtoI64Go, if_pos hc, hd', if_true]

theorem strtoI64Go_spec (rest : Bytes) : ∀ (a i : Nat), a ≤ 9223372036854775807 →
    ∃ rv i', strtoI64Go rest (a : Int) i = .ok (((rv : Nat) : Int), i') ∧ rv ≤ 9223372036854775807 ∧
      i ≤ i' ∧ i' ≤ i + rest.length ∧
      (i' = i + rest.length ↔ (rest.all isDigit = true ∧ decFrom a rest ≤ 9223372036854775807)) ∧
      (i' = i + rest.length → rv = decFrom a rest) := by
  induction rest with
  | nil =>
    intro a i ha
    exact ⟨a, i, by simp [strtoI64Go], ha, by omega, by simp, by simp [decFrom, ha], by simp [decFrom]⟩
  | cons b rest ih =>
    intro a i ha
    rw [strtoI64Go_cons b rest a i ha]
    have hdec : decFrom a (b :: rest) = decFrom (a * 10 + (b - 48).toNat) rest := by simp [decFrom]
    have hge := decFrom_ge rest (a * 10 + (b - 48).toNat)
    have hlen : (b :: rest).length = rest.length + 1 := by simp
    by_cases hd : isDigit b = false
    · rw [if_pos hd]
      refine ⟨a, i, rfl, ha, by omega, by omega, ?_, ?_⟩
      · constructor
        · intro h; omega
        · intro ⟨h, _⟩; simp [hd] at h
      · intro h; omega
    · rw [if_neg hd]
      have hd' : isDigit b = true := by simpa using hd
      by_cases h1 : a > 922337203685477580
      · rw [if_pos h1]
        refine ⟨a, i, rfl, ha, by omega, by omega, ?_, ?_⟩
        · constructor
          · intro h; omega
          · intro ⟨_, h⟩; omega
        · intro h; omega
      · rw [if_neg h1]
        by_cases h2 : a * 10 + (b - 48).toNat > 9223372036854775807
        · rw [if_pos h2]
          refine ⟨a * 10, i, rfl, by omega, by omega, by omega, ?_, ?_⟩
          · constructor
            · intro h; omega
            · intro ⟨_, h⟩; omega
          · intro h; omega
        · rw [if_neg h2]
          obtain ⟨rv, i', he, hrv, hi1, hi2, hiff, hval⟩ := ih (a * 10 + (b - 48).toNat) (i + 1) (by omega)
          refine ⟨rv, i', he, hrv, by omega, by omega, ?_, ?_⟩
          · rw [hdec, hlen]
            constructor
            · intro h
              have := hiff.mp (by omega)
              exact ⟨by simp [hd', this.1], this.2⟩
            · intro ⟨h1, h2⟩
              have : rest.all isDigit = true := by simp [hd'] at h1; simpa using h1
              have := hiff.mpr ⟨this, h2⟩
              omega
          · intro h; rw [hdec]; exact hval (by omega)


/-! ### chunk-size accumulation -/

set_option maxRecDepth 4000 in
theorem hexVal_le (b u : UInt8) : hexVal b = some u → u.toNat ≤ 15 := by
  revert u; revert b; apply u8_all; decide +kernel

/-- `te <<= 4; te |= u` is `te * 16 + u` (the low four bits of the shifted value are zero) -/
theorem shl4_or (t u : Nat) (hu : u < 16) : (t <<< 4) ||| u = t * 16 + u := by
  have := Nat.two_pow_add_eq_or_of_lt (i := 4) (b := u) (by simpa using hu) t
  rw [Nat.shiftLeft_eq]
  simp only [Nat.reducePow] at this ⊢
  rw [Nat.mul_comm t 16]
  omega

/-- largest value the accumulator can hold after a shift when the guard passed -/
def ckTeMax : Nat := 9223372036854775775      -- (2^59-3)*16 + 15 = 2^63 - 33

theorem ckHex_spec (guard : Int) (hg : guard ≤ 576460752303423485) (line : Bytes) :
    ∀ (t k : Nat), t ≤ ckTeMax →
      (∀ w, ckHex guard line (t : Int) k ≠ .ub w) ∧
      (∀ te k' r, ckHex guard line (t : Int) k = .ok te k' r →
        ∃ n : Nat, te = (n : Int) ∧ n ≤ ckTeMax ∧ n = hexValue line t ∧ k ≤ k') := by
  induction line with
  | nil =>
    intro t k ht
    simp only [ckHex, hexValue]
    refine ⟨(by intro w h; cases h), ?_⟩
    intro te k' r h
    injection h with h1 h2 h3
    exact ⟨t, h1.symm, ht, rfl, by omega⟩
  | cons b rest ih =>
    intro t k ht
    cases hb : hexVal b with
    | none =>
      simp only [ckHex, hexValue, hb]
      refine ⟨(by intro w h; cases h), ?_⟩
      intro te k' r h
      injection h with h1 h2 h3
      exact ⟨t, h1.symm, ht, rfl, by omega⟩
    | some u =>
      have hu := hexVal_le b u hb
      simp only [ckHex, hexValue, hb]
      by_cases h1 : (t : Int) > guard
      · simp only [if_pos h1]
        exact ⟨(by intro w h; cases h), (by intro te k' r h; cases h)⟩
      · have hneg : ¬ ((t : Int) < 0) := by omega
        have hsh : inI64 ((t : Int) * 16) = true := by rw [inI64_iff]; omega
        have hor : inI64 ((t : Int) * 16 + (u.toNat : Int)) = true := by rw [inI64_iff]; omega
        simp only [if_neg h1, if_neg hneg, hsh, hor, Bool.not_true, Bool.false_eq_true, if_false]
        have hcast : ((t : Int) * 16 + (u.toNat : Int)) = ((t * 16 + u.toNat : Nat) : Int) := by simp
        rw [hcast]
        have ht' : t * 16 + u.toNat ≤ ckTeMax := by unfold ckTeMax at *; omega
        obtain ⟨ih1, ih2⟩ := ih (t * 16 + u.toNat) (k + 1) ht'
        refine ⟨ih1, ?_⟩
        intro te k' r h
        obtain ⟨n, hn1, hn2, hn3, hn4⟩ := ih2 te k' r h
        exact ⟨n, hn1, hn2, hn3, by omega⟩

theorem splitLf_length (data : Bytes) : ∀ (acc line rest : Bytes),
    splitLf data acc = some (line, rest) → line.length + rest.length = acc.length + data.length := by
  induction data with
  | nil => intro acc line rest h; simp [splitLf] at h
  | cons b t ih =>
    intro acc line rest h
    simp only [splitLf] at h
    split at h
    · simp only [Option.some.injEq, Prod.mk.injEq] at h
      obtain ⟨h1, h2⟩ := h
      subst h1; subst h2
      simp; omega
    · have := ih _ _ _ h
      simp at this ⊢; omega

/-- acceptable outcomes of the chunk-header step: never `ub`; a remaining-length counter is a
    non-negative off_t and no more bytes are moved than were supplied -/
def CkGood (dataLen : Nat) : CkOut → Prop
  | .ub _ => False
  | .ok te moved _ _ => 0 ≤ te ∧ te ≤ 9223372036854775777 ∧ moved ≤ dataLen
  | _ => True

theorem ckGuardH1_le : Extracted.ckGuardH1 ≤ 576460752303423485 := by decide
theorem ckGuardGw_le : Extracted.ckGuardGw ≤ 576460752303423485 := by decide
theorem ckInMemMax_eq : Extracted.ckInMemMax = 65536 := by decide

theorem ck1_good (msKB : Nat) (bytesIn : Int) (data : Bytes) (hms : msKB ≤ 4294967295)
    (hin0 : 0 ≤ bytesIn) (hin : bytesIn + data.length ≤ 9223372036854775807) :
    CkGood data.length (ck1 msKB bytesIn data) := by
  unfold ck1
  split
  · simp [CkGood]
  · split
    · split <;> simp [CkGood]
    · rename_i line rest hsplit
      have hlen := splitLf_length data [] line rest hsplit
      simp only [List.length_nil, Nat.zero_add] at hlen
      obtain ⟨hub, hok⟩ := ckHex_spec Extracted.ckGuardH1 ckGuardH1_le line 0 0 (by unfold ckTeMax; omega)
      split
      · rename_i w h; exact absurd h (hub w)
      · simp [CkGood]
      · rename_i te k after h
        obtain ⟨n, hn1, hn2, _, _⟩ := hok te k after h
        subst hn1
        unfold ckTeMax at hn2
        split
        · simp [CkGood]
        · split
          · simp [CkGood]
          · split
            · split <;> simp [CkGood]
            · have h1 : inI64 ((msKB : Int) * 1024) = true := by rw [inI64_iff]; omega
              have h2 : inI64 ((n : Int) + 2) = true := by rw [inI64_iff]; omega
              have h3 : inI64 (Extracted.ckInMemMax - bytesIn) = true := by
                rw [inI64_iff, ckInMemMax_eq]; omega
              simp only [h1, h2, h3, Bool.not_true, Bool.false_eq_true, if_false]
              split
              · simp [CkGood]
              · generalize hnn : (if ((rest.length : Nat) : Int) > (n : Int) + 2 - 2 then (n : Int) + 2 - 2
                    else ((rest.length : Nat) : Int)) = nn
                have hb : 0 ≤ nn ∧ nn ≤ rest.length ∧ nn ≤ n := by
                  split at hnn <;> omega
                have h4 : inI64 (bytesIn + nn) = true := by rw [inI64_iff]; omega
                simp only [h4, Bool.not_true, Bool.false_eq_true, if_false]
                split
                · simp only [CkGood]
                  refine ⟨by omega, by omega, ?_⟩
                  omega
                · simp [CkGood]

theorem ck2_good (data : Bytes) (hlen' : data.length ≤ 9223372036854775807) :
    CkGood data.length (ck2 data) := by
  unfold ck2
  split
  · simp [CkGood]
  · split
    · split <;> simp [CkGood]
    · rename_i line rest hsplit
      have hlen := splitLf_length data [] line rest hsplit
      simp only [List.length_nil, Nat.zero_add] at hlen
      obtain ⟨hub, hok⟩ := ckHex_spec Extracted.ckGuardGw ckGuardGw_le line 0 0 (by unfold ckTeMax; omega)
      split
      · rename_i w h; exact absurd h (hub w)
      · simp [CkGood]
      · rename_i te k after h
        obtain ⟨n, hn1, hn2, _, _⟩ := hok te k after h
        subst hn1
        unfold ckTeMax at hn2
        split
        · simp [CkGood]
        · split
          · split <;> simp [CkGood]
          · have h2 : inI64 ((n : Int) + 2) = true := by rw [inI64_iff]; omega
            simp only [h2, Bool.not_true, Bool.false_eq_true, if_false]
            split
            · simp only [CkGood]; omega
            · generalize hnn : (if (n : Int) + 2 - 2 > ((rest.length : Nat) : Int) then ((rest.length : Nat) : Int)
                  else (n : Int) + 2 - 2) = nn
              have hb : 0 ≤ nn ∧ nn ≤ rest.length ∧ nn ≤ n := by
                split at hnn <;> omega
              split
              · simp only [CkGood]
                refine ⟨by omega, by omega, ?_⟩
                omega
              · simp [CkGood]


/-! ### http_header_parse_hoff() -/

theorem hoffBreak_lt_dim : Extracted.hoffBreak < Extracted.hoffDim := by decide
theorem hoffBreak_le_u16 : Extracted.hoffBreak ≤ u16Max := by decide

/-- loop invariant of http_header_parse_hoff() -/
structure HoffInv (init0 : Nat) (st : HoffSt) : Prop where
  cnt_lo : init0 ≤ st.cnt
  cnt_hi : st.cnt < Extracted.hoffBreak
  wr : ∀ iv ∈ st.writes, init0 < iv.1 ∧ iv.1 ≤ st.cnt ∧ iv.2 ≤ st.hlen

/-- what holds when http_header_parse_hoff() returns `ret` -/
structure HoffPost (init0 total ret : Nat) (st : HoffSt) : Prop where
  cnt_hi : st.cnt ≤ Extracted.hoffBreak
  idx : ∀ iv ∈ st.writes, init0 < iv.1 ∧ iv.1 < Extracted.hoffDim ∧ iv.2 ≤ st.hlen
  hlen : st.hlen ≤ total
  ret : ret = 0 ∨ (ret = st.hlen ∧ (st.cnt + 1, ret) ∈ st.writes ∧ st.cnt < Extracted.hoffBreak)

theorem hoffGo_post (init0 : Nat) (bs : Bytes) : ∀ (x : Nat) (prev : UInt8) (st : HoffSt),
    HoffInv init0 st → st.hlen + x + bs.length ≤ u32Max →
    ∃ ret st', hoffGo bs x prev st = .ok (ret, st') ∧ HoffPost init0 (st.hlen + x + bs.length) ret st' := by
  have hbd := hoffBreak_lt_dim
  have hb16 := hoffBreak_le_u16
  induction bs with
  | nil =>
    intro x prev st hinv htot
    refine ⟨0, st, rfl, ?_⟩
    exact ⟨Nat.le_of_lt hinv.cnt_hi,
      (fun iv h => by have := hinv.wr iv h; have := hinv.cnt_hi; omega),
      (by omega), Or.inl rfl⟩
  | cons b rest ih =>
    intro x prev st hinv htot
    simp only [List.length_cons] at htot
    by_cases hb : b = lf
    · simp only [hoffGo, if_pos hb, hoffLine]
      have h1 : ¬ (st.hlen + (x + 1) > u32Max) := by omega
      simp only [if_neg h1]
      by_cases ht : (decide (x + 1 ≤ 2) && (decide (x + 1 = 1) || decide (prev = cr))) = true
      · simp only [if_pos ht]
        have h2 : ¬ (st.cnt + 1 ≥ Extracted.hoffDim) := by have := hinv.cnt_hi; omega
        simp only [if_neg h2]
        refine ⟨st.hlen + (x + 1), _, rfl, ?_⟩
        refine ⟨Nat.le_of_lt hinv.cnt_hi, ?_, (by simp only [List.length_cons]; omega), Or.inr ⟨rfl, by simp, hinv.cnt_hi⟩⟩
        intro iv h
        simp only [List.mem_append, List.mem_singleton] at h
        rcases h with h | h
        · have := hinv.wr iv h; have := hinv.cnt_hi; simp only; omega
        · subst h; have := hinv.cnt_lo; have := hinv.cnt_hi; simp only; omega
      · simp only [if_neg ht]
        have h2 : ¬ (st.cnt + 1 > u16Max) := by have := hinv.cnt_hi; omega
        simp only [if_neg h2]
        by_cases h3 : st.cnt + 1 ≥ Extracted.hoffBreak
        · simp only [if_pos h3]
          refine ⟨0, _, rfl, ?_⟩
          refine ⟨(by have := hinv.cnt_hi; simp only; omega), ?_, (by simp only [List.length_cons]; omega), Or.inl rfl⟩
          intro iv h
          have := hinv.wr iv h; have := hinv.cnt_hi; simp only; omega
        · simp only [if_neg h3]
          have h4 : ¬ (st.cnt + 1 ≥ Extracted.hoffDim) := by omega
          simp only [if_neg h4]
          have hinv' : HoffInv init0
              ⟨st.cnt + 1, st.hlen + (x + 1), st.writes ++ [(st.cnt + 1, st.hlen + (x + 1))]⟩ := by
            refine ⟨(by have := hinv.cnt_lo; simp only; omega), (by simp only; omega), ?_⟩
            intro iv h
            simp only [List.mem_append, List.mem_singleton] at h
            rcases h with h | h
            · have := hinv.wr iv h; simp only; omega
            · subst h; have := hinv.cnt_lo; simp only; omega
          obtain ⟨ret, st', he, hp⟩ := ih 0 b _ hinv' (by simp only; omega)
          refine ⟨ret, st', he, ?_⟩
          simp only [List.length_cons] at hp ⊢
          have e : st.hlen + (x + 1) + 0 + rest.length = st.hlen + x + (rest.length + 1) := by omega
          rw [← e]; exact hp
    · simp only [hoffGo, if_neg hb]
      obtain ⟨ret, st', he, hp⟩ := ih (x + 1) b st hinv (by omega)
      refine ⟨ret, st', he, ?_⟩
      simp only [List.length_cons]
      have e : st.hlen + (x + 1) + rest.length = st.hlen + x + (rest.length + 1) := by omega
      rw [← e]; exact hp


end Arith
end LtVerif
