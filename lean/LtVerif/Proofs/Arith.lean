/-
  Helper lemmas for the machine-arithmetic model (Model/Arith.lean), C12.
-/
import LtVerif.Model.Arith
import LtVerif.Model.H1Chunked
namespace LtVerif
namespace Arith
open B

theorem u8_all {P : UInt8 → Prop} (h : ∀ n, n < 256 → P (UInt8.ofNat n)) (b : UInt8) : P b := by
  have := h b.toNat b.toNat_lt
  simpa using this

theorem i64Max_eq : i64Max = 9223372036854775807 := by decide
theorem i64Min_eq : i64Min = -9223372036854775808 := by decide
theorem u32Max_eq : u32Max = 4294967295 := by decide
theorem uszMax_eq : uszMax = 18446744073709551615 := by decide
theorem u16Max_eq : u16Max = 65535 := by decide

theorem inI64_iff (x : Int) : inI64 x = true ↔ (-9223372036854775808 ≤ x ∧ x ≤ 9223372036854775807) := by
  simp [inI64, i64Max_eq, i64Min_eq]

set_option maxRecDepth 4000 in
theorem digit_sub (b : UInt8) : (b - 48 > 9) = !isDigit b := by
  revert b; apply u8_all; decide
set_option maxRecDepth 4000 in
theorem digit_val_le (b : UInt8) : isDigit b = true → (b - 48).toNat ≤ 9 := by
  revert b; apply u8_all; decide

def decFrom (a : Nat) (v : Bytes) : Nat := v.foldl (fun a d => a * 10 + (d - 48).toNat) a

theorem decFrom_ge (v : Bytes) : ∀ a, a ≤ decFrom a v := by
  induction v with
  | nil => intro a; simp [decFrom]
  | cons b rest ih =>
    intro a
    have := ih (a * 10 + (b - 48).toNat)
    simp only [decFrom, List.foldl_cons] at this ⊢
    omega

theorem strtoI64Go_cons (b : UInt8) (rest : Bytes) (a i : Nat) (ha : a ≤ 9223372036854775807) :
    strtoI64Go (b :: rest) (a : Int) i =
      if isDigit b = false then .ok ((a : Int), i)
      else if a > 922337203685477580 then .ok ((a : Int), i)
      else if a * 10 + (b - 48).toNat > 9223372036854775807 then .ok (((a * 10 : Nat) : Int), i)
      else strtoI64Go rest ((a * 10 + (b - 48).toNat : Nat) : Int) (i + 1) := by
  by_cases hd : isDigit b = true
  · have hc : ¬ (b - 48 > 9) := by rw [digit_sub]; simp [hd]
    have hv := digit_val_le b hd
    simp only [strtoI64Go, if_neg hc, hd, Bool.true_eq_false, if_false]
    by_cases h1 : a > 922337203685477580
    · have h1' : (a : Int) > i64Max / 10 := by rw [i64Max_eq]; omega
      simp only [if_pos h1', if_pos h1]
    · have h1' : ¬ ((a : Int) > i64Max / 10) := by rw [i64Max_eq]; omega
      have hr10 : inI64 ((a : Int) * 10) = true := by rw [inI64_iff]; omega
      have hlim : inI64 (i64Max - ((b - 48).toNat : Int)) = true := by rw [inI64_iff, i64Max_eq]; omega
      simp only [if_neg h1', if_neg h1, hr10, hlim, Bool.not_true, Bool.false_eq_true, if_false]
      by_cases h2 : a * 10 + (b - 48).toNat > 9223372036854775807
      · have h2' : (a : Int) * 10 > i64Max - ((b - 48).toNat : Int) := by rw [i64Max_eq]; omega
        simp only [if_pos h2', if_pos h2]
        simp
      · have h2' : ¬ ((a : Int) * 10 > i64Max - ((b - 48).toNat : Int)) := by rw [i64Max_eq]; omega
        have hr : inI64 ((a : Int) * 10 + ((b - 48).toNat : Int)) = true := by rw [inI64_iff]; omega
        simp only [if_neg h2', if_neg h2, hr, Bool.not_true, Bool.false_eq_true, if_false]
        simp
  · have hc : (b - 48 > 9) := by rw [digit_sub]; simp [hd]
    have hd' : isDigit b = false := by simpa using hd
    simp only [strtoI64Go, if_pos hc, hd', if_true]

theorem strtoI64Go_spec (rest : Bytes) : ∀ (a i : Nat), a ≤ 9223372036854775807 →
    ∃ rv i', strtoI64Go rest (a : Int) i = .ok (((rv : Nat) : Int), i') ∧ rv ≤ 9223372036854775807 ∧
      i ≤ i' ∧ i' ≤ i + rest.length ∧
      (i' = i + rest.length ↔ (rest.all isDigit = true ∧ decFrom a rest ≤ 9223372036854775807)) ∧
      (i' = i + rest.length → rv = decFrom a rest) := by
  induction rest with
  | nil =>
    intro a i ha
    exact ⟨a, i, by simp [strtoI64Go], ha, by omega, by simp, by simp [decFrom, ha], by simp [decFrom]⟩
  | cons b rest ih =>
    intro a i ha
    rw [strtoI64Go_cons b rest a i ha]
    have hdec : decFrom a (b :: rest) = decFrom (a * 10 + (b - 48).toNat) rest := by simp [decFrom]
    have hge := decFrom_ge rest (a * 10 + (b - 48).toNat)
    have hlen : (b :: rest).length = rest.length + 1 := by simp
    by_cases hd : isDigit b = false
    · rw [if_pos hd]
      refine ⟨a, i, rfl, ha, by omega, by omega, ?_, ?_⟩
      · constructor
        · intro h; omega
        · intro ⟨h, _⟩; simp [hd] at h
      · intro h; omega
    · rw [if_neg hd]
      have hd' : isDigit b = true := by simpa using hd
      by_cases h1 : a > 922337203685477580
      · rw [if_pos h1]
        refine ⟨a, i, rfl, ha, by omega, by omega, ?_, ?_⟩
        · constructor
          · intro h; omega
          · intro ⟨_, h⟩; omega
        · intro h; omega
      · rw [if_neg h1]
        by_cases h2 : a * 10 + (b - 48).toNat > 9223372036854775807
        · rw [if_pos h2]
          refine ⟨a * 10, i, rfl, by omega, by omega, by omega, ?_, ?_⟩
          · constructor
            · intro h; omega
            · intro ⟨_, h⟩; omega
          · intro h; omega
        · rw [if_neg h2]
          obtain ⟨rv, i', he, hrv, hi1, hi2, hiff, hval⟩ := ih (a * 10 + (b - 48).toNat) (i + 1) (by omega)
          refine ⟨rv, i', he, hrv, by omega, by omega, ?_, ?_⟩
          · rw [hdec, hlen]
            constructor
            · intro h
              have := hiff.mp (by omega)
              exact ⟨by simp [hd', this.1], this.2⟩
            · intro ⟨h1, h2⟩
              have : rest.all isDigit = true := by simp [hd'] at h1; simpa using h1
              have := hiff.mpr ⟨this, h2⟩
              omega
          · intro h; rw [hdec]; exact hval (by omega)


/-! ### chunk-size accumulation -/

set_option maxRecDepth 4000 in
theorem hexVal_le (b u : UInt8) : hexVal b = some u → u.toNat ≤ 15 := by
  revert u; revert b; apply u8_all; decide +kernel

/-- `te <<= 4; te |= u` is `te * 16 + u` (the low four bits of the shifted value are zero) -/
theorem shl4_or (t u : Nat) (hu : u < 16) : (t <<< 4) ||| u = t * 16 + u := by
  have := Nat.two_pow_add_eq_or_of_lt (i := 4) (b := u) (by simpa using hu) t
  rw [Nat.shiftLeft_eq]
  simp only [Nat.reducePow] at this ⊢
  rw [Nat.mul_comm t 16]
  omega

/-- largest value the accumulator can hold after a shift when the guard passed -/
def ckTeMax : Nat := 9223372036854775775      -- (2^59-3)*16 + 15 = 2^63 - 33

theorem ckHex_spec (guard : Int) (hg : guard ≤ 576460752303423485) (line : Bytes) :
    ∀ (t k : Nat), t ≤ ckTeMax →
      (∀ w, ckHex guard line (t : Int) k ≠ .ub w) ∧
      (∀ te k' r, ckHex guard line (t : Int) k = .ok te k' r →
        ∃ n : Nat, te = (n : Int) ∧ n ≤ ckTeMax ∧ n = hexValue line t ∧ k ≤ k') := by
  induction line with
  | nil =>
    intro t k ht
    simp only [ckHex, hexValue]
    refine ⟨(by intro w h; cases h), ?_⟩
    intro te k' r h
    injection h with h1 h2 h3
    exact ⟨t, h1.symm, ht, rfl, by omega⟩
  | cons b rest ih =>
    intro t k ht
    cases hb : hexVal b with
    | none =>
      simp only [ckHex, hexValue, hb]
      refine ⟨(by intro w h; cases h), ?_⟩
      intro te k' r h
      injection h with h1 h2 h3
      exact ⟨t, h1.symm, ht, rfl, by omega⟩
    | some u =>
      have hu := hexVal_le b u hb
      simp only [ckHex, hexValue, hb]
      by_cases h1 : (t : Int) > guard
      · simp only [if_pos h1]
        exact ⟨(by intro w h; cases h), (by intro te k' r h; cases h)⟩
      · have hneg : ¬ ((t : Int) < 0) := by omega
        have hsh : inI64 ((t : Int) * 16) = true := by rw [inI64_iff]; omega
        have hor : inI64 ((t : Int) * 16 + (u.toNat : Int)) = true := by rw [inI64_iff]; omega
        simp only [if_neg h1, if_neg hneg, hsh, hor, Bool.not_true, Bool.false_eq_true, if_false]
        have hcast : ((t : Int) * 16 + (u.toNat : Int)) = ((t * 16 + u.toNat : Nat) : Int) := by simp
        rw [hcast]
        have ht' : t * 16 + u.toNat ≤ ckTeMax := by unfold ckTeMax at *; omega
        obtain ⟨ih1, ih2⟩ := ih (t * 16 + u.toNat) (k + 1) ht'
        refine ⟨ih1, ?_⟩
        intro te k' r h
        obtain ⟨n, hn1, hn2, hn3, hn4⟩ := ih2 te k' r h
        exact ⟨n, hn1, hn2, hn3, by omega⟩

theorem lfIdx_lt (data : Bytes) : ∀ (i j : Nat), lfIdx data i = some j → i ≤ j ∧ j < i + data.length := by
  induction data with
  | nil => intro i j h; simp [lfIdx] at h
  | cons b t ih =>
    intro i j h
    simp only [lfIdx] at h
    split at h
    · simp only [Option.some.injEq] at h; subst h; simp
    · have := ih _ _ h; simp only [List.length_cons]; omega

theorem splitLf_length (data : Bytes) (acc line rest : Bytes)
    (h : splitLf data acc = some (line, rest)) : line.length + rest.length = acc.length + data.length := by
  unfold splitLf at h
  split at h
  · simp at h
  · rename_i i hi
    have := lfIdx_lt data 0 i hi
    simp only [Option.some.injEq, Prod.mk.injEq] at h
    obtain ⟨h1, h2⟩ := h
    subst h1; subst h2
    simp only [List.length_append, List.length_take, List.length_drop]
    omega

/-- acceptable outcomes of the chunk-header step: never `ub`; a remaining-length counter is a
    non-negative off_t and no more bytes are moved than were supplied -/
def CkGood (dataLen : Nat) : CkOut → Prop
  | .ub _ => False
  | .ok te moved _ _ => 0 ≤ te ∧ te ≤ 9223372036854775777 ∧ moved ≤ dataLen
  | _ => True

theorem ckGuardH1_le : Extracted.ckGuardH1 ≤ 576460752303423485 := by decide
theorem ckGuardGw_le : Extracted.ckGuardGw ≤ 576460752303423485 := by decide
theorem ckInMemMax_eq : Extracted.ckInMemMax = 65536 := by decide

theorem ck1_good (msKB : Nat) (bytesIn : Int) (data : Bytes) (hms : msKB ≤ 4294967295)
    (hin0 : 0 ≤ bytesIn) (hin : bytesIn + data.length ≤ 9223372036854775807) :
    CkGood data.length (ck1 msKB bytesIn data) := by
  unfold ck1
  split
  · simp [CkGood]
  · split
    · split <;> simp [CkGood]
    · rename_i line rest hsplit
      have hlen := splitLf_length data [] line rest hsplit
      simp only [List.length_nil, Nat.zero_add] at hlen
      obtain ⟨hub, hok⟩ := ckHex_spec Extracted.ckGuardH1 ckGuardH1_le line 0 0 (by unfold ckTeMax; omega)
      split
      · rename_i w h; exact absurd h (hub w)
      · simp [CkGood]
      · rename_i te k after h
        obtain ⟨n, hn1, hn2, _, _⟩ := hok te k after h
        subst hn1
        unfold ckTeMax at hn2
        split
        · simp [CkGood]
        · split
          · simp [CkGood]
          · split
            · split <;> simp [CkGood]
            · have h1 : inI64 ((msKB : Int) * 1024) = true := by rw [inI64_iff]; omega
              have h2 : inI64 ((n : Int) + 2) = true := by rw [inI64_iff]; omega
              have h3 : inI64 (Extracted.ckInMemMax - bytesIn) = true := by
                rw [inI64_iff, ckInMemMax_eq]; omega
              simp only [h1, h2, h3, Bool.not_true, Bool.false_eq_true, if_false]
              split
              · simp [CkGood]
              · generalize hnn : (if ((rest.length : Nat) : Int) > (n : Int) + 2 - 2 then (n : Int) + 2 - 2
                    else ((rest.length : Nat) : Int)) = nn
                have hb : 0 ≤ nn ∧ nn ≤ rest.length ∧ nn ≤ n := by
                  split at hnn <;> omega
                have h4 : inI64 (bytesIn + nn) = true := by rw [inI64_iff]; omega
                simp only [h4, Bool.not_true, Bool.false_eq_true, if_false]
                split
                · simp only [CkGood]
                  refine ⟨by omega, by omega, ?_⟩
                  omega
                · simp [CkGood]

theorem ck2_good (data : Bytes) (hlen' : data.length ≤ 9223372036854775807) :
    CkGood data.length (ck2 data) := by
  unfold ck2
  split
  · simp [CkGood]
  · split
    · split <;> simp [CkGood]
    · rename_i line rest hsplit
      have hlen := splitLf_length data [] line rest hsplit
      simp only [List.length_nil, Nat.zero_add] at hlen
      obtain ⟨hub, hok⟩ := ckHex_spec Extracted.ckGuardGw ckGuardGw_le line 0 0 (by unfold ckTeMax; omega)
      split
      · simp [CkGood]
      · split
        · rename_i w h; exact absurd h (hub w)
        · simp [CkGood]
        · rename_i te k after h
          obtain ⟨n, hn1, hn2, _, _⟩ := hok te k after h
          subst hn1
          unfold ckTeMax at hn2
          split
          · simp [CkGood]
          · split
            · split <;> simp [CkGood]
            · have h2 : inI64 ((n : Int) + 2) = true := by rw [inI64_iff]; omega
              simp only [h2, Bool.not_true, Bool.false_eq_true, if_false]
              split
              · simp only [CkGood]; omega
              · generalize hnn : (if (n : Int) + 2 - 2 > ((rest.length : Nat) : Int) then ((rest.length : Nat) : Int)
                    else (n : Int) + 2 - 2) = nn
                have hb : 0 ≤ nn ∧ nn ≤ rest.length ∧ nn ≤ n := by
                  split at hnn <;> omega
                split
                · simp only [CkGood]
                  refine ⟨by omega, by omega, ?_⟩
                  omega
                · simp [CkGood]


/-! ### http_header_parse_hoff() -/

theorem hoffBreak_lt_dim : Extracted.hoffBreak < Extracted.hoffDim := by decide
theorem hoffBreak_le_u16 : Extracted.hoffBreak ≤ u16Max := by decide

/-- loop invariant of http_header_parse_hoff() -/
structure HoffInv (init0 : Nat) (st : HoffSt) : Prop where
  cnt_lo : init0 ≤ st.cnt
  cnt_hi : st.cnt < Extracted.hoffBreak
  wr : ∀ iv ∈ st.writes, init0 < iv.1 ∧ iv.1 ≤ st.cnt ∧ iv.2 ≤ st.hlen

/-- what holds when http_header_parse_hoff() returns `ret` -/
structure HoffPost (init0 total ret : Nat) (st : HoffSt) : Prop where
  cnt_hi : st.cnt ≤ Extracted.hoffBreak
  idx : ∀ iv ∈ st.writes, init0 < iv.1 ∧ iv.1 < Extracted.hoffDim ∧ iv.2 ≤ st.hlen
  hlen : st.hlen ≤ total
  ret : ret = 0 ∨ (ret = st.hlen ∧ (st.cnt + 1, ret) ∈ st.writes ∧ st.cnt < Extracted.hoffBreak)

theorem hoffGo_post (init0 : Nat) (bs : Bytes) : ∀ (x : Nat) (prev : UInt8) (st : HoffSt),
    HoffInv init0 st → st.hlen + x + bs.length ≤ u32Max →
    ∃ ret st', hoffGo bs x prev st = .ok (ret, st') ∧ HoffPost init0 (st.hlen + x + bs.length) ret st' := by
  have hbd := hoffBreak_lt_dim
  have hb16 := hoffBreak_le_u16
  induction bs with
  | nil =>
    intro x prev st hinv htot
    refine ⟨0, st, rfl, ?_⟩
    exact ⟨Nat.le_of_lt hinv.cnt_hi,
      (fun iv h => by have := hinv.wr iv h; have := hinv.cnt_hi; omega),
      (by omega), Or.inl rfl⟩
  | cons b rest ih =>
    intro x prev st hinv htot
    simp only [List.length_cons] at htot
    by_cases hb : b = lf
    · simp only [hoffGo, if_pos hb, hoffLine]
      have h1 : ¬ (st.hlen + (x + 1) > u32Max) := by omega
      simp only [if_neg h1]
      by_cases ht : (decide (x + 1 ≤ 2) && (decide (x + 1 = 1) || decide (prev = cr))) = true
      · simp only [if_pos ht]
        have h2 : ¬ (st.cnt + 1 ≥ Extracted.hoffDim) := by have := hinv.cnt_hi; omega
        simp only [if_neg h2]
        refine ⟨st.hlen + (x + 1), _, rfl, ?_⟩
        refine ⟨Nat.le_of_lt hinv.cnt_hi, ?_, (by simp only [List.length_cons]; omega), Or.inr ⟨rfl, by simp, hinv.cnt_hi⟩⟩
        intro iv h
        simp only [List.mem_append, List.mem_singleton] at h
        rcases h with h | h
        · have := hinv.wr iv h; have := hinv.cnt_hi; simp only; omega
        · subst h; have := hinv.cnt_lo; have := hinv.cnt_hi; simp only; omega
      · simp only [if_neg ht]
        have h2 : ¬ (st.cnt + 1 > u16Max) := by have := hinv.cnt_hi; omega
        simp only [if_neg h2]
        by_cases h3 : st.cnt + 1 ≥ Extracted.hoffBreak
        · simp only [if_pos h3]
          refine ⟨0, _, rfl, ?_⟩
          refine ⟨(by have := hinv.cnt_hi; simp only; omega), ?_, (by simp only [List.length_cons]; omega), Or.inl rfl⟩
          intro iv h
          have := hinv.wr iv h; have := hinv.cnt_hi; simp only; omega
        · simp only [if_neg h3]
          have h4 : ¬ (st.cnt + 1 ≥ Extracted.hoffDim) := by omega
          simp only [if_neg h4]
          have hinv' : HoffInv init0
              ⟨st.cnt + 1, st.hlen + (x + 1), st.writes ++ [(st.cnt + 1, st.hlen + (x + 1))]⟩ := by
            refine ⟨(by have := hinv.cnt_lo; simp only; omega), (by simp only; omega), ?_⟩
            intro iv h
            simp only [List.mem_append, List.mem_singleton] at h
            rcases h with h | h
            · have := hinv.wr iv h; simp only; omega
            · subst h; have := hinv.cnt_lo; simp only; omega
          obtain ⟨ret, st', he, hp⟩ := ih 0 b _ hinv' (by simp only; omega)
          refine ⟨ret, st', he, ?_⟩
          simp only [List.length_cons] at hp ⊢
          have e : st.hlen + (x + 1) + 0 + rest.length = st.hlen + x + (rest.length + 1) := by omega
          rw [← e]; exact hp
    · simp only [hoffGo, if_neg hb]
      obtain ⟨ret, st', he, hp⟩ := ih (x + 1) b st hinv (by omega)
      refine ⟨ret, st', he, ?_⟩
      simp only [List.length_cons]
      have e : st.hlen + (x + 1) + rest.length = st.hlen + x + (rest.length + 1) := by omega
      rw [← e]; exact hp


/-! ### buffer.c growth -/

theorem pow2From_spec : ∀ (fuel sz psz : Nat), 0 < sz → psz ≤ sz * 2 ^ fuel →
    psz ≤ pow2From fuel sz psz ∧ (pow2From fuel sz psz = sz ∨ pow2From fuel sz psz < 2 * psz) := by
  intro fuel
  induction fuel with
  | zero => intro sz psz h0 h; simp only [pow2From]; simp at h; exact ⟨h, Or.inl trivial⟩
  | succ fuel ih =>
    intro sz psz h0 h
    simp only [pow2From]
    by_cases hlt : sz < psz
    · simp only [if_pos hlt]
      have e : sz * 2 ^ (fuel + 1) = sz * 2 * 2 ^ fuel := by
        rw [Nat.pow_succ, Nat.mul_assoc, Nat.mul_comm (2 ^ fuel) 2]
      obtain ⟨h1, h2⟩ := ih (sz * 2) psz (by omega) (by rw [← e]; exact h)
      refine ⟨h1, Or.inr ?_⟩
      rcases h2 with h2 | h2 <;> omega
    · simp only [if_neg hlt]
      exact ⟨by omega, Or.inl trivial⟩

theorem piece_eq : Extracted.bufferPieceSize = 64 := by decide
theorem cIntMax_eq : Extracted.cIntMax = 2147483647 := by decide

theorem or_one_bounds (x : Nat) (h : x < 4294967296) : x ≤ x ||| 1 ∧ x ||| 1 < 4294967296 := by
  refine ⟨Nat.left_le_or, ?_⟩
  have := @Nat.or_lt_two_pow x 1 32 (by simpa using h) (by decide)
  simpa using this

/-- buffer_realloc(): for requests up to 2^32-65 the force_assert holds, the allocation has room
    for `len` bytes plus the NUL, and the size fits the 32-bit field (nothing is truncated) -/
theorem or_one_le (x : Nat) : x ||| 1 ≤ x + 1 := by
  have hx : x = 2 * (x / 2) + x % 2 := by omega
  have h2 := Nat.two_pow_add_eq_or_of_lt (i := 1) (b := 1) (by decide) (x / 2)
  simp only [Nat.pow_one] at h2
  rcases Nat.mod_two_eq_zero_or_one x with h | h
  · have e : x = 2 * (x / 2) := by omega
    rw [e, ← h2]; omega
  · have e : x = 2 * (x / 2) ||| 1 := by rw [← h2]; omega
    rw [e, Nat.or_assoc, Nat.or_self, ← e]; omega

theorem bufReallocSz_spec (len : Nat) (h : len ≤ 4294967231) :
    ∃ sz, bufReallocSz len = some sz ∧ len + 1 ≤ sz ∧ sz ≤ 4294967295 ∧ sz ≤ 2 * len + 258 := by
  unfold bufReallocSz
  simp only [piece_eq, cIntMax_eq, wrapSz, uszMax_eq]
  have hw : (len + 1 + (64 - 1)) % (18446744073709551615 + 1) = len + 64 := by
    rw [Nat.mod_eq_of_lt] <;> omega
  rw [hw]
  generalize hq : (len + 64) / 64 * 64 = q
  have hq1 : len + 1 ≤ q := by omega
  have hq2 : q ≤ len + 64 := by omega
  have hgt : ¬ ((!decide (q > len)) = true) := by simp; omega
  simp only [if_neg hgt]
  by_cases hc : (decide (q &&& (q - 1) ≠ 0) && decide (q < 2147483647)) = true
  · simp only [if_pos hc]
    have hlt : q < 2147483647 := by
      simp only [Bool.and_eq_true, decide_eq_true_eq] at hc; exact hc.2
    obtain ⟨h1, h2⟩ := pow2From_spec 64 256 q (by omega) (by simp only [Nat.reducePow]; omega)
    have hr : pow2From 64 256 q < 4294967296 := by rcases h2 with h2 | h2 <;> omega
    have := or_one_bounds _ hr
    have hle := or_one_le (pow2From 64 256 q)
    exact ⟨_, rfl, by omega, by omega, by rcases h2 with h2 | h2 <;> omega⟩
  · simp only [if_neg hc]
    have := or_one_bounds q (by omega)
    have hle := or_one_le q
    exact ⟨_, rfl, by omega, by omega, by omega⟩

theorem bufRealloc_spec (b : Buf) (len : Nat) (h : len ≤ 4294967231) :
    ∃ sz, bufRealloc b len = .ok { b with size := sz } ∧ len + 1 ≤ sz ∧ sz ≤ 4294967295 ∧ sz ≤ 2 * len + 258 := by
  obtain ⟨sz, h1, h2, h3, h4⟩ := bufReallocSz_spec len h
  refine ⟨sz, ?_, h2, h3, h4⟩
  simp only [bufRealloc, h1, wrap32, u32Max_eq]
  rw [Nat.mod_eq_of_lt (by omega)]

theorem bsize2x_bounds (size : Nat) : size - 1 ≤ bsize2x size / 2 ∧ bsize2x size ≤ 2 * size ∧ bsize2x size % 4 = 0 := by
  unfold bsize2x; omega


theorem bufLen_le (b : Buf) (hwf : b.used ≤ b.size) : bufLen b ≤ b.size := by
  unfold bufLen; split <;> omega

theorem hasRoom_iff (b : Buf) (n : Nat) (hwf : b.used ≤ b.size) (hs : b.size ≤ 4294967295)
    (hn : n < 18446744073709551615) : hasRoom b n = true ↔ bufLen b + n + 1 ≤ b.size := by
  have hl := bufLen_le b hwf
  simp only [hasRoom, wrap32, wrapSz, u32Max_eq, uszMax_eq, decide_eq_true_eq]
  rw [Nat.mod_eq_of_lt (a := n + 1) (by omega)]
  omega

theorem decSz_pos (x : Nat) (h1 : 0 < x) (h2 : x ≤ 18446744073709551615) : decSz x = x - 1 := by
  simp only [decSz, wrapSz, uszMax_eq]; omega

/-- buffer_string_prepare_append(): within the supported domain (current size below 2^31-32,
    resulting length at most 2^32-65) no assertion fires, the size arithmetic does not wrap, the
    recorded size fits its 32-bit field, the string is kept and there is room for `n` more bytes
    plus the terminating NUL. -/
theorem prepareAppend_spec (b : Buf) (n : Nat) (hwf : b.used ≤ b.size) (hsz : b.size ≤ 2147483616)
    (hn : b.used + n ≤ 4294967231) :
    ∃ b', prepareAppend b n = .ok b' ∧ bufLen b' = bufLen b ∧ bufLen b' + n + 1 ≤ b'.size ∧
      b'.used ≤ b'.size ∧ b'.size ≤ 4294967295 ∧ (b'.used = b.used ∨ (b.used = 1 ∧ b'.used = 0)) ∧
      (b'.size = b.size ∨ (b.size < bufLen b + n + 1 ∧ b'.size ≤ 2 * (2 * b.size + b.used + n) + 258)) := by
  unfold prepareAppend
  by_cases hr : hasRoom b n = true
  · simp only [if_pos hr]
    have := (hasRoom_iff b n hwf (by omega) (by omega)).mp hr
    exact ⟨b, rfl, rfl, this, hwf, by omega, Or.inl rfl, Or.inl rfl⟩
  · simp only [if_neg hr]
    have hnr : ¬ (bufLen b + n + 1 ≤ b.size) := fun h => hr ((hasRoom_iff b n hwf (by omega) (by omega)).mpr h)
    have hb2 := bsize2x_bounds b.size
    unfold prepareAppendResize
    by_cases hu : b.used < 2
    · simp only [if_pos hu, prepareCopy]
      have hl0 : bufLen b = 0 := by unfold bufLen; split <;> omega
      by_cases hns : n < b.size
      · simp only [if_pos hns]
        refine ⟨⟨0, b.size⟩, rfl, ?_, ?_, by simp, by simp only; omega, ?_, Or.inl rfl⟩
        · rw [hl0]; simp [bufLen]
        · simp only [bufLen]; simp; omega
        · simp; omega
      · simp only [if_neg hns]
        generalize harg : (if bsize2x b.size > n then decSz (bsize2x b.size) else n) = arg
        have harg' : n ≤ arg ∧ arg ≤ 4294967231 := by
          split at harg
          · rw [decSz_pos _ (by omega) (by omega)] at harg; omega
          · omega
        have harg2 : arg ≤ 2 * b.size + n := by
          split at harg
          · rw [decSz_pos _ (by omega) (by omega)] at harg; omega
          · omega
        obtain ⟨sz, h1, h2, h3, h4⟩ := bufRealloc_spec ⟨0, b.size⟩ arg harg'.2
        refine ⟨_, h1, ?_, ?_, by simp, by simp only; omega, ?_, Or.inr ⟨by omega, by show sz ≤ _; omega⟩⟩
        · rw [hl0]; simp [bufLen]
        · simp only [bufLen]; simp; omega
        · simp; omega
    · simp only [if_neg hu]
      have hlen : bufLen b = b.used - 1 := by unfold bufLen; split <;> omega
      have hd : wrapSz (bsize2x b.size + (uszMax + 1) - b.used) = bsize2x b.size - b.used := by
        simp only [wrapSz, uszMax_eq]; omega
      rw [hd]
      generalize hreq : (if bsize2x b.size - b.used > n then decSz (bsize2x b.size) else wrapSz (b.used + n)) = req
      have hreq' : b.used ≤ req ∧ req ≤ 4294967231 ∧ b.used + n ≤ req + 1 ∧ req ≤ 2 * b.size + b.used + n := by
        split at hreq
        · rw [decSz_pos _ (by omega) (by omega)] at hreq; omega
        · simp only [wrapSz, uszMax_eq] at hreq; omega
      have hge : ¬ ((!decide (req ≥ b.used)) = true) := by simp; omega
      simp only [if_neg hge]
      obtain ⟨sz, h1, h2, h3, h4⟩ := bufRealloc_spec b req hreq'.2.1
      refine ⟨_, h1, ?_, ?_, (by show b.used ≤ sz; omega), (by show sz ≤ 4294967295; omega), Or.inl rfl,
        Or.inr ⟨by omega, by show sz ≤ _; omega⟩⟩
      · simp [bufLen]
      · simp only [bufLen]; split <;> omega


/-- buffer_commit() after a successful prepare: the new length is exact (no 32-bit truncation) -/
theorem commit_spec (b : Buf) (m : Nat) (h : bufLen b + m + 1 ≤ 4294967295) :
    commit b m = .ok ⟨bufLen b + m + 1, b.size⟩ := by
  unfold commit bufLen
  by_cases h0 : b.used = 0
  · simp only [h0, if_true] at h ⊢
    have h1 : ¬ (m + 1 > uszMax) := by rw [uszMax_eq]; simp only [bufLen, h0] at h; omega
    simp only [if_neg h1, wrap32, u32Max_eq]
    simp only [bufLen, h0, ne_eq, not_true_eq_false, if_false] at h
    rw [Nat.mod_eq_of_lt (by omega)]
    simp; omega
  · simp only [if_neg h0] at h ⊢
    simp only [bufLen, ne_eq, h0, not_false_eq_true, if_true] at h
    have h1 : ¬ (m + b.used > uszMax) := by rw [uszMax_eq]; omega
    simp only [if_neg h1, wrap32, u32Max_eq, ne_eq, h0, not_false_eq_true, if_true]
    rw [Nat.mod_eq_of_lt (by omega)]
    congr 1
    simp; omega

theorem extend_spec (b : Buf) (n : Nat) (hwf : b.used ≤ b.size) (hsz : b.size ≤ 2147483616)
    (hn : b.used + n ≤ 4294967231) :
    ∃ b', extend b n = .ok b' ∧ b'.used = bufLen b + n + 1 ∧ b'.used ≤ b'.size ∧ b'.size ≤ 4294967295 := by
  obtain ⟨b1, h1, h2, h3, h4, h5, _, _⟩ := prepareAppend_spec b n hwf hsz hn
  have hl := bufLen_le b hwf
  have e : extend b n = match prepareAppend b n with
      | .abort => .abort
      | .ok b' => .ok { b' with used := wrap32 (bufLen b + n + 1) } := rfl
  rw [e, h1]
  have hw : wrap32 (bufLen b + n + 1) = bufLen b + n + 1 := by
    simp only [wrap32, u32Max_eq]; rw [Nat.mod_eq_of_lt]; unfold bufLen; split <;> omega
  refine ⟨_, rfl, hw, ?_, h5⟩
  show wrap32 (bufLen b + n + 1) ≤ b1.size
  rw [hw, ← h2]; exact h3


/-! ### HTTP/2 length checks -/

/-- padding that follows the fragment / data when the PADDED flag is set -/
def padOf (flags : UInt8) (pad : Nat) : Nat := if has flags flagPadded then pad else 0

theorem subU_ok (a b : Nat) (w : String) (h : b ≤ a) : subU a b w = .ok (a - b) := by
  simp [subU, h]

theorem h2HeadersLen_spec (flen : Nat) (flags : UInt8) (pad : Nat) :
    (∀ w, h2HeadersLen flen flags pad ≠ .ub w) ∧
    (∀ off alen, h2HeadersLen flen flags pad = .ok off alen → off + alen + padOf flags pad = flen) := by
  unfold h2HeadersLen padOf subU
  by_cases hp : has flags flagPadded = true
  · by_cases h1 : flen < 1 + pad
    · simp [hp, h1]
    · have h1' : 1 + pad ≤ flen := by omega
      by_cases hq : has flags flagPriority = true
      · by_cases h2 : flen - (1 + pad) < 5
        · simp [hp, h1, h1', hq, h2]
        · have h2' : 5 ≤ flen - (1 + pad) := by omega
          simp [hp, h1, h1', hq, h2, h2']; omega
      · simp [hp, h1, h1', hq]; omega
  · by_cases hq : has flags flagPriority = true
    · by_cases h2 : flen < 5
      · simp [hp, hq, h2]
      · have h2' : 5 ≤ flen := by omega
        simp [hp, hq, h2, h2']
    · simp [hp, hq]

theorem h2DataLen_spec (len : Nat) (flags : UInt8) (pad : Nat) :
    (∀ w, h2DataLen len flags pad ≠ .ub w) ∧
    (∀ off alen, h2DataLen len flags pad = .ok off alen → off + alen + padOf flags pad = len) := by
  unfold h2DataLen padOf
  by_cases hp : has flags flagPadded = true
  · by_cases h1 : pad ≥ len
    · simp [hp, h1]
    · have h1' : 1 + pad ≤ len := by omega
      simp [hp, h1, h1', subU]; omega
  · simp [hp]


/-! ### h2_recv_continuation() -/

theorem u24_lt (bs : Bytes) (i : Nat) : u24 bs i < 16777216 := by
  unfold u24
  have h1 := (bs.getD i 0).toNat_lt
  have h2 := (bs.getD (i + 1) 0).toNat_lt
  have h3 := (bs.getD (i + 2) 0).toNat_lt
  omega

theorem h2ContCap_eq : Extracted.h2ContCap = 65536 := by decide

/-- the CONTINUATION frames from offset `n` to `nEnd` are complete in `buf`; the last one (and
    only the last one) carries END_HEADERS -/
inductive Frames (buf : Bytes) : Nat → Nat → Prop
  | last (n : Nat) : n + 9 + u24 buf n ≤ buf.length → has (buf.getD (n + 4) 0) flagEndHeaders = true →
      Frames buf n (n + 9 + u24 buf n)
  | more (n nEnd : Nat) : n + 9 + u24 buf n ≤ buf.length → has (buf.getD (n + 4) 0) flagEndHeaders = false →
      Frames buf (n + 9 + u24 buf n) nEnd → Frames buf n nEnd

theorem contScan_spec (fsize id : Nat) (buf : Bytes) (hlen : buf.length ≤ 2147483648) :
    ∀ (fuel n loops : Nat), n ≤ buf.length → buf.length + 1 ≤ fuel + n →
      (∀ w l, contScan fsize id buf fuel n loops ≠ .inl (.ub w, l)) ∧
      (∀ nEnd l, contScan fsize id buf fuel n loops = .inr (nEnd, l) →
        Frames buf n nEnd ∧ nEnd < Extracted.h2ContCap ∧ nEnd ≤ buf.length ∧ n + 9 ≤ nEnd) ∧
      (∀ need l, contScan fsize id buf fuel n loops = .inl (.incomplete need, l) →
        buf.length < need ∧ (need ≤ Extracted.h2ContCap + 8 ∨ need ≤ n + 9)) := by
  intro fuel
  induction fuel with
  | zero => intro n loops h1 h2; omega
  | succ fuel ih =>
    intro n loops h1 h2
    have hf := u24_lt buf n
    simp only [contScan, u32Max_eq]
    have c1 : ¬ (n + 9 > 4294967295) := by omega
    simp only [if_neg c1]
    by_cases c2 : buf.length < n + 9
    · simp only [if_pos c2]
      refine ⟨(by intro w l h; cases h), (by intro nEnd l h; cases h), ?_⟩
      intro need l h
      simp only [Sum.inl.injEq, Prod.mk.injEq, ScanStop.incomplete.injEq] at h
      obtain ⟨h, _⟩ := h; subst h
      exact ⟨c2, Or.inr (Nat.le_refl _)⟩
    · simp only [if_neg c2]
      by_cases c3 : buf.getD (n + 3) 0 ≠ 9
      · simp only [if_pos c3]
        exact ⟨(by intro w l h; cases h), (by intro nEnd l h; cases h), (by intro need l h; cases h)⟩
      · simp only [if_neg c3]
        by_cases c4 : id ≠ u32be buf (n + 5)
        · simp only [if_pos c4]
          exact ⟨(by intro w l h; cases h), (by intro nEnd l h; cases h), (by intro need l h; cases h)⟩
        · simp only [if_neg c4]
          by_cases c5 : u24 buf n > fsize
          · simp only [if_pos c5]
            exact ⟨(by intro w l h; cases h), (by intro nEnd l h; cases h), (by intro need l h; cases h)⟩
          · simp only [if_neg c5]
            have c6 : ¬ (n + 9 + u24 buf n > 4294967295) := by omega
            simp only [if_neg c6]
            by_cases c7 : n + 9 + u24 buf n ≥ Extracted.h2ContCap
            · simp only [if_pos c7]
              exact ⟨(by intro w l h; cases h), (by intro nEnd l h; cases h), (by intro need l h; cases h)⟩
            · simp only [if_neg c7]
              by_cases c8 : buf.length < n + 9 + u24 buf n
              · simp only [if_pos c8]
                refine ⟨(by intro w l h; cases h), (by intro nEnd l h; cases h), ?_⟩
                intro need l h
                simp only [Sum.inl.injEq, Prod.mk.injEq, ScanStop.incomplete.injEq] at h
                obtain ⟨h, _⟩ := h; subst h
                exact ⟨c8, Or.inl (by omega)⟩
              · simp only [if_neg c8]
                by_cases c9 : has (buf.getD (n + 4) 0) flagEndHeaders = true
                · simp only [if_pos c9]
                  refine ⟨(by intro w l h; cases h), ?_, (by intro need l h; cases h)⟩
                  intro nEnd l h
                  simp only [Sum.inr.injEq, Prod.mk.injEq] at h
                  obtain ⟨h, _⟩ := h
                  subst h
                  exact ⟨Frames.last n (by omega) c9, by omega, by omega, by omega⟩
                · simp only [if_neg c9]
                  obtain ⟨i1, i2, i3⟩ := ih (n + 9 + u24 buf n) (loops + 1) (by omega) (by omega)
                  refine ⟨i1, ?_, ?_⟩
                  · intro nEnd l h
                    obtain ⟨f, g1, g2, g3⟩ := i2 nEnd l h
                    exact ⟨Frames.more n nEnd (by omega) (by simpa using c9) f, g1, g2, by omega⟩
                  · intro need l h
                    obtain ⟨g1, g2⟩ := i3 need l h
                    exact ⟨g1, Or.inl (by rcases g2 with g2 | g2 <;> omega)⟩

theorem contMerge_spec (buf : Bytes) {n nEnd : Nat} (hf : Frames buf n nEnd) :
    ∀ (fuel m : Nat) (acc : Bytes), m ≤ n → buf.length + 1 ≤ fuel + n →
      ∃ m' acc', contMerge buf fuel n m acc = .ok (nEnd, m', acc') ∧ m ≤ m' ∧
        m' + (n - m) + 9 ≤ nEnd ∧ acc'.length = acc.length + (m' - m) := by
  induction hf with
  | last n h1 h2 =>
    intro fuel m acc hm hfuel
    cases fuel with
    | zero => omega
    | succ fuel =>
      simp only [contMerge]
      have c1 : ¬ (n + 9 > buf.length) := by omega
      have c2 : ¬ (n + 9 + u24 buf n > buf.length) := by omega
      have c3 : ¬ (m > n) := by omega
      simp only [if_neg c1, if_neg c2, if_neg c3, if_pos h2]
      refine ⟨_, _, rfl, by omega, by omega, ?_⟩
      simp only [List.length_append, List.length_take, List.length_drop]
      omega
  | more n nEnd h1 h2 _ ih =>
    intro fuel m acc hm hfuel
    cases fuel with
    | zero => omega
    | succ fuel =>
      simp only [contMerge]
      have c1 : ¬ (n + 9 > buf.length) := by omega
      have c2 : ¬ (n + 9 + u24 buf n > buf.length) := by omega
      have c3 : ¬ (m > n) := by omega
      have c4 : ¬ (has (buf.getD (n + 4) 0) flagEndHeaders = true) := by rw [h2]; decide
      simp only [if_neg c1, if_neg c2, if_neg c3, if_neg c4]
      obtain ⟨m', acc', e, g1, g3, g4⟩ := ih fuel (m + u24 buf n)
        (acc ++ (buf.drop (n + 9)).take (u24 buf n)) (by omega) (by omega)
      refine ⟨m', acc', e, by omega, by omega, ?_⟩
      rw [g4]
      simp only [List.length_append, List.length_take, List.length_drop]
      omega


/-- h2_recv_continuation(): with the first frame complete in the buffer, no offset computation
    wraps, nothing is read or moved outside the data present, the accumulated length stays
    below the 64 KiB cap and the rewritten buffer is not longer than the original -/
theorem h2Cont_spec (fsize : Nat) (buf : Bytes) (h0 : 9 + u24 buf 0 ≤ buf.length)
    (hlen : buf.length ≤ 2147483648) :
    (∀ w, h2Cont fsize buf ≠ .ub w) ∧
    (∀ m out calm, h2Cont fsize buf = .merged m out calm →
      9 ≤ m ∧ m < Extracted.h2ContCap ∧ m ≤ out.length ∧ out.length ≤ buf.length) ∧
    (∀ need calm, h2Cont fsize buf = .incomplete need calm →
      buf.length < need ∧ (need ≤ Extracted.h2ContCap + 8 ∨ need ≤ 9 + u24 buf 0 + 9)) := by
  unfold h2Cont
  simp only []
  obtain ⟨s1, s2, s3⟩ := contScan_spec fsize (u31be buf 5) buf hlen (buf.length + 1) (9 + u24 buf 0) 0 h0 (by omega)
  cases hs : contScan fsize (u31be buf 5) buf (buf.length + 1) (9 + u24 buf 0) 0 with
  | inl p =>
    obtain ⟨o, l⟩ := p
    cases o with
    | ub w => exact absurd hs (s1 w l)
    | incomplete need =>
      refine ⟨(by intro w h; cases h), (by intro m out calm h; cases h), ?_⟩
      intro need' calm h
      simp only [ContOut.incomplete.injEq] at h
      obtain ⟨h, _⟩ := h; subst h
      exact s3 need l hs
    | goaway code => exact ⟨(by intro w h; cases h), (by intro m out calm h; cases h), (by intro need calm h; cases h)⟩
  | inr p =>
    obtain ⟨nEnd, loops⟩ := p
    obtain ⟨hfr, hcap, hend, hge⟩ := s2 nEnd loops hs
    simp only []
    generalize hk : (if has (buf.getD (9 + u24 buf 0 + 4) 0) flagPriority = true then 5 else 0) = kk
    by_cases hc1 : (has (buf.getD 4 0) flagPadded && decide (u24 buf 0 < 1 + (buf.getD 9 0).toNat + kk)) = true
    · simp only [if_pos hc1]
      exact ⟨(by intro w h; cases h), (by intro m out calm h; cases h), (by intro need calm h; cases h)⟩
    · simp only [if_neg hc1]
      by_cases hc2 : (has (buf.getD 4 0) flagPadded && decide (9 + u24 buf 0 < (buf.getD 9 0).toNat)) = true
      · exfalso
        simp only [Bool.and_eq_true, decide_eq_true_eq, not_and, Nat.not_lt] at hc1 hc2
        have := hc1 hc2.1
        omega
      · simp only [if_neg hc2]
        generalize hm0 : (if has (buf.getD 4 0) flagPadded = true then 9 + u24 buf 0 - (buf.getD 9 0).toNat
          else 9 + u24 buf 0) = m0
        have hm0b : 9 ≤ m0 ∧ m0 ≤ 9 + u24 buf 0 := by
          by_cases hp : has (buf.getD 4 0) flagPadded = true
          · rw [if_pos hp] at hm0
            simp only [hp, Bool.true_and, decide_eq_true_eq, Nat.not_lt] at hc1
            omega
          · rw [if_neg hp] at hm0; omega
        generalize hhead : (if has (buf.getD 4 0) flagPadded = true then (buf.take m0).set 9 0 else buf.take m0) = head
        have hheadlen : head.length = m0 := by
          rw [← hhead]; split <;> simp <;> omega
        obtain ⟨m', acc', e, g1, g2, g3⟩ := contMerge_spec buf hfr (buf.length + 1) m0 head (by omega) (by omega)
        simp only [e]
        have c : ¬ (m' < 9) := by omega
        simp only [if_neg c]
        refine ⟨(by intro w h; cases h), ?_, (by intro need calm h; cases h)⟩
        intro m out calm h
        simp only [ContOut.merged.injEq] at h
        obtain ⟨h1, h2, _⟩ := h
        subst h1
        have hol : out.length = m' + (if nEnd < buf.length then buf.length - nEnd else 0) := by
          rw [← h2]
          simp only [List.length_append, List.length_set, setU24, List.length_cons, List.length_nil, List.length_drop, g3, hheadlen]
          split <;> simp <;> omega
        refine ⟨by omega, by omega, ?_, ?_⟩
        · rw [hol]; omega
        · rw [hol]; split <;> omega



/-! ### accumulators that carry partial input across reads -/

theorem lfIdx_mem (data : Bytes) : ∀ (k j : Nat), lfIdx data k = some j → lf ∈ data.take (j - k + 1) := by
  induction data with
  | nil => intro k j h; simp [lfIdx] at h
  | cons b t ih =>
    intro k j h
    simp only [lfIdx] at h
    split at h
    · rename_i hb; simp [hb]
    · have h1 := ih _ _ h
      have h2 := lfIdx_lt t (k + 1) j h
      have e : j - k + 1 = (j - (k + 1) + 1) + 1 := by omega
      rw [e, List.take_succ_cons]
      exact List.mem_cons_of_mem _ h1

theorem splitLf_mem {data acc line rest : Bytes} (h : splitLf data acc = some (line, rest)) :
    lf ∈ data ∧ ∃ i, line = acc ++ data.take (i + 1) ∧ lf ∈ data.take (i + 1) ∧ rest = data.drop (i + 1) := by
  unfold splitLf at h
  split at h
  · simp at h
  · rename_i i hi
    have hm := lfIdx_mem data 0 i hi
    simp only [Nat.sub_zero] at hm
    simp only [Option.some.injEq, Prod.mk.injEq] at h
    exact ⟨List.mem_of_mem_take hm, i, h.1.symm, hm, h.2.symm⟩

theorem splitLf_nil_line {data line rest : Bytes} (h : splitLf data [] = some (line, rest)) :
    line = data.take line.length ∧ lf ∈ line := by
  unfold splitLf at h
  split at h
  · simp at h
  · rename_i i hi
    have hm := lfIdx_mem data 0 i hi
    have hl := lfIdx_lt data 0 i hi
    simp only [Nat.sub_zero] at hm
    simp only [Option.some.injEq, Prod.mk.injEq, List.nil_append] at h
    obtain ⟨h1, _⟩ := h
    subst h1
    have : (data.take (i + 1)).length = i + 1 := by simp only [List.length_take]; omega
    rw [this]
    exact ⟨rfl, hm⟩

theorem noLf_false_of_mem {x : Bytes} (h : lf ∈ x) : noLf x = false := by
  simp [noLf, h]

/-- the hex loop stops at the first non-hex byte: bytes appended after a LF do not change it -/
theorem ckHex_append_lf (g : Int) (a b : Bytes) (ha : lf ∈ a) : ∀ (t : Int) (k : Nat),
    (∀ te k' r, ckHex g a t k = .ok te k' r → ckHex g (a ++ b) t k = .ok te k' (r ++ b)) := by
  induction a with
  | nil => simp at ha
  | cons x rest ih =>
    intro t k te k' r h
    simp only [List.cons_append, ckHex] at h ⊢
    cases hx : hexVal x with
    | none =>
      simp only [hx] at h ⊢
      injection h with h1 h2 h3
      subst h1; subst h2; subst h3; simp
    | some u =>
      simp only [hx] at h ⊢
      have hne : x ≠ lf := by intro e; subst e; simp [hexVal, isDigit, lf] at hx
      have hrest : lf ∈ rest := by
        simp only [List.mem_cons] at ha
        rcases ha with e | e
        · exact absurd e.symm hne
        · exact e
      split at h
      · cases h
      · split at h
        · cases h
        · split at h
          · cases h
          · split at h
            · cases h
            · rename_i c1 c2 c3 c4
              simp only [if_neg c1, if_neg c2, if_neg c3, if_neg c4]
              exact ih hrest _ _ te k' r h


/-- bound of the header / trailer buffer `gw_dechunk->b` -/
def gwBound (maxField : Nat) : Nat := Nat.max 1024 maxField

/-- largest value of `gw_chunked` -/
def gwTeMax : Int := 9223372036854775777       -- (2^63 - 33) + 2

/-- invariant of the decoder state between reads (and between loop iterations) -/
structure GwInv (maxField : Nat) (st : GwSt) : Prop where
  live : st.done = false → st.h.length ≤ gwBound maxField
  all : st.h.length ≤ gwBound maxField + 4
  partialLine : noLf st.h = true → st.h.length ≤ 1024
  te0 : 0 ≤ st.te
  teMax : st.te ≤ gwTeMax
  lastLine : st.done = false → lf ∈ st.h → ∃ k r, ckHex Extracted.ckGuardGw st.h 0 0 = .ok 0 k r

theorem ckPartialMaxGw_eq : Extracted.ckPartialMaxGw = 1024 := by decide

/-- outcomes of the last-chunk handling: error or stop, never `ub`, never another iteration -/
def StopOrErr : GwIter → Prop
  | .stop _ => True
  | .err => True
  | _ => False

theorem gwLastChunk_shape (maxField : Nat) (st : GwSt) (h m : Bytes) (hsz : Nat) (p : Bytes) :
    StopOrErr (gwLastChunk maxField st h m hsz p) := by
  unfold gwLastChunk
  simp only
  generalize (if maxField > h.length then maxField - h.length else 0) = mlen
  by_cases c1 : (decide ((m.length : Int) - (hsz : Int) ≥ 2) && decide (p.getD 0 0 = cr) && decide (p.getD 1 0 = lf)) = true
  · rw [if_pos c1]; split <;> simp [StopOrErr]
  · rw [if_neg c1]
    by_cases c3 : (mlen : Int) < (m.length : Int)
    · rw [if_pos c3]; simp [StopOrErr]
    · rw [if_neg c3]
      split
      · split <;> simp [StopOrErr]
      · simp [StopOrErr]

theorem gwLastChunk_inv (maxField : Nat) (st : GwSt) (h m : Bytes) (hsz : Nat) (p : Bytes)
    (hb : h.length ≤ gwBound maxField) (hlf : lf ∈ h ++ m)
    (hline : ∃ k r, ckHex Extracted.ckGuardGw (h ++ m) 0 0 = .ok 0 k r) (st' : GwSt)
    (hr : gwLastChunk maxField st h m hsz p = .stop st') : GwInv maxField st' := by
  unfold gwLastChunk at hr
  simp only at hr
  generalize hml : (if maxField > h.length then maxField - h.length else 0) = mlen at hr
  have hmf : maxField ≤ gwBound maxField := Nat.le_max_right _ _
  have hm1 : h.length + mlen ≤ gwBound maxField := by split at hml <;> omega
  have hm2 : maxField ≤ h.length + mlen := by split at hml <;> omega
  have hte : (0 : Int) ≤ gwTeMax := by unfold gwTeMax; omega
  by_cases c1 : (decide ((m.length : Int) - (hsz : Int) ≥ 2) && decide (p.getD 0 0 = cr) && decide (p.getD 1 0 = lf)) = true
  · rw [if_pos c1] at hr
    by_cases c2 : (m.length : Int) - (hsz : Int) > 2
    · rw [if_pos c2] at hr; cases hr
    · rw [if_neg c2] at hr
      injection hr with hr; subst hr
      exact ⟨(by intro _; simp), (by simp), (by intro _; simp), Int.le_refl _, hte, (by intro hd; simp at hd)⟩
  · rw [if_neg c1] at hr
    by_cases c3 : (mlen : Int) < (m.length : Int)
    · rw [if_pos c3] at hr
      injection hr with hr; subst hr
      have hh1 : (h ++ m.take mlen).length ≤ gwBound maxField := by
        simp only [List.length_append, List.length_take]; omega
      generalize (h ++ m.take mlen) = h1 at hh1 ⊢
      refine ⟨(by intro hd; simp at hd), ?_, ?_, Int.le_refl _, hte, (by intro hd; simp at hd)⟩
      · simp only
        split
        · split
          · simp only [List.length_append, List.length_take, List.length_cons, List.length_nil]; omega
          · simp only [List.length_append, List.length_take, List.length_cons, List.length_nil]; omega
        · simp only [List.length_append, List.length_cons, List.length_nil]
          have : 1024 ≤ gwBound maxField := Nat.le_max_left _ _
          omega
      · intro hn
        exfalso
        simp only at hn
        rw [noLf_false_of_mem (by simp)] at hn; cases hn
    · rw [if_neg c3] at hr
      have hlen : (h ++ m).length ≤ gwBound maxField := by
        simp only [List.length_append]; omega
      have hnl : noLf (h ++ m) = false := noLf_false_of_mem hlf
      split at hr
      · split at hr
        · cases hr
        · injection hr with hr; subst hr
          exact ⟨(by intro _; exact hlen), (by simp only; omega), (by intro hn; simp only at hn; rw [hnl] at hn; cases hn),
            Int.le_refl _, hte, (by intro hd; simp at hd)⟩
      · injection hr with hr; subst hr
        exact ⟨(by intro _; exact hlen), (by simp only; omega), (by intro hn; simp only at hn; rw [hnl] at hn; cases hn),
          Int.le_refl _, hte, (by intro _ _; exact hline)⟩

theorem gwInv_nil (maxField : Nat) (st : GwSt) (te : Int) (h0 : 0 ≤ te) (h1 : te ≤ gwTeMax) :
    GwInv maxField { st with te := te, h := [] } :=
  ⟨(by intro _; simp), (by simp), (by intro _; simp), h0, h1, (by intro _ hm; simp at hm)⟩

/-- what one loop iteration guarantees -/
structure IterOk (maxField : Nat) (st : GwSt) (m : Bytes) (x : GwIter) : Prop where
  noUb : ∀ w, x ≠ .ub w
  stop : ∀ st', x = .stop st' → GwInv maxField st'
  cont : ∀ st' m', x = .cont st' m' → GwInv maxField st' ∧ st'.done = st.done ∧ m'.length < m.length

theorem gwLine_ok (maxField : Nat) (st : GwSt) (src : Bytes) (lineOk : Bool) (h m mFull : Bytes) (hsz adv : Nat)
    (p : Bytes) (fromH : Bool) (hb : h.length ≤ gwBound maxField) (hlf : lf ∈ h ++ m)
    (hsrc : ∀ k r, ckHex Extracted.ckGuardGw src 0 0 = .ok 0 k r →
      ∃ k' r', ckHex Extracted.ckGuardGw (h ++ m) 0 0 = .ok 0 k' r')
    (hstale : fromH = true → hsz ≠ 0 → ∀ te k r, ckHex Extracted.ckGuardGw src 0 0 = .ok te k r → te = 0)
    (hshort : ∀ te k r, ckHex Extracted.ckGuardGw src 0 0 = .ok te k r → te ≠ 0 → (m.drop adv).length < mFull.length) :
    IterOk maxField st mFull (gwLine maxField st src lineOk h m hsz adv p fromH) := by
  obtain ⟨hub, hok⟩ := ckHex_spec Extracted.ckGuardGw ckGuardGw_le src 0 0 (by unfold ckTeMax; omega)
  unfold gwLine
  split
  · rename_i w hx; exact absurd hx (hub w)
  · exact ⟨fun _ hr => (nomatch hr), fun _ hr => (nomatch hr), fun _ _ hr => (nomatch hr)⟩
  · rename_i te k after hx
    obtain ⟨n, hn1, hn2, _, _⟩ := hok te k after hx
    unfold ckTeMax at hn2
    split
    · exact ⟨fun _ hr => (nomatch hr), fun _ hr => (nomatch hr), fun _ _ hr => (nomatch hr)⟩
    · split
      · rename_i hz
        subst hz
        have hshape := gwLastChunk_shape maxField st h m hsz p
        refine ⟨?_, fun st' hr => gwLastChunk_inv maxField st h m hsz p hb hlf (hsrc k after hx) st' hr, ?_⟩
        · intro w hr; rw [hr] at hshape; exact hshape
        · intro st' m' hr; rw [hr] at hshape; exact absurd hshape (by simp [StopOrErr])
      · rename_i hnz
        split
        · rename_i hst
          simp only [Bool.and_eq_true, decide_eq_true_eq] at hst
          exact absurd (hstale hst.1 hst.2 te k after hx) hnz
        · simp only
          have hin : inI64 (te + 2) = true := by rw [inI64_iff]; omega
          simp only [hin, Bool.not_true, Bool.false_eq_true, if_false]
          have h0 : (0 : Int) ≤ te + 2 := by omega
          have h1 : te + 2 ≤ gwTeMax := by unfold gwTeMax; omega
          split
          · refine ⟨fun _ hr => (nomatch hr), ?_, fun _ _ hr => (nomatch hr)⟩
            intro st' hr; injection hr with hr; subst hr
            exact gwInv_nil maxField st (te + 2) h0 h1
          · refine ⟨fun _ hr => (nomatch hr), fun _ hr => (nomatch hr), ?_⟩
            intro st' m' hr; injection hr with hr1 hr2; subst hr1; subst hr2
            exact ⟨gwInv_nil maxField st (te + 2) h0 h1, rfl, hshort te k after hx hnz⟩

theorem lfIdx_none (data : Bytes) : ∀ k, lfIdx data k = none → lf ∉ data := by
  induction data with
  | nil => intro k _; simp
  | cons b t ih =>
    intro k h
    simp only [lfIdx] at h
    split at h
    · cases h
    · rename_i hb
      have := ih _ h
      simp only [List.mem_cons, not_or]
      exact ⟨fun e => hb e.symm, this⟩

theorem splitLf_none {data acc : Bytes} (h : splitLf data acc = none) : noLf data = true := by
  unfold splitLf at h
  split at h
  · rename_i hn
    have := lfIdx_none data 0 hn
    simp [noLf, this]
  · cases h

/-- an iteration outcome of the data phase: header buffer and `done` untouched, counter
    stays in range, the rest of the read gets shorter -/
def Keeps (st : GwSt) (m : Bytes) : GwIter → Prop
  | .stop s => s.h = st.h ∧ s.done = st.done ∧ 0 ≤ s.te ∧ s.te ≤ st.te
  | .cont s m' => s.h = st.h ∧ s.done = st.done ∧ 0 ≤ s.te ∧ s.te ≤ st.te ∧ m'.length < m.length
  | .err => True
  | .ub _ => False

theorem gwInv_keep {maxField : Nat} {st s : GwSt} (hh : s.h = st.h) (hd : s.done = st.done)
    (h0 : 0 ≤ s.te) (h1 : s.te ≤ st.te) (hi : GwInv maxField st) : GwInv maxField s :=
  ⟨(by rw [hh, hd]; exact hi.live), (by rw [hh]; exact hi.all), (by rw [hh]; exact hi.partialLine), h0,
   Int.le_trans h1 hi.teMax, (by rw [hh, hd]; exact hi.lastLine)⟩

theorem keeps_ok {maxField : Nat} {st : GwSt} {m : Bytes} {x : GwIter} (hi : GwInv maxField st)
    (hk : Keeps st m x) : IterOk maxField st m x := by
  refine ⟨?_, ?_, ?_⟩
  · intro w e; subst e; exact hk
  · intro st' e; subst e; exact gwInv_keep hk.1 hk.2.1 hk.2.2.1 hk.2.2.2 hi
  · intro st' m' e; subst e
    exact ⟨gwInv_keep hk.1 hk.2.1 hk.2.2.1 hk.2.2.2.1 hi, hk.2.1, hk.2.2.2.2⟩

theorem ckHex_fun {g : Int} {src : Bytes} {te te' : Int} {k k' : Nat} {r r' : Bytes}
    (h1 : ckHex g src 0 0 = .ok te k r) (h2 : ckHex g src 0 0 = .ok te' k' r') : te = te' := by
  rw [h1] at h2; injection h2

theorem gwIter_ok (maxField : Nat) (st : GwSt) (m : Bytes) (hi : GwInv maxField st) (hd : st.done = false)
    (hm : 0 < m.length) : IterOk maxField st m (gwIter maxField st m) := by
  have h1024 : 1024 ≤ gwBound maxField := Nat.le_max_left _ _
  have hte0 := hi.te0
  unfold gwIter
  split
  · -- te = 0
    split
    · -- header buffer blank
      split
      · rename_i hs
        have hnl := splitLf_none hs
        split
        · exact ⟨fun _ hr => (nomatch hr), fun _ hr => (nomatch hr), fun _ _ hr => (nomatch hr)⟩
        · rename_i hlt
          rw [ckPartialMaxGw_eq] at hlt
          refine ⟨fun _ hr => (nomatch hr), ?_, fun _ _ hr => (nomatch hr)⟩
          intro st' hr; injection hr with hr; subst hr
          exact ⟨(by intro _; simp only; omega), (by simp only; omega), (by intro _; simp only; omega), hi.te0, hi.teMax,
            (by intro _ hmem; simp only at hmem; rw [noLf_false_of_mem hmem] at hnl; cases hnl)⟩
      · rename_i line rest hs
        have hmm := (splitLf_mem hs).1
        have hll := splitLf_length m [] line rest hs
        obtain ⟨hl, hmem⟩ := splitLf_nil_line hs
        have hlpos : 0 < line.length := by cases line with | nil => simp at hmem | cons _ _ => simp
        show IterOk maxField st m (if line.length > Extracted.ckLineMaxGw then GwIter.err else _)
        split
        · exact ⟨fun _ hr => (nomatch hr), fun _ hr => (nomatch hr), fun _ _ hr => (nomatch hr)⟩
        · exact gwLine_ok maxField st m _ [] m m line.length line.length rest false (by simp) (by simpa using hmm)
            (by intro k r h; exact ⟨k, r, by simpa using h⟩) (by intro hf; cases hf)
            (by intro _ _ _ _ _; simp only [List.length_drop]; simp at hll; omega)
    · split
      · rename_i line rest hs
        have hmm := (splitLf_mem hs).1
        obtain ⟨k0, r0, h0⟩ := hi.lastLine hd hmm
        exact gwLine_ok maxField st st.h _ st.h m m line.length 0 rest true (hi.live hd) (by simp [hmm])
          (by intro k r h; exact ⟨k, r ++ m, ckHex_append_lf _ st.h m hmm 0 0 0 k r h⟩)
          (by intro _ _ te k r h; exact ckHex_fun h h0)
          (by intro te k r h hne; exact absurd (ckHex_fun h h0) hne)
      · rename_i hs
        have hp := hi.partialLine (splitLf_none hs)
        have hw : wrap32 (Extracted.ckPartialMaxGw + (u32Max + 1) - st.h.length) = 1024 - st.h.length := by
          simp only [wrap32, ckPartialMaxGw_eq, u32Max_eq]; omega
        rw [hw]
        split
        · rename_i hsm
          have hnl2 := splitLf_none hsm
          split
          · exact ⟨fun _ hr => (nomatch hr), fun _ hr => (nomatch hr), fun _ _ hr => (nomatch hr)⟩
          · rename_i hfit
            refine ⟨fun _ hr => (nomatch hr), ?_, fun _ _ hr => (nomatch hr)⟩
            intro st' hr; injection hr with hr; subst hr
            have hl' : (st.h ++ m).length ≤ 1024 := by simp only [List.length_append]; omega
            have hnl1 := splitLf_none hs
            refine ⟨(by intro _; simp only; omega), (by simp only; omega), (by intro _; simp only; omega), hi.te0, hi.teMax, ?_⟩
            intro _ hmem
            simp only [List.mem_append] at hmem
            rcases hmem with e | e
            · rw [noLf_false_of_mem e] at hnl1; cases hnl1
            · rw [noLf_false_of_mem e] at hnl2; cases hnl2
        · rename_i line rest hsm
          obtain ⟨hl, hmem⟩ := splitLf_nil_line hsm
          have hll := splitLf_length m [] line rest hsm
          have hlpos : 0 < line.length := by cases line with | nil => simp at hmem | cons _ _ => simp
          split
          · exact ⟨fun _ hr => (nomatch hr), fun _ hr => (nomatch hr), fun _ _ hr => (nomatch hr)⟩
          · rename_i hfit
            have hl' : (st.h ++ line).length ≤ 1024 := by simp only [List.length_append]; omega
            have hlf : lf ∈ st.h ++ line := List.mem_append_right _ hmem
            exact gwLine_ok maxField st (st.h ++ line) _ (st.h ++ line) rest m 0 0 rest true (by omega)
              (List.mem_append_left _ hlf)
              (by intro k r h; exact ⟨k, r ++ rest, ckHex_append_lf _ (st.h ++ line) rest hlf 0 0 0 k r h⟩)
              (by intro _ hne; exact absurd rfl hne)
              (by intro _ _ _ _ _; simp at hll ⊢; omega)
  · -- chunk data and its CRLF: the header buffer is not touched
    apply keeps_ok hi
    have hte1 := hi.teMax
    simp only
    repeat' split
    all_goals simp only [Keeps, List.length_drop, true_and]
    all_goals try simp only [List.length_drop] at *
    all_goals first | trivial | omega
theorem gwLoop_ok (maxField : Nat) : ∀ (fuel : Nat) (st : GwSt) (m : Bytes), GwInv maxField st → st.done = false →
    m.length < fuel →
    (∀ w, gwLoop maxField fuel st m ≠ .ub w) ∧ (∀ st', gwLoop maxField fuel st m = .ok st' → GwInv maxField st') := by
  intro fuel
  induction fuel with
  | zero => intro st m _ _ hf; omega
  | succ fuel ih =>
    intro st m hi hd hf
    simp only [gwLoop]
    split
    · exact ⟨fun _ hr => (nomatch hr), fun st' hr => by injection hr with hr; subst hr; exact hi⟩
    · rename_i hne
      have hm : 0 < m.length := by cases m with | nil => simp at hne | cons _ _ => simp
      have hk := gwIter_ok maxField st m hi hd hm
      split
      · rename_i w hit; exact absurd hit (hk.noUb w)
      · exact ⟨fun _ hr => (nomatch hr), fun _ hr => (nomatch hr)⟩
      · rename_i st1 hit
        exact ⟨fun _ hr => (nomatch hr), fun st' hr => by injection hr with hr; subst hr; exact hk.stop _ hit⟩
      · rename_i st1 m1 hit
        obtain ⟨h1, h2, h3⟩ := hk.cont _ _ hit
        exact ih st1 m1 h1 (by rw [h2]; exact hd) (by omega)

theorem gwRead_ok (maxField : Nat) (st : GwSt) (m : Bytes) (hi : GwInv maxField st) :
    (∀ w, gwRead maxField st m ≠ .ub w) ∧ (∀ st', gwRead maxField st m = .ok st' → GwInv maxField st') := by
  unfold gwRead
  split
  · exact ⟨fun _ hr => (nomatch hr), fun _ hr => (nomatch hr)⟩
  · rename_i hd
    exact gwLoop_ok maxField _ st m hi (by simpa using hd) (by omega)

/-- invariant of a run over a sequence of reads -/
structure GwRunInv (maxField : Nat) (r : GwRun) : Prop where
  st : GwInv maxField r.st
  maxh : r.maxh ≤ gwBound maxField + 4
  maxp : r.maxp ≤ 1024
  noUb : r.fail = none ∨ r.fail = some "err"

theorem gwRunStep_inv (maxField : Nat) (r : GwRun) (m : Bytes) (hi : GwRunInv maxField r) :
    GwRunInv maxField (gwRunStep maxField r m) := by
  obtain ⟨hub, hok⟩ := gwRead_ok maxField r.st m hi.st
  unfold gwRunStep
  split
  · exact hi
  · rename_i hnf
    split
    · rename_i w hr; exact absurd hr (hub w)
    · exact ⟨hi.st, hi.maxh, hi.maxp, Or.inr rfl⟩
    · rename_i st' hr
      have hs := hok st' hr
      refine ⟨hs, ?_, ?_, ?_⟩
      · simp only; exact Nat.max_le.mpr ⟨hi.maxh, hs.all⟩
      · simp only
        split
        · rename_i hn; exact Nat.max_le.mpr ⟨hi.maxp, hs.partialLine hn⟩
        · exact hi.maxp
      · simp only
        left
        cases hf : r.fail with
        | none => rfl
        | some x => simp [hf] at hnf

theorem gwRun_inv (maxField : Nat) (reads : List Bytes) : GwRunInv maxField (gwRun maxField reads) := by
  unfold gwRun
  have h0 : GwRunInv maxField ({} : GwRun) :=
    ⟨⟨(by intro _; simp), (by simp), (by intro _; simp), (by simp), (by simp [gwTeMax]), (by intro _ hm; simp at hm)⟩,
      (by simp), (by simp), Or.inl rfl⟩
  generalize ({} : GwRun) = r0 at h0
  induction reads generalizing r0 with
  | nil => exact h0
  | cons m rest ih => simp only [List.foldl_cons]; exact ih _ (gwRunStep_inv maxField r0 m h0)

/-- bytes of the request stream the HTTP/1 chunked decoder keeps unconsumed in the read queue
    (C01 automaton `ckStep`): the incomplete chunk-size line, the first byte of a chunk's CRLF,
    the last-chunk line with the trailer section -/
def ckBuffered : CkMode → Nat
  | .hdr acc _ => acc.length
  | .crlf (some _) => 1
  | .trailer acc _ _ => acc.length
  | _ => 0

theorem ckParseLine_len {line : Bytes} {n : Nat} (h : ckParseLine line = .ok n) : line.length < 1024 := by
  apply Decidable.byContradiction
  intro hge
  have hge' : line.length ≥ 1024 := by omega
  unfold ckParseLine at h
  split at h
  · cases h
  · simp only [hge', if_true] at h
    split at h
    · cases h
    · split at h
      · cases h
      · repeat' split at h
        all_goals cases h

theorem ckStep_buffered (cfg : CkCfg) (s : CkSt) (b : UInt8)
    (h : ckBuffered s.mode < Nat.max 1024 cfg.maxField) :
    ckBuffered (ckStep cfg s b).mode < Nat.max 1024 cfg.maxField := by
  have h1 : 1024 ≤ Nat.max 1024 cfg.maxField := Nat.le_max_left _ _
  have h2 : cfg.maxField ≤ Nat.max 1024 cfg.maxField := Nat.le_max_right _ _
  obtain ⟨mode, out, ka, after⟩ := s
  cases mode with
  | hdr acc nul =>
    simp only [ckStep]
    split
    · split
      · simp [ckBuffered]; omega
      · rename_i hp
        have := ckParseLine_len hp
        simp only [ckBuffered]; omega
      · split <;> (simp [ckBuffered]; omega)
    · split
      · simp [ckBuffered]; omega
      · rename_i hlt
        simp only [ckBuffered]
        simp only [ge_iff_le, Nat.not_le] at hlt
        omega
  | data n => simp only [ckStep]; split <;> (simp [ckBuffered]; omega)
  | crlf f =>
    cases f with
    | none => simp [ckStep, ckBuffered]; omega
    | some a => simp only [ckStep]; split <;> (simp [ckBuffered]; omega)
  | trailer acc off nul =>
    simp only [ckStep]
    split
    · simp [ckBuffered]; omega
    · split
      · simp [ckBuffered]; omega
      · rename_i hlt
        simp only [ckBuffered]
        simp only [ge_iff_le, Nat.not_le] at hlt
        omega
  | done => simp [ckStep, ckBuffered]; omega
  | err e => simpa [ckStep] using h

theorem ckFeed_buffered (cfg : CkCfg) (bs : Bytes) : ∀ s : CkSt,
    ckBuffered s.mode < Nat.max 1024 cfg.maxField →
    ckBuffered (ckFeed cfg s bs).mode < Nat.max 1024 cfg.maxField := by
  induction bs with
  | nil => intro s h; exact h
  | cons b rest ih =>
    intro s h
    show ckBuffered (ckFeed cfg (ckStep cfg s b) rest).mode < _
    exact ih _ (ckStep_buffered cfg s b h)


/-! ### h1_chunked(): whole calls over arbitrary histories -/

theorem ckPartialMaxH1_eq : Extracted.ckPartialMaxH1 = 1024 := by decide

/-- invariant of the request-body decoder state; `budget` bounds the bytes received so far
    (already counted in `bytes_in` or still in the read queue) -/
structure H1Inv (budget : Int) (st : H1St) : Prop where
  te0 : 0 ≤ st.te
  teMax : st.te ≤ gwTeMax
  te1 : st.te ≠ 1
  in0 : 0 ≤ st.bytesIn
  sum : st.bytesIn + st.q.length ≤ budget

/-- what is left in the read queue when a call returns without completing the body -/
def H1Wait (maxField : Nat) (st : H1St) : Prop :=
  st.done = false → st.q.length < Nat.max 1024 maxField

structure H1IterOk (budget : Int) (maxField : Nat) (st : H1St) (x : H1Iter) : Prop where
  noUb : ∀ w, x ≠ .ub w
  stop : ∀ st', x = .stop st' → H1Inv budget st' ∧ H1Wait maxField st'
  cont : ∀ st', x = .cont st' → H1Inv budget st' ∧ st'.done = st.done ∧ st'.q.length < st.q.length

theorem h1Iter_ok (budget : Int) (hbud : budget ≤ 9223372036854775807) (msKB maxField : Nat)
    (hms : msKB ≤ 4294967295) (st : H1St) (hi : H1Inv budget st) (hq : 0 < st.q.length) :
    H1IterOk budget maxField st (h1Iter msKB maxField st) := by
  have h1024 : 1024 ≤ Nat.max 1024 maxField := Nat.le_max_left _ _
  have hmf : maxField ≤ Nat.max 1024 maxField := Nat.le_max_right _ _
  obtain ⟨t0, tM, t1, i0, hs⟩ := hi
  unfold gwTeMax at tM
  unfold h1Iter
  split
  · -- chunk header
    rename_i hz
    split
    · split
      · exact ⟨fun _ hr => (nomatch hr), fun _ hr => (nomatch hr), fun _ hr => (nomatch hr)⟩
      · rename_i hlt
        rw [ckPartialMaxH1_eq] at hlt
        refine ⟨fun _ hr => (nomatch hr), ?_, fun _ hr => (nomatch hr)⟩
        intro st' hr; injection hr with hr; subst hr
        exact ⟨⟨t0, by unfold gwTeMax; omega, t1, i0, hs⟩, by intro _; omega⟩
    · rename_i i hidx
      simp only
      obtain ⟨hub, hok⟩ := ckHex_spec Extracted.ckGuardH1 ckGuardH1_le (st.q.take (i + 1)) 0 0 (by unfold ckTeMax; omega)
      split
      · rename_i w hx; exact absurd hx (hub w)
      · exact ⟨fun _ hr => (nomatch hr), fun _ hr => (nomatch hr), fun _ hr => (nomatch hr)⟩
      · rename_i te k after hx
        obtain ⟨n, hn1, hn2, _, _⟩ := hok te k after hx
        unfold ckTeMax at hn2
        subst hn1
        split
        · exact ⟨fun _ hr => (nomatch hr), fun _ hr => (nomatch hr), fun _ hr => (nomatch hr)⟩
        · split
          · exact ⟨fun _ hr => (nomatch hr), fun _ hr => (nomatch hr), fun _ hr => (nomatch hr)⟩
          · split
            · -- last chunk
              split
              · refine ⟨fun _ hr => (nomatch hr), ?_, fun _ hr => (nomatch hr)⟩
                intro st' hr; injection hr with hr; subst hr
                refine ⟨⟨t0, by unfold gwTeMax; omega, t1, i0, ?_⟩, by intro h; simp at h⟩
                simp only [List.length_drop]; omega
              · split
                · refine ⟨fun _ hr => (nomatch hr), ?_, fun _ hr => (nomatch hr)⟩
                  intro st' hr; injection hr with hr; subst hr
                  refine ⟨⟨t0, by unfold gwTeMax; omega, t1, i0, ?_⟩, by intro h; simp at h⟩
                  simp only [List.length_drop]; omega
                · split
                  · rename_i hlt
                    refine ⟨fun _ hr => (nomatch hr), ?_, fun _ hr => (nomatch hr)⟩
                    intro st' hr; injection hr with hr; subst hr
                    exact ⟨⟨t0, by unfold gwTeMax; omega, t1, i0, hs⟩, by intro _; omega⟩
                  · refine ⟨fun _ hr => (nomatch hr), ?_, fun _ hr => (nomatch hr)⟩
                    intro st' hr; injection hr with hr; subst hr
                    refine ⟨⟨t0, by unfold gwTeMax; omega, t1, i0, ?_⟩, by intro h; simp at h⟩
                    simp only [List.length_nil]; omega
            · rename_i hnz
              have h1 : inI64 ((msKB : Int) * 1024) = true := by rw [inI64_iff]; omega
              have h2 : inI64 ((n : Int) + 2) = true := by rw [inI64_iff]; omega
              simp only [h1, h2, Bool.not_true, Bool.false_eq_true, if_false]
              split
              · exact ⟨fun _ hr => (nomatch hr), fun _ hr => (nomatch hr), fun _ hr => (nomatch hr)⟩
              · refine ⟨fun _ hr => (nomatch hr), fun _ hr => (nomatch hr), ?_⟩
                intro st' hr; injection hr with hr; subst hr
                refine ⟨⟨by simp only; omega, by simp only; unfold gwTeMax; omega, by simp only; omega, i0, ?_⟩, rfl, ?_⟩
                · simp only [List.length_drop]; omega
                · simp only [List.length_drop]; omega
  · -- chunk data and its CRLF
    rename_i hnz
    simp only
    have h1 : inI64 (st.te - 2) = true := by rw [inI64_iff]; omega
    have h2 : inI64 (Extracted.ckInMemMax - st.bytesIn) = true := by rw [inI64_iff, ckInMemMax_eq]; omega
    simp only [h1, h2, Bool.not_true, Bool.false_eq_true, if_false]
    generalize hnn : (if st.te > 2 then (if (st.q.length : Int) > st.te - 2 then st.te - 2 else (st.q.length : Int)) else 0) = nn
    have hb : 0 ≤ nn ∧ nn ≤ st.q.length ∧ nn ≤ st.te - 2 ∧ (st.te > 2 → nn = st.te - 2 ∨ nn = st.q.length) := by
      split at hnn
      · split at hnn <;> omega
      · omega
    have h3 : inI64 (st.bytesIn + nn) = true := by rw [inI64_iff]; omega
    have h4 : inI64 (st.te - nn) = true := by rw [inI64_iff]; omega
    simp only [h3, h4, Bool.not_true, Bool.false_eq_true, if_false]
    have hlen : (st.q.drop nn.toNat).length = st.q.length - nn.toNat := by simp
    split
    · rename_i hlt
      refine ⟨fun _ hr => (nomatch hr), ?_, fun _ hr => (nomatch hr)⟩
      intro st' hr; injection hr with hr; subst hr
      refine ⟨⟨by simp only; omega, by simp only; unfold gwTeMax; omega, by simp only; omega, by simp only; omega, ?_⟩, ?_⟩
      · simp only [hlen]; omega
      · intro _; simp only [hlen] at hlt ⊢; omega
    · rename_i hge
      split
      · rename_i h2e
        split
        · exact ⟨fun _ hr => (nomatch hr), fun _ hr => (nomatch hr), fun _ hr => (nomatch hr)⟩
        · split
          · exact ⟨fun _ hr => (nomatch hr), fun _ hr => (nomatch hr), fun _ hr => (nomatch hr)⟩
          · refine ⟨fun _ hr => (nomatch hr), fun _ hr => (nomatch hr), ?_⟩
            intro st' hr; injection hr with hr; subst hr
            refine ⟨⟨by simp, by simp only; unfold gwTeMax; omega, by simp, by simp only; omega, ?_⟩, rfl, ?_⟩
            · simp only [List.length_drop]; omega
            · simp only [List.length_drop, hlen] at hge ⊢; omega
      · rename_i h2ne
        refine ⟨fun _ hr => (nomatch hr), fun _ hr => (nomatch hr), ?_⟩
        intro st' hr; injection hr with hr; subst hr
        exfalso
        simp only [hlen] at hge
        omega

theorem h1Loop_ok (budget : Int) (hbud : budget ≤ 9223372036854775807) (msKB maxField : Nat)
    (hms : msKB ≤ 4294967295) : ∀ (fuel : Nat) (st : H1St), H1Inv budget st → 0 < st.q.length → st.q.length < fuel →
    (∀ w, h1Loop msKB maxField fuel st ≠ .ub w) ∧
    (∀ st', h1Loop msKB maxField fuel st = .ok st' → H1Inv budget st' ∧ H1Wait maxField st') := by
  intro fuel
  induction fuel with
  | zero => intro st _ _ hf; omega
  | succ fuel ih =>
    intro st hi hq hf
    have hk := h1Iter_ok budget hbud msKB maxField hms st hi hq
    simp only [h1Loop]
    split
    · rename_i w hit; exact absurd hit (hk.noUb w)
    · exact ⟨fun _ hr => (nomatch hr), fun _ hr => (nomatch hr)⟩
    · rename_i st1 hit
      exact ⟨fun _ hr => (nomatch hr), fun st' hr => by injection hr with hr; subst hr; exact hk.stop _ hit⟩
    · rename_i st1 hit
      obtain ⟨h1, _, h3⟩ := hk.cont _ hit
      split
      · rename_i he
        refine ⟨fun _ hr => (nomatch hr), ?_⟩
        intro st' hr; injection hr with hr; subst hr
        refine ⟨h1, ?_⟩
        intro _
        have : st1.q.length = 0 := by cases hq1 : st1.q with | nil => rfl | cons _ _ => simp [hq1] at he
        have : 1024 ≤ Nat.max 1024 maxField := Nat.le_max_left _ _
        omega
      · rename_i hne
        have hq1 : 0 < st1.q.length := by cases hq1 : st1.q with | nil => simp [hq1] at hne | cons _ _ => simp
        exact ih st1 h1 hq1 (by omega)

theorem h1Call_ok (budget : Int) (hbud : budget ≤ 9223372036854775807) (msKB maxField : Nat)
    (hms : msKB ≤ 4294967295) (st : H1St) (m : Bytes) (hi : H1Inv (budget - m.length) st)
    (_hw : H1Wait maxField st) :
    (∀ w, h1Call msKB maxField st m ≠ .ub w) ∧
    (∀ st', h1Call msKB maxField st m = .ok st' → H1Inv budget st' ∧ H1Wait maxField st') := by
  have hi1 : H1Inv budget { st with q := st.q ++ m } :=
    ⟨hi.te0, hi.teMax, hi.te1, hi.in0, by have := hi.sum; simp only [List.length_append]; omega⟩
  unfold h1Call
  simp only
  split
  · rename_i he
    refine ⟨fun _ hr => (nomatch hr), ?_⟩
    intro st' hr; injection hr with hr; subst hr
    refine ⟨hi1, ?_⟩
    intro _
    have : (st.q ++ m).length = 0 := by cases hq1 : (st.q ++ m) with | nil => rfl | cons _ _ => simp [hq1] at he
    have : 1024 ≤ Nat.max 1024 maxField := Nat.le_max_left _ _
    simp only at this ⊢; omega
  · rename_i hne
    have hq1 : 0 < (st.q ++ m).length := by
      cases hq1 : (st.q ++ m) with | nil => simp [hq1] at hne | cons _ _ => simp
    exact h1Loop_ok budget hbud msKB maxField hms _ _ hi1 hq1 (by simp only; omega)

/-- invariant of a run: `budget` = bytes that may have been received so far -/
structure H1RunInv (budget : Int) (maxField : Nat) (r : H1Run) : Prop where
  st : H1Inv budget r.st
  wait : H1Wait maxField r.st
  maxrest : r.maxrest < Nat.max 1024 maxField
  noUb : r.fail = none ∨ ∃ e : Nat, r.fail = some ("err " ++ toString e)

theorem h1RunStep_inv (budget : Int) (hbud : budget ≤ 9223372036854775807) (msKB maxField : Nat)
    (hms : msKB ≤ 4294967295) (r : H1Run) (m : Bytes) (hi : H1RunInv (budget - m.length) maxField r) :
    H1RunInv budget maxField (h1RunStep msKB maxField r m) := by
  have hmono : H1Inv budget r.st :=
    ⟨hi.st.te0, hi.st.teMax, hi.st.te1, hi.st.in0, by have := hi.st.sum; omega⟩
  obtain ⟨hub, hok⟩ := h1Call_ok budget hbud msKB maxField hms r.st m hi.st hi.wait
  unfold h1RunStep
  split
  · exact ⟨hmono, hi.wait, hi.maxrest, hi.noUb⟩
  · rename_i hnf
    split
    · rename_i w hr; exact absurd hr (hub w)
    · rename_i e _
      exact ⟨hmono, hi.wait, hi.maxrest, Or.inr ⟨e, rfl⟩⟩
    · rename_i st' hr
      obtain ⟨h1, h2⟩ := hok st' hr
      refine ⟨h1, h2, ?_, ?_⟩
      · simp only
        split
        · exact hi.maxrest
        · rename_i hdn
          exact Nat.max_lt.mpr ⟨hi.maxrest, h2 (by simpa using hdn)⟩
      · simp only
        left
        cases hf : r.fail with
        | none => rfl
        | some x => simp [hf] at hnf

theorem h1Run_inv (msKB maxField : Nat) (hms : msKB ≤ 4294967295) (reads : List Bytes) :
    ∀ (r0 : H1Run) (budget : Int), budget + ((reads.map List.length).sum : Nat) ≤ 9223372036854775807 →
      H1RunInv budget maxField r0 →
      H1RunInv (budget + ((reads.map List.length).sum : Nat)) maxField (reads.foldl (h1RunStep msKB maxField) r0) := by
  induction reads with
  | nil => intro r0 budget _ h; simpa using h
  | cons m rest ih =>
    intro r0 budget hb h
    simp only [List.map_cons, List.sum_cons, List.foldl_cons] at hb ⊢
    have hstep := h1RunStep_inv (budget + m.length) (by omega) msKB maxField hms r0 m
      (by have : budget + (m.length : Int) - (m.length : Int) = budget := by omega
          rw [this]; exact h)
    have := ih (h1RunStep msKB maxField r0 m) (budget + m.length) (by push_cast at hb ⊢; omega) hstep
    have e : budget + ((m.length + (rest.map List.length).sum : Nat) : Int)
        = budget + (m.length : Int) + (((rest.map List.length).sum : Nat) : Int) := by push_cast; omega
    rw [e]; exact this


/-! ### closure of the buffer operations under a length limit -/

/-- invariant of a buffer whose string never grows beyond `L` bytes -/
structure BInv (L : Nat) (b : Buf) : Prop where
  wf : b.used ≤ b.size
  size : b.size ≤ 6 * L + 300
  len : bufLen b ≤ L

/-- the caller's side of the contract for one operation, given the length limit `L` -/
def Legal (L : Nat) (b : Buf) : BufOp → Prop
  | .prep n => bufLen b + n ≤ L
  | .commit m => bufLen b + m + 1 ≤ b.size ∧ bufLen b + m ≤ L      -- room was prepared
  | .extend n => bufLen b + n ≤ L
  | .copy n => n ≤ L
  | .trunc n => n ≤ bufLen b ∧ 0 < b.size                           -- b->ptr exists
  | .clear => True

def LegalRun (L : Nat) : Buf → List BufOp → Prop
  | _, [] => True
  | b, op :: rest => Legal L b op ∧ ∀ b', bufStep b op = .ok b' → LegalRun L b' rest

theorem prepareCopy_spec (b : Buf) (n : Nat) (hsz : b.size ≤ 2147483616) (hn : n ≤ 2147483647) :
    ∃ b', prepareCopy b n = .ok b' ∧ b'.used = 0 ∧ n + 1 ≤ b'.size ∧ b'.size ≤ 4294967295 ∧
      (b'.size = b.size ∨ (b.size ≤ n ∧ b'.size ≤ 2 * (2 * b.size + n) + 258)) := by
  have hb2 := bsize2x_bounds b.size
  unfold prepareCopy
  simp only
  by_cases hns : n < b.size
  · simp only [if_pos hns]
    exact ⟨_, rfl, rfl, by simp only; omega, by simp only; omega, Or.inl rfl⟩
  · simp only [if_neg hns]
    generalize harg : (if bsize2x b.size > n then decSz (bsize2x b.size) else n) = arg
    have harg' : n ≤ arg ∧ arg ≤ 4294967231 ∧ arg ≤ 2 * b.size + n := by
      split at harg
      · rw [decSz_pos _ (by omega) (by omega)] at harg; omega
      · omega
    obtain ⟨sz, h1, h2, h3, h4⟩ := bufRealloc_spec ⟨0, b.size⟩ arg harg'.2.1
    exact ⟨_, h1, rfl, by show n + 1 ≤ sz; omega, by show sz ≤ _; omega, Or.inr ⟨by omega, by show sz ≤ _; omega⟩⟩

theorem bufStep_inv (L : Nat) (hL : L ≤ 268435456) (b : Buf) (op : BufOp) (hi : BInv L b) (hl : Legal L b op) :
    ∃ b', bufStep b op = .ok b' ∧ BInv L b' := by
  obtain ⟨hwf, hsize, hlen⟩ := hi
  have hlb := bufLen_le b hwf
  have hused : b.used ≤ L + 1 := by unfold bufLen at hlen; split at hlen <;> omega
  have hub : b.used ≤ bufLen b + 1 := by unfold bufLen; split <;> omega
  cases op with
  | prep n =>
    simp only [Legal] at hl
    obtain ⟨b', h1, h2, h3, h4, h5, _, h7⟩ := prepareAppend_spec b n hwf (by omega) (by omega)
    refine ⟨b', h1, h4, ?_, by omega⟩
    rcases h7 with h7 | h7 <;> omega
  | commit m =>
    simp only [Legal] at hl
    have := commit_spec b m (by omega)
    have e : bufLen (⟨bufLen b + m + 1, b.size⟩ : Buf) = bufLen b + m := by simp [bufLen]
    refine ⟨_, this, ?_, hsize, ?_⟩
    · show bufLen b + m + 1 ≤ b.size; omega
    · rw [e]; omega
  | extend n =>
    simp only [Legal] at hl
    obtain ⟨b1, h1, h2, h3, h4, h5, _, h7⟩ := prepareAppend_spec b n hwf (by omega) (by omega)
    obtain ⟨b', e1, e2, e3, e4⟩ := extend_spec b n hwf (by omega) (by omega)
    have hsz' : b'.size = b1.size := by
      have e : extend b n = match prepareAppend b n with
          | .abort => .abort
          | .ok b' => .ok { b' with used := wrap32 (bufLen b + n + 1) } := rfl
      rw [e, h1] at e1
      injection e1 with e1; rw [← e1]
    have e : bufLen b' = bufLen b + n := by simp [bufLen, e2]
    refine ⟨b', e1, e3, ?_, ?_⟩
    · rw [hsz']; rcases h7 with h7 | h7 <;> omega
    · rw [e]; omega
  | copy n =>
    simp only [Legal] at hl
    obtain ⟨b', h1, h2, h3, h4, h5⟩ := prepareCopy_spec b n (by omega) (by omega)
    refine ⟨b', h1, by omega, ?_, ?_⟩
    · rcases h5 with h5 | h5 <;> omega
    · simp [bufLen, h2]
  | trunc n =>
    simp only [Legal] at hl
    refine ⟨_, rfl, ?_, hsize, ?_⟩
    · show wrap32 (n + 1) ≤ b.size
      simp only [wrap32, u32Max_eq]; rw [Nat.mod_eq_of_lt (by omega)]
      unfold bufLen at hl hlb; split at hl <;> omega
    · show bufLen (truncate b n) ≤ L
      simp only [bufLen, truncate, wrap32, u32Max_eq]; rw [Nat.mod_eq_of_lt (by omega)]; simp; omega
  | clear =>
    refine ⟨_, rfl, ?_, hsize, ?_⟩
    · show 0 ≤ b.size; omega
    · simp [bufLen, clear]

theorem bufRun_inv (L : Nat) (hL : L ≤ 268435456) (ops : List BufOp) : ∀ b : Buf, BInv L b → LegalRun L b ops →
    ∃ b', bufRun b ops = .ok b' ∧ BInv L b' := by
  induction ops with
  | nil => intro b hi _; exact ⟨b, rfl, hi⟩
  | cons op rest ih =>
    intro b hi hl
    obtain ⟨b1, h1, h2⟩ := bufStep_inv L hL b op hi hl.1
    simp only [bufRun, h1]
    exact ih b1 h2 (hl.2 b1 h1)


end Arith
end LtVerif
