/-
  Helper lemmas for the checked http_range.c model (Model/ArithRange.lean), C12.
-/
import LtVerif.Model.ArithRange
import LtVerif.Proofs.Arith
namespace LtVerif
namespace Arith
namespace Rg
open B

theorem llMax_eq : llMax = 9223372036854775807 := by decide
theorem llMin_eq : llMin = -9223372036854775808 := by decide
theorem rmax_eq : rmax = 128 := by decide
theorem rmaxU_le : rmaxU ≤ rmax := by decide

/-- `0 ≤ first ≤ last < len` -/
def InB (len : Int) (r : Rng) : Prop := 0 ≤ r.1 ∧ r.1 ≤ r.2 ∧ r.2 < len
def AllInB (len : Int) (l : List Rng) : Prop := ∀ r ∈ l, InB len r

theorem chk_ok {x : Int} {w : String} (h : -9223372036854775808 ≤ x ∧ x ≤ 9223372036854775807) :
    chk x w = .ok x := by
  simp [chk, (inI64_iff x).mpr h]

theorem clampLL_range (neg : Bool) (v : Nat) : llMin ≤ clampLL neg v ∧ clampLL neg v ≤ llMax := by
  unfold clampLL
  rw [llMax_eq, llMin_eq]
  cases neg <;> simp <;> split <;> omega

theorem strtoll_range {s : Bytes} {n : Int} {ds e : Bytes} (h : strtoll s = some (n, ds, e)) :
    llMin ≤ n ∧ n ≤ llMax := by
  unfold strtoll at h
  simp only at h
  split at h
  · cases h
  · simp only [Option.some.injEq, Prod.mk.injEq] at h
    rw [← h.1]; exact clampLL_range _ _

/-- http_range_parse_next(): never `ub`; a produced range lies inside the representation -/
theorem parseNext_spec (s : Bytes) (len : Int) (hlen : 0 < len) (hmax : len ≤ llMax) :
    ∃ o rest, parseNext s len = .ok (o, rest) ∧ ∀ rg, o = some rg → InB len rg := by
  rw [llMax_eq] at hmax
  have hl1 : chk (len - 1) "len-1" = .ok (len - 1) := chk_ok (by omega)
  unfold parseNext
  split
  · exact ⟨_, _, rfl, by intro rg h; cases h⟩
  · rename_i n ds e hs
    have hr := strtoll_range hs
    rw [llMax_eq, llMin_eq] at hr
    split
    · rename_i hn
      split
      · rename_i hnl
        split
        · rw [hl1]; simp only
          split
          · refine ⟨_, _, rfl, ?_⟩
            intro rg h; simp only [Option.some.injEq] at h; subst h; simp only [InB]; omega
          · rename_i m ds2 e2 hs2
            split
            · refine ⟨_, _, rfl, ?_⟩
              intro rg h; simp only [Option.some.injEq] at h; subst h; simp only [InB]; omega
            · split
              · refine ⟨_, _, rfl, ?_⟩
                intro rg h; simp only [Option.some.injEq] at h; subst h; simp only [InB]
                split <;> omega
              · exact ⟨_, _, rfl, by intro rg h; cases h⟩
        · exact ⟨_, _, rfl, by intro rg h; cases h⟩
      · exact ⟨_, _, rfl, by intro rg h; cases h⟩
    · rename_i hn
      rw [hl1]; simp only
      split
      · rename_i hmin
        rw [llMin_eq] at hmin
        rw [chk_ok (x := -n) (by omega)]; simp only
        split
        · rw [chk_ok (x := len + n) (by omega)]; simp only
          refine ⟨_, _, rfl, ?_⟩
          intro rg h; simp only [Option.some.injEq] at h; subst h; simp only [InB]; omega
        · refine ⟨_, _, rfl, ?_⟩
          intro rg h; simp only [Option.some.injEq] at h; subst h; simp only [InB]; omega
      · refine ⟨_, _, rfl, ?_⟩
        intro rg h; simp only [Option.some.injEq] at h; subst h; simp only [InB]; omega

/-- loop invariant of http_range_parse(): all ranges in bounds, fewer ranges than the limit -/
structure PInv (len : Int) (st : PSt) : Prop where
  inb : AllInB len st.rs
  lim : st.lim ≤ rmax

theorem parseStep_spec (len : Int) (hmax : len ≤ llMax) (st : PSt) (rg : Rng) (hi : PInv len st)
    (hlt : st.rs.length < st.lim) (hrg : InB len rg) :
    ∃ st' brk, parseStep st rg = .ok (st', brk) ∧ PInv len st' ∧ st'.rs.length ≤ st'.lim := by
  rw [llMax_eq] at hmax
  have hu := rmaxU_le
  obtain ⟨r1, r2, r3⟩ := hrg
  unfold parseStep
  split
  · rename_i hrs
    refine ⟨_, _, rfl, ⟨?_, hi.lim⟩, ?_⟩
    · intro r hr; simp only [List.mem_singleton] at hr; subst hr; exact ⟨r1, r2, r3⟩
    · simp only [List.length_singleton]; rw [hrs] at hlt; simp at hlt; omega
  · rename_i prev more hrs
    have hin := hi.inb
    rw [hrs] at hin hlt
    simp only [List.length_cons] at hlt
    have hprev := hin prev (by simp)
    have hmore : ∀ r ∈ more, InB len r := fun r hr => hin r (by simp [hr])
    split
    · rw [chk_ok (x := rg.1 - 80) (by omega)]; simp only
      split
      · refine ⟨_, _, rfl, ⟨?_, hi.lim⟩, by simp only [List.length_cons]; omega⟩
        intro r hr; simp only [List.mem_cons] at hr
        rcases hr with e | e | e
        · subst e; exact ⟨r1, r2, r3⟩
        · subst e; exact hprev
        · exact hmore r e
      · refine ⟨_, _, rfl, ⟨?_, hi.lim⟩, by simp only [List.length_cons]; omega⟩
        intro r hr; simp only [List.mem_cons] at hr
        rcases hr with e | e
        · subst e; obtain ⟨p1, p2, p3⟩ := hprev; simp only [InB]; split <;> omega
        · exact hmore r e
    · split
      · refine ⟨_, _, rfl, hi, ?_⟩; rw [hrs]; simp only [List.length_cons]; omega
      · refine ⟨_, _, rfl, ⟨?_, hu⟩, by simp only [List.length_cons]; omega⟩
        intro r hr; simp only [List.mem_cons] at hr
        rcases hr with e | e | e
        · subst e; exact ⟨r1, r2, r3⟩
        · subst e; exact hprev
        · exact hmore r e

theorem parseLoop_spec (len : Int) (hlen : 0 < len) (hmax : len ≤ llMax) (ps : List Bytes) :
    ∀ st : PSt, PInv len st → st.rs.length < st.lim →
      ∃ st', parseLoop len st ps = .ok st' ∧ PInv len st' ∧ st'.rs.length ≤ rmax := by
  induction ps with
  | nil => intro st hi hlt; exact ⟨st, rfl, hi, by have := hi.lim; omega⟩
  | cons p ps ih =>
    intro st hi hlt
    have hl := hi.lim
    rw [rmax_eq] at hl
    unfold parseLoop
    have c : ¬ (2 * st.rs.length + 1 ≥ 2 * rmax) := by rw [rmax_eq]; omega
    rw [if_neg c]
    obtain ⟨o, rest, he, hsp⟩ := parseNext_spec p len hlen hmax
    rw [he]
    split
    · rename_i hu; cases hu
    · rename_i rg heq
      simp only [R.ok.injEq, Prod.mk.injEq] at heq
      have hrg := hsp rg heq.1
      obtain ⟨st', brk, hs, hi', hle⟩ := parseStep_spec len hmax st rg hi hlt hrg
      rw [hs]; simp only
      split
      · exact ⟨st', rfl, hi', by have := hi'.lim; omega⟩
      · rename_i hc
        simp only [not_or, Nat.not_le] at hc
        exact ih st' hi' hc.2
    · exact ih st hi hlt

theorem overlaps_spec (len : Int) (hmax : len ≤ llMax) (b e : Int) (r : Rng) (hb : InB len (b, e))
    (hr : InB len r) : ∃ v, overlaps b e r = .ok v := by
  rw [llMax_eq] at hmax
  obtain ⟨a1, a2, a3⟩ := hb
  obtain ⟨b1, b2, b3⟩ := hr
  simp only at a1 a2 a3
  unfold overlaps
  split
  · rw [chk_ok (x := r.1 - 80) (by omega)]; exact ⟨_, rfl⟩
  · rw [chk_ok (x := b - 80) (by omega)]; exact ⟨_, rfl⟩

theorem mergeFirst_spec (len : Int) (hmax : len ≤ llMax) (b e : Int) (hb : InB len (b, e)) (l : List Rng)
    (hl : AllInB len l) :
    ∃ o, mergeFirst b e l = .ok o ∧
      ∀ m l', o = some (m, l') → InB len m ∧ AllInB len l' ∧ l'.length + 1 = l.length := by
  induction l with
  | nil => exact ⟨none, rfl, by intro m l' h; cases h⟩
  | cons r rest ih =>
    have hr := hl r (by simp)
    have hrest : AllInB len rest := fun x hx => hl x (by simp [hx])
    obtain ⟨v, hv⟩ := overlaps_spec len hmax b e r hb hr
    obtain ⟨o, ho, hsp⟩ := ih hrest
    unfold mergeFirst
    rw [hv]
    cases v with
    | true =>
      refine ⟨_, rfl, ?_⟩
      intro m l' h
      simp only [Option.some.injEq, Prod.mk.injEq] at h
      obtain ⟨h1, h2⟩ := h
      subst h1; subst h2
      obtain ⟨a1, a2, a3⟩ := hb
      obtain ⟨b1, b2, b3⟩ := hr
      simp only at a1 a2 a3
      refine ⟨?_, hrest, by simp⟩
      simp only [InB]
      refine ⟨by split <;> omega, ?_, by split <;> omega⟩
      split <;> split <;> omega
    | false =>
      simp only
      rw [ho]
      cases o with
      | none => exact ⟨none, rfl, by intro m l' h; cases h⟩
      | some pr =>
        obtain ⟨m, rest'⟩ := pr
        refine ⟨_, rfl, ?_⟩
        intro m' l' h
        simp only [Option.some.injEq, Prod.mk.injEq] at h
        obtain ⟨h1, h2⟩ := h
        subst h1; subst h2
        obtain ⟨g1, g2, g3⟩ := hsp m rest' rfl
        refine ⟨g1, ?_, by simp; omega⟩
        intro x hx; simp only [List.mem_cons] at hx
        rcases hx with e' | e'
        · subst e'; exact hr
        · exact g2 x e'

theorem coalescePass_spec (len : Int) (hmax : len ≤ llMax) (l : List Rng) (hl : AllInB len l) :
    ∃ o, coalescePass l = .ok o ∧ ∀ l', o = some l' → AllInB len l' ∧ l'.length + 1 = l.length := by
  induction l with
  | nil => exact ⟨none, rfl, by intro l' h; cases h⟩
  | cons r rest ih =>
    have hr := hl r (by simp)
    have hrest : AllInB len rest := fun x hx => hl x (by simp [hx])
    obtain ⟨o, ho, hsp⟩ := mergeFirst_spec len hmax r.1 r.2 hr rest hrest
    obtain ⟨o2, ho2, hsp2⟩ := ih hrest
    unfold coalescePass
    rw [ho]
    cases o with
    | some pr =>
      obtain ⟨m, rest'⟩ := pr
      refine ⟨_, rfl, ?_⟩
      intro l' h
      simp only [Option.some.injEq] at h; subst h
      obtain ⟨g1, g2, g3⟩ := hsp m rest' rfl
      refine ⟨?_, by simp; omega⟩
      intro x hx; simp only [List.mem_cons] at hx
      rcases hx with e' | e'
      · subst e'; exact g1
      · exact g2 x e'
    | none =>
      simp only
      rw [ho2]
      cases o2 with
      | none => exact ⟨none, rfl, by intro l' h; cases h⟩
      | some rest' =>
        refine ⟨_, rfl, ?_⟩
        intro l' h
        simp only [Option.some.injEq] at h; subst h
        obtain ⟨g1, g2⟩ := hsp2 rest' rfl
        refine ⟨?_, by simp; omega⟩
        intro x hx; simp only [List.mem_cons] at hx
        rcases hx with e' | e'
        · subst e'; exact hr
        · exact g1 x e'

theorem coalesce_spec (len : Int) (hmax : len ≤ llMax) : ∀ (fuel : Nat) (l : List Rng), AllInB len l →
    ∃ l', coalesce fuel l = .ok l' ∧ AllInB len l' ∧ l'.length ≤ l.length := by
  intro fuel
  induction fuel with
  | zero => intro l hl; exact ⟨l, rfl, hl, Nat.le_refl _⟩
  | succ fuel ih =>
    intro l hl
    obtain ⟨o, ho, hsp⟩ := coalescePass_spec len hmax l hl
    unfold coalesce
    rw [ho]
    cases o with
    | none => exact ⟨l, rfl, hl, Nat.le_refl _⟩
    | some l1 =>
      obtain ⟨g1, g2⟩ := hsp l1 rfl
      obtain ⟨l', e, h1, h2⟩ := ih l1 g1
      exact ⟨l', e, h1, by omega⟩

theorem parse_spec (s : Bytes) (len : Int) (hlen : 0 < len) (hmax : len ≤ llMax) :
    ∃ rs, parse s len = .ok rs ∧ AllInB len rs ∧ rs.length ≤ rmax := by
  have h0 : PInv len { rs := [], lim := rmax } := ⟨by intro r hr; simp at hr, Nat.le_refl _⟩
  obtain ⟨st, he, hi, hle⟩ := parseLoop_spec len hlen hmax (splitOn 44 s) _ h0 (by simp; rw [rmax_eq]; omega)
  unfold parse
  rw [he]; simp only
  have hrev : AllInB len st.rs.reverse := fun r hr => hi.inb r (by simpa using hr)
  split
  · exact ⟨_, rfl, hrev, by simpa using hle⟩
  · split
    · exact ⟨_, rfl, hrev, by simpa using hle⟩
    · obtain ⟨l', e, h1, h2⟩ := coalesce_spec len hmax st.rs.reverse.length st.rs.reverse hrev
      exact ⟨l', e, h1, by simp at h2; omega⟩

end Rg
end Arith
end LtVerif
