/- helper lemmas for the scratch-buffer history model (C12) -/
import LtVerif.Model.ArithTmpBuf
import LtVerif.Proofs.Arith
namespace LtVerif
namespace Arith

/-- invariant of the shared scratch buffer: well-formed, bounded, and large enough for HPACK whenever an
    HTTP/2 connection is open -/
def TbInv (s : TbSt) : Prop :=
  s.b.used ≤ s.b.size ∧ s.b.size ≤ 786684 ∧ (s.h2open = true → h2EncodeNeed ≤ s.b.size)

/-- record fields are what the FastCGI record header can carry -/
def TbLegal : TbOp → Prop
  | .fcgiErr n p => n ≤ 65535 ∧ p ≤ 255
  | .fcgiOut n p => n ≤ 65535 ∧ p ≤ 255
  | _ => True

theorem h2TmpBufSize_eq : Extracted.h2TmpBufSize = 131071 := by decide

theorem tbStep_inv (s : TbSt) (op : TbOp) (hi : TbInv s) (hl : TbLegal op) :
    ∃ s', tbStep s op = some s' ∧ TbInv s' ∧ s.b.size ≤ s'.b.size := by
  obtain ⟨hwf, hsz, hopen⟩ := hi
  cases op with
  | h2init =>
    obtain ⟨b', h1, h2, h3, _, h5⟩ := prepareCopy_spec s.b 131071 (by omega) (by omega)
    refine ⟨⟨b', true⟩, ?_, ⟨?_, ?_, ?_⟩, ?_⟩
    · simp only [tbStep, h2TmpBufSize_eq, h1]
    · show b'.used ≤ b'.size; omega
    · show b'.size ≤ 786684; omega
    · intro _; show h2EncodeNeed ≤ b'.size; simp only [h2EncodeNeed]; omega
    · show s.b.size ≤ b'.size; omega
  | h2retire =>
    exact ⟨{ s with h2open := false }, rfl, ⟨hwf, hsz, by intro h; cases h⟩, Nat.le_refl _⟩
  | h2hdr =>
    refine ⟨s, ?_, ⟨hwf, hsz, hopen⟩, Nat.le_refl _⟩
    cases ho : s.h2open with
    | false => simp [tbStep, ho]
    | true =>
      have := hopen ho
      simp only [h2EncodeNeed] at this
      have hge : s.b.size ≥ h2DecodeNeed := by simp only [h2DecodeNeed]; omega
      simp [tbStep, ho, hge]
  | fcgiOut n p => exact ⟨s, rfl, ⟨hwf, hsz, hopen⟩, Nat.le_refl _⟩
  | fcgiErr n p =>
    obtain ⟨hn, hp⟩ := hl
    by_cases h0 : n + p = 0
    · refine ⟨s, ?_, ⟨hwf, hsz, hopen⟩, Nat.le_refl _⟩
      simp [tbStep, tbFcgiErr, h0]
    · have hcl : (clear s.b).size = s.b.size := rfl
      have hcu : (clear s.b).used = 0 := rfl
      have hlen0 : bufLen (clear s.b) = 0 := by simp [bufLen, hcu]
      obtain ⟨b', h1, h2, h3, _, _, _, h7⟩ :=
        prepareAppend_spec (clear s.b) (n + p) (by rw [hcu]; omega) (by rw [hcl]; omega) (by rw [hcu]; omega)
      rw [hlen0] at h2
      rw [h2] at h3
      rw [hcl, hcu, hlen0] at h7
      have hu : (truncate b' (0 + (n + p) - p)).used = n + 1 := by
        simp only [truncate, wrap32, u32Max_eq]
        rw [Nat.mod_eq_of_lt (by omega)]; omega
      have hs : (truncate b' (0 + (n + p) - p)).size = b'.size := rfl
      refine ⟨{ s with b := truncate b' (0 + (n + p) - p) }, ?_, ⟨?_, ?_, ?_⟩, ?_⟩
      · simp only [tbStep, tbFcgiErr, if_neg h0, h1]
      · show (truncate b' _).used ≤ (truncate b' _).size; rw [hu, hs]; omega
      · show (truncate b' _).size ≤ 786684; rw [hs]; omega
      · intro ho; show h2EncodeNeed ≤ (truncate b' _).size
        have := hopen ho; simp only [h2EncodeNeed] at this ⊢; rw [hs]; omega
      · show s.b.size ≤ (truncate b' _).size; rw [hs]; omega

def TbLegalAll : List TbOp → Prop
  | [] => True
  | op :: rest => TbLegal op ∧ TbLegalAll rest

theorem tbRun_inv (ops : List TbOp) : ∀ s : TbSt, TbInv s → TbLegalAll ops →
    ∃ sf tr, tbRun s ops = some (sf, tr) ∧ TbInv sf ∧ s.b.size ≤ sf.b.size ∧
      (∀ x ∈ tr, s.b.size ≤ x ∧ x ≤ 786684) := by
  induction ops with
  | nil => intro s hi _; exact ⟨s, [], rfl, hi, Nat.le_refl _, by intro x hx; cases hx⟩
  | cons op rest ih =>
    intro s hi hl
    obtain ⟨s', h1, hi', hm⟩ := tbStep_inv s op hi hl.1
    obtain ⟨sf, tr, h2, hif, hmf, htr⟩ := ih s' hi' hl.2
    refine ⟨sf, s'.b.size :: tr, ?_, hif, by omega, ?_⟩
    · simp only [tbRun, h1, h2]
    · intro x hx
      cases hx with
      | head => exact ⟨hm, hi'.2.1⟩
      | tail _ hx' => have := htr x hx'; omega

end Arith
end LtVerif
