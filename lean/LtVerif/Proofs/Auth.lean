/-
  Helper lemmas for C16 (authentication): cache invariants, unfolding lemmas of the
  Basic / Digest checks.  Property theorems are in LtVerif/Props/C16.lean.
-/
import LtVerif.Model.Auth
namespace LtVerif.Auth
open LtVerif B

/-! ### rule lookup -/

theorem findRule_get (rs : List Rule) (path : Bytes) (i j : Nat) (r : Rule)
    (h : findRule rs path i = some (j, r)) :
    ∃ k, j = i + k ∧ rs[k]? = some r ∧ r.pfx.isPrefixOf path = true := by
  induction rs generalizing i with
  | nil => simp [findRule] at h
  | cons a rs ih =>
    simp only [findRule] at h
    split at h
    · rename_i hp
      simp only [Option.some.injEq, Prod.mk.injEq] at h
      obtain ⟨rfl, rfl⟩ := h
      exact ⟨0, by simp, by simp, hp⟩
    · obtain ⟨k, hk, hg, hp⟩ := ih (i + 1) h
      exact ⟨k + 1, by omega, by simpa using hg, hp⟩

theorem findRule_get0 {rs : List Rule} {path : Bytes} {j : Nat} {r : Rule}
    (h : findRule rs path 0 = some (j, r)) : rs[j]? = some r := by
  obtain ⟨k, hk, hg, _⟩ := findRule_get rs path 0 j r h
  have : j = k := by omega
  subst this; exact hg

/-! ### the cache as a finite map -/

theorem lookup_mem {c : Cache} {key : Int} {e : Entry} (h : c.lookup key = some e) : (key, e) ∈ c := by
  induction c with
  | nil => simp [List.lookup] at h
  | cons p c ih =>
    obtain ⟨k, v⟩ := p
    simp only [List.lookup] at h
    split at h
    · rename_i hk
      have : key = k := by simpa using hk
      subst this
      simp only [Option.some.injEq] at h
      subst h
      exact List.mem_cons_self
    · exact List.mem_cons_of_mem _ (ih h)

theorem mem_insert {c : Cache} {key : Int} {e : Entry} {p : Int × Entry}
    (h : p ∈ c.insert key e) : p = (key, e) ∨ p ∈ c := by
  simp only [Cache.insert, List.mem_cons, List.mem_filter] at h
  rcases h with h | ⟨h, _⟩
  · exact Or.inl h
  · exact Or.inr h

theorem mem_cleanup {c : Cache} {ma cur : Int} {p : Int × Entry}
    (h : p ∈ c.cleanup ma cur) : p ∈ c ∧ cur - p.2.ctime ≤ ma := by
  simp only [Cache.cleanup, List.mem_filter, Bool.not_eq_eq_eq_not, Bool.not_true,
             decide_eq_false_iff_not, Int.not_lt] at h
  exact h

end LtVerif.Auth
