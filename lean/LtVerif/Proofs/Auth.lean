/-
  Helper lemmas for C16 (authentication): cache invariants, unfolding lemmas of the
  Basic / Digest checks.  Property theorems are in LtVerif/Props/C16.lean.
-/
import LtVerif.Model.Auth
namespace LtVerif.Auth
open LtVerif B

/-! ### rule lookup -/

theorem findRule_get (rs : List Rule) (path : Bytes) (i j : Nat) (r : Rule)
    (h : findRule rs path i = some (j, r)) :
    ∃ k, j = i + k ∧ rs[k]? = some r ∧ r.pfx.isPrefixOf path = true := by
  induction rs generalizing i with
  | nil => simp [findRule] at h
  | cons a rs ih =>
    simp only [findRule] at h
    split at h
    · rename_i hp
      simp only [Option.some.injEq, Prod.mk.injEq] at h
      obtain ⟨rfl, rfl⟩ := h
      exact ⟨0, by simp, by simp, hp⟩
    · obtain ⟨k, hk, hg, hp⟩ := ih (i + 1) h
      exact ⟨k + 1, by omega, by simpa using hg, hp⟩

theorem findRule_get0 {rs : List Rule} {path : Bytes} {j : Nat} {r : Rule}
    (h : findRule rs path 0 = some (j, r)) : rs[j]? = some r := by
  obtain ⟨k, hk, hg, _⟩ := findRule_get rs path 0 j r h
  have : j = k := by omega
  subst this; exact hg

/-! ### the cache as a finite map -/

theorem lookup_mem {c : Cache} {key : Int} {e : Entry} (h : c.lookup key = some e) : (key, e) ∈ c := by
  induction c with
  | nil => simp [List.lookup] at h
  | cons p c ih =>
    obtain ⟨k, v⟩ := p
    simp only [List.lookup] at h
    split at h
    · rename_i hk
      have : key = k := by simpa using hk
      subst this
      simp only [Option.some.injEq] at h
      subst h
      exact List.mem_cons_self
    · exact List.mem_cons_of_mem _ (ih h)

theorem mem_insert {c : Cache} {key : Int} {e : Entry} {p : Int × Entry}
    (h : p ∈ c.insert key e) : p = (key, e) ∨ p ∈ c := by
  simp only [Cache.insert, List.mem_cons, List.mem_filter] at h
  rcases h with h | ⟨h, _⟩
  · exact Or.inl h
  · exact Or.inr h

theorem mem_cleanup {c : Cache} {ma cur : Int} {p : Int × Entry}
    (h : p ∈ c.cleanup ma cur) : p ∈ c ∧ cur - p.2.ctime ≤ ma := by
  simp only [Cache.cleanup, List.mem_filter, Bool.not_eq_eq_eq_not, Bool.not_true,
             decide_eq_false_iff_not, Int.not_lt] at h
  exact h

/-! ### user-file scans -/

theorem htdDigest_next {dlen : Nat} {pwd u : Bytes} {onLen : HtdLine} {v : Bytes}
    (h : htdDigest dlen pwd onLen u = .next v) : onLen = .next v := by
  unfold htdDigest at h
  split at h
  · exact h
  · split at h <;> cases h

theorem htdDigest_done {dlen : Nat} {pwd u : Bytes} {w : Bytes} {u' d : Bytes}
    (h : htdDigest dlen pwd (.next w) u = .done (some (u', d))) : u' = u := by
  unfold htdDigest at h
  split at h
  · cases h
  · split at h
    · simp only [HtdLine.done.injEq, Option.some.injEq, Prod.mk.injEq] at h; exact h.1.symm
    · cases h

theorem htdigestLineUser_next {realm : Bytes} {dlen : Nat} {l uname v : Bytes}
    (h : htdigestLineUser realm dlen l uname = .next v) : v = uname := by
  unfold htdigestLineUser at h
  repeat' split at h
  all_goals first
    | (simp only [HtdLine.next.injEq] at h; exact h.symm)
    | (have := htdDigest_next h; simp only [HtdLine.next.injEq] at this; exact this.symm)

theorem htdigestLineUser_done {realm : Bytes} {dlen : Nat} {l uname u d : Bytes}
    (h : htdigestLineUser realm dlen l uname = .done (some (u, d))) : u = uname := by
  unfold htdigestLineUser at h
  repeat' split at h
  all_goals first
    | cases h
    | exact htdDigest_done h

theorem htdigestLineHash_done {realm : Bytes} {dlen : Nat} {l uname u d : Bytes}
    (h : htdigestLineHash realm dlen l uname = .done (some (u, d))) :
    u.length ≤ Extracted.authUserbufSize := by
  unfold htdigestLineHash at h
  repeat' split at h
  all_goals first
    | cases h
    | (rename_i hc; have := htdDigest_done h; rw [this]; exact hc.2.2)

theorem htdigestScan_nouserhash_name (realm : Bytes) (dlen : Nat) (ls : List Bytes) (uname u d : Bytes)
    (h : htdigestScan realm false dlen ls uname = some (u, d)) : u = uname := by
  induction ls generalizing uname with
  | nil => simp [htdigestScan] at h
  | cons l ls ih =>
    unfold htdigestScan at h
    simp only [Bool.false_eq_true, ↓reduceIte] at h
    split at h
    · rename_i u' hl
      have := htdigestLineUser_next hl
      subst this
      exact ih _ h
    · rename_i r hl
      subst h
      exact htdigestLineUser_done hl

theorem htdigestScan_userhash_len (realm : Bytes) (dlen : Nat) (ls : List Bytes) (uname u d : Bytes)
    (h : htdigestScan realm true dlen ls uname = some (u, d)) : u.length ≤ Extracted.authUserbufSize := by
  induction ls generalizing uname with
  | nil => simp [htdigestScan] at h
  | cons l ls ih =>
    unfold htdigestScan at h
    simp only [↓reduceIte] at h
    split at h
    · exact ih _ h
    · rename_i r hl
      subst h
      exact htdigestLineHash_done hl

theorem digestHitEntry_some {c : Cache} {key : Int} {ridx : Nat} {ai : AI} {user : Bytes} {e : Entry}
    (h : digestHitEntry c key ridx ai user = some e) : (key, e) ∈ c ∧ digestHit ridx ai user e = true := by
  unfold digestHitEntry at h
  split at h
  · rename_i e' hl
    split at h
    · rename_i hcond
      simp only [Option.some.injEq] at h
      subst h
      exact ⟨lookup_mem hl, hcond⟩
    · cases h
  · cases h

theorem backendLookup_plain_uh {P : Prims} {cfg : Cfg} (hb : cfg.backend = .plain) (realm : Bytes) (uh uh' : Bool)
    (dlen : Nat) (name : Bytes) :
    backendLookup P cfg realm uh dlen name = backendLookup P cfg realm uh' dlen name := by
  unfold backendLookup; rw [hb]

theorem backendLookup_plain_name {P : Prims} {cfg : Cfg} (hb : cfg.backend = .plain) {realm : Bytes} {uh : Bool}
    {dlen : Nat} {name u d : Bytes} (h : backendLookup P cfg realm uh dlen name = some (u, d)) : u = name := by
  unfold backendLookup at h; rw [hb] at h
  simp only at h
  split at h
  · cases h
  · simp only [Option.some.injEq, Prod.mk.injEq] at h; exact h.1.symm

theorem backendLookup_nouserhash_name {P : Prims} {cfg : Cfg} {realm : Bytes}
    {dlen : Nat} {name u d : Bytes} (h : backendLookup P cfg realm false dlen name = some (u, d)) : u = name := by
  cases hb : cfg.backend with
  | plain => exact backendLookup_plain_name hb h
  | htdigest =>
    unfold backendLookup at h; rw [hb] at h
    exact htdigestScan_nouserhash_name _ _ _ _ _ _ h
  | none => unfold backendLookup at h; rw [hb] at h; cases h
  | htpasswd => unfold backendLookup at h; rw [hb] at h; cases h

theorem backendLookup_userhash {P : Prims} {cfg : Cfg} {realm : Bytes}
    {dlen : Nat} {name u d : Bytes} (h : backendLookup P cfg realm true dlen name = some (u, d)) :
    (cfg.backend = .plain ∧ u = name) ∨ u.length ≤ Extracted.authUserbufSize := by
  cases hb : cfg.backend with
  | plain => exact Or.inl ⟨rfl, backendLookup_plain_name hb h⟩
  | htdigest =>
    unfold backendLookup at h; rw [hb] at h
    exact Or.inr (htdigestScan_userhash_len _ _ _ _ _ _ h)
  | none => unfold backendLookup at h; rw [hb] at h; cases h
  | htpasswd => unfold backendLookup at h; rw [hb] at h; cases h

theorem lowerUserhash_length (s : Bytes) : (lowerUserhash s).length = s.length := by
  simp [lowerUserhash]

theorem backendDigest_some {P : Prims} {cfg : Cfg} {ai ai2 : AI} (h : backendDigest P cfg ai = some ai2) :
    backendLookup P cfg ai.realm ai.userhash ai.dlen ai.username = some (ai2.username, ai2.digest)
    ∧ ai2 = { ai with username := ai2.username, digest := ai2.digest } := by
  unfold backendDigest at h
  split at h
  · cases h
  · rename_i u d hl
    simp only [Option.some.injEq] at h
    subst h
    exact ⟨hl, rfl⟩

/-! ### cache invariant: every entry restates a backend record -/

def EntryOk (P : Prims) (cfg : Cfg) (e : Entry) : Prop :=
  ∃ rule, cfg.rules[e.rule]? = some rule ∧
    (rule.scheme = .basic → backendBasic P cfg rule e.username e.pw = true) ∧
    (rule.scheme = .digest → ∃ uh : Bool,
        (e.kIsUser = !uh ∨ (uh = true ∧ e.kIsUser = true ∧ cfg.backend = .plain)) ∧
        (e.kIsUser = false → e.username.length ≤ Extracted.authUserbufSize) ∧
        backendLookup P cfg rule.realm uh e.dlen e.k = some (e.username, e.pw))

def CacheOk (P : Prims) (cfg : Cfg) (c : Cache) : Prop := ∀ p ∈ c, EntryOk P cfg p.2

theorem basicHit_some {c : Cache} {key : Int} {ridx : Nat} {user : Bytes} {e : Entry}
    (h : basicHit c key ridx user = some e) : (key, e) ∈ c ∧ e.rule = ridx ∧ e.username = user := by
  unfold basicHit at h
  split at h
  · rename_i e' hl
    split at h
    · rename_i hcond
      simp only [Option.some.injEq] at h
      subst h
      exact ⟨lookup_mem hl, hcond.1, hcond.2⟩
    · cases h
  · cases h

theorem basicAuth_new {P : Prims} {cfg : Cfg} {ridx : Nat} {rule : Rule} {st : St} {user pw : Bytes}
    (hr : cfg.rules[ridx]? = some rule) (hs : rule.scheme = .basic) {p : Int × Entry}
    (hp : p ∈ (basicAuth P cfg ridx rule st user pw).1.cache) :
    p ∈ st.cache ∨ (EntryOk P cfg p.2 ∧ p.2.scope = cfg.cur) := by
  unfold basicAuth at hp
  split at hp
  · exact Or.inl hp
  · split at hp
    · exact Or.inl hp
    · split at hp
      · rename_i hb
        rcases mem_insert hp with rfl | hp
        · right
          exact ⟨⟨rule, hr, fun _ => hb, fun h => by rw [hs] at h; cases h⟩, rfl⟩
        · exact Or.inl hp
      · exact Or.inl hp

theorem basicAuth_cacheOk {P : Prims} {cfg : Cfg} {ridx : Nat} {rule : Rule} {st : St} {user pw : Bytes}
    (hc : CacheOk P cfg st.cache) (hr : cfg.rules[ridx]? = some rule) (hs : rule.scheme = .basic) :
    CacheOk P cfg (basicAuth P cfg ridx rule st user pw).1.cache := by
  intro p hp
  rcases basicAuth_new hr hs hp with h | h
  · exact hc p h
  · exact h.1

theorem basicAuth_sound {P : Prims} {cfg : Cfg} {ridx : Nat} {rule : Rule} {st : St} {user pw : Bytes}
    (hc : CacheOk P cfg st.cache) (hr : cfg.rules[ridx]? = some rule) (hs : rule.scheme = .basic)
    (h : (basicAuth P cfg ridx rule st user pw).2 = true) :
    backendBasic P cfg rule user pw = true := by
  unfold basicAuth at h
  split at h
  · exact h
  · split at h
    · rename_i e hhit
      obtain ⟨hm, h1, h2⟩ := basicHit_some hhit
      obtain ⟨rule', hr', hb, _⟩ := hc _ hm
      simp only at hr'
      rw [h1, hr] at hr'
      simp only [Option.some.injEq] at hr'
      subst hr'
      have := hb hs
      simp only [decide_eq_true_eq] at h
      rw [h2, h] at this
      exact this
    · split at h
      · rename_i hb; exact hb
      · cases h

theorem digestGet_new {P : Prims} {cfg : Cfg} {ridx : Nat} {rule : Rule} {st : St} {ai : AI}
    (hr : cfg.rules[ridx]? = some rule) (hs : rule.scheme = .digest)
    (hrealm : ai.realm = rule.realm) {p : Int × Entry} (hp : p ∈ (digestGet P cfg ridx st ai).1.cache) :
    p ∈ st.cache ∨ (EntryOk P cfg p.2 ∧ p.2.scope = cfg.cur) := by
  unfold digestGet at hp
  split at hp
  · exact Or.inl hp
  · split at hp
    · exact Or.inl hp
    · split at hp
      · exact Or.inl hp
      · rename_i ai2 hb
        rcases mem_insert hp with rfl | hp
        · right
          refine ⟨?_, rfl⟩
          obtain ⟨hl, _⟩ := backendDigest_some hb
          simp only at hl
          refine ⟨rule, hr, ?_, ?_⟩
          · intro h; rw [hs] at h; cases h
          · intro _
            refine ⟨ai.userhash, ?_, ?_, ?_⟩
            · simp only [digestEntry]
              cases ai.userhash <;> cases hb' : cfg.backend <;> simp <;> omega
            · simp only [digestEntry]
              intro hk
              cases huh : ai.userhash with
              | false => rw [huh] at hk; simp at hk
              | true =>
                rw [huh] at hl hk
                rcases backendLookup_userhash hl with ⟨hpl, hu⟩ | hlen
                · rw [hu]
                  simp only [hpl, Bool.not_true, Bool.false_or, decide_true, Bool.and_true,
                             decide_eq_false_iff_not, Nat.not_lt] at hk
                  simp only [digestKey, lookupKey, huh, hk, and_self, ↓reduceIte]
                  rw [lowerUserhash_length]; exact hk
                · exact hlen
            · simp only [digestEntry]
              rw [← hrealm]; exact hl
        · exact Or.inl hp

theorem digestGet_cacheOk {P : Prims} {cfg : Cfg} {ridx : Nat} {rule : Rule} {st : St} {ai : AI}
    (hc : CacheOk P cfg st.cache) (hr : cfg.rules[ridx]? = some rule) (hs : rule.scheme = .digest)
    (hrealm : ai.realm = rule.realm) :
    CacheOk P cfg (digestGet P cfg ridx st ai).1.cache := by
  intro p hp
  rcases digestGet_new hr hs hrealm hp with h | h
  · exact hc p h
  · exact h.1

/-- what mod_auth_digest_get() returns: the answer of the backend in effect, or — on a cache
    hit — the answer of the backend that vouched for the entry (`cfgOf e`) -/
theorem digestGet_result {P : Prims} {cfg : Cfg} {ridx : Nat} {rule : Rule} {st : St} {ai : AI}
    (cfgOf : Entry → Cfg)
    (hE : ∀ p ∈ st.cache, EntryOk P (cfgOf p.2) p.2 ∧ (cfgOf p.2).rules = cfg.rules)
    (hr : cfg.rules[ridx]? = some rule) (hs : rule.scheme = .digest)
    (hrealm : ai.realm = rule.realm) :
    (digestGet P cfg ridx st ai).2 = backendDigest P cfg { ai with username := digestKey ai } ∨
    ∃ p ∈ st.cache, (digestGet P cfg ridx st ai).2 =
      backendDigest P (cfgOf p.2) { ai with username := digestKey ai } := by
  unfold digestGet
  split
  · exact Or.inl rfl
  · split
    · rename_i e hhit
      right
      obtain ⟨hm, hcond⟩ := digestHitEntry_some hhit
      refine ⟨_, hm, ?_⟩
      obtain ⟨⟨rule', hr', _, hd⟩, hrules⟩ := hE _ hm
      rw [hrules] at hr'
      generalize hcE : cfgOf (P.hash ridx (digestKey ai), e).2 = cfgE at hd ⊢
      simp only [digestHit, Bool.and_eq_true, decide_eq_true_eq] at hcond
      obtain ⟨⟨⟨⟨h1, h2⟩, h3⟩, h4⟩, h5⟩ := hcond
      simp only at hr'
      rw [h1, hr] at hr'
      simp only [Option.some.injEq] at hr'
      subst hr'
      obtain ⟨uh, hkind, hlen, hl⟩ := hd hs
      simp only at hkind hlen hl
      -- the lookup the backend would do now
      have hl' : backendLookup P cfgE ai.realm ai.userhash ai.dlen (digestKey ai) = some (e.username, e.pw) := by
        rw [hrealm, ← h3, ← h4]
        rcases hkind with hk | ⟨_, _, hpl⟩
        · have h6 : (!uh) = (!ai.userhash) := hk.symm.trans h5
          have : uh = ai.userhash := by
            revert h6; generalize ai.userhash = b; cases uh <;> cases b <;> simp
          rw [← this]; exact hl
        · rw [backendLookup_plain_uh hpl _ ai.userhash uh]; exact hl
      simp only [backendDigest, hl']
      -- the user name reported on a hit is the backend's
      have hname : (if (!e.kIsUser) = true ∧ e.username.length ≤ Extracted.authUserbufSize
                    then e.username else ai.username) = e.username := by
        cases hk : e.kIsUser with
        | false => simp [hlen hk]
        | true =>
          simp only [Bool.not_true, Bool.false_eq_true, false_and, ↓reduceIte]
          rw [hk] at h5
          have huh : ai.userhash = false := by
            revert h5; generalize ai.userhash = b; cases b <;> simp
          have hkey : digestKey ai = ai.username := by simp [digestKey, lookupKey, huh]
          rw [huh] at hl'
          have := backendLookup_nouserhash_name hl'
          rw [this, hkey]
      simp only [Bool.not_eq_eq_eq_not, Bool.not_true] at hname ⊢
      rw [hname]
    · left
      split
      · rename_i hb; simp only; rw [hb]
      · rename_i ai2 hb; simp only; rw [hb]

theorem digestGet_transparent {P : Prims} {cfg : Cfg} {ridx : Nat} {rule : Rule} {st : St} {ai : AI}
    (hc : CacheOk P cfg st.cache) (hr : cfg.rules[ridx]? = some rule) (hs : rule.scheme = .digest)
    (hrealm : ai.realm = rule.realm) :
    (digestGet P cfg ridx st ai).2 = backendDigest P cfg { ai with username := digestKey ai } := by
  rcases digestGet_result (fun _ => cfg) (fun p hp => ⟨hc p hp, rfl⟩) hr hs hrealm with h | ⟨_, _, h⟩
  · exact h
  · exact h

/-! ### Digest: what the validation steps establish -/

/-- what a successful mod_auth_digest_validate_params() establishes -/
structure ParamsOk (rule : Rule) (req : Req) (dp : Params) (ai : AI) : Prop where
  realm : dp.realm = some rule.realm
  uri : dp.uri = some req.target
  nonce : dp.nonce.isSome = true
  airealm : ai.realm = rule.realm
  algo : algorithmParse (dp.algorithm.getD []) = some (ai.dalgo, ai.dlen)
  allowed : rule.algorithm &&& ai.dalgo &&& 0xfffffffe ≠ 0
  name : claimedName dp = some ai.username
  userhash : ai.userhash = userhashFlag dp
  resp : (hex2bin (dp.response.getD [])).isSome = true
  digest : ai.digest = []

theorem validateParams_ok {rule : Rule} {req : Req} {dp : Params} {ai : AI}
    (h : validateParams rule req dp = .ok ai) : ParamsOk rule req dp ai := by
  unfold validateParams at h
  split at h
  · cases h
  · rename_i hreq
    split at h
    · cases h
    · rename_i uname hname
      split at h
      · cases h
      · rename_i hrealm
        split at h
        · cases h
        · rename_i dalgo dlen halgo
          split at h
          · cases h
          · rename_i hallowed
            split at h
            · cases h
            · split at h
              · cases h
              · rename_i hresp
                split at h
                · cases h
                · split at h
                  · cases h
                  · rename_i huri
                    simp only [Except.ok.injEq] at h
                    subst h
                    have hreq' : requiredPresent dp = true := by
                      cases hq : requiredPresent dp <;> simp [hq] at hreq ⊢
                    simp only [requiredPresent, Bool.and_eq_true] at hreq'
                    simp only [ne_eq, Decidable.not_not] at hrealm huri
                    simp only [not_or, Decidable.not_not] at hresp
                    obtain ⟨⟨⟨⟨⟨_, hx⟩, hr⟩, hn⟩, hu⟩, _⟩ := hreq'
                    refine ⟨?_, ?_, hn, hrealm.symm, halgo, hallowed, hname, rfl, ?_, rfl⟩
                    · cases hdr : dp.realm with
                      | none => rw [hdr] at hr; cases hr
                      | some r => rw [hdr] at hrealm; simp at hrealm; rw [hrealm]
                    · cases hdu : dp.uri with
                      | none => rw [hdu] at hu; cases hu
                      | some r => rw [hdu] at huri; simp at huri; rw [huri]
                    · cases hh : hex2bin (dp.response.getD []) with
                      | none => rw [hh] at hresp; simp at hresp
                      | some _ => rfl

theorem validateNonce_ok {P : Prims} {rule : Rule} {epoch : Int} {nonce : Bytes} {dalgo : Nat} {nn : Bool}
    (h : validateNonce P rule epoch nonce dalgo = .ok nn) : NonceFresh P rule epoch nonce := by
  simp only [validateNonce] at h
  split at h
  · cases h
  · rename_i hc
    simp only [not_or, Decidable.not_not, Int.not_lt] at hc
    obtain ⟨h1, h2, h3, h4⟩ := hc
    refine ⟨h1, h2, h3, h4, ?_⟩
    split at h
    · rename_i hs; intro sec hsec; rw [hs] at hsec; cases hsec
    · rename_i sec hs
      split at h
      · cases h
      · split at h
        · cases h
        · rename_i heq
          simp only [ne_eq, Decidable.not_not] at heq
          intro sec' hsec
          rw [hs] at hsec
          simp only [Option.some.injEq] at hsec
          subst hsec
          exact ⟨_, Nat.mod_lt _ (by decide), heq.symm⟩

theorem digestPre_ok {P : Prims} {cfg : Cfg} {rule : Rule} {epoch : Int} {req : Req}
    {dp : Params} {ai : AI} {nn : Bool} (h : digestPre P cfg rule epoch req = .ok (dp, ai, nn)) :
    ∃ vb, req.auth = some vb ∧ icasePrefix vb (ofString "Digest ") = true ∧
      dp = parseAuthorization (vb.drop 7) ∧ ParamsOk rule req dp ai ∧
      NonceFresh P rule epoch (dp.nonce.getD []) := by
  simp only [digestPre] at h
  split at h
  · cases h
  · split at h
    · cases h
    · rename_i vb hvb
      split at h
      · cases h
      · rename_i hpre
        split at h
        · cases h
        · rename_i ai' hvp
          split at h
          · cases h
          · rename_i nn' hvn
            simp only [Except.ok.injEq, Prod.mk.injEq] at h
            obtain ⟨rfl, rfl, rfl⟩ := h
            refine ⟨vb, hvb, ?_, rfl, validateParams_ok hvp, validateNonce_ok hvn⟩
            simpa using hpre

theorem digestPost_go {P : Prims} {rule : Rule} {req : Req} {dp : Params} {ai : AI} {nn : Bool}
    {u : Bytes} {d n : Bool} (h : digestPost P rule req dp ai nn = .go u d n) :
    responseMatches P req dp ai.dalgo ai.digest = true ∧ matchRules rule.req ai.username = true
    ∧ u = ai.username ∧ d = true ∧ n = nn := by
  unfold digestPost at h
  split at h
  · cases h
  · rename_i h1
    split at h
    · cases h
    · rename_i h2
      simp only [Outcome.go.injEq] at h
      obtain ⟨rfl, rfl, rfl⟩ := h
      refine ⟨by simpa using h1, by simpa using h2, rfl, rfl, rfl⟩

theorem checkDigest_go {P : Prims} {cfg : Cfg} {ridx : Nat} {rule : Rule} {st : St} {req : Req}
    {u : Bytes} {d n : Bool}
    (hc : CacheOk P cfg st.cache) (hr : cfg.rules[ridx]? = some rule) (hs : rule.scheme = .digest)
    (h : (checkDigest P cfg ridx rule st req).2 = .go u d n) :
    ∃ vb, req.auth = some vb ∧ DigestValid P cfg rule st.epoch req vb u ∧ d = true := by
  unfold checkDigest at h
  split at h
  · cases h
  · rename_i dp ai nn hpre
    obtain ⟨vb, hvb, hpfx, hdp, hpo, hnf⟩ := digestPre_ok hpre
    split at h
    · cases h
    · rename_i ai' hget
      simp only at h
      obtain ⟨hresp, hauth, rfl, rfl, rfl⟩ := digestPost_go h
      rw [digestGet_transparent hc hr hs hpo.airealm] at hget
      obtain ⟨hl, hai'⟩ := backendDigest_some hget
      simp only at hl
      refine ⟨vb, hvb, ⟨hpfx, dp, dp.nonce.getD [], ai.dalgo, ai.dlen, ai.username, ai'.digest, hdp, hpo.realm,
              hpo.uri, ?_, hnf, hpo.algo, hpo.allowed, hpo.name, ?_, ?_, hauth⟩, rfl⟩
      · cases hn : dp.nonce with
        | none => have := hpo.nonce; rw [hn] at this; cases this
        | some x => rfl
      · rw [← hpo.airealm, ← hpo.userhash]; exact hl
      · have : ai'.dalgo = ai.dalgo := by rw [hai']
        rw [← this]; exact hresp

/-! ### Basic -/

theorem backendBasic_valid {P : Prims} {cfg : Cfg} {rule : Rule} {u pw : Bytes}
    (h : backendBasic P cfg rule u pw = true) :
    matchRules rule.req u = true ∧
    match cfg.backend with
    | .plain => htpasswdGet cfg.file u = some (cstr pw)
    | .htdigest => ∃ name, htdigestScan rule.realm false (digestLen (rule.algorithm &&& 0xfffffffe))
                     (fileLines cfg.file) u = some (name, ha1 P u rule.realm (cstr pw))
    | .htpasswd => ∃ stored, htpasswdGet cfg.file u = some stored ∧ htpasswdVerify P stored (cstr pw) = true
    | .none => False := by
  unfold backendBasic at h
  cases hb : cfg.backend with
  | none => rw [hb] at h; cases h
  | plain =>
    rw [hb] at h; simp only at h ⊢
    split at h
    · cases h
    · rename_i stored hg
      simp only [Bool.and_eq_true, decide_eq_true_eq] at h
      exact ⟨h.2, by rw [hg, h.1]⟩
  | htdigest =>
    rw [hb] at h; simp only at h ⊢
    split at h
    · cases h
    · rename_i name d hg
      simp only [Bool.and_eq_true, decide_eq_true_eq] at h
      exact ⟨h.2, name, by rw [hg, h.1]⟩
  | htpasswd =>
    rw [hb] at h; simp only at h ⊢
    split at h
    · cases h
    · rename_i stored hg
      simp only [Bool.and_eq_true] at h
      exact ⟨h.2, stored, hg, h.1⟩

theorem checkBasic_go {P : Prims} {cfg : Cfg} {ridx : Nat} {rule : Rule} {st : St} {req : Req}
    {u : Bytes} {d n : Bool}
    (hc : CacheOk P cfg st.cache) (hr : cfg.rules[ridx]? = some rule) (hs : rule.scheme = .basic)
    (h : (checkBasic P cfg ridx rule st req).2 = .go u d n) :
    ∃ vb, req.auth = some vb ∧ BasicValid P cfg rule vb u ∧ d = false := by
  unfold checkBasic at h
  split at h
  · cases h
  · split at h
    · cases h
    · rename_i vb hvb
      split at h
      · cases h
      · rename_i user pw hcreds
        split at h
        · rename_i hok
          simp only [Outcome.go.injEq] at h
          obtain ⟨rfl, rfl, rfl⟩ := h
          have hb := basicAuth_sound hc hr hs hok
          obtain ⟨hm, hrec⟩ := backendBasic_valid hb
          exact ⟨vb, hvb, ⟨pw, hcreds, hm, hrec⟩, rfl⟩
        · cases h

/-! ### the handler -/

theorem checkBasic_cacheOk {P : Prims} {cfg : Cfg} {ridx : Nat} {rule : Rule} {st : St} {req : Req}
    (hc : CacheOk P cfg st.cache) (hr : cfg.rules[ridx]? = some rule) (hs : rule.scheme = .basic) :
    CacheOk P cfg (checkBasic P cfg ridx rule st req).1.cache := by
  unfold checkBasic
  split
  · exact hc
  · split
    · exact hc
    · split
      · exact hc
      · split <;> exact basicAuth_cacheOk hc hr hs

theorem checkDigest_cacheOk {P : Prims} {cfg : Cfg} {ridx : Nat} {rule : Rule} {st : St} {req : Req}
    (hc : CacheOk P cfg st.cache) (hr : cfg.rules[ridx]? = some rule) (hs : rule.scheme = .digest) :
    CacheOk P cfg (checkDigest P cfg ridx rule st req).1.cache := by
  unfold checkDigest
  split
  · exact hc
  · rename_i dp ai nn hpre
    obtain ⟨vb, _, _, _, hpo, _⟩ := digestPre_ok hpre
    split <;> exact digestGet_cacheOk hc hr hs hpo.airealm

theorem handle_cacheOk {P : Prims} {cfg : Cfg} {st : St} {req : Req}
    (hc : CacheOk P cfg st.cache) : CacheOk P cfg (handle P cfg st req).1.cache := by
  unfold handle
  split
  · exact hc
  · rename_i ridx rule hf
    have hr := findRule_get0 hf
    split
    · rename_i hs; exact checkBasic_cacheOk hc hr hs
    · rename_i hs; exact checkDigest_cacheOk hc hr hs

theorem cleanup_cacheOk {P : Prims} {cfg : Cfg} {c : Cache} {ma cur : Int}
    (hc : CacheOk P cfg c) : CacheOk P cfg (c.cleanup ma cur) :=
  fun p hp => hc p (mem_cleanup hp).1

theorem cacheOk_nil {P : Prims} {cfg : Cfg} : CacheOk P cfg [] := fun _ h => by cases h

/-! ### the cache never changes a refusal into an acceptance -/

theorem basicAuth_nil {P : Prims} {cfg : Cfg} {ridx : Nat} {rule : Rule} {st : St} {user pw : Bytes} :
    (basicAuth P cfg ridx rule { st with cache := [] } user pw).2 = backendBasic P cfg rule user pw := by
  unfold basicAuth
  split
  · rfl
  · simp only [basicHit, List.lookup]
    split
    · rename_i hb; simp [hb]
    · rename_i hb; simp at hb; simp [hb]

theorem checkBasic_go_nocache {P : Prims} {cfg : Cfg} {ridx : Nat} {rule : Rule} {st : St} {req : Req}
    {u : Bytes} {d n : Bool}
    (hc : CacheOk P cfg st.cache) (hr : cfg.rules[ridx]? = some rule) (hs : rule.scheme = .basic)
    (h : (checkBasic P cfg ridx rule st req).2 = .go u d n) :
    (checkBasic P cfg ridx rule { st with cache := [] } req).2 = .go u d n := by
  unfold checkBasic at h ⊢
  split at h
  · cases h
  · rename_i hbk
    rw [if_neg hbk]
    split at h
    · cases h
    · rename_i vb hvb
      split at h
      · cases h
      · rename_i user pw hcreds
        split at h
        · rename_i hok
          have hb := basicAuth_sound hc hr hs hok
          simp only [basicAuth_nil, hb, ↓reduceIte]
          exact h
        · cases h

/-- the answer of the Digest check as a function of the credential lookup -/
def checkDigestOut (P : Prims) (cfg : Cfg) (rule : Rule) (epoch : Int) (req : Req) (get : AI → Option AI) : Outcome :=
  match digestPre P cfg rule epoch req with
  | .error o => .refuse o
  | .ok (dp, ai, nn) =>
    match get ai with
    | none => .refuse (.s401d 0 false)
    | some ai' => digestPost P rule req dp ai' nn

theorem checkDigest_snd {P : Prims} {cfg : Cfg} {ridx : Nat} {rule : Rule} {st : St} {req : Req} :
    (checkDigest P cfg ridx rule st req).2 =
      checkDigestOut P cfg rule st.epoch req (fun ai => (digestGet P cfg ridx st ai).2) := by
  unfold checkDigest checkDigestOut
  cases hp : digestPre P cfg rule st.epoch req with
  | error o => rfl
  | ok x =>
    obtain ⟨dp, ai, nn⟩ := x
    simp only
    cases hg : (digestGet P cfg ridx st ai).2 <;> rfl

theorem checkDigest_nocache {P : Prims} {cfg : Cfg} {ridx : Nat} {rule : Rule} {st : St} {req : Req}
    (hc : CacheOk P cfg st.cache) (hr : cfg.rules[ridx]? = some rule) (hs : rule.scheme = .digest) :
    (checkDigest P cfg ridx rule { st with cache := [] } req).2 = (checkDigest P cfg ridx rule st req).2 := by
  rw [checkDigest_snd, checkDigest_snd]
  unfold checkDigestOut
  cases hp : digestPre P cfg rule st.epoch req with
  | error o => rfl
  | ok x =>
    obtain ⟨dp, ai, nn⟩ := x
    obtain ⟨vb, _, _, _, hpo, _⟩ := digestPre_ok hp
    dsimp only
    rw [digestGet_transparent hc hr hs hpo.airealm,
        digestGet_transparent (st := { st with cache := [] }) cacheOk_nil hr hs hpo.airealm]

theorem handle_go_nocache {P : Prims} {cfg : Cfg} {st : St} {req : Req} {u : Bytes} {d n : Bool}
    (hc : CacheOk P cfg st.cache) (h : (handle P cfg st req).2 = .go u d n) :
    (handle P cfg { st with cache := [] } req).2 = .go u d n := by
  unfold handle at h ⊢
  cases hf : findRule cfg.rules req.path 0 with
  | none => rw [hf] at h; cases h
  | some x =>
    obtain ⟨ridx, rule⟩ := x
    rw [hf] at h
    have hr := findRule_get0 hf
    dsimp only at h ⊢
    cases hs : rule.scheme with
    | basic => rw [hs] at h; exact checkBasic_go_nocache hc hr hs h
    | digest => rw [hs] at h; dsimp only at h ⊢; rw [checkDigest_nocache hc hr hs]; exact h

/-! ### cache entries age out -/

/-- every entry was created in the past and is at most max-age old, plus the time since the
    last cleanup — which runs when the loop LEAVES a second that is a multiple of 8 (the trigger
    sees the old second), i.e. between 1 and 8 seconds ago while the loop runs every second -/
def AgeOk (ma : Int) (st : St) : Prop :=
  ∀ p ∈ st.cache, p.2.ctime ≤ st.mono ∧ st.mono - p.2.ctime ≤ max ma 0 + ((st.mono - 1) % 8 + 1)

theorem basicAuth_mem {P : Prims} {cfg : Cfg} {ridx : Nat} {rule : Rule} {st : St} {user pw : Bytes}
    {p : Int × Entry} (h : p ∈ (basicAuth P cfg ridx rule st user pw).1.cache) :
    p ∈ st.cache ∨ p.2.ctime = st.mono := by
  unfold basicAuth at h
  split at h
  · exact Or.inl h
  · split at h
    · exact Or.inl h
    · split at h
      · rcases mem_insert h with rfl | h
        · exact Or.inr rfl
        · exact Or.inl h
      · exact Or.inl h

theorem basicAuth_clock {P : Prims} {cfg : Cfg} {ridx : Nat} {rule : Rule} {st : St} {user pw : Bytes} :
    (basicAuth P cfg ridx rule st user pw).1.mono = st.mono
    ∧ (basicAuth P cfg ridx rule st user pw).1.epoch = st.epoch := by
  unfold basicAuth
  split
  · exact ⟨rfl, rfl⟩
  · split
    · exact ⟨rfl, rfl⟩
    · split <;> exact ⟨rfl, rfl⟩

theorem digestGet_mem {P : Prims} {cfg : Cfg} {ridx : Nat} {st : St} {ai : AI}
    {p : Int × Entry} (h : p ∈ (digestGet P cfg ridx st ai).1.cache) :
    p ∈ st.cache ∨ p.2.ctime = st.mono := by
  unfold digestGet at h
  split at h
  · exact Or.inl h
  · split at h
    · exact Or.inl h
    · split at h
      · exact Or.inl h
      · rcases mem_insert h with rfl | h
        · exact Or.inr rfl
        · exact Or.inl h

theorem digestGet_clock {P : Prims} {cfg : Cfg} {ridx : Nat} {st : St} {ai : AI} :
    (digestGet P cfg ridx st ai).1.mono = st.mono ∧ (digestGet P cfg ridx st ai).1.epoch = st.epoch := by
  unfold digestGet
  split
  · exact ⟨rfl, rfl⟩
  · split
    · exact ⟨rfl, rfl⟩
    · split <;> exact ⟨rfl, rfl⟩

theorem handle_mem {P : Prims} {cfg : Cfg} {st : St} {req : Req} {p : Int × Entry}
    (h : p ∈ (handle P cfg st req).1.cache) : p ∈ st.cache ∨ p.2.ctime = st.mono := by
  unfold handle at h
  split at h
  · exact Or.inl h
  · split at h
    · unfold checkBasic at h
      split at h
      · exact Or.inl h
      · split at h
        · exact Or.inl h
        · split at h
          · exact Or.inl h
          · split at h <;> exact basicAuth_mem h
    · unfold checkDigest at h
      split at h
      · exact Or.inl h
      · split at h <;> exact digestGet_mem h

theorem handle_clock {P : Prims} {cfg : Cfg} {st : St} {req : Req} :
    (handle P cfg st req).1.mono = st.mono ∧ (handle P cfg st req).1.epoch = st.epoch := by
  unfold handle
  split
  · exact ⟨rfl, rfl⟩
  · split
    · unfold checkBasic
      split
      · exact ⟨rfl, rfl⟩
      · split
        · exact ⟨rfl, rfl⟩
        · split
          · exact ⟨rfl, rfl⟩
          · split <;> exact basicAuth_clock
    · unfold checkDigest
      split
      · exact ⟨rfl, rfl⟩
      · split <;> exact digestGet_clock

theorem handle_ageOk {P : Prims} {cfg : Cfg} {st : St} {req : Req} {ma : Int}
    (h : AgeOk ma st) : AgeOk ma (handle P cfg st req).1 := by
  intro p hp
  rw [handle_clock.1]
  rcases handle_mem hp with hp | hp
  · exact h p hp
  · rw [hp]; constructor <;> omega

/-! ### refusals: which status for which reason -/

theorem basicCreds_error {vb : Bytes} {r : Refusal} (h : basicCreds vb = .error r) :
    r = .s401b true ∨ r = .s400 := by
  simp only [basicCreds] at h
  repeat' split at h
  all_goals first
    | (simp only [Except.error.injEq] at h; subst h; simp)
    | cases h

theorem validateParams_error {rule : Rule} {req : Req} {dp : Params} {r : Refusal}
    (h : validateParams rule req dp = .error r) : r = .s401d 0 true ∨ r = .s400 := by
  unfold validateParams at h
  repeat' split at h
  all_goals first
    | (simp only [Except.error.injEq] at h; subst h; simp)
    | cases h

theorem validateNonce_error {P : Prims} {rule : Rule} {epoch : Int} {nonce : Bytes} {dalgo : Nat} {r : Refusal}
    (h : validateNonce P rule epoch nonce dalgo = .error r) : (∃ s, r = .s401d s true) ∨ r = .s400 := by
  simp only [validateNonce] at h
  repeat' split at h
  all_goals first
    | (simp only [Except.error.injEq] at h; subst h; simp)
    | cases h

theorem digestPre_error {P : Prims} {cfg : Cfg} {rule : Rule} {epoch : Int} {req : Req} {r : Refusal}
    (h : digestPre P cfg rule epoch req = .error r) :
    (r = .s500 ∧ cfg.backend ≠ .plain ∧ cfg.backend ≠ .htdigest) ∨ (∃ s, r = .s401d s true) ∨ r = .s400 := by
  simp only [digestPre] at h
  split at h
  · rename_i hb
    simp only [Except.error.injEq] at h; subst h; exact Or.inl ⟨rfl, hb⟩
  · split at h
    · simp only [Except.error.injEq] at h; subst h; exact Or.inr (Or.inl ⟨0, rfl⟩)
    · split at h
      · simp only [Except.error.injEq] at h; subst h; exact Or.inr (Or.inl ⟨0, rfl⟩)
      · split at h
        · rename_i o hv
          simp only [Except.error.injEq] at h; subst h
          rcases validateParams_error hv with h | h
          · exact Or.inr (Or.inl ⟨0, h⟩)
          · exact Or.inr (Or.inr h)
        · split at h
          · rename_i o hv
            simp only [Except.error.injEq] at h; subst h
            exact Or.inr (validateNonce_error hv)
          · cases h

/-- the only way to a 500: no backend, or a backend that cannot do the rule's scheme -/
theorem handle_500 {P : Prims} {cfg : Cfg} {st : St} {req : Req} {ridx : Nat} {rule : Rule}
    (hf : findRule cfg.rules req.path 0 = some (ridx, rule))
    (h : (handle P cfg st req).2 = .refuse .s500) :
    cfg.backend = .none ∨ (rule.scheme = .digest ∧ cfg.backend = .htpasswd) := by
  unfold handle at h
  rw [hf] at h
  dsimp only at h
  cases hs : rule.scheme with
  | basic =>
    rw [hs] at h
    dsimp only at h
    unfold checkBasic at h
    split at h
    · rename_i hb; exact Or.inl hb
    · split at h
      · cases h
      · split at h
        · rename_i o hc
          simp only [Outcome.refuse.injEq] at h
          subst h
          rcases basicCreds_error hc with h | h <;> cases h
        · split at h <;> cases h
  | digest =>
    rw [hs] at h
    dsimp only at h
    rw [checkDigest_snd] at h
    unfold checkDigestOut at h
    split at h
    · rename_i o hp
      simp only [Outcome.refuse.injEq] at h
      subst h
      rcases digestPre_error hp with ⟨_, h1, h2⟩ | ⟨s, h⟩ | h
      · cases hb : cfg.backend with
        | none => exact Or.inl rfl
        | htpasswd => exact Or.inr ⟨rfl, rfl⟩
        | plain => exact absurd hb h1
        | htdigest => exact absurd hb h2
      · cases h
      · cases h
    · split at h
      · cases h
      · unfold digestPost at h
        split at h
        · cases h
        · split at h <;> cases h

/-- a path covered by a rule is never passed through unauthenticated -/
theorem handle_ne_pass {P : Prims} {cfg : Cfg} {st : St} {req : Req} {ridx : Nat} {rule : Rule}
    (hf : findRule cfg.rules req.path 0 = some (ridx, rule)) :
    (handle P cfg st req).2 ≠ .pass := by
  intro h
  unfold handle at h
  rw [hf] at h
  dsimp only at h
  cases hs : rule.scheme with
  | basic =>
    rw [hs] at h
    dsimp only at h
    unfold checkBasic at h
    repeat' split at h
    all_goals cases h
  | digest =>
    rw [hs] at h
    dsimp only at h
    rw [checkDigest_snd] at h
    unfold checkDigestOut at h
    split at h
    · cases h
    · split at h
      · cases h
      · unfold digestPost at h
        repeat' split at h
        all_goals cases h

/-- the acceptance theorem for the whole handler -/
theorem handle_go {P : Prims} {cfg : Cfg} {st : St} {req : Req} {ridx : Nat} {rule : Rule}
    {u : Bytes} {d n : Bool}
    (hc : CacheOk P cfg st.cache)
    (hf : findRule cfg.rules req.path 0 = some (ridx, rule))
    (h : (handle P cfg st req).2 = .go u d n) :
    ∃ hdr, req.auth = some hdr ∧
      ((rule.scheme = .basic ∧ d = false ∧ BasicValid P cfg rule hdr u)
       ∨ (rule.scheme = .digest ∧ d = true ∧ DigestValid P cfg rule st.epoch req hdr u)) := by
  have hr := findRule_get0 hf
  unfold handle at h
  rw [hf] at h
  dsimp only at h
  cases hs : rule.scheme with
  | basic =>
    rw [hs] at h
    obtain ⟨vb, hvb, hv, hd⟩ := checkBasic_go hc hr hs h
    exact ⟨vb, hvb, Or.inl ⟨rfl, hd, hv⟩⟩
  | digest =>
    rw [hs] at h
    obtain ⟨vb, hvb, hv, hd⟩ := checkDigest_go hc hr hs h
    exact ⟨vb, hvb, Or.inr ⟨rfl, hd, hv⟩⟩

/-! ### nonces issued by mod_auth_append_nonce() pass mod_auth_digest_validate_nonce() -/

theorem hexVal_hexDigitLC (v : Nat) : hexVal (hexDigitLC (v % 16).toUInt8) = some (v % 16).toUInt8 := by
  have h : v % 16 < 16 := Nat.mod_lt _ (by decide)
  generalize v % 16 = w at h
  have : w = 0 ∨ w = 1 ∨ w = 2 ∨ w = 3 ∨ w = 4 ∨ w = 5 ∨ w = 6 ∨ w = 7 ∨ w = 8 ∨ w = 9 ∨ w = 10 ∨ w = 11
      ∨ w = 12 ∨ w = 13 ∨ w = 14 ∨ w = 15 := by omega
  rcases this with h | h | h | h | h | h | h | h | h | h | h | h | h | h | h | h <;> subst h <;> decide

theorem hexPrefix_stop (k : Nat) (rest : Bytes) (acc : Nat) :
    hexPrefix k (58 :: rest) acc = (acc, 58 :: rest) := by
  cases k with
  | zero => rfl
  | succ k => simp [hexPrefix, hexVal, isDigit]

theorem toUInt8_lt16 (v : Nat) : (v % 16).toUInt8 < 16 := by
  have h : v % 16 < 16 := Nat.mod_lt _ (by decide)
  generalize v % 16 = w at h
  have : w = 0 ∨ w = 1 ∨ w = 2 ∨ w = 3 ∨ w = 4 ∨ w = 5 ∨ w = 6 ∨ w = 7 ∨ w = 8 ∨ w = 9 ∨ w = 10 ∨ w = 11
      ∨ w = 12 ∨ w = 13 ∨ w = 14 ∨ w = 15 := by omega
  rcases this with h | h | h | h | h | h | h | h | h | h | h | h | h | h | h | h <;> subst h <;> decide

theorem toUInt8_toNat16 (v : Nat) : ((v % 16).toUInt8).toNat = v % 16 := by
  have h : v % 16 < 16 := Nat.mod_lt _ (by decide)
  generalize v % 16 = w at h
  have : w = 0 ∨ w = 1 ∨ w = 2 ∨ w = 3 ∨ w = 4 ∨ w = 5 ∨ w = 6 ∨ w = 7 ∨ w = 8 ∨ w = 9 ∨ w = 10 ∨ w = 11
      ∨ w = 12 ∨ w = 13 ∨ w = 14 ∨ w = 15 := by omega
  rcases this with h | h | h | h | h | h | h | h | h | h | h | h | h | h | h | h <;> subst h <;> decide

theorem hexPrefix_hexFixed (n k : Nat) (v : Nat) (rest : Bytes) (acc : Nat) :
    hexPrefix (n + k) (hexFixed n v ++ rest) acc = hexPrefix k rest (acc * 16 ^ n + v % 16 ^ n) := by
  induction n generalizing v k rest acc with
  | zero => simp [hexFixed, Nat.mod_one]
  | succ n ih =>
    simp only [hexFixed, List.append_assoc, List.singleton_append]
    have := ih (k + 1) (v / 16) (hexDigitLC (v % 16).toUInt8 :: rest) acc
    rw [show n + 1 + k = n + (k + 1) by omega, this]
    simp only [hexPrefix, hexVal_hexDigitLC, toUInt8_toNat16]
    congr 1
    rw [Nat.pow_succ]
    have h1 : v % (16 ^ n * 16) = v % 16 + 16 * (v / 16 % 16 ^ n) := by
      rw [Nat.mul_comm (16 ^ n) 16, Nat.mod_mul]
    rw [h1, Nat.add_mul, Nat.mul_assoc]
    omega

theorem byteLen_le (fuel v m : Nat) (hm : 1 ≤ m) (hv : v < 256 ^ m) : byteLen fuel v ≤ m := by
  induction fuel generalizing v m with
  | zero => simpa [byteLen] using hm
  | succ f ih =>
    unfold byteLen
    split
    · exact hm
    · rename_i h256
      cases m with
      | zero => omega
      | succ m =>
        cases m with
        | zero => simp at hv; omega
        | succ m =>
          have : v / 256 < 256 ^ (m + 1) := by
            rw [Nat.div_lt_iff_lt_mul (by decide)]
            rw [Nat.pow_succ] at hv; exact hv
          have := ih (v / 256) (m + 1) (by omega) this
          omega

theorem lt_pow_byteLen (fuel v : Nat) (hv : v < 256 ^ (fuel + 1)) : v < 256 ^ byteLen fuel v := by
  induction fuel generalizing v with
  | zero => simpa [byteLen] using hv
  | succ f ih =>
    unfold byteLen
    split
    · rename_i h; simpa using h
    · have : v / 256 < 256 ^ (f + 1) := by
        rw [Nat.div_lt_iff_lt_mul (by decide)]
        rw [Nat.pow_succ] at hv; exact hv
      have h2 := ih (v / 256) this
      rw [Nat.add_comm, Nat.pow_succ]
      have := (Nat.div_lt_iff_lt_mul (k := 256) (x := v) (y := 256 ^ byteLen f (v / 256)) (by decide)).mp h2
      exact this

theorem hexPrefix_hexLcEven (maxd m v : Nat) (rest : Bytes) (hm : 1 ≤ m) (hv : v < 256 ^ m) (hmax : 2 * m ≤ maxd)
    (hm17 : m ≤ 17) :
    hexPrefix maxd (hexLcEven v ++ 58 :: rest) 0 = (v, 58 :: rest) := by
  unfold hexLcEven
  have hle := byteLen_le 16 v m hm hv
  have hlt : v < 256 ^ byteLen 16 v := lt_pow_byteLen 16 v (Nat.lt_of_lt_of_le hv (Nat.pow_le_pow_right (by decide) hm17))
  have h16 : v < 16 ^ (2 * byteLen 16 v) := by
    rw [Nat.pow_mul]; exact hlt
  obtain ⟨k, hk⟩ : ∃ k, maxd = 2 * byteLen 16 v + k := ⟨maxd - 2 * byteLen 16 v, by omega⟩
  rw [hk, hexPrefix_hexFixed, hexPrefix_stop, Nat.mod_eq_of_lt h16]
  simp

theorem tsU_eq (ts : Int) (h0 : 0 ≤ ts) (h1 : ts < 2 ^ 63) : (ts % 2 ^ 64).toNat = ts.toNat := by
  have e64 : (2 : Int) ^ 64 = 18446744073709551616 := by decide
  have e63 : (2 : Int) ^ 63 = 9223372036854775808 := by decide
  rw [e64]; rw [e63] at h1
  congr 1
  omega

theorem toInt64_of_nonneg (ts : Int) (h0 : 0 ≤ ts) (h1 : ts < 2 ^ 63) :
    toInt64 (ts % 2 ^ 64).toNat = ts := by
  rw [tsU_eq ts h0 h1]
  have e63 : (2 : Int) ^ 63 = 9223372036854775808 := by decide
  have n64 : (2 : Nat) ^ 64 = 18446744073709551616 := by decide
  have n63 : (2 : Nat) ^ 63 = 9223372036854775808 := by decide
  rw [e63] at h1
  have hlt : ts.toNat < 9223372036854775808 := by omega
  have hmod : ts.toNat % 18446744073709551616 = ts.toNat := Nat.mod_eq_of_lt (by omega)
  simp only [toInt64, n64, n63, hmod, hlt, ↓reduceIte]
  exact Int.toNat_of_nonneg h0

/-- a nonce built by mod_auth_append_nonce() at time `ts` is accepted by
    mod_auth_digest_validate_nonce() for the next 600 seconds -/
theorem validateNonce_appendNonce (P : Prims) (rule : Rule) (epoch ts : Int) (rnd dalgo : Nat)
    (h0 : 0 ≤ ts) (h63 : ts < 2 ^ 63) (hle : ts ≤ epoch) (hage : epoch - ts ≤ 600) (hrnd : rnd < 2 ^ 32) :
    validateNonce P rule epoch (appendNonce P ts rule.secret rnd) dalgo = .ok (decide (epoch - ts > 540)) := by
  have hts := toInt64_of_nonneg ts h0 h63
  have htsU : (ts % 2 ^ 64).toNat < 256 ^ 8 := by
    rw [tsU_eq ts h0 h63]
    have e63 : (2 : Int) ^ 63 = 9223372036854775808 := by decide
    have : (256 : Nat) ^ 8 = 18446744073709551616 := by decide
    rw [this]; rw [e63] at h63; omega
  have hr256 : rnd < 256 ^ 4 := by
    have : (256 : Nat) ^ 4 = 2 ^ 32 := by decide
    rw [this]; exact hrnd
  have hnts : ∀ rest, nonceTs (hexLcEven (ts % 2 ^ 64).toNat ++ 58 :: rest) = (ts, 58 :: rest) := by
    intro rest
    simp only [nonceTs, hexPrefix_hexLcEven 16 8 _ rest (by decide) htsU (by decide) (by decide), hts]
  have hfresh : ¬ (False ∨ ts < 0 ∨ ts > epoch ∨ epoch - ts > 600) := by
    simp only [false_or, not_or]; omega
  cases hs : rule.secret with
  | none =>
    simp only [validateNonce, appendNonce, hnts, List.head?_cons, hs, ne_eq, not_true_eq_false]
    rw [if_neg hfresh]
  | some sec =>
    have hr : ∀ rest, hexPrefix 8 (hexLcEven rnd ++ 58 :: rest) 0 = (rnd, 58 :: rest) :=
      fun rest => hexPrefix_hexLcEven 8 4 rnd rest (by decide) hr256 (by decide) (by decide)
    simp only [validateNonce, appendNonce, hnts, List.head?_cons, hs, List.drop_succ_cons,
               List.drop_zero, List.append_assoc, List.singleton_append, hr, Nat.mod_eq_of_lt hrnd,
               ne_eq, not_true_eq_false, ↓reduceIte]
    rw [if_neg hfresh]

/-! ### HTTP/2 header path: the method and the extended-CONNECT flag come from the header list -/

/-- what an accumulator knows about :method / :protocol was sent in the fields `fs` -/
def H2From (fs : List (Bytes × Bytes)) (a0 a : H2Acc) : Prop :=
  (∀ m, a.method = some m → a0.method = some m ∨ (ofString ":method", m) ∈ fs) ∧
  (a.ext = true → a0.ext = true ∨ (ofString ":protocol", ofString "websocket") ∈ fs)

theorem h2Pseudo_from {a a' : H2Acc} {k v : Bytes} (h : h2Pseudo a k v = .ok a') :
    H2From [(k, v)] a a' := by
  unfold h2Pseudo at h
  repeat' split at h
  all_goals cases h
  all_goals
    constructor
    · intro m hm
      first
        | exact Or.inl hm
        | (simp only [Option.some.injEq] at hm; subst hm; right; simp [*])
    · intro he
      first
        | exact Or.inl he
        | (right; simp_all)

theorem validatePseudo_keep {a a' : H2Acc} (h : validatePseudo a = .ok a') :
    a'.method = a.method ∧ a'.ext = a.ext := by
  unfold validatePseudo at h
  repeat' split at h
  all_goals cases h
  all_goals exact ⟨rfl, rfl⟩

theorem h2Regular_keep {a a' : H2Acc} {k v : Bytes} (h : h2Regular a k v = .ok a') :
    a'.method = a.method ∧ a'.ext = a.ext := by
  unfold h2Regular at h
  repeat' split at h
  all_goals cases h
  all_goals exact ⟨rfl, rfl⟩

theorem h2Field_from {a a' : H2Acc} {k v : Bytes} (h : h2Field a k v = .ok a') :
    H2From [(k, v)] a a' := by
  unfold h2Field at h
  split at h
  · cases h
  · split at h
    · cases h
    · split at h
      · exact h2Pseudo_from (a := { a with hlen := a.hlen + k.length + v.length + 4 }) h
      · split at h
        · split at h
          · cases h
          · rename_i a1 hv
            obtain ⟨h1, h2⟩ := validatePseudo_keep hv
            obtain ⟨h3, h4⟩ := h2Regular_keep h
            exact ⟨fun m hm => Or.inl (by rw [h3, h1] at hm; exact hm),
                   fun he => Or.inl (by rw [h4, h2] at he; exact he)⟩
        · obtain ⟨h3, h4⟩ := h2Regular_keep h
          exact ⟨fun m hm => Or.inl (by rw [h3] at hm; exact hm),
                 fun he => Or.inl (by rw [h4] at he; exact he)⟩

theorem h2Fields_from (fs : List (Bytes × Bytes)) {a a' : H2Acc} (h : h2Fields fs a = .ok a') :
    H2From fs a a' := by
  induction fs generalizing a with
  | nil =>
    simp only [h2Fields, Except.ok.injEq] at h; subst h
    exact ⟨fun m hm => Or.inl hm, fun he => Or.inl he⟩
  | cons kv rest ih =>
    unfold h2Fields at h
    split at h
    · cases h
    · rename_i a1 hf
      obtain ⟨hm1, he1⟩ := h2Field_from hf
      obtain ⟨hm2, he2⟩ := ih h
      constructor
      · intro m hm
        rcases hm2 m hm with h | h
        · rcases hm1 m h with h | h
          · exact Or.inl h
          · right; simp only [List.mem_singleton] at h; rw [h]; exact List.mem_cons_self
        · right; exact List.mem_cons_of_mem _ h
      · intro he
        rcases he2 he with h | h
        · rcases he1 h with h | h
          · exact Or.inl h
          · right; simp only [List.mem_singleton] at h; rw [h]; exact List.mem_cons_self
        · right; exact List.mem_cons_of_mem _ h

/-- the request handed to mod_auth carries the :method the client sent, and counts as an
    extended CONNECT only if the client sent ":method: CONNECT" and ":protocol: websocket" -/
theorem h2Request_from {o : Opts} {fields : List (Bytes × Bytes)} {req : Req} (h : h2Request o fields = .ok req) :
    (ofString ":method", req.method) ∈ fields ∧
    (req.protocol = true → (ofString ":protocol", ofString "websocket") ∈ fields) := by
  unfold h2Request at h
  split at h
  · cases h
  · rename_i a0 hf
    obtain ⟨hm, he⟩ := h2Fields_from fields hf
    split at h
    · cases h
    · rename_i a hv
      have hk : a.method = a0.method ∧ a.ext = a0.ext := by
        split at hv
        · exact validatePseudo_keep hv
        · simp only [Except.ok.injEq] at hv; subst hv; exact ⟨rfl, rfl⟩
      split at h
      · cases h
      · rename_i m hmeth
        simp only at h
        split at h
        · cases h
        · split at h
          · cases h
          · simp only [Except.ok.injEq] at h
            subst h
            simp only
            constructor
            · rw [hk.1] at hmeth
              rcases hm m hmeth with h | h
              · cases h
              · exact h
            · intro hp
              rw [hk.2] at hp
              rcases he hp with h | h
              · cases h
              · exact h

theorem responseMatches_bound {P : Prims} {req : Req} {dp : Params} {dalgo : Nat} {hA1 : Bytes}
    (h : responseMatches P req dp dalgo hA1 = true) :
    hex2bin (dp.response.getD []) = some (kd P dalgo hA1 dp req.method) ∨
    (req.method = ofString "CONNECT" ∧ req.protocol = true ∧
     hex2bin (dp.response.getD []) = some (kd P dalgo hA1 dp (ofString "GET"))) := by
  simp only [responseMatches, Req.h2ext, Bool.or_eq_true, Bool.and_eq_true, decide_eq_true_eq] at h
  rcases h with h | ⟨⟨h1, h2⟩, h3⟩
  · exact Or.inl h
  · exact Or.inr ⟨h1, h2, h3⟩


/-! ### backend scopes: the configuration in effect per request, one shared cache -/

@[simp] theorem at_rules (cfg : Cfg) (s : Nat) : (cfg.at s).rules = cfg.rules := by
  unfold Cfg.at; split <;> rfl
@[simp] theorem at_cacheMaxAge (cfg : Cfg) (s : Nat) : (cfg.at s).cacheMaxAge = cfg.cacheMaxAge := by
  unfold Cfg.at; split <;> rfl
@[simp] theorem at_cur (cfg : Cfg) (s : Nat) : (cfg.at s).cur = s := by
  unfold Cfg.at; split <;> rfl

theorem backendBasic_congr {P : Prims} {c1 c2 : Cfg} (hb : c1.backend = c2.backend) (hf : c1.file = c2.file)
    (rule : Rule) (u pw : Bytes) : backendBasic P c1 rule u pw = backendBasic P c2 rule u pw := by
  unfold backendBasic; rw [hb, hf]

theorem backendLookup_congr {P : Prims} {c1 c2 : Cfg} (hb : c1.backend = c2.backend) (hf : c1.file = c2.file)
    (realm : Bytes) (uh : Bool) (dlen : Nat) (name : Bytes) :
    backendLookup P c1 realm uh dlen name = backendLookup P c2 realm uh dlen name := by
  unfold backendLookup; rw [hb, hf]

theorem entryOk_congr {P : Prims} {c1 c2 : Cfg} (hr : c1.rules = c2.rules) (hb : c1.backend = c2.backend)
    (hf : c1.file = c2.file) {e : Entry} (h : EntryOk P c1 e) : EntryOk P c2 e := by
  obtain ⟨rule, h1, h2, h3⟩ := h
  refine ⟨rule, by rw [← hr]; exact h1, ?_, ?_⟩
  · intro hs; rw [← backendBasic_congr hb hf]; exact h2 hs
  · intro hs
    obtain ⟨uh, hk, hl, hlk⟩ := h3 hs
    refine ⟨uh, ?_, hl, by rw [← backendLookup_congr hb hf]; exact hlk⟩
    rcases hk with hk | ⟨a, b, c⟩
    · exact Or.inl hk
    · exact Or.inr ⟨a, b, by rw [← hb]; exact c⟩

/-- the two scopes select the same backend and the same user file -/
def SameBackend (cfg : Cfg) (s s' : Nat) : Prop :=
  (cfg.at s).backend = (cfg.at s').backend ∧ (cfg.at s).file = (cfg.at s').file

/-- scoped invariant: every entry restates a record of the backend scope that vouched for it -/
def CacheOkS (P : Prims) (cfg : Cfg) (c : Cache) : Prop := ∀ p ∈ c, EntryOk P (cfg.at p.2.scope) p.2

theorem cacheOkS_nil {P : Prims} {cfg : Cfg} : CacheOkS P cfg [] := fun _ h => by cases h

theorem cacheOkS_same {P : Prims} {cfg : Cfg} {c : Cache} {s : Nat} (hc : CacheOkS P cfg c)
    (hs : ∀ p ∈ c, SameBackend cfg p.2.scope s) : CacheOk P (cfg.at s) c := by
  intro p hp
  exact entryOk_congr (by simp) (hs p hp).1 (hs p hp).2 (hc p hp)

/-! new entries of one request: vouched for by the configuration in effect, tagged with its scope -/

theorem handle_new {P : Prims} {cfg : Cfg} {st : St} {req : Req} {p : Int × Entry}
    (hp : p ∈ (handle P cfg st req).1.cache) :
    p ∈ st.cache ∨ (EntryOk P cfg p.2 ∧ p.2.scope = cfg.cur) := by
  unfold handle at hp
  split at hp
  · exact Or.inl hp
  · rename_i ridx rule hf
    have hr := findRule_get0 hf
    split at hp
    · rename_i hs
      unfold checkBasic at hp
      split at hp
      · exact Or.inl hp
      · split at hp
        · exact Or.inl hp
        · split at hp
          · exact Or.inl hp
          · split at hp <;> exact basicAuth_new hr hs hp
    · rename_i hs
      unfold checkDigest at hp
      split at hp
      · exact Or.inl hp
      · rename_i dp ai nn hpre
        obtain ⟨_, _, _, _, hpo, _⟩ := digestPre_ok hpre
        split at hp <;> exact digestGet_new hr hs hpo.airealm hp

theorem serve_cacheOkS {P : Prims} {cfg : Cfg} {st : St} {req : Req}
    (hc : CacheOkS P cfg st.cache) : CacheOkS P cfg (serve P cfg st req).1.cache := by
  intro p hp
  rcases handle_new hp with h | ⟨h1, h2⟩
  · exact hc p h
  · rw [at_cur] at h2; rw [h2]; exact h1

theorem serve_scope {P : Prims} {cfg : Cfg} {st : St} {req : Req} {p : Int × Entry}
    (hp : p ∈ (serve P cfg st req).1.cache) : p ∈ st.cache ∨ p.2.scope = req.scope := by
  rcases handle_new hp with h | ⟨_, h2⟩
  · exact Or.inl h
  · rw [at_cur] at h2; exact Or.inr h2

/-! the server loop only removes entries -/

theorem periodic_mem {cfg : Cfg} {st : St} {p : Int × Entry} (h : p ∈ (periodic cfg st).cache) : p ∈ st.cache := by
  unfold periodic at h
  split at h
  · split at h
    · exact (mem_cleanup h).1
    · exact h
  · exact h

theorem loopIter_mem {cfg : Cfg} {dt : Nat} {st : St} {p : Int × Entry}
    (h : p ∈ (loopIter cfg dt st).cache) : p ∈ st.cache := by
  unfold loopIter at h
  split at h
  · exact h
  · exact periodic_mem h

theorem secs_mem {cfg : Cfg} (n : Nat) {st : St} {p : Int × Entry}
    (h : p ∈ (secs cfg n st).cache) : p ∈ st.cache := by
  induction n generalizing st with
  | zero => exact h
  | succ n ih => exact loopIter_mem (ih h)

/-- scopes of the requests of a history -/
def usedScopes : List Op → List Nat
  | [] => []
  | .request r :: ops => r.scope :: usedScopes ops
  | _ :: ops => usedScopes ops

theorem step_cacheOkS {P : Prims} {cfg : Cfg} {st : St} (op : Op)
    (hc : CacheOkS P cfg st.cache) : CacheOkS P cfg (step P cfg st op).1.cache := by
  cases op with
  | request r => exact serve_cacheOkS hc
  | adv dt => exact fun p hp => hc p (loopIter_mem hp)
  | secs n => exact fun p hp => hc p (secs_mem n hp)
  | epochShift d => exact hc

theorem run_cacheOkS {P : Prims} {cfg : Cfg} (ops : List Op) {st : St}
    (hc : CacheOkS P cfg st.cache) : CacheOkS P cfg (run P cfg st ops).cache := by
  induction ops generalizing st with
  | nil => exact hc
  | cons op ops ih => exact ih (step_cacheOkS op hc)

theorem run_scopes {P : Prims} {cfg : Cfg} (ops : List Op) {st : St} (used : List Nat)
    (h : ∀ p ∈ st.cache, p.2.scope ∈ used) :
    ∀ p ∈ (run P cfg st ops).cache, p.2.scope ∈ used ++ usedScopes ops := by
  induction ops generalizing st used with
  | nil => intro p hp; simp only [usedScopes, List.append_nil]; exact h p hp
  | cons op ops ih =>
    cases op with
    | request r =>
      intro p hp
      have := ih (st := (step P cfg st (.request r)).1) (used ++ [r.scope]) (by
        intro q hq
        rcases serve_scope hq with hq | hq
        · exact List.mem_append_left _ (h q hq)
        · rw [hq]; simp) p hp
      simpa [usedScopes, List.append_assoc] using this
    | adv dt =>
      intro p hp
      exact ih (st := (step P cfg st (.adv dt)).1) used (fun q hq => h q (loopIter_mem hq)) p hp
    | secs n =>
      intro p hp
      exact ih (st := (step P cfg st (.secs n)).1) used (fun q hq => h q (secs_mem n hq)) p hp
    | epochShift d =>
      intro p hp
      exact ih (st := (step P cfg st (.epochShift d)).1) used h p hp

/-! ### soundness with a cache shared by several backend scopes -/

theorem basicAuth_true {P : Prims} {cfg : Cfg} {ridx : Nat} {rule : Rule} {st : St} {user pw : Bytes}
    (h : (basicAuth P cfg ridx rule st user pw).2 = true) :
    backendBasic P cfg rule user pw = true ∨
    ∃ p ∈ st.cache, p.2.rule = ridx ∧ p.2.username = user ∧ p.2.pw = pw := by
  unfold basicAuth at h
  split at h
  · exact Or.inl h
  · split at h
    · rename_i e hhit
      obtain ⟨hm, h1, h2⟩ := basicHit_some hhit
      simp only [decide_eq_true_eq] at h
      exact Or.inr ⟨_, hm, h1, h2, h⟩
    · split at h
      · rename_i hb; exact Or.inl hb
      · cases h

theorem basicValid_of_backend {P : Prims} {cfg : Cfg} {rule : Rule} {vb u pw : Bytes}
    (hc : basicCreds vb = .ok (u, pw)) (hb : backendBasic P cfg rule u pw = true) : BasicValid P cfg rule vb u := by
  obtain ⟨hm, hrec⟩ := backendBasic_valid hb
  exact ⟨pw, hc, hm, hrec⟩

/-- a served request carries credentials valid for the scope in effect or for the scope that
    vouched for a cache entry -/
theorem serve_go {P : Prims} {cfg : Cfg} {st : St} {req : Req} {ridx : Nat} {rule : Rule}
    {u : Bytes} {d n : Bool}
    (hc : CacheOkS P cfg st.cache)
    (hf : findRule cfg.rules req.path 0 = some (ridx, rule))
    (h : (serve P cfg st req).2 = .go u d n) :
    ∃ hdr s', req.auth = some hdr ∧ (s' = req.scope ∨ ∃ p ∈ st.cache, p.2.scope = s') ∧
      ((rule.scheme = .basic ∧ d = false ∧ BasicValid P (cfg.at s') rule hdr u)
       ∨ (rule.scheme = .digest ∧ d = true ∧ DigestValid P (cfg.at s') rule st.epoch req hdr u)) := by
  have hr : (cfg.at req.scope).rules[ridx]? = some rule := by rw [at_rules]; exact findRule_get0 hf
  unfold serve handle at h
  rw [at_rules, hf] at h
  dsimp only at h
  cases hs : rule.scheme with
  | basic =>
    rw [hs] at h
    dsimp only at h
    unfold checkBasic at h
    split at h
    · cases h
    · split at h
      · cases h
      · rename_i vb hvb
        split at h
        · cases h
        · rename_i user pw hcreds
          split at h
          · rename_i hok
            simp only [Outcome.go.injEq] at h
            obtain ⟨rfl, rfl, rfl⟩ := h
            rcases basicAuth_true hok with hb | ⟨p, hp, h1, h2, h3⟩
            · exact ⟨vb, req.scope, hvb, Or.inl rfl, Or.inl ⟨rfl, rfl, basicValid_of_backend hcreds hb⟩⟩
            · obtain ⟨rule', hr', hb, _⟩ := hc p hp
              rw [at_rules, h1] at hr'
              rw [at_rules] at hr
              rw [hr] at hr'
              simp only [Option.some.injEq] at hr'
              subst hr'
              have := hb hs
              rw [h2, h3] at this
              exact ⟨vb, p.2.scope, hvb, Or.inr ⟨p, hp, rfl⟩, Or.inl ⟨rfl, rfl, basicValid_of_backend hcreds this⟩⟩
          · cases h
  | digest =>
    rw [hs] at h
    dsimp only at h
    rw [checkDigest_snd] at h
    unfold checkDigestOut at h
    split at h
    · cases h
    · rename_i dp ai nn hpre
      obtain ⟨vb, hvb, hpfx, hdp, hpo, hnf⟩ := digestPre_ok hpre
      split at h
      · cases h
      · rename_i ai' hget
        obtain ⟨hresp, hauth, rfl, rfl, rfl⟩ := digestPost_go h
        have key : ∃ s', (s' = req.scope ∨ ∃ p ∈ st.cache, p.2.scope = s') ∧
            backendDigest P (cfg.at s') { ai with username := digestKey ai } = some ai' := by
          rcases digestGet_result (cfg := cfg.at req.scope) (fun e => cfg.at e.scope)
              (fun p hp => ⟨hc p hp, by simp⟩) hr hs hpo.airealm with hg | ⟨p, hp, hg⟩
          · exact ⟨req.scope, Or.inl rfl, by rw [← hg]; exact hget⟩
          · exact ⟨p.2.scope, Or.inr ⟨p, hp, rfl⟩, by rw [← hg]; exact hget⟩
        obtain ⟨s', hs', hbk⟩ := key
        obtain ⟨hl, hai'⟩ := backendDigest_some hbk
        simp only at hl
        refine ⟨vb, s', hvb, hs', Or.inr ⟨rfl, rfl, hpfx, dp, dp.nonce.getD [], ai.dalgo, ai.dlen, ai.username,
                ai'.digest, hdp, hpo.realm, hpo.uri, ?_, hnf, hpo.algo, hpo.allowed, hpo.name, ?_, ?_, hauth⟩⟩
        · cases hn : dp.nonce with
          | none => have := hpo.nonce; rw [hn] at this; cases this
          | some x => rfl
        · rw [← hpo.airealm, ← hpo.userhash]; exact hl
        · have : ai'.dalgo = ai.dalgo := by rw [hai']
          rw [← this]; exact hresp

/-- `BasicValid` / `DigestValid` depend on the configuration only through backend and user file -/
theorem basicValid_congr {P : Prims} {c1 c2 : Cfg} (hb : c1.backend = c2.backend) (hf : c1.file = c2.file)
    {rule : Rule} {hdr u : Bytes} (h : BasicValid P c1 rule hdr u) : BasicValid P c2 rule hdr u := by
  unfold BasicValid at h ⊢
  rw [← hb, ← hf]; exact h

theorem digestValid_congr {P : Prims} {c1 c2 : Cfg} (hb : c1.backend = c2.backend) (hf : c1.file = c2.file)
    {rule : Rule} {epoch : Int} {req : Req} {hdr u : Bytes}
    (h : DigestValid P c1 rule epoch req hdr u) : DigestValid P c2 rule epoch req hdr u := by
  obtain ⟨h0, dp, nonce, dalgo, dlen, name, hA1, h1, h2, h3, h4, h5, h6, h7, h8, h9, h10, h11⟩ := h
  exact ⟨h0, dp, nonce, dalgo, dlen, name, hA1, h1, h2, h3, h4, h5, h6, h7, h8,
         by rw [← backendLookup_congr hb hf]; exact h9, h10, h11⟩

/-- with one backend / user file behind all scopes that filled the cache, the cache never turns
    a refusal into an acceptance -/
theorem serve_go_nocache {P : Prims} {cfg : Cfg} {st : St} {req : Req} {u : Bytes} {d n : Bool}
    (hc : CacheOkS P cfg st.cache) (hs : ∀ p ∈ st.cache, SameBackend cfg p.2.scope req.scope)
    (h : (serve P cfg st req).2 = .go u d n) :
    (serve P cfg { st with cache := [] } req).2 = .go u d n :=
  handle_go_nocache (cacheOkS_same hc hs) h

/-! ### ageing under the real server loop -/

theorem serve_ageOk {P : Prims} {cfg : Cfg} {st : St} {req : Req} {ma : Int}
    (h : AgeOk ma st) : AgeOk ma (serve P cfg st req).1 := handle_ageOk h

theorem loopIter1_ageOk {cfg : Cfg} {st : St} {ma : Int} (hma : cfg.cacheMaxAge = some ma)
    (h : AgeOk ma st) : AgeOk ma (loopIter cfg 1 st) := by
  intro p hp
  have hmono : (loopIter cfg 1 st).mono = st.mono + 1 := by
    simp [loopIter]
  have hcache : (loopIter cfg 1 st).cache = (periodic cfg st).cache := by
    simp [loopIter]
  rw [hmono]
  rw [hcache] at hp
  unfold periodic at hp
  rw [hma] at hp
  dsimp only at hp
  split at hp
  · rename_i h8
    obtain ⟨hp, hle⟩ := mem_cleanup hp
    obtain ⟨h1, h2⟩ := h p hp
    constructor <;> omega
  · rename_i h8
    obtain ⟨h1, h2⟩ := h p hp
    constructor <;> omega

theorem loopIter0 {cfg : Cfg} {st : St} : loopIter cfg 0 st = st := by simp [loopIter]

theorem secs_ageOk {cfg : Cfg} {ma : Int} (hma : cfg.cacheMaxAge = some ma) (n : Nat) {st : St}
    (h : AgeOk ma st) : AgeOk ma (secs cfg n st) := by
  induction n generalizing st with
  | zero => exact h
  | succ n ih => exact ih (loopIter1_ageOk hma h)

/-- the loop wakes up at least once per second (fdevent_poll() timeout 1000 ms, no stall) -/
def Steady : List Op → Prop
  | [] => True
  | .adv dt :: ops => dt ≤ 1 ∧ Steady ops
  | _ :: ops => Steady ops

theorem run_ageOk {P : Prims} {cfg : Cfg} {ma : Int} (hma : cfg.cacheMaxAge = some ma) (ops : List Op)
    (hst : Steady ops) {st : St} (h : AgeOk ma st) : AgeOk ma (run P cfg st ops) := by
  induction ops generalizing st with
  | nil => exact h
  | cons op ops ih =>
    cases op with
    | request r => exact ih hst (serve_ageOk h)
    | adv dt =>
      obtain ⟨hdt, hst⟩ := hst
      apply ih hst
      show AgeOk ma (loopIter cfg dt st)
      have : dt = 0 ∨ dt = 1 := by omega
      rcases this with rfl | rfl
      · rw [loopIter0]; exact h
      · exact loopIter1_ageOk hma h
    | secs n => exact ih hst (secs_ageOk hma n h)
    | epochShift d => exact ih hst (fun p hp => h p hp)

theorem secs_mono {cfg : Cfg} (n : Nat) {st : St} : (secs cfg n st).mono = st.mono + n := by
  induction n generalizing st with
  | zero => simp [secs]
  | succ n ih =>
    simp only [secs]; rw [ih]
    have : (loopIter cfg 1 st).mono = st.mono + 1 := by simp [loopIter]
    rw [this]; omega

theorem ageOk_nil {ma m e : Int} : AgeOk ma { cache := [], mono := m, epoch := e } := fun _ h => by cases h

/-! ### completeness: valid credentials of an authorized user are served -/

theorem backendBasic_of_valid {P : Prims} {cfg : Cfg} {rule : Rule} {u pw : Bytes}
    (hm : matchRules rule.req u = true)
    (hrec : match cfg.backend with
      | .plain => htpasswdGet cfg.file u = some (cstr pw)
      | .htdigest => ∃ name, htdigestScan rule.realm false (digestLen (rule.algorithm &&& 0xfffffffe))
                       (fileLines cfg.file) u = some (name, ha1 P u rule.realm (cstr pw))
      | .htpasswd => ∃ stored, htpasswdGet cfg.file u = some stored ∧ htpasswdVerify P stored (cstr pw) = true
      | .none => False) :
    backendBasic P cfg rule u pw = true := by
  unfold backendBasic
  cases hb : cfg.backend with
  | none => rw [hb] at hrec; exact hrec.elim
  | plain => rw [hb] at hrec; simp only at hrec ⊢; rw [hrec]; simp [hm]
  | htdigest =>
    rw [hb] at hrec; simp only at hrec ⊢
    obtain ⟨name, h⟩ := hrec
    rw [h]; simp [hm]
  | htpasswd =>
    rw [hb] at hrec; simp only at hrec ⊢
    obtain ⟨stored, h1, h2⟩ := hrec
    rw [h1]; simp [hm, h2]

theorem basic_valid_served {P : Prims} {cfg : Cfg} {st : St} {req : Req} {ridx : Nat} {rule : Rule}
    {hdr u : Bytes}
    (hf : findRule cfg.rules req.path 0 = some (ridx, rule)) (hs : rule.scheme = .basic)
    (hh : req.auth = some hdr) (hv : BasicValid P cfg rule hdr u) :
    (handle P cfg { st with cache := [] } req).2 = .go u false false := by
  obtain ⟨pw, hc, hm, hrec⟩ := hv
  have hb := backendBasic_of_valid hm hrec
  have hne : cfg.backend ≠ .none := by
    intro h; rw [h] at hrec; exact hrec
  unfold handle
  rw [hf]
  dsimp only
  rw [hs]
  dsimp only
  unfold checkBasic
  rw [if_neg hne, hh]
  dsimp only
  rw [hc]
  dsimp only
  simp only [basicAuth_nil, hb, ↓reduceIte]

theorem toInt64_lt (n : Nat) : toInt64 n < 2 ^ 63 := by
  have e63 : (2 : Int) ^ 63 = 9223372036854775808 := by decide
  have n64 : (2 : Nat) ^ 64 = 18446744073709551616 := by decide
  have n63 : (2 : Nat) ^ 63 = 9223372036854775808 := by decide
  have e64 : (2 : Int) ^ 64 = 18446744073709551616 := by decide
  simp only [toInt64, n64, n63, e63, e64, Int.ofNat_eq_natCast]
  have : n % 18446744073709551616 < 18446744073709551616 := Nat.mod_lt _ (by decide)
  generalize n % 18446744073709551616 = m at *
  split <;> omega

theorem validateNonce_complete {P : Prims} {rule : Rule} {epoch : Int} {nonce : Bytes} (dalgo : Nat)
    (h : NonceFresh P rule epoch nonce) :
    validateNonce P rule epoch nonce dalgo = .ok (decide (epoch - (nonceTs nonce).1 > 540)) := by
  obtain ⟨h1, h2, h3, h4, h5⟩ := h
  cases hs : rule.secret with
  | none =>
    have hfresh : ¬ ((nonceTs nonce).2.head? ≠ some 58 ∨ (nonceTs nonce).1 < 0 ∨ (nonceTs nonce).1 > epoch
                     ∨ epoch - (nonceTs nonce).1 > 600) := by
      simp only [h1, ne_eq, not_true_eq_false, false_or, not_or]; omega
    simp only [validateNonce, hs]
    rw [if_neg hfresh]
  | some sec =>
    obtain ⟨rnd, hr, hn⟩ := h5 sec hs
    have := validateNonce_appendNonce P rule epoch (nonceTs nonce).1 rnd dalgo h2 (toInt64_lt _) h3 h4 hr
    rw [hs, ← hn] at this
    exact this

theorem digest_valid_served {P : Prims} {cfg : Cfg} {st : St} {req : Req} {ridx : Nat} {rule : Rule}
    {hdr u : Bytes}
    (hf : findRule cfg.rules req.path 0 = some (ridx, rule)) (hs : rule.scheme = .digest)
    (hh : req.auth = some hdr) (hv : DigestValid P cfg rule st.epoch req hdr u)
    (hw : DigestWellFormed (parseAuthorization (hdr.drop 7))) :
    ∃ nn, (handle P cfg { st with cache := [] } req).2 = .go u true nn := by
  obtain ⟨hpfx, dp, nonce, dalgo, dlen, name, hA1, hdp, hrealm, huri, hnonce, hfresh, halgo, hallowed, hname,
          hlookup, hresp, hauth⟩ := hv
  subst hdp
  obtain ⟨hreq, hqop, hwf⟩ := hw
  obtain ⟨hsess, hlen⟩ := hwf dalgo dlen halgo
  have hr := findRule_get0 hf
  have hbk : ¬ (cfg.backend ≠ .plain ∧ cfg.backend ≠ .htdigest) := by
    intro ⟨h1, h2⟩
    unfold backendLookup at hlookup
    cases hb : cfg.backend with
    | plain => exact h1 hb
    | htdigest => exact h2 hb
    | none => rw [hb] at hlookup; cases hlookup
    | htpasswd => rw [hb] at hlookup; cases hlookup
  have hhex : (hex2bin ((parseAuthorization (hdr.drop 7)).response.getD [])).isSome = true := by
    simp only [responseMatches, Bool.or_eq_true, Bool.and_eq_true, decide_eq_true_eq] at hresp
    rcases hresp with h | ⟨_, h⟩ <;> rw [h] <;> rfl
  -- the validation steps succeed
  have hvp : validateParams rule req (parseAuthorization (hdr.drop 7)) =
      .ok { dalgo := dalgo, dlen := dlen, username := name, realm := rule.realm,
            userhash := userhashFlag (parseAuthorization (hdr.drop 7)) } := by
    unfold validateParams
    simp only [hreq, Bool.not_true, Bool.false_eq_true, ↓reduceIte, hname, hrealm, Option.getD_some,
               ne_eq, not_true_eq_false, halgo, hqop, huri]
    rw [if_neg hallowed, if_neg (by
      intro ⟨h1, h2⟩
      have := hsess h1
      rw [Option.isNone_iff_eq_none] at h2
      rw [h2] at this; cases this), if_neg (by
      intro h
      rcases h with h | h
      · exact h hlen
      · rw [Option.isNone_iff_eq_none] at h
        rw [h] at hhex; cases hhex)]
  have hvn := validateNonce_complete (P := P) dalgo hfresh
  have hpre : digestPre P cfg rule st.epoch req = .ok (parseAuthorization (hdr.drop 7),
      { dalgo := dalgo, dlen := dlen, username := name, realm := rule.realm,
        userhash := userhashFlag (parseAuthorization (hdr.drop 7)) },
      decide (st.epoch - (nonceTs nonce).1 > 540)) := by
    simp only [digestPre]
    rw [if_neg hbk, hh]
    dsimp only
    simp only [hpfx, Bool.not_true, Bool.false_eq_true, ↓reduceIte, hvp, hnonce, Option.getD_some, hvn]
  refine ⟨decide (st.epoch - (nonceTs nonce).1 > 540), ?_⟩
  unfold handle
  rw [hf]
  dsimp only
  rw [hs]
  dsimp only
  rw [checkDigest_snd]
  unfold checkDigestOut
  dsimp only
  rw [hpre]
  dsimp only
  rw [digestGet_transparent (st := { st with cache := [] }) cacheOk_nil hr hs rfl]
  have hget : backendDigest P cfg
      { ({ dalgo := dalgo, dlen := dlen, username := name, realm := rule.realm,
           userhash := userhashFlag (parseAuthorization (hdr.drop 7)) } : AI) with
        username := digestKey ({ dalgo := dalgo, dlen := dlen, username := name, realm := rule.realm,
                                 userhash := userhashFlag (parseAuthorization (hdr.drop 7)) } : AI) } =
      some { dalgo := dalgo, dlen := dlen, username := u, realm := rule.realm,
             userhash := userhashFlag (parseAuthorization (hdr.drop 7)), digest := hA1 } := by
    simp only [backendDigest, digestKey, hlookup]
  simp only [hget]
  unfold digestPost
  simp only [hresp, hauth, Bool.not_true, Bool.false_eq_true, ↓reduceIte]

/-! ### a starting state, and fixtures for the non-vacuity examples -/

/-- server start: empty cache, any clock values -/
def init (mono epoch : Int) : St := { cache := [], mono := mono, epoch := epoch }

theorem init_ageOk {ma m e : Int} : AgeOk ma (init m e) := fun _ h => by cases h


namespace Ex
/-- toy "digest" for the examples (the theorems hold for every H): a polynomial checksum, 16 bytes -/
def H (b : Bytes) : Bytes :=
  leBytes 16 (b.foldl (fun s x => (s * 257 + x.toNat + 1) % (2 ^ 127 - 1)) 7)
/-- every cache key collides -/
def P : Prims := { H := H, hash := fun _ _ => 0, crypt := fun _ _ => false }
def rules : List Rule :=
  [ { pfx := ofString "/priv", scheme := .basic, realm := ofString "R1", algorithm := 3, secret := none,
      userhash := false, req := { validUser := true } },
    { pfx := ofString "/dig", scheme := .digest, realm := ofString "R2", algorithm := 3, secret := none,
      userhash := false, req := { users := [ofString "alice"] } } ]
def cfg : Cfg := { rules := rules, backend := .plain, file := ofString "alice:wonder\nbob:builder\n",
                   cacheMaxAge := some 600 }
def basicReq (cred : String) : Req :=
  { method := ofString "GET", target := ofString "/priv/x", path := ofString "/priv/x",
    auth := some (ofString ("Basic " ++ cred)), protocol := false }
def digestHdr (user uri response : String) : Bytes :=
  ofString ("Digest username=\"" ++ user ++ "\", realm=\"R2\", nonce=\"6553f100:00\", uri=\"" ++ uri ++
            "\", qop=auth, nc=00000001, cnonce=\"abc\", response=\"" ++ response ++ "\"")
def digestReq (method user uri response : String) : Req :=
  { method := ofString method, target := ofString "/dig/x", path := ofString "/dig/x",
    auth := some (digestHdr user uri response), protocol := false }
def st0 : St := init 1000 1700000000
/-- an HTTP/2 header list: pseudo-headers in the given order, then the Authorization field -/
def h2Fields (pseudo : List (String × String)) (response : String) : List (Bytes × Bytes) :=
  pseudo.map (fun p => (ofString p.1, ofString p.2)) ++
    [(ofString "authorization", digestHdr "alice" "/dig/x" response)]
/-- two backend scopes (say two virtual hosts) with different user files, one global
    auth.require and auth.cache -/
def cfg2 : Cfg := { cfg with scopes := [(.plain, ofString "alice:wonder\n"), (.plain, ofString "alice:other\n")] }
def basicReqAt (s : Nat) (cred : String) : Req := { basicReq cred with scope := s }
def secretRule : Rule :=
  { pfx := ofString "/sec", scheme := .digest, realm := ofString "R1", algorithm := 3,
    secret := some (ofString "s3cr3t"), userhash := false, req := { validUser := true } }
end Ex

end LtVerif.Auth
