/-
  Helper lemmas for the C16 extension "auth.cache container": the top-down splay keeps the
  in-order contents, and on a search tree brings a neighbour of the key to the root.
  Property theorems are in LtVerif/Props/C16.lean.
-/
import LtVerif.Model.AuthSplay
namespace LtVerif.AuthSplay

variable {α : Type}

def flatL : List (Tree α × Int × α) → List (Int × α)
  | [] => []
  | (lt, k, v) :: L => flatL L ++ lt.inorder ++ [(k, v)]

def flatR : List (Int × α × Tree α) → List (Int × α)
  | [] => []
  | (k, v, rt) :: R => (k, v) :: rt.inorder ++ flatR R

theorem inorder_buildL (acc : Tree α) (L : List (Tree α × Int × α)) :
    (buildL acc L).inorder = flatL L ++ acc.inorder := by
  induction L generalizing acc with
  | nil => simp [buildL, flatL]
  | cons f L ih =>
    obtain ⟨lt, k, v⟩ := f
    simp [buildL, flatL, ih, Tree.inorder]

theorem inorder_buildR (acc : Tree α) (R : List (Int × α × Tree α)) :
    (buildR acc R).inorder = acc.inorder ++ flatR R := by
  induction R generalizing acc with
  | nil => simp [buildR, flatR]
  | cons f R ih =>
    obtain ⟨k, v, rt⟩ := f
    simp [buildR, flatR, ih, Tree.inorder]

theorem inorder_assemble (l : Tree α) (k : Int) (v : α) (r : Tree α) L R :
    (assemble l k v r L R).inorder = flatL L ++ (l.inorder ++ (k, v) :: r.inorder) ++ flatR R := by
  simp [assemble, Tree.inorder, inorder_buildL, inorder_buildR]

/-- the loop invariant of the top-down splay: left assembly ++ current ++ right assembly -/
theorem inorder_splayGo (i : Int) (fuel : Nat) (l : Tree α) (k : Int) (v : α) (r : Tree α) L R :
    (splayGo i fuel l k v r L R).inorder
      = flatL L ++ (l.inorder ++ (k, v) :: r.inorder) ++ flatR R := by
  induction fuel generalizing l k v r L R with
  | zero => simp [splayGo, inorder_assemble]
  | succ n ih =>
    unfold splayGo
    split
    · split
      · simp [inorder_assemble]
      · split
        · split
          · simp [inorder_assemble, Tree.inorder]
          · rw [ih]; simp [flatR, Tree.inorder]
        · rw [ih]; simp [flatR, Tree.inorder]
    · split
      · split
        · simp [inorder_assemble]
        · split
          · split
            · simp [inorder_assemble, Tree.inorder]
            · rw [ih]; simp [flatL, Tree.inorder]
          · rw [ih]; simp [flatL, Tree.inorder]
      · simp [inorder_assemble]

theorem inorder_splayNonnull (t : Tree α) (i : Int) : (splayNonnull t i).inorder = t.inorder := by
  cases t with
  | nil => rfl
  | node l k v r => simp [splayNonnull, inorder_splayGo, flatL, flatR, Tree.inorder]

theorem inorder_splay (t : Tree α) (i : Int) : (splay t i).inorder = t.inorder := by
  cases t with
  | nil => rfl
  | node l k v r =>
    simp only [splay]
    split
    · rfl
    · exact inorder_splayNonnull _ _

/-- the root is a neighbour of `i`: nothing between `i` and the root key on the side of `i` -/
def Near (i : Int) : Tree α → Prop
  | .nil => True
  | .node l k _ r => (i < k → ∀ p ∈ l.inorder, p.1 < i) ∧ (k < i → ∀ p ∈ r.inorder, i < p.1)

theorem near_assemble (i : Int) (l : Tree α) (k : Int) (v : α) (r : Tree α) L R
    (hL : ∀ p ∈ flatL L, p.1 < i) (hR : ∀ p ∈ flatR R, i < p.1)
    (hl : i < k → ∀ p ∈ l.inorder, p.1 < i) (hr : k < i → ∀ p ∈ r.inorder, i < p.1) :
    Near i (assemble l k v r L R) := by
  simp only [assemble, Near, inorder_buildL, inorder_buildR, List.mem_append]
  constructor
  · intro h p hp
    rcases hp with hp | hp
    · exact hL p hp
    · exact hl h p hp
  · intro h p hp
    rcases hp with hp | hp
    · exact hr h p hp
    · exact hR p hp

theorem sorted_node {l : Tree α} {k : Int} {v : α} {r : Tree α} :
    Sorted (.node l k v r) ↔ Sorted l ∧ Sorted r ∧ (∀ p ∈ l.inorder, p.1 < k) ∧
      (∀ p ∈ r.inorder, k < p.1) ∧ (∀ p ∈ l.inorder, ∀ q ∈ r.inorder, p.1 < q.1) := by
  simp only [Sorted, Tree.inorder, List.pairwise_append, List.pairwise_cons, List.mem_cons]
  constructor
  · rintro ⟨h1, ⟨h2, h3⟩, h4⟩
    exact ⟨h1, h3, fun p hp => h4 p hp _ (Or.inl rfl), h2, fun p hp q hq => h4 p hp q (Or.inr hq)⟩
  · rintro ⟨h1, h2, h3, h4, h5⟩
    refine ⟨h1, ⟨h4, h2⟩, ?_⟩
    intro p hp q hq
    rcases hq with rfl | hq
    · exact h3 p hp
    · exact h5 p hp q hq

theorem near_splayGo (i : Int) (fuel : Nat) (l : Tree α) (k : Int) (v : α) (r : Tree α) L R
    (hf : (Tree.node l k v r).size ≤ fuel) (hs : Sorted (.node l k v r))
    (hL : ∀ p ∈ flatL L, p.1 < i) (hR : ∀ p ∈ flatR R, i < p.1) :
    Near i (splayGo i fuel l k v r L R) := by
  induction fuel generalizing l k v r L R with
  | zero => simp [Tree.size] at hf
  | succ n ih =>
    unfold splayGo
    split
    · rename_i hik
      split
      · apply near_assemble _ _ _ _ _ _ _ hL hR
        · intro _ p hp; simp [Tree.inorder] at hp
        · intro h; omega
      · rename_i ll lk lv lr
        have hs' := sorted_node.1 hs
        obtain ⟨hsl, hsr, hlk, hrk, hlr⟩ := hs'
        have hsl' := sorted_node.1 hsl
        obtain ⟨hsll, hslr, hllk, hlrk, hlllr⟩ := hsl'
        have hlk' : lk < k := hlk (lk, lv) (by simp [Tree.inorder])
        split
        · rename_i hilk
          split
          · apply near_assemble _ _ _ _ _ _ _ hL hR
            · intro _ p hp; simp [Tree.inorder] at hp
            · intro h; omega
          · rename_i a b c d
            apply ih
            · simp [Tree.size] at hf ⊢; omega
            · exact hsll
            · exact hL
            · intro p hp
              simp only [flatR, List.mem_cons, List.mem_append, Tree.inorder, or_assoc] at hp
              rcases hp with rfl | hp | rfl | hp | hp
              · exact hilk
              · have := hlrk p hp; omega
              · show i < k; omega
              · have := hrk p hp; omega
              · exact hR p hp
        · apply ih
          · simp [Tree.size] at hf ⊢; omega
          · exact hsl
          · exact hL
          · intro p hp
            simp only [flatR, List.mem_cons, List.mem_append, or_assoc] at hp
            rcases hp with rfl | hp | hp
            · exact hik
            · have := hrk p hp; omega
            · exact hR p hp
    · rename_i hik
      split
      · rename_i hki
        split
        · apply near_assemble _ _ _ _ _ _ _ hL hR
          · intro h; omega
          · intro _ p hp; simp [Tree.inorder] at hp
        · rename_i rl rk rv rr
          have hs' := sorted_node.1 hs
          obtain ⟨hsl, hsr, hlk, hrk, hlr⟩ := hs'
          have hsr' := sorted_node.1 hsr
          obtain ⟨hsrl, hsrr, hrlk, hrrk, hrlrr⟩ := hsr'
          have hrk' : k < rk := hrk (rk, rv) (by simp [Tree.inorder])
          split
          · rename_i hirk
            split
            · apply near_assemble _ _ _ _ _ _ _ hL hR
              · intro h; omega
              · intro _ p hp; simp [Tree.inorder] at hp
            · rename_i a b c d
              apply ih
              · simp [Tree.size] at hf ⊢; omega
              · exact hsrr
              · intro p hp
                simp only [flatL, List.mem_cons, List.mem_append, Tree.inorder,
                  List.mem_singleton, List.not_mem_nil, or_false, or_assoc] at hp
                rcases hp with hp | hp | rfl | hp | rfl
                · exact hL p hp
                · have := hlk p hp; omega
                · show k < i; omega
                · have := hrlk p hp; omega
                · show rk < i; omega
              · exact hR
          · apply ih
            · simp [Tree.size] at hf ⊢; omega
            · exact hsr
            · intro p hp
              simp only [flatL, List.mem_cons, List.mem_append, List.not_mem_nil, or_false, or_assoc] at hp
              rcases hp with hp | hp | rfl
              · exact hL p hp
              · have := hlk p hp; omega
              · show k < i; omega
            · exact hR
      · apply near_assemble _ _ _ _ _ _ _ hL hR
        · intro h; omega
        · intro h; omega

theorem near_splayNonnull (t : Tree α) (i : Int) (hs : Sorted t) : Near i (splayNonnull t i) := by
  cases t with
  | nil => trivial
  | node l k v r =>
    exact near_splayGo i _ l k v r [] [] (Nat.le_refl _) hs (by simp [flatL]) (by simp [flatR])

theorem near_splay (t : Tree α) (i : Int) (hs : Sorted t) : Near i (splay t i) := by
  cases t with
  | nil => trivial
  | node l k v r =>
    simp only [splay]
    split
    · rename_i h; subst h; exact ⟨fun h => by omega, fun h => by omega⟩
    · exact near_splayNonnull _ _ hs

theorem sorted_of_inorder_eq {t t' : Tree α} (h : t'.inorder = t.inorder) (hs : Sorted t) :
    Sorted t' := by
  unfold Sorted at *; rw [h]; exact hs

/-- on a search tree whose root is a neighbour of `i`, an entry with key `i` IS the root -/
theorem root_of_mem {i : Int} {l : Tree α} {k : Int} {v : α} {r : Tree α} {w : α}
    (hs : Sorted (.node l k v r)) (hn : Near i (.node l k v r))
    (hm : (i, w) ∈ (Tree.node l k v r).inorder) : k = i ∧ v = w := by
  obtain ⟨_, _, hlk, hrk, _⟩ := sorted_node.1 hs
  simp only [Tree.inorder, List.mem_append, List.mem_cons] at hm
  rcases hm with hm | hm | hm
  · have h1 := hlk _ hm
    have h2 := hn.1 h1 _ hm
    simp at h2
  · simp only [Prod.mk.injEq] at hm; exact ⟨hm.1.symm, hm.2.symm⟩
  · have h1 := hrk _ hm
    have h2 := hn.2 h1 _ hm
    simp at h2

theorem cacheQuery_inorder (t : Tree α) (i : Int) : (cacheQuery t i).1.inorder = t.inorder := by
  have h := inorder_splay t i
  unfold cacheQuery
  split
  · rename_i e; rw [e] at h; exact h
  · rename_i e; rw [e] at h; exact h

theorem cacheQuery_near (t : Tree α) (i : Int) (hs : Sorted t) : Near i (cacheQuery t i).1 := by
  have h := near_splay t i hs
  unfold cacheQuery
  split
  · trivial
  · rename_i e; rw [e] at h; exact h

theorem cacheQuery_found (t : Tree α) (i : Int) (v : α) (hs : Sorted t) :
    (cacheQuery t i).2 = some v ↔ (i, v) ∈ t.inorder := by
  have hi := inorder_splay t i
  have hn := near_splay t i hs
  have hs' := sorted_of_inorder_eq hi hs
  unfold cacheQuery
  split
  · rename_i e; rw [e] at hi; simp [← hi, Tree.inorder]
  · rename_i l k w r e
    rw [e] at hi hn hs'
    rw [← hi]
    constructor
    · intro h
      simp only at h
      split at h
      · rename_i hk; subst hk; simp only [Option.some.injEq] at h; subst h
        simp [Tree.inorder]
      · simp at h
    · intro h
      obtain ⟨h1, h2⟩ := root_of_mem hs' hn h
      simp [h1, h2]

/-- http_auth_cache_insert() on a search tree whose root is a neighbour of the key (which is how
    http_auth_cache_query() leaves it): finite-map insert, search-tree order kept -/
theorem cacheInsert_spec (t : Tree α) (i : Int) (d : α) (hs : Sorted t) (hn : Near i t) :
    Sorted (cacheInsert t i d) ∧
    ∀ p, p ∈ (cacheInsert t i d).inorder ↔ (p = (i, d) ∨ (p ∈ t.inorder ∧ p.1 ≠ i)) := by
  cases t with
  | nil =>
    simp [cacheInsert, insertSplayed, Sorted, Tree.inorder]
  | node l k v r =>
    obtain ⟨hsl, hsr, hlk, hrk, hlr⟩ := sorted_node.1 hs
    simp only [cacheInsert]
    split
    · rename_i hne
      simp only [insertSplayed]
      split
      · rename_i hik
        have hl := hn.1 hik
        constructor
        · apply sorted_node.2
          refine ⟨hsl, ?_, hl, ?_, ?_⟩
          · apply sorted_node.2
            refine ⟨by simp [Sorted, Tree.inorder], hsr, by simp [Tree.inorder], hrk, by simp [Tree.inorder]⟩
          · intro p hp
            simp only [Tree.inorder, List.nil_append, List.mem_cons] at hp
            rcases hp with rfl | hp
            · exact hik
            · have := hrk p hp; omega
          · intro p hp q hq
            simp only [Tree.inorder, List.nil_append, List.mem_cons] at hq
            rcases hq with rfl | hq
            · exact hlk p hp
            · exact hlr p hp q hq
        · intro p
          simp only [Tree.inorder, List.nil_append, List.mem_append, List.mem_cons]
          constructor
          · rintro (hp | rfl | rfl | hp)
            · have := hl p hp; exact Or.inr ⟨Or.inl hp, by omega⟩
            · exact Or.inl rfl
            · exact Or.inr ⟨Or.inr (Or.inl rfl), by simp; omega⟩
            · have := hrk p hp; exact Or.inr ⟨Or.inr (Or.inr hp), by omega⟩
          · rintro (rfl | ⟨hp | rfl | hp, _⟩)
            · exact Or.inr (Or.inl rfl)
            · exact Or.inl hp
            · exact Or.inr (Or.inr (Or.inl rfl))
            · exact Or.inr (Or.inr (Or.inr hp))
      · rename_i hik
        have hki : k < i := by omega
        have hr := hn.2 hki
        constructor
        · apply sorted_node.2
          refine ⟨?_, hsr, ?_, hr, ?_⟩
          · apply sorted_node.2
            refine ⟨hsl, by simp [Sorted, Tree.inorder], hlk, by simp [Tree.inorder], by simp [Tree.inorder]⟩
          · intro p hp
            simp only [Tree.inorder, List.mem_append, List.mem_cons, List.not_mem_nil, or_false] at hp
            rcases hp with hp | rfl
            · have := hlk p hp; omega
            · exact hki
          · intro p hp q hq
            simp only [Tree.inorder, List.mem_append, List.mem_cons, List.not_mem_nil, or_false] at hp
            rcases hp with hp | rfl
            · exact hlr p hp q hq
            · exact hrk q hq
        · intro p
          simp only [Tree.inorder, List.mem_append, List.mem_cons, List.not_mem_nil, or_false]
          constructor
          · rintro ((hp | rfl) | rfl | hp)
            · have := hlk p hp; exact Or.inr ⟨Or.inl hp, by omega⟩
            · exact Or.inr ⟨Or.inr (Or.inl rfl), by simp; omega⟩
            · exact Or.inl rfl
            · have := hr p hp; exact Or.inr ⟨Or.inr (Or.inr hp), by omega⟩
          · rintro (rfl | ⟨hp | rfl | hp, _⟩)
            · exact Or.inr (Or.inl rfl)
            · exact Or.inl (Or.inl hp)
            · exact Or.inl (Or.inr rfl)
            · exact Or.inr (Or.inr hp)
    · rename_i hke
      have hke : k = i := by simpa using hke
      subst hke
      constructor
      · apply sorted_node.2; exact ⟨hsl, hsr, hlk, hrk, hlr⟩
      · intro p
        simp only [Tree.inorder, List.mem_append, List.mem_cons]
        constructor
        · rintro (hp | rfl | hp)
          · have := hlk p hp; exact Or.inr ⟨Or.inl hp, by omega⟩
          · exact Or.inl rfl
          · have := hrk p hp; exact Or.inr ⟨Or.inr (Or.inr hp), by omega⟩
        · rintro (rfl | ⟨hp | rfl | hp, hne⟩)
          · exact Or.inr (Or.inl rfl)
          · exact Or.inl hp
          · simp at hne
          · exact Or.inr (Or.inr hp)

/-- splaytree_delete_splayed_node() on a search tree removes exactly the root: the overwritten
    `x->right` is NULL because `x` is the maximum of the left part -/
theorem deleteSplayedNode_inorder (l : Tree α) (k : Int) (v : α) (r : Tree α)
    (hs : Sorted (.node l k v r)) :
    (deleteSplayedNode (.node l k v r)).inorder = l.inorder ++ r.inorder := by
  obtain ⟨hsl, _, hlk, _, _⟩ := sorted_node.1 hs
  cases l with
  | nil => simp [deleteSplayedNode, Tree.inorder]
  | node a b c d =>
    simp only [deleteSplayedNode]
    have hi := inorder_splayNonnull (Tree.node a b c d) k
    have hn := near_splayNonnull (Tree.node a b c d) k hsl
    split
    · rename_i e; rw [e] at hi; simp [Tree.inorder] at hi
    · rename_i xl xk xv xr e
      rw [e] at hi hn
      have hxk : xk < k := hlk (xk, xv) (by rw [← hi]; simp [Tree.inorder])
      have hxr : xr.inorder = [] := by
        apply List.eq_nil_iff_forall_not_mem.2
        intro p hp
        have h1 := hn.2 hxk p hp
        have h2 := hlk p (by rw [← hi]; simp [Tree.inorder, hp])
        omega
      rw [← hi]
      simp [Tree.inorder, hxr]

/-- one iteration of the delete loop of mod_auth_periodic_cleanup(): splay to the key, delete root -/
theorem deleteKey_inorder (t : Tree α) (i : Int) (w : α) (hs : Sorted t) (hm : (i, w) ∈ t.inorder) :
    (deleteSplayedNode (splayNonnull t i)).inorder = t.inorder.filter (fun p => p.1 ≠ i) := by
  have hi := inorder_splayNonnull t i
  have hn := near_splayNonnull t i hs
  have hs' := sorted_of_inorder_eq hi hs
  cases e : splayNonnull t i with
  | nil => rw [e] at hi; rw [← hi] at hm; simp [Tree.inorder] at hm
  | node l k v r =>
    rw [e] at hi hn hs'
    rw [← hi] at hm
    obtain ⟨hk, _⟩ := root_of_mem hs' hn hm
    subst hk
    rw [deleteSplayedNode_inorder l k v r hs', ← hi]
    obtain ⟨_, _, hlk, hrk, _⟩ := sorted_node.1 hs'
    simp only [Tree.inorder, List.filter_append, List.filter_cons, ne_eq, not_true_eq_false,
      decide_false, Bool.false_eq_true, if_false]
    congr 1
    · symm; apply List.filter_eq_self.2
      intro p hp; have := hlk p hp; simp; omega
    · symm; apply List.filter_eq_self.2
      intro p hp; have := hrk p hp; simp; omega

end LtVerif.AuthSplay
