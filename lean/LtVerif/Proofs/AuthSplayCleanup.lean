/-
  C16 extension, second part: mod_auth_tag_old_entries + mod_auth_periodic_cleanup on a search tree
  remove exactly the expired entries (helper lemmas; theorems in Props/C16.lean).
-/
import LtVerif.Proofs.AuthSplay
namespace LtVerif.AuthSplay

variable {α : Type}

theorem lookup_iff_mem (c : List (Int × α)) (h : c.Pairwise (fun a b => a.1 ≠ b.1)) (k : Int) (v : α) :
    c.lookup k = some v ↔ (k, v) ∈ c := by
  induction c with
  | nil => simp
  | cons a c ih =>
    obtain ⟨ak, av⟩ := a
    rw [List.pairwise_cons] at h
    by_cases hk : k = ak
    · subst hk
      simp only [List.lookup_cons, BEq.rfl, Option.some.injEq, List.mem_cons, Prod.mk.injEq, true_and]
      constructor
      · intro e; exact Or.inl e.symm
      · rintro (e | e)
        · exact e.symm
        · exact absurd rfl (h.1 (k, v) e)
    · have : (k == ak) = false := by simpa using hk
      simp only [List.lookup_cons, this, List.mem_cons, Prod.mk.injEq, hk, false_and, false_or]
      exact ih h.2

/-- keys of the expired entries in the order mod_auth_tag_old_entries() visits them (post-order) -/
def post (old : α → Bool) : Tree α → List Int
  | .nil => []
  | .node l k v r => post old l ++ post old r ++ (if old v then [k] else [])

theorem tagOld_eq (old : α → Bool) (cap : Nat) (t : Tree α) (keys : List Int) (h : keys.length ≤ cap) :
    tagOld old cap t keys = keys ++ (post old t).take (cap - keys.length) := by
  induction t generalizing keys with
  | nil => simp [tagOld, post]
  | node l k v r ihl ihr =>
    by_cases hc : keys.length = cap
    · simp [tagOld, hc]
    · have hl1 : (keys ++ (post old l).take (cap - keys.length)).length ≤ cap := by
        simp only [List.length_append, List.length_take]; omega
      simp only [tagOld, hc, if_false, ihl keys h, ihr _ hl1]
      have e1 : cap - (keys ++ List.take (cap - keys.length) (post old l)).length
          = cap - keys.length - (post old l).length := by
        simp only [List.length_append, List.length_take]; omega
      rw [e1]
      have e2 : post old (l.node k v r) = (post old l ++ post old r) ++ (if old v then [k] else []) := rfl
      rw [e2, List.take_append, List.take_append]
      simp only [List.length_append, List.length_take, List.append_assoc]
      split
      · rename_i hf
        have : cap - keys.length - ((post old l).length + (post old r).length) = 0 := by omega
        rw [this]; simp
      · rename_i hf
        have : cap - keys.length - ((post old l).length + (post old r).length) ≥ 1 := by omega
        split <;> simp [List.take_of_length_le, this]

theorem mem_post (old : α → Bool) (t : Tree α) (x : Int) :
    x ∈ post old t ↔ ∃ v, (x, v) ∈ t.inorder ∧ old v = true := by
  induction t with
  | nil => simp [post, Tree.inorder]
  | node l k v r ihl ihr =>
    simp only [post, Tree.inorder, List.mem_append, List.mem_cons, ihl, ihr, Prod.mk.injEq]
    constructor
    · rintro ((⟨w, hw, ho⟩ | ⟨w, hw, ho⟩) | hx)
      · exact ⟨w, Or.inl hw, ho⟩
      · exact ⟨w, Or.inr (Or.inr hw), ho⟩
      · split at hx
        · rename_i ho; simp at hx; exact ⟨v, Or.inr (Or.inl ⟨hx, rfl⟩), ho⟩
        · simp at hx
    · rintro ⟨w, hw | ⟨rfl, rfl⟩ | hw, ho⟩
      · exact Or.inl (Or.inl ⟨w, hw, ho⟩)
      · right; simp [ho]
      · exact Or.inl (Or.inr ⟨w, hw, ho⟩)

theorem key_unique {t : Tree α} (hs : Sorted t) {k : Int} {v w : α}
    (h1 : (k, v) ∈ t.inorder) (h2 : (k, w) ∈ t.inorder) : v = w := by
  have hp : t.inorder.Pairwise (fun a b => a.1 ≠ b.1) := hs.imp (fun h => by omega)
  have e1 := (lookup_iff_mem _ hp k v).2 h1
  have e2 := (lookup_iff_mem _ hp k w).2 h2
  rw [e1] at e2; exact Option.some.inj e2

theorem post_nodup (old : α → Bool) (t : Tree α) (hs : Sorted t) : (post old t).Nodup := by
  induction t with
  | nil => simp [post]
  | node l k v r ihl ihr =>
    obtain ⟨hsl, hsr, hlk, hrk, hlr⟩ := sorted_node.1 hs
    simp only [post]
    rw [List.nodup_append, List.nodup_append]
    refine ⟨⟨ihl hsl, ihr hsr, ?_⟩, ?_, ?_⟩
    · intro a ha b hb
      obtain ⟨_, h1, _⟩ := (mem_post old l a).1 ha
      obtain ⟨_, h2, _⟩ := (mem_post old r b).1 hb
      have := hlr _ h1 _ h2; simp at this; omega
    · split <;> simp
    · intro a ha b hb
      split at hb
      · simp at hb; subst hb
        rcases List.mem_append.1 ha with ha | ha
        · obtain ⟨_, h1, _⟩ := (mem_post old l a).1 ha
          have := hlk _ h1; simp at this; omega
        · obtain ⟨_, h1, _⟩ := (mem_post old r a).1 ha
          have := hrk _ h1; simp at this; omega
      · simp at hb

theorem size_eq_length (t : Tree α) : t.size = t.inorder.length := by
  induction t with
  | nil => rfl
  | node l k v r ihl ihr => simp [Tree.size, Tree.inorder, ihl, ihr]; omega

theorem deleteKeys_inorder (ks : List Int) (t : Tree α) (hs : Sorted t) (hn : ks.Nodup)
    (hm : ∀ k ∈ ks, ∃ w, (k, w) ∈ t.inorder) :
    (deleteKeys t ks).inorder = t.inorder.filter (fun p => decide (p.1 ∉ ks)) ∧ Sorted (deleteKeys t ks) := by
  induction ks generalizing t with
  | nil =>
    refine ⟨?_, hs⟩
    simp only [deleteKeys]; symm; apply List.filter_eq_self.2; intro _ _; simp
  | cons k ks ih =>
    obtain ⟨w, hw⟩ := hm k (by simp)
    rw [List.nodup_cons] at hn
    cases t with
    | nil => simp [Tree.inorder] at hw
    | node a b c d =>
      simp only [deleteKeys]
      have h1 := deleteKey_inorder _ k w hs hw
      have hs1 : Sorted (deleteSplayedNode (splayNonnull (Tree.node a b c d) k)) := by
        unfold Sorted at *; rw [h1]; exact hs.filter _
      have hm1 : ∀ k' ∈ ks, ∃ w', (k', w') ∈ (deleteSplayedNode (splayNonnull (Tree.node a b c d) k)).inorder := by
        intro k' hk'
        obtain ⟨w', hw'⟩ := hm k' (by simp [hk'])
        refine ⟨w', ?_⟩
        rw [h1, List.mem_filter]
        refine ⟨hw', ?_⟩
        simp only [ne_eq, decide_not, Bool.not_eq_eq_eq_not, Bool.not_true, decide_eq_false_iff_not]
        intro e; subst e; exact hn.1 hk'
      obtain ⟨e, s⟩ := ih _ hs1 hn.2 hm1
      refine ⟨?_, s⟩
      rw [e, h1, List.filter_filter]
      apply List.filter_congr
      intro p _
      simp only [List.mem_cons, not_or, ne_eq, decide_not, Bool.decide_and]
      rw [Bool.and_comm]

theorem periodicCleanupGo_inorder (old : α → Bool) (cap : Nat) (hcap : 0 < cap) (fuel : Nat) (t : Tree α)
    (hs : Sorted t) (hf : t.size < fuel) :
    (periodicCleanupGo old cap fuel t).inorder = t.inorder.filter (fun p => !old p.2) ∧
    Sorted (periodicCleanupGo old cap fuel t) := by
  induction fuel generalizing t with
  | zero => omega
  | succ n ih =>
    cases t with
    | nil => simp [periodicCleanupGo, Tree.inorder, Sorted]
    | node a b c d =>
      simp only [periodicCleanupGo]
      have hk : tagOld old cap (Tree.node a b c d) [] = (post old (Tree.node a b c d)).take cap := by
        rw [tagOld_eq _ _ _ _ (Nat.zero_le _)]; simp
      rw [hk]
      have hn : ((post old (Tree.node a b c d)).take cap).Nodup :=
        List.Nodup.sublist (List.take_sublist _ _) (post_nodup old _ hs)
      have hsub : ∀ k ∈ (post old (Tree.node a b c d)).take cap,
          ∃ w, (k, w) ∈ (Tree.node a b c d).inorder ∧ old w = true :=
        fun k hk' => (mem_post old _ k).1 (List.mem_of_mem_take hk')
      have hm : ∀ k ∈ (post old (Tree.node a b c d)).take cap, ∃ w, (k, w) ∈ (Tree.node a b c d).inorder :=
        fun k hk' => let ⟨w, h1, _⟩ := hsub k hk'; ⟨w, h1⟩
      have hold : ∀ p ∈ (Tree.node a b c d).inorder, p.1 ∈ (post old (Tree.node a b c d)).take cap →
          old p.2 = true := by
        intro p hp hpk
        obtain ⟨w, h1, h2⟩ := hsub p.1 hpk
        have : w = p.2 := key_unique hs h1 hp
        rw [← this]; exact h2
      obtain ⟨e, s⟩ := deleteKeys_inorder _ _ hs hn hm
      split
      · rename_i hfull
        have hlt : (deleteKeys (Tree.node a b c d) ((post old (Tree.node a b c d)).take cap)).size < n := by
          rw [size_eq_length, e]
          have h1 : (Tree.node a b c d).inorder.length ≤ n := by rw [← size_eq_length]; omega
          have h2 : (List.filter (fun p => decide (p.1 ∉ (post old (Tree.node a b c d)).take cap))
              (Tree.node a b c d).inorder).length < (Tree.node a b c d).inorder.length := by
            apply List.length_filter_lt_length_iff_exists.2
            obtain ⟨k0, hk0⟩ := List.exists_mem_of_length_pos (l := (post old (Tree.node a b c d)).take cap)
              (by omega)
            obtain ⟨w, h1⟩ := hm k0 hk0
            exact ⟨(k0, w), h1, by simpa using hk0⟩
          omega
        obtain ⟨e2, s2⟩ := ih _ s hlt
        refine ⟨?_, s2⟩
        rw [e2, e, List.filter_filter]
        apply List.filter_congr
        intro p hp
        by_cases hpk : p.1 ∈ (post old (Tree.node a b c d)).take cap
        · simp [hpk, hold p hp hpk]
        · simp [hpk]
      · rename_i hfull
        refine ⟨?_, s⟩
        have hall : (post old (Tree.node a b c d)).take cap = post old (Tree.node a b c d) := by
          apply List.take_of_length_le
          simp only [List.length_take] at hfull; omega
        rw [e]
        apply List.filter_congr
        intro p hp
        by_cases ho : old p.2 = true
        · have : p.1 ∈ (post old (Tree.node a b c d)).take cap := by
            rw [hall]; exact (mem_post old _ p.1).2 ⟨p.2, hp, ho⟩
          simp [this, ho]
        · have : p.1 ∉ (post old (Tree.node a b c d)).take cap := fun h => ho (hold p hp h)
          simp [this, ho]

theorem periodicCleanup_inorder (old : α → Bool) (cap : Nat) (hcap : 0 < cap) (t : Tree α) (hs : Sorted t) :
    (periodicCleanup old cap t).inorder = t.inorder.filter (fun p => !old p.2) ∧
    Sorted (periodicCleanup old cap t) :=
  periodicCleanupGo_inorder old cap hcap _ t hs (Nat.lt_succ_self _)

end LtVerif.AuthSplay
