/-
  Helper lemmas for the C10 models: the backend chunked decoder (Model/HttpChunkDecode.lean),
  FastCGI record reassembly (Model/FcgiRecv.lean) and the relay composite (Model/BackendResp.lean).
-/
import LtVerif.Model.BackendResp
namespace LtVerif.BeResp
open LtVerif B

/-! ## backend chunked decoder -/

theorem dcFeed_nil (s : DcSt) : dcFeed s [] = s := rfl
theorem dcFeed_cons (s : DcSt) (b : UInt8) (bs : Bytes) : dcFeed s (b :: bs) = dcFeed (dcStep s b) bs := rfl
theorem dcFeed_append (s : DcSt) (a b : Bytes) : dcFeed s (a ++ b) = dcFeed (dcFeed s a) b := by
  simp [dcFeed, List.foldl_append]

/-- a chunk-size line (with its LF) that the decoder accepts for a chunk of `n` bytes: any
    spelling (leading zeros, upper/lower-case hex, BWS, chunk extensions) -/
structure DcGoodLine (l : Bytes) (n : Nat) : Prop where
  parse : dcParseLine l = some n
  pre : ∃ p, l = p ++ [lf] ∧ lf ∉ p
  short : l.length ≤ 1024

/-- `t` is what follows the last-chunk line `l` up to and including the first empty line -/
structure DcTrailerEnd (l t : Bytes) : Prop where
  nonempty : t ≠ []
  noNul : (l ++ t).contains 0 = false
  ends : endsCrlfCrlf (l ++ t) = true
  first : ∀ q r, t = q ++ r → r ≠ [] → q ≠ [] → endsCrlfCrlf (l ++ q) = false

theorem dcFeed_hdr_pre (p : Bytes) : ∀ (acc out : Bytes),
    lf ∉ p → acc.length + p.length < 1024 →
    dcFeed { mode := .hdr acc, out := out } p = { mode := .hdr (acc ++ p), out := out } := by
  induction p with
  | nil => intro acc out _ _; simp [dcFeed_nil]
  | cons b rest ih =>
    intro acc out hlf hlen
    have hb : b ≠ lf := fun e => hlf (by simp [e])
    have hrest : lf ∉ rest := fun e => hlf (by simp [e])
    simp only [List.length_cons] at hlen
    rw [dcFeed_cons]
    have hstep : dcStep { mode := .hdr acc, out := out } b = { mode := .hdr (acc ++ [b]), out := out } := by
      simp [dcStep, hb]
      omega
    rw [hstep, ih (acc ++ [b]) out hrest (by simp; omega)]
    simp

theorem dcFeed_goodline {l : Bytes} {n : Nat} (h : DcGoodLine l n) (hn : n ≠ 0) (out : Bytes) :
    dcFeed { mode := .hdr [], out := out } l = { mode := .data n, out := out } := by
  obtain ⟨p, hl, hlf⟩ := h.pre
  have hshort := h.short
  have hp := h.parse
  subst hl
  simp only [List.length_append, List.length_singleton] at hshort
  rw [dcFeed_append, dcFeed_hdr_pre p [] out hlf (by simp; omega)]
  simp only [List.nil_append, dcFeed_cons, dcFeed_nil]
  cases n with
  | zero => exact absurd rfl hn
  | succ k => simp [dcStep, hp]

theorem dcFeed_lastline {l : Bytes} (h : DcGoodLine l 0) (out : Bytes) :
    dcFeed { mode := .hdr [], out := out } l = { mode := .trailer l, out := out } := by
  obtain ⟨p, hl, hlf⟩ := h.pre
  have hshort := h.short
  have hp := h.parse
  subst hl
  simp only [List.length_append, List.length_singleton] at hshort
  rw [dcFeed_append, dcFeed_hdr_pre p [] out hlf (by simp; omega)]
  simp only [List.nil_append, dcFeed_cons, dcFeed_nil]
  simp [dcStep, hp]

theorem dcFeed_data (d : Bytes) : ∀ (n : Nat) (out : Bytes), d ≠ [] → d.length = n →
    dcFeed { mode := .data n, out := out } d = { mode := .cr, out := out ++ d } := by
  induction d with
  | nil => intro n out h; exact absurd rfl h
  | cons b rest ih =>
    intro n out _ hlen
    rw [dcFeed_cons]
    cases rest with
    | nil =>
      simp only [List.length_cons, List.length_nil] at hlen
      subst hlen
      simp [dcStep, dcFeed_nil]
    | cons c rest' =>
      simp only [List.length_cons] at hlen
      have hn : ¬ n ≤ 1 := by omega
      have hstep : dcStep { mode := .data n, out := out } b = { mode := .data (n - 1), out := out ++ [b] } := by
        simp [dcStep, hn]
      rw [hstep, ih (n - 1) (out ++ [b]) (by simp) (by simp; omega)]
      simp

theorem dcFeed_crlf (out : Bytes) :
    dcFeed { mode := .cr, out := out } [cr, lf] = { mode := .hdr [], out := out } := by
  simp [dcFeed_cons, dcFeed_nil, dcStep]

theorem dcFeed_chunk {l d : Bytes} (h : DcGoodLine l d.length) (hd : d ≠ []) (out : Bytes) :
    dcFeed { mode := .hdr [], out := out } (l ++ d ++ [cr, lf]) = { mode := .hdr [], out := out ++ d } := by
  have hn : d.length ≠ 0 := fun e => hd (List.length_eq_zero_iff.mp e)
  rw [dcFeed_append, dcFeed_append, dcFeed_goodline h hn, dcFeed_data d d.length out hd rfl, dcFeed_crlf]

/-- the trailer section is consumed up to its first empty line -/
theorem dcFeed_trailer (out : Bytes) : ∀ (t acc : Bytes), t ≠ [] →
    (acc ++ t).contains 0 = false → endsCrlfCrlf (acc ++ t) = true →
    (∀ q r, t = q ++ r → r ≠ [] → q ≠ [] → endsCrlfCrlf (acc ++ q) = false) →
    dcFeed { mode := .trailer acc, out := out } t = { mode := .done (acc ++ t), out := out } := by
  intro t
  induction t with
  | nil => intro acc h; exact absurd rfl h
  | cons b rest ih =>
    intro acc _ hnul hend hfirst
    rw [dcFeed_cons]
    cases rest with
    | nil =>
      have hn' : ¬ (0 : UInt8) ∈ acc ∧ ¬ (0 : UInt8) = b := by simpa using hnul
      simp [dcStep, dcFeed_nil, hend, hn'.1, hn'.2]
    | cons c rest' =>
      have hq : endsCrlfCrlf (acc ++ [b]) = false := hfirst [b] (c :: rest') rfl (by simp) (by simp)
      have hstep : dcStep { mode := .trailer acc, out := out } b
          = { mode := .trailer (acc ++ [b]), out := out } := by
        simp [dcStep, hq]
      rw [hstep, ih (acc ++ [b]) (by simp) (by simpa using hnul) (by simpa using hend)]
      · simp
      · intro q r hqr hr _
        have := hfirst (b :: q) r (by simp [hqr]) hr (by simp)
        simpa using this

theorem dcFeed_final {l t : Bytes} (hl : DcGoodLine l 0) (ht : DcTrailerEnd l t) (out : Bytes) :
    dcFeed { mode := .hdr [], out := out } (l ++ t) = { mode := .done (l ++ t), out := out } := by
  rw [dcFeed_append, dcFeed_lastline hl]
  exact dcFeed_trailer out t l ht.nonempty ht.noNul ht.ends ht.first

theorem dcFeed_err (bs : Bytes) (out : Bytes) : dcFeed { mode := .err, out := out } bs = { mode := .err, out := out } := by
  induction bs with
  | nil => rfl
  | cons b rest ih => rw [dcFeed_cons]; simpa [dcStep] using ih

theorem dcFeed_done_excess (acc out : Bytes) (bs : Bytes) (h : bs ≠ []) :
    dcFeed { mode := .done acc, out := out } bs = { mode := .err, out := out } := by
  cases bs with
  | nil => exact absurd rfl h
  | cons b rest => rw [dcFeed_cons]; simpa [dcStep] using dcFeed_err rest out


/-! ## FastCGI record reassembly -/

theorem frFeed_nil (s : FrSt) : frFeed s [] = s := rfl
theorem frFeed_cons (s : FrSt) (b : UInt8) (bs : Bytes) : frFeed s (b :: bs) = frFeed (frStep s b) bs := rfl
theorem frFeed_append (s : FrSt) (a b : Bytes) : frFeed s (a ++ b) = frFeed (frFeed s a) b := by
  simp [frFeed, List.foldl_append]

/-- between records: no partial record pending, request not ended -/
def FrIdle (s : FrSt) : Prop :=
  s.hdr = [] ∧ s.inRec = false ∧ s.ended = false ∧ s.got = 0 ∧ s.acc = [] ∧ s.need = 0 ∧ s.pad = 0 ∧ s.typ = 0

theorem toUInt8_toNat_of_lt {n : Nat} (h : n < 256) : n.toUInt8.toNat = n := by
  simp [Nat.toUInt8, UInt8.toNat, UInt8.ofNat]
  omega

/-- content bytes are collected (most recent first) as long as the record is not complete -/
theorem frFeed_content (c : Bytes) : ∀ (s : FrSt), s.ended = false → s.inRec = true →
    c.length < s.need ∨ (c.length = s.need ∧ s.pad > 0) →
    frFeed s c = { s with need := s.need - c.length, acc := c.reverse ++ s.acc, got := s.got + c.length } := by
  induction c with
  | nil => intro s _ _ _; simp [frFeed_nil]
  | cons b rest ih =>
    intro s he hi hn
    rw [frFeed_cons]
    simp only [List.length_cons] at hn
    have hstep : frStep s b = { s with need := s.need - 1, acc := b :: s.acc, got := s.got + 1 } := by
      unfold frStep
      simp only [he, hi]
      rcases hn with hn | ⟨hn, hp⟩
      · have h1 : s.need > 0 := by omega
        have h2 : ¬ (s.need = 1) := by omega
        simp [h1, h2]
      · have h1 : s.need > 0 := by omega
        have : ¬ (s.pad = 0) := by omega
        simp [h1, this]
    rw [hstep, ih]
    · simp; constructor <;> omega
    · exact he
    · exact hi
    · rcases hn with hn | ⟨hn, hp⟩
      · left; simp; omega
      · right; simp; constructor <;> omega

/-- padding bytes are skipped as long as the record is not complete -/
theorem frFeed_pad (p : Bytes) : ∀ (s : FrSt), s.ended = false → s.inRec = true → s.need = 0 →
    p.length < s.pad →
    frFeed s p = { s with pad := s.pad - p.length, got := s.got + p.length } := by
  induction p with
  | nil => intro s _ _ _ _; simp [frFeed_nil]
  | cons b rest ih =>
    intro s he hi hn hp
    rw [frFeed_cons]
    simp only [List.length_cons] at hp
    have hstep : frStep s b = { s with pad := s.pad - 1, got := s.got + 1 } := by
      unfold frStep
      have : ¬ (s.pad ≤ 1) := by omega
      simp [he, hi, hn, this]
    rw [hstep, ih]
    · simp; constructor <;> omega
    · exact he
    · exact hi
    · exact hn
    · simp; omega

/-- the state after a completed record -/
def frAfter (s : FrSt) (t : UInt8) (content : Bytes) : FrSt :=
  { hdr := [], inRec := false, typ := 0, need := 0, pad := 0, acc := [], got := 0,
    ended := frEvent t content = .endRequest, evs := s.evs ++ [frEvent t content] }

theorem frFeed_header (s : FrSt) (t : UInt8) (rid clen plen : Nat) (x : UInt8)
    (h0 : s.hdr = []) (hi : s.inRec = false) (he : s.ended = false)
    (hc : clen < 65536) (hp : plen < 256) :
    frFeed s [1, t, (rid / 256).toUInt8, (rid % 256).toUInt8, (clen / 256).toUInt8, (clen % 256).toUInt8,
              plen.toUInt8, x]
      = if clen + plen = 0 then frAfter s t []
        else { s with hdr := [], inRec := true, typ := t, need := clen, pad := plen, acc := [], got := s.got + 8 } := by
  have h1 : (clen / 256).toUInt8.toNat = clen / 256 := toUInt8_toNat_of_lt (by omega)
  have h2 : (clen % 256).toUInt8.toNat = clen % 256 := toUInt8_toNat_of_lt (by omega)
  have h3 : plen.toUInt8.toNat = plen := toUInt8_toNat_of_lt hp
  have h4 : clen / 256 * 256 + clen % 256 = clen := by omega
  simp only [frFeed_cons, frFeed_nil]
  simp [frStep, h0, hi, he, h1, h2, h3, h4, frEmit, frAfter]


theorem frFeed_record (s : FrSt) (t : UInt8) (rid : Nat) (content pad : Bytes)
    (h0 : s.hdr = []) (hi : s.inRec = false) (he : s.ended = false)
    (hc : content.length < 65536) (hp : pad.length < 256) :
    frFeed s (frEncode t rid content pad) = frAfter s t content := by
  unfold frEncode
  rw [frFeed_append, frFeed_append, frFeed_header s t rid content.length pad.length 0 h0 hi he hc hp]
  rcases List.eq_nil_or_concat pad with hpad | ⟨pinit, plast, hpad⟩
  · -- no padding
    subst hpad
    rcases List.eq_nil_or_concat content with hcon | ⟨cinit, clast, hcon⟩
    · subst hcon; simp [frFeed_nil]
    · rw [List.concat_eq_append] at hcon
      subst hcon
      have hne : ¬ ((cinit ++ [clast]).length + ([] : Bytes).length = 0) := by simp
      rw [if_neg hne, frFeed_append, frFeed_content cinit _ (by simpa using he) (by simp) (by left; simp)]
      simp [frFeed_cons, frFeed_nil, frStep, he, frEmit, frAfter]
  · rw [List.concat_eq_append] at hpad
    subst hpad
    have hne : ¬ (content.length + (pinit ++ [plast]).length = 0) := by simp
    rw [if_neg hne, frFeed_content content _ (by simpa using he) (by simp) (by right; simp),
        frFeed_append, frFeed_pad pinit _ (by simpa using he) (by simp) (by simp) (by simp)]
    simp [frFeed_cons, frFeed_nil, frStep, he, frEmit, frAfter]

theorem frAfter_idle (s : FrSt) (t : UInt8) (c : Bytes) (h : frEvent t c ≠ .endRequest) :
    (frAfter s t c).hdr = [] ∧ (frAfter s t c).inRec = false ∧ (frAfter s t c).ended = false := by
  simp [frAfter, h]

/-- after END_REQUEST nothing is parsed any more -/
theorem frFeed_ended (bs : Bytes) (s : FrSt) (h : s.ended = true) : frFeed s bs = s := by
  induction bs with
  | nil => rfl
  | cons b rest ih => rw [frFeed_cons]; simp [frStep, h, ih]


/-- fewer than 8 header bytes: nothing happens yet -/
theorem frFeed_hdr_partial (r : Bytes) : ∀ (s : FrSt), s.inRec = false → s.ended = false →
    s.hdr.length + r.length < 8 →
    frFeed s r = { s with hdr := s.hdr ++ r, got := s.got + r.length } := by
  induction r with
  | nil => intro s _ _ _; simp [frFeed_nil]
  | cons b rest ih =>
    intro s hi he hl
    rw [frFeed_cons]
    simp only [List.length_cons] at hl
    have hstep : frStep s b = { s with hdr := s.hdr ++ [b], got := s.got + 1 } := by
      unfold frStep
      have : s.hdr.length + 1 < 8 := by omega
      simp [hi, he, this]
    rw [hstep, ih]
    · simp; omega
    · exact hi
    · exact he
    · simp; omega

/-- a record that is not yet complete produces no event and does not end the request -/
theorem frFeed_partial_record (s : FrSt) (t : UInt8) (rid : Nat) (content pad : Bytes) (k : Nat)
    (h0 : s.hdr = []) (hi : s.inRec = false) (he : s.ended = false)
    (hc : content.length < 65536) (hp : pad.length < 256)
    (hk : k < (frEncode t rid content pad).length) :
    (frFeed s ((frEncode t rid content pad).take k)).ended = false ∧
    (frFeed s ((frEncode t rid content pad).take k)).evs = s.evs := by
  unfold frEncode at hk ⊢
  simp only [List.length_append, List.length_cons, List.length_nil] at hk
  by_cases hk8 : k < 8
  · -- inside the header
    rw [List.append_assoc, List.take_append_of_le_length (by simp; omega)]
    rw [frFeed_hdr_partial _ s hi he (by simp [h0]; omega)]
    simp [he]
  · have hk8' : 8 ≤ k := by omega
    rw [List.append_assoc, List.take_append, List.take_of_length_le (by simp; omega), frFeed_append,
        frFeed_header s t rid content.length pad.length 0 h0 hi he hc hp]
    have hne : ¬ (content.length + pad.length = 0) := by omega
    rw [if_neg hne]
    simp only [List.length_cons, List.length_nil]
    generalize hj : k - (0 + 1 + 1 + 1 + 1 + 1 + 1 + 1 + 1) = j
    have hjlt : j < content.length + pad.length := by omega
    generalize hs1 : ({ s with hdr := [], inRec := true, typ := t, need := content.length, pad := pad.length,
                               acc := [], got := s.got + 8 } : FrSt) = s1
    have e1 : s1.ended = false := by rw [← hs1]; exact he
    have i1 : s1.inRec = true := by rw [← hs1]
    have n1 : s1.need = content.length := by rw [← hs1]
    have p1 : s1.pad = pad.length := by rw [← hs1]
    have v1 : s1.evs = s.evs := by rw [← hs1]
    by_cases hjc : j ≤ content.length
    · rw [List.take_append_of_le_length hjc]
      rw [frFeed_content _ s1 e1 i1 (by
        simp only [List.length_take]
        by_cases hj2 : j < content.length
        · left; omega
        · right; omega)]
      simp [e1, v1]
    · rw [List.take_append, List.take_of_length_le (by omega), frFeed_append]
      rw [frFeed_content _ s1 e1 i1 (by right; omega)]
      rw [frFeed_pad _ _ (by simpa using e1) (by simpa using i1) (by simp; omega) (by simp; omega)]
      simp [e1, v1]


/-- a FastCGI record as the backend writes it -/
structure FrRec where
  typ : UInt8
  rid : Nat
  content : Bytes
  pad : Bytes

def FrRec.ok (r : FrRec) : Prop := r.content.length < 65536 ∧ r.pad.length < 256
def FrRec.enc (r : FrRec) : Bytes := frEncode r.typ r.rid r.content r.pad
def FrRec.ev (r : FrRec) : FrEv := frEvent r.typ r.content

theorem frFeed_records (rs : List FrRec) : ∀ (s : FrSt), s.hdr = [] → s.inRec = false → s.ended = false →
    (∀ r ∈ rs, r.ok ∧ r.ev ≠ .endRequest) →
    (frFeed s (rs.flatMap FrRec.enc)).hdr = [] ∧ (frFeed s (rs.flatMap FrRec.enc)).inRec = false ∧
    (frFeed s (rs.flatMap FrRec.enc)).ended = false ∧
    (frFeed s (rs.flatMap FrRec.enc)).evs = s.evs ++ rs.map FrRec.ev := by
  induction rs with
  | nil => intro s h0 hi he _; simp [frFeed_nil, h0, hi, he]
  | cons r rest ih =>
    intro s h0 hi he hall
    have hr := hall r (by simp)
    have hrest : ∀ x ∈ rest, x.ok ∧ x.ev ≠ .endRequest := fun x hx => hall x (by simp [hx])
    simp only [List.flatMap_cons, frFeed_append]
    have hrec : frFeed s r.enc = frAfter s r.typ r.content :=
      frFeed_record s r.typ r.rid r.content r.pad h0 hi he hr.1.1 hr.1.2
    rw [hrec]
    obtain ⟨a, b, c⟩ := frAfter_idle s r.typ r.content hr.2
    obtain ⟨i1, i2, i3, i4⟩ := ih (frAfter s r.typ r.content) a b c hrest
    refine ⟨i1, i2, i3, ?_⟩
    rw [i4]
    simp [frAfter, FrRec.ev]


/-! ## relay composite -/

/-! ## relay composite: end-of-stream classification and response start -/

theorem gwRecvEnd_pre (cfg : Cfg) (st : St) (e : End)
    (hc : st.cstate = .handle) (hs : st.started = false)
    (hh : st.handler = true) (hst : st.status = 0) (he : e ≠ .none) (hfe : st.fcgi.ended = false) :
    gwRecvEnd cfg st e = { st with open_ := false, status := 500, handler := false } := by
  cases e <;> simp [gwRecvEnd, gwBackendError, gwClose, backendError, backendDone, hc, hs, hh, hst, hfe] at he ⊢

/-- the fields of the state the error document leaves alone -/
theorem staticErrdoc_proj (st : St) (hh : st.handler = false) :
    (staticErrdoc st).status = st.status ∧ (staticErrdoc st).keepAlive = st.keepAlive ∧
    (staticErrdoc st).handler = false ∧ (staticErrdoc st).wq = errorPage st.status ∧
    (staticErrdoc st).evs = st.evs ∧ (staticErrdoc st).cstate = st.cstate ∧
    (staticErrdoc st).open_ = st.open_ ∧ (staticErrdoc st).finished = true ∧ (staticErrdoc st).dc = none := by
  unfold staticErrdoc
  simp only [hh, Bool.false_eq_true, if_false]
  split <;> simp [bodyClear]

theorem wpStatus_errdoc (st : St) (h4 : 400 ≤ st.status) (h6 : st.status < 600) :
    wpStatus st = staticErrdoc st := by
  have n1 : ¬ (st.status = 204 ∨ st.status = 205) := by omega
  have n2 : ¬ (st.status = 304) := by omega
  have n3 : ¬ (st.status = 200) := by omega
  simp [wpStatus, n1, n2, n3, h4, h6]

theorem mergeTrailers_dc_none (cfg : Cfg) (st : St) (h : st.dc = none) : mergeTrailers cfg st = st := by
  simp [mergeTrailers, h]

/-- announcing the length only touches the header fields -/
theorem wpSetLength_proj (cfg : Cfg) (st : St) :
    (wpSetLength cfg st).status = st.status ∧ (wpSetLength cfg st).keepAlive = st.keepAlive ∧
    (wpSetLength cfg st).handler = st.handler ∧ (wpSetLength cfg st).wq = st.wq ∧
    (wpSetLength cfg st).evs = st.evs ∧ (wpSetLength cfg st).cstate = st.cstate ∧
    (wpSetLength cfg st).open_ = st.open_ ∧ (wpSetLength cfg st).finished = st.finished ∧
    (wpSetLength cfg st).sendChunked = st.sendChunked := by
  unfold wpSetLength
  (repeat' split) <;> simp

theorem wpHead_proj (cfg : Cfg) (st : St) (hf : st.finished = true) :
    (wpHead cfg st).status = st.status ∧ (wpHead cfg st).keepAlive = st.keepAlive ∧
    (wpHead cfg st).handler = st.handler ∧ (wpHead cfg st).wq = (if cfg.head then [] else st.wq) ∧
    (wpHead cfg st).evs = st.evs ∧ (wpHead cfg st).cstate = st.cstate ∧
    (wpHead cfg st).open_ = st.open_ ∧ (wpHead cfg st).finished = true := by
  unfold wpHead
  split <;> simp_all [bodyClear]

/-- http_response_write_prepare() for a response lighttpd answers itself with an error document -/
theorem writePrepare_errdoc (cfg : Cfg) (st : St) (hh : st.handler = false)
    (h4 : 400 ≤ st.status) (h6 : st.status < 600) :
    (writePrepare cfg st).status = st.status ∧ (writePrepare cfg st).keepAlive = st.keepAlive ∧
    (writePrepare cfg st).wq = (if cfg.head then [] else errorPage st.status) ∧
    (writePrepare cfg st).evs = st.evs ∧ (writePrepare cfg st).cstate = st.cstate ∧
    (writePrepare cfg st).open_ = st.open_ ∧ (writePrepare cfg st).finished = true := by
  obtain ⟨e1, e2, e3, e4, e5, e6, e7, e8, e9⟩ := staticErrdoc_proj st hh
  unfold writePrepare
  rw [wpStatus_errdoc st h4 h6, mergeTrailers_dc_none cfg _ e9]
  have hl : wpLength cfg (staticErrdoc st) = wpSetLength cfg (staticErrdoc st) := by simp [wpLength, e8]
  rw [hl]
  obtain ⟨a1, a2, a3, a4, a5, a6, a7, a8, a9⟩ := wpSetLength_proj cfg (staticErrdoc st)
  obtain ⟨b1, b2, b3, b4, b5, b6, b7, b8⟩ := wpHead_proj cfg (wpSetLength cfg (staticErrdoc st)) (by rw [a8, e8])
  refine ⟨by rw [b1, a1, e1], by rw [b2, a2, e2], by rw [b4, a4, e4], by rw [b5, a5, e5], by rw [b6, a6, e6],
          by rw [b7, a7, e7], b8⟩

/-- h1_send_headers(): the status line of the current status, the field lines, the empty line,
    then the queued body; nothing else that matters changes -/
theorem h1SendHeaders_proj (cfg : Cfg) (st : St) :
    (h1SendHeaders cfg st).wq =
        h1StatusLine cfg st.status ++ h1FieldLines (h1HeaderSet cfg st) ++ crlf ++ crlf ++ st.wq ∧
    (h1SendHeaders cfg st).status = st.status ∧ (h1SendHeaders cfg st).keepAlive = st.keepAlive ∧
    (h1SendHeaders cfg st).finished = st.finished ∧ (h1SendHeaders cfg st).evs = st.evs ∧
    (h1SendHeaders cfg st).open_ = st.open_ ∧ (h1SendHeaders cfg st).handler = st.handler :=
  ⟨rfl, rfl, rfl, rfl, rfl, rfl, rfl⟩

/-- response start on HTTP/1.x for a state whose body is complete after write-prepare -/
theorem startResponse_h1_finished (cfg : Cfg) (st : St) (hv : cfg.ver ≤ 1) (hst : st.status ≠ 0)
    (hf : (writePrepare cfg st).finished = true) :
    (startResponse cfg st).cstate = .done ∧
    (startResponse cfg st).status = (writePrepare cfg st).status ∧
    (startResponse cfg st).keepAlive = (writePrepare cfg st).keepAlive ∧
    (startResponse cfg st).evs = pushW (writePrepare cfg st).evs
      (h1StatusLine cfg (writePrepare cfg st).status ++
       h1FieldLines (h1HeaderSet cfg (writePrepare cfg st)) ++ crlf ++ crlf ++ (writePrepare cfg st).wq) := by
  have hv2 : ¬ (cfg.ver ≥ 2) := by omega
  unfold startResponse
  simp only [hst, if_false, hv2]
  simp [h1Progress, flush, h1SendHeaders, hf]


theorem onEnd_active (cfg : Cfg) (st : St) (e : End) (hc : st.cstate = .handle ∨ st.cstate = .write)
    (ho : st.open_ = true) (he : e ≠ .none) (hl : lostHandler st = false) :
    onEnd cfg st e = conStep cfg (gwRecvEnd cfg st e) := by
  unfold onEnd
  have hg : (st.cstate = .done || st.cstate = .redispatch || !st.open_ || e = .none) = false := by
    rcases hc with hc | hc <;> simp [hc, ho, he]
  rw [if_neg (by simpa using hg), if_neg (by simp [hl])]



/-! ## response header store -/

theorem hdrFind_append_none (hs : List (Bytes × Bytes)) (n k v : Bytes) (h : hdrFind hs n = none) :
    hdrFind (hs ++ [(k, v)]) n = if lower k = n then some (k, v) else none := by
  unfold hdrFind at h ⊢
  rw [List.find?_append, h]
  simp [List.find?]
  split <;> simp_all

theorem hdrFind_mapFirst (f : Bytes × Bytes → Bytes × Bytes) (n : Bytes) (hf : ∀ kv, (f kv).1 = kv.1) :
    ∀ hs, hdrFind (hdrMapFirst f n hs) n = (hdrFind hs n).map f := by
  intro hs
  induction hs with
  | nil => rfl
  | cons kv rest ih =>
    unfold hdrMapFirst
    by_cases h : lower kv.1 = n
    · simp [h, hdrFind, List.find?, hf]
    · simp only [h, if_false]
      unfold hdrFind at ih ⊢
      simp [List.find?, h, ih]

theorem hasHdr_hdrSet (hs : List (Bytes × Bytes)) (k v : Bytes) :
    hasHdr (hdrSet hs k v) (lower k) = !v.isEmpty := by
  unfold hdrSet hasHdr
  cases hf : hdrFind hs (lower k) with
  | none => simp [hdrFind_append_none hs (lower k) k v hf]
  | some kv =>
    simp only
    rw [hdrFind_mapFirst (fun kv => (kv.1, v)) (lower k) (fun _ => rfl), hf]
    simp

theorem hasHdr_hdrAppend (hs : List (Bytes × Bytes)) (k v : Bytes) (hv : v ≠ []) :
    hasHdr (hdrAppend hs k v) (lower k) = true := by
  have hv' : v.isEmpty = false := by cases v <;> simp_all
  unfold hdrAppend hasHdr
  simp only [hv', Bool.false_eq_true, if_false]
  cases hf : hdrFind hs (lower k) with
  | none => simp [hdrFind_append_none hs (lower k) k v hf, hv']
  | some kv =>
    simp only
    rw [hdrFind_mapFirst (fun kv => if kv.2.isEmpty then (kv.1, v) else (kv.1, kv.2 ++ [44, sp] ++ v)) (lower k)
        (by intro kv; split <;> rfl), hf]
    simp only [Option.map_some]
    split <;> simp_all

theorem decBytes_ne_nil (n : Nat) : decBytes n ≠ [] := by
  unfold decBytes decDigits
  split <;> simp

theorem lower_cl : lower (ofString "Content-Length") = nContentLength := by decide
theorem lower_te : lower (ofString "Transfer-Encoding") = nTransferEncoding := by decide

/-- **A kept-alive HTTP/1.x response always announces its length.**  After
    http_response_write_prepare(), for a response that carries a body (not HEAD, not 204/304),
    keep-alive survives only if Content-Length, Transfer-Encoding or Upgrade is set. -/
theorem writePrepare_keepalive_framed (cfg : Cfg) (st : St) (hv : cfg.ver ≤ 1) (hh : cfg.head = false)
    (hk : (writePrepare cfg st).keepAlive = true) :
    (writePrepare cfg st).status = 204 ∨ (writePrepare cfg st).status = 304 ∨
    hasHdr (writePrepare cfg st).headers nContentLength = true ∨
    hasHdr (writePrepare cfg st).headers nTransferEncoding = true ∨
    hasHdr (writePrepare cfg st).headers nUpgrade = true := by
  unfold writePrepare at hk ⊢
  generalize mergeTrailers cfg (wpStatus st) = s2 at hk ⊢
  have hhd : ∀ s, wpHead cfg s = s := by intro s; simp [wpHead, hh]
  rw [hhd] at hk ⊢
  unfold wpLength at hk ⊢
  by_cases hf : s2.finished = true
  · simp only [hf, if_true] at hk ⊢
    unfold wpSetLength at hk ⊢
    by_cases hn : noLen s2 = true
    · simp only [hn, if_true] at hk ⊢
      by_cases hq : s2.wq.length > 0
      · simp only [hq, if_true]
        right; right; left
        have := hasHdr_hdrSet s2.headers (ofString "Content-Length") (decBytes s2.wq.length)
        rw [lower_cl] at this
        simp [this, decBytes_ne_nil]
      · simp only [hq, if_false, hh]
        by_cases h2 : s2.status = 204
        · left; simp [h2]
        · by_cases h3 : s2.status = 304
          · right; left; simp [h2, h3]
          · right; right; left
            have := hasHdr_hdrSet s2.headers (ofString "Content-Length") (ofString "0")
            rw [lower_cl, show (!(ofString "0").isEmpty) = true by decide] at this
            simp only [h2, h3, ne_eq, not_false_eq_true, decide_true, Bool.not_false, Bool.and_self, if_true]
            exact this
    · simp only [hn, if_false] at hk ⊢
      simp only [noLen, Bool.and_eq_true, Bool.not_eq_true', not_and, Bool.not_eq_false] at hn
      by_cases hcl : hasHdr s2.headers nContentLength = true
      · right; right; left; exact hcl
      · right; right; right; left
        exact hn (by simpa using hcl)
  · have hv2 : ¬ (cfg.ver ≥ 2) := by omega
    simp only [hf, if_false, hv2] at hk ⊢
    unfold wpStartStreaming at hk ⊢
    by_cases hc : (noLen s2 && !hasHdr s2.headers nUpgrade) = true
    · simp only [hc, if_true] at hk ⊢
      by_cases h1 : cfg.ver = 1
      · simp only [h1, if_true]
        right; right; right; left
        have := hasHdr_hdrAppend s2.headers (ofString "Transfer-Encoding") (ofString "chunked") (by decide)
        rw [lower_te] at this
        simpa using this
      · simp [h1] at hk
    · simp only [hc, if_false] at hk ⊢
      simp only [noLen, Bool.and_eq_true, Bool.not_eq_true', not_and, Bool.not_eq_false] at hc
      by_cases hcl : hasHdr s2.headers nContentLength = true
      · right; right; left; exact hcl
      · by_cases hte : hasHdr s2.headers nTransferEncoding = true
        · right; right; right; left; exact hte
        · right; right; right; right
          exact hc ⟨by simpa using hcl, by simpa using hte⟩



theorem findIdx_skip (p : UInt8 → Bool) (k : Bytes) : ∀ (rest : Bytes) (i : Nat), (∀ b ∈ k, p b = false) →
    findIdx p (k ++ rest) i = findIdx p rest (i + k.length) := by
  induction k with
  | nil => intro rest i _; simp
  | cons x xs ih =>
    intro rest i h
    have hx : p x = false := h x (by simp)
    simp only [List.cons_append, findIdx, hx, Bool.false_eq_true, if_false]
    rw [ih rest (i + 1) (fun b hb => h b (by simp [hb]))]
    simp only [List.length_cons]
    congr 1
    omega

/-- names lighttpd treats specially in a backend response head -/
def specialNames : List Bytes :=
  [nStatus, nUpgrade, nConnection, nContentType, nContentLength, nTransferEncoding, nHttp2Settings]

/-- an ordinary end-to-end field as a backend may send it: `name ": " value CRLF` -/
structure PlainField (k v : Bytes) : Prop where
  kne : k ≠ []
  kcolon : ∀ b ∈ k, (b = colon) = false
  klast : endsWs k = false
  kspecial : lower k ∉ specialNames
  vne : v ≠ []
  vhead : isWs (v.headD 0) = false

def fieldLine (k v : Bytes) : Bytes := k ++ [colon, sp] ++ v ++ [cr, lf]

theorem fieldOfLine_fieldLine {k v : Bytes} (h : PlainField k v) : fieldOfLine (fieldLine k v) = some (k, v) := by
  unfold fieldOfLine fieldLine
  have hbody : (k ++ [colon, sp] ++ v ++ [cr, lf]).dropLast = k ++ (colon :: sp :: (v ++ [cr])) := by
    have : k ++ [colon, sp] ++ v ++ [cr, lf] = (k ++ (colon :: sp :: (v ++ [cr]))) ++ [lf] := by simp
    rw [this, List.dropLast_concat]
  simp only [hbody]
  rw [findIdx_skip (· = colon) k _ 0 (by intro b hb; simpa using h.kcolon b hb)]
  simp only [findIdx, decide_true, if_true, Nat.zero_add]
  have hk : k.isEmpty = false := by
    cases hk : k with
    | nil => exact absurd hk h.kne
    | cons a as => rfl
  have htake : (k ++ colon :: sp :: (v ++ [cr])).take k.length = k := by simp
  have hdrop : (k ++ colon :: sp :: (v ++ [cr])).drop (k.length + 1) = sp :: (v ++ [cr]) := by
    rw [List.drop_append]; simp
  simp only [htake, hk, Bool.false_eq_true, if_false, hdrop]
  obtain ⟨x, xs, hv⟩ : ∃ x xs, v = x :: xs := by
    cases v with
    | nil => exact absurd rfl h.vne
    | cons x xs => exact ⟨x, xs, rfl⟩
  have hx : isWs x = false := by simpa [hv] using h.vhead
  have hsp : isWs sp = true := by decide
  have hdw : (sp :: (v ++ [cr])).dropWhile isWs = v ++ [cr] := by
    rw [List.dropWhile_cons, if_pos hsp, hv, List.cons_append, List.dropWhile_cons, if_neg (by simp [hx])]
  rw [hdw]
  simp


theorem applyField_plain (cfg : Cfg) (st : St) {k v : Bytes} (h : PlainField k v) :
    applyField cfg st k v = { st with headers := hdrInsert (cfg.ver ≥ 2) st.headers k v } := by
  have hs := h.kspecial
  simp only [specialNames, List.mem_cons, List.not_mem_nil, or_false, not_or] at hs
  obtain ⟨h1, h2, h3, h4, h5, h6, h7⟩ := hs
  unfold applyField
  simp only [h1, h2, h3, h4, h5, h6, h7, if_false, h.klast, Bool.false_eq_true]

theorem applyLine_plain (cfg : Cfg) (st : St) {k v : Bytes} (h : PlainField k v) :
    applyLine cfg st (fieldLine k v) = { st with headers := hdrInsert (cfg.ver ≥ 2) st.headers k v } := by
  unfold applyLine
  rw [fieldOfLine_fieldLine h]
  exact applyField_plain cfg st h

/-- a fresh name is appended to the stored fields -/
theorem hdrInsert_fresh (h2 : Bool) (hs : List (Bytes × Bytes)) (k v : Bytes) (hv : v ≠ [])
    (hf : hdrFind hs (lower k) = none) : hdrInsert h2 hs k v = hs ++ [(k, v)] := by
  have hv' : v.isEmpty = false := by cases v <;> simp_all
  simp [hdrInsert, hv', hf]


theorem foldl_applyLine_plain (cfg : Cfg) (fs : List (Bytes × Bytes)) : ∀ (st : St),
    (∀ f ∈ fs, PlainField f.1 f.2) →
    (fs.map fun f => fieldLine f.1 f.2).foldl (applyLine cfg) st =
      { st with headers := fs.foldl (fun hs f => hdrInsert (cfg.ver ≥ 2) hs f.1 f.2) st.headers } := by
  induction fs with
  | nil => intro st _; rfl
  | cons f rest ih =>
    intro st h
    simp only [List.map_cons, List.foldl_cons]
    rw [applyLine_plain cfg st (h f (by simp)), ih _ (fun g hg => h g (by simp [hg]))]

theorem hdrFind_none_of_not_mem (hs : List (Bytes × Bytes)) (n : Bytes)
    (h : n ∉ hs.map fun kv => lower kv.1) : hdrFind hs n = none := by
  induction hs with
  | nil => rfl
  | cons kv rest ih =>
    simp only [List.map_cons, List.mem_cons, not_or] at h
    unfold hdrFind
    simp only [List.find?]
    have : (lower kv.1 = n) = False := by simp; exact fun e => h.1 e.symm
    simp only [this, decide_false]
    exact ih h.2

/-- fields with pairwise different (case-insensitive) names that are not yet stored are
    appended in order, name spelling and value untouched -/
theorem foldl_hdrInsert_fresh (h2 : Bool) (fs : List (Bytes × Bytes)) : ∀ (hs : List (Bytes × Bytes)),
    (∀ f ∈ fs, f.2 ≠ []) → ((hs ++ fs).map fun kv => lower kv.1).Nodup →
    fs.foldl (fun hs f => hdrInsert h2 hs f.1 f.2) hs = hs ++ fs := by
  induction fs with
  | nil => intro hs _ _; simp
  | cons f rest ih =>
    intro hs hv hnd
    simp only [List.foldl_cons]
    have hfresh : hdrFind hs (lower f.1) = none := by
      apply hdrFind_none_of_not_mem
      simp only [List.map_append, List.map_cons] at hnd
      have := List.nodup_append.mp hnd
      intro hmem
      exact this.2.2 _ hmem _ (by simp) rfl
    rw [hdrInsert_fresh h2 hs f.1 f.2 (hv f (by simp)) hfresh, ih _ (fun g hg => hv g (by simp [hg]))]
    · simp
    · simpa using hnd


theorem readPlain_incomplete (cfg : Cfg) (st st' : St) (seg : Bytes) (hs : st.started = false)
    (hp : headerStep cfg st seg = (st', .goOn))
    (hs' : st'.started = false) : readPlain cfg st seg = (st', .goOn) := by
  unfold readPlain
  rw [if_pos (by simp [hs]), hp]
  simp [hs']


theorem onData_incomplete (cfg : Cfg) (st st' : St) (seg : Bytes) (hbe : cfg.be ≠ .fcgi)
    (hc : st.cstate = .handle) (ho : st.open_ = true) (hs : st.started = false) (hh : st.handler = true)
    (hseg : seg ≠ [])
    (hp : headerStep cfg st seg = (st', .goOn))
    (hs' : st'.started = false) (hf' : st'.finished = false) (hc' : st'.cstate = .handle) (ho' : st'.open_ = true) :
    onData cfg st seg = st' := by
  have hseg' : seg.isEmpty = false := by cases seg <;> simp_all
  have hl : lostHandler st = false := by simp [lostHandler, hh]
  have hr : gwRecvData cfg st seg = st' := by
    unfold gwRecvData
    rw [if_neg hbe, readPlain_incomplete cfg st st' seg hs hp hs']
  unfold onData
  rw [if_neg (by simp [hc, ho, hseg']), if_neg (by simp [hl]), hr]
  simp [conStep, hc', handlerStarts, subrequestWaits, ho', hf', hs']


theorem headerStep_append (cfg : Cfg) (st : St) (a b : Bytes) :
    headerStep cfg { st with hbuf := st.hbuf ++ a } b = headerStep cfg st (a ++ b) := by
  simp [headerStep, List.append_assoc, Nat.add_assoc]


theorem chunkAppend_plain (st : St) (data : Bytes) (hsc : st.sendChunked = false) :
    chunkAppend st data = { st with wq := st.wq ++ data } := by
  unfold chunkAppend
  cases data with
  | nil => simp
  | cons x xs => simp [hsc]


/-- http_response_append_mem() without chunked decoding / encoding, in closed form -/
theorem appendMem_plain (st : St) (data : Bytes) (hd : st.decodeChunked = false) (hsc : st.sendChunked = false) :
    (appendMem st data).1 =
      if st.scratch > 0 then
        if st.scratch - (data.length : Int) ≤ 0 then
          { st with scratch := 0, finished := true, wq := st.wq ++ data.take st.scratch.toNat }
        else { st with scratch := st.scratch - data.length, wq := st.wq ++ data }
      else if st.scratch = 0 then st
      else { st with wq := st.wq ++ data } := by
  unfold appendMem
  rw [if_neg (by simp [hd])]
  by_cases h1 : st.scratch > 0
  · rw [if_pos h1, if_pos h1]
    by_cases h2 : st.scratch - (data.length : Int) ≤ 0
    · rw [if_pos h2, if_pos h2, chunkAppend_plain _ _ (by simpa using hsc)]
    · rw [if_neg h2, if_neg h2, chunkAppend_plain _ _ (by simpa using hsc)]
  · rw [if_neg h1, if_neg h1]
    by_cases h2 : st.scratch = 0
    · rw [if_pos h2, if_pos h2]
    · rw [if_neg h2, if_neg h2, chunkAppend_plain _ _ hsc]


/-! ## http_header_parse_hoff on a well-formed head -/

theorem hoffGo_noLf (p : Bytes) : ∀ (rest cur : Bytes) (lines : List Bytes) (n : Nat), lf ∉ p →
    hoffGo (p ++ rest) cur lines n = hoffGo rest (cur ++ p) lines (n + p.length) := by
  induction p with
  | nil => intro rest cur lines n _; simp
  | cons x xs ih =>
    intro rest cur lines n h
    have hx : ¬ (x = lf) := fun e => h (by simp [e])
    simp only [List.cons_append, hoffGo, hx, if_false]
    rw [ih rest (cur ++ [x]) lines (n + 1) (fun e => h (by simp [e]))]
    simp only [List.append_assoc, List.singleton_append, List.length_cons]
    congr 1
    omega

/-- a header line: no LF inside, terminated by LF, not the empty line -/
structure WfLine (l : Bytes) : Prop where
  pre : ∃ p, l = p ++ [lf] ∧ lf ∉ p
  notBlank : l ≠ [lf] ∧ l ≠ [cr, lf]

theorem hoffGo_line {l : Bytes} (h : WfLine l) (rest : Bytes) (lines : List Bytes) (n : Nat)
    (hn : lines.length + 1 < 8190) :
    hoffGo (l ++ rest) [] lines n = hoffGo rest [] (l :: lines) (n + l.length) := by
  obtain ⟨p, hl, hlf⟩ := h.pre
  have hnb := h.notBlank
  subst hl
  rw [List.append_assoc, hoffGo_noLf p _ [] lines n hlf]
  simp only [List.nil_append, List.singleton_append, hoffGo, if_true]
  have h1 : (decide (p ++ [lf] = [lf]) || decide (p ++ [lf] = [cr, lf])) = false := by
    simp [hnb.1, hnb.2]
  have h2 : ¬ (lines.length + 1 ≥ 8190) := by omega
  rw [if_neg (by rw [h1]; simp), if_neg h2]
  simp only [List.length_append, List.length_singleton, Nat.add_assoc]

theorem hoffGo_lines (ls : List Bytes) : ∀ (rest : Bytes) (lines : List Bytes) (n : Nat),
    (∀ l ∈ ls, WfLine l) → lines.length + ls.length < 8190 →
    hoffGo (ls.flatten ++ rest) [] lines n = hoffGo rest [] (ls.reverse ++ lines) (n + ls.flatten.length) := by
  induction ls with
  | nil => intro rest lines n _ _; simp
  | cons l more ih =>
    intro rest lines n hw hn
    simp only [List.flatten_cons, List.append_assoc, List.length_cons] at hn ⊢
    rw [hoffGo_line (hw l (by simp)) _ lines n (by omega),
        ih rest (l :: lines) (n + l.length) (fun x hx => hw x (by simp [hx])) (by simp; omega)]
    simp only [List.reverse_cons, List.append_assoc, List.singleton_append, List.length_append]
    congr 1
    omega

/-- the head `lines ++ CRLF` is found complete, with exactly these lines and its exact length -/
theorem hoff_head (ls : List Bytes) (rest : Bytes) (hw : ∀ l ∈ ls, WfLine l) (hn : ls.length < 8190) :
    hoff (ls.flatten ++ [cr, lf] ++ rest) = (ls, ls.flatten.length + 2) := by
  unfold hoff
  rw [List.append_assoc, hoffGo_lines ls _ [] 0 hw (by simpa using hn)]
  have : hoffGo ([cr, lf] ++ rest) [] (ls.reverse ++ []) (0 + ls.flatten.length)
      = ((ls.reverse ++ []).reverse, 0 + ls.flatten.length + 1 + 1) := by
    simp [hoffGo, cr, lf]
  rw [this]
  simp

theorem firstLine_line {l : Bytes} (h : WfLine l) (rest : Bytes) : firstLine (l ++ rest) = some l := by
  obtain ⟨p, hl, hlf⟩ := h.pre
  subst hl
  unfold firstLine
  rw [List.append_assoc, findIdx_skip (· = lf) p _ 0 (by intro b hb; simp; exact fun e => hlf (e ▸ hb))]
  have hf : findIdx (fun x => decide (x = lf)) ([lf] ++ rest) (0 + p.length) = some p.length := by
    simp [findIdx]
  rw [hf]
  simp only
  have : p ++ ([lf] ++ rest) = (p ++ [lf]) ++ rest := by simp
  rw [this, List.take_append_of_le_length (by simp), List.take_of_length_le (by simp)]


theorem fields_relayed_aux (cfg : Cfg) (st : St) (fs : List (Bytes × Bytes))
    (hp : ∀ f ∈ fs, PlainField f.1 f.2)
    (hnd : ((st.headers ++ fs).map fun kv => lower kv.1).Nodup) :
    (fs.map fun f => fieldLine f.1 f.2).foldl (applyLine cfg) st = { st with headers := st.headers ++ fs } := by
  rw [foldl_applyLine_plain cfg fs st hp,
      foldl_hdrInsert_fresh _ fs st.headers (fun f hf => (hp f hf).vne) hnd]

/-! ## a complete Content-Length response from an HTTP backend, in one read -/

/-- `HTTP/1.1 d1d2d3 reason CRLF` -/
def statusLineBytes (d1 d2 d3 : UInt8) (reason : Bytes) : Bytes :=
  72 :: 84 :: 84 :: 80 :: 47 :: 49 :: 46 :: 49 :: 32 :: d1 :: d2 :: d3 :: 32 :: (reason ++ [cr, lf])

def codeOf (d1 d2 d3 : UInt8) : Nat := (d1 - 48).toNat * 100 + (d2 - 48).toNat * 10 + (d3 - 48).toNat

theorem statusLine_wf (d1 d2 d3 : UInt8) (reason : Bytes) (hd : isDigit d1 ∧ isDigit d2 ∧ isDigit d3)
    (hr : lf ∉ reason) : WfLine (statusLineBytes d1 d2 d3 reason) := by
  have hne : ∀ d : UInt8, isDigit d = true → d ≠ lf := by
    intro d h e; subst e; simp [isDigit, lf] at h
  refine ⟨⟨72 :: 84 :: 84 :: 80 :: 47 :: 49 :: 46 :: 49 :: 32 :: d1 :: d2 :: d3 :: 32 :: (reason ++ [cr]), ?_, ?_⟩, ?_, ?_⟩
  · simp [statusLineBytes]
  · simp only [List.mem_cons, List.mem_append, List.mem_singleton, not_or]
    refine ⟨by decide, by decide, by decide, by decide, by decide, by decide, by decide, by decide, by decide,
            fun e => hne d1 hd.1 e.symm, fun e => hne d2 hd.2.1 e.symm, fun e => hne d3 hd.2.2 e.symm, by decide, hr, by decide, ?_⟩
    simp
  · simp [statusLineBytes]
  · simp [statusLineBytes]

theorem nphStatus_statusLine (cfg : Cfg) (d1 d2 d3 : UInt8) (reason rest : Bytes)
    (hd : isDigit d1 ∧ isDigit d2 ∧ isDigit d3) (hc : codeOf d1 d2 d3 ≥ 100) :
    nphStatus cfg (statusLineBytes d1 d2 d3 reason ++ rest) = some (codeOf d1 d2 d3) := by
  unfold nphStatus statusLineBytes
  simp [List.getD, hd.1, hd.2.1, hd.2.2, dot, sp, cr, lf, ht, codeOf] 
  exact hc


theorem fieldLine_wf (k v : Bytes) (hk : lf ∉ k) (hv : lf ∉ v) : WfLine (fieldLine k v) := by
  refine ⟨⟨k ++ [colon, sp] ++ v ++ [cr], by simp [fieldLine], ?_⟩, ?_, ?_⟩
  · simp only [List.mem_append, List.mem_cons, List.not_mem_nil, or_false, not_or]
    exact ⟨⟨⟨hk, by decide, by decide⟩, hv⟩, by decide⟩
  · intro e
    have := congrArg List.length e
    simp [fieldLine] at this
    omega
  · intro e
    have := congrArg List.length e
    simp [fieldLine] at this
    omega

/-- the Content-Length field of the backend: sets the expected body length, relayed verbatim -/
theorem applyLine_contentLength (cfg : Cfg) (st : St) (clv : Bytes) (n : Nat)
    (hne : clv ≠ []) (hhead : isWs (clv.headD 0) = false) (hplus : clv.head? ≠ some 43)
    (htrim : trimRightWs clv = clv) (hnum : strtoI64 clv = some n)
    (hdc : st.decodeChunked = false) (hno : hdrFind st.headers nContentLength = none) :
    applyLine cfg st (fieldLine (ofString "Content-Length") clv) =
      { st with scratch := n, headers := st.headers ++ [(ofString "Content-Length", clv)] } := by
  have hfl : fieldOfLine (fieldLine (ofString "Content-Length") clv) = some (ofString "Content-Length", clv) := by
    -- same shape as a plain field
    unfold fieldOfLine fieldLine
    have hbody : (ofString "Content-Length" ++ [colon, sp] ++ clv ++ [cr, lf]).dropLast
        = ofString "Content-Length" ++ (colon :: sp :: (clv ++ [cr])) := by
      have : ofString "Content-Length" ++ [colon, sp] ++ clv ++ [cr, lf]
          = (ofString "Content-Length" ++ (colon :: sp :: (clv ++ [cr]))) ++ [lf] := by simp
      rw [this, List.dropLast_concat]
    simp only [hbody]
    rw [findIdx_skip (· = colon) (ofString "Content-Length") _ 0 (by decide)]
    simp only [findIdx, decide_true, if_true, Nat.zero_add]
    have htake : (ofString "Content-Length" ++ colon :: sp :: (clv ++ [cr])).take (ofString "Content-Length").length
        = ofString "Content-Length" := by simp
    have hdrop : (ofString "Content-Length" ++ colon :: sp :: (clv ++ [cr])).drop ((ofString "Content-Length").length + 1)
        = sp :: (clv ++ [cr]) := by rw [List.drop_append]; simp
    have hk : (ofString "Content-Length").isEmpty = false := by decide
    simp only [htake, hk, Bool.false_eq_true, if_false, hdrop]
    obtain ⟨x, xs, hv⟩ : ∃ x xs, clv = x :: xs := by
      cases clv with
      | nil => exact absurd rfl hne
      | cons x xs => exact ⟨x, xs, rfl⟩
    have hx : isWs x = false := by simpa [hv] using hhead
    have hsp : isWs sp = true := by decide
    have hdw : (sp :: (clv ++ [cr])).dropWhile isWs = clv ++ [cr] := by
      rw [List.dropWhile_cons, if_pos hsp, hv, List.cons_append, List.dropWhile_cons, if_neg (by simp [hx])]
    rw [hdw]
    simp
  unfold applyLine
  rw [hfl]
  have hl : lower (ofString "Content-Length") = nContentLength := by decide
  have h1 : ¬ (nContentLength = nStatus) := by decide
  have h2 : ¬ (nContentLength = nUpgrade) := by decide
  have h3 : ¬ (nContentLength = nConnection) := by decide
  have h4 : ¬ (nContentLength = nContentType) := by decide
  have hhas : hasHdr st.headers nContentLength = false := by simp [hasHdr, hno]
  have hte : clv.isEmpty = false := by cases clv <;> simp_all
  unfold applyField
  simp only [hl, h1, h2, h3, h4, if_false, if_true, hplus, hdc, hhas, Bool.not_false, Bool.and_self, htrim, hte,
    Bool.false_eq_true, hnum]
  have hins : hdrInsert (decide (cfg.ver ≥ 2)) st.headers (ofString "Content-Length") clv
      = st.headers ++ [(ofString "Content-Length", clv)] :=
    hdrInsert_fresh _ st.headers _ clv hne (by rw [hl]; exact hno)
  rw [hins]


/-- a plain field that can stand on a header line: additionally no LF in name and value -/
structure LineField (k v : Bytes) : Prop extends PlainField k v where
  klf : lf ∉ k
  vlf : lf ∉ v

/-- the head of a Content-Length response: status line, plain fields, Content-Length, empty line -/
def clLines (d1 d2 d3 : UInt8) (reason : Bytes) (fs : List (Bytes × Bytes)) (clv : Bytes) : List Bytes :=
  statusLineBytes d1 d2 d3 reason :: ((fs.map fun f => fieldLine f.1 f.2) ++ [fieldLine (ofString "Content-Length") clv])

def clHead (d1 d2 d3 : UInt8) (reason : Bytes) (fs : List (Bytes × Bytes)) (clv : Bytes) : Bytes :=
  (clLines d1 d2 d3 reason fs clv).flatten ++ [cr, lf]

theorem processHeaders_cl (cfg : Cfg) (st : St) (d1 d2 d3 : UInt8) (reason rest : Bytes)
    (fs : List (Bytes × Bytes)) (clv : Bytes) (n : Nat)
    (hd : isDigit d1 ∧ isDigit d2 ∧ isDigit d3) (hc : codeOf d1 d2 d3 ≥ 100)
    (hfs : ∀ f ∈ fs, PlainField f.1 f.2) (hnd : (fs.map fun kv => lower kv.1).Nodup)
    (hne : clv ≠ []) (hhead : isWs (clv.headD 0) = false) (hplus : clv.head? ≠ some 43)
    (htrim : trimRightWs clv = clv) (hnum : strtoI64 clv = some n)
    (hh : st.headers = []) (hdc : st.decodeChunked = false) :
    processHeaders cfg st (statusLineBytes d1 d2 d3 reason ++ rest) (clLines d1 d2 d3 reason fs clv) true =
      { st with status := codeOf d1 d2 d3, scratch := n, headers := fs ++ [(ofString "Content-Length", clv)] } := by
  have hdrop : (clLines d1 d2 d3 reason fs clv).drop 1
      = (fs.map fun f => fieldLine f.1 f.2) ++ [fieldLine (ofString "Content-Length") clv] := by
    simp [clLines]
  have hno : hdrFind ([] ++ fs) nContentLength = none := by
    apply hdrFind_none_of_not_mem
    intro hmem
    simp only [List.nil_append, List.mem_map] at hmem
    obtain ⟨f, hf, he⟩ := hmem
    have := (hfs f hf).kspecial
    simp only [specialNames, List.mem_cons, List.not_mem_nil, or_false, not_or] at this
    exact this.2.2.2.2.1 he
  have hfold : ((fs.map fun f => fieldLine f.1 f.2) ++ [fieldLine (ofString "Content-Length") clv]).foldl
      (applyLine cfg) { st with status := codeOf d1 d2 d3 }
      = { st with status := codeOf d1 d2 d3, scratch := n,
                  headers := fs ++ [(ofString "Content-Length", clv)] } := by
    rw [List.foldl_append, fields_relayed_aux cfg _ fs hfs (by simpa [hh] using hnd)]
    simp only [List.foldl_cons, List.foldl_nil]
    rw [applyLine_contentLength cfg _ clv n hne hhead hplus htrim hnum (by simpa using hdc) (by simpa [hh] using hno)]
    simp [hh]
  have hcode : ¬ (codeOf d1 d2 d3 = 0) := by omega
  unfold processHeaders
  simp only [if_true, nphStatus_statusLine cfg d1 d2 d3 reason rest hd hc, hdrop]
  unfold applyLines
  simp only [hfold, hcode, decide_false, Bool.false_and, Bool.false_eq_true, if_false]


theorem clLines_wf (d1 d2 d3 : UInt8) (reason : Bytes) (fs : List (Bytes × Bytes)) (clv : Bytes)
    (hd : isDigit d1 ∧ isDigit d2 ∧ isDigit d3) (hr : lf ∉ reason)
    (hfs : ∀ f ∈ fs, LineField f.1 f.2) (hclv : lf ∉ clv) :
    ∀ l ∈ clLines d1 d2 d3 reason fs clv, WfLine l := by
  intro l hl
  simp only [clLines, List.mem_cons, List.mem_append, List.mem_map, List.mem_singleton, List.not_mem_nil,
    or_false] at hl
  rcases hl with rfl | ⟨f, hf, rfl⟩ | rfl
  · exact statusLine_wf d1 d2 d3 reason hd hr
  · exact fieldLine_wf f.1 f.2 (hfs f hf).klf (hfs f hf).vlf
  · exact fieldLine_wf _ clv (by decide) hclv

/-- the response state right after such a response was parsed -/
def clState (d1 d2 d3 : UInt8) (reason : Bytes) (fs : List (Bytes × Bytes)) (clv body : Bytes) : St :=
  { hbuf := clHead d1 d2 d3 reason fs clv ++ body, status := codeOf d1 d2 d3, started := true,
    finished := true, scratch := 0, headers := fs ++ [(ofString "Content-Length", clv)], wq := body }

/-- http_response_parse_headers() on a complete Content-Length response received in one piece -/
theorem parseHeaders_cl (cfg : Cfg) (d1 d2 d3 : UInt8) (reason : Bytes)
    (fs : List (Bytes × Bytes)) (clv body : Bytes) (fuel : Nat)
    (hd : isDigit d1 ∧ isDigit d2 ∧ isDigit d3) (hc : codeOf d1 d2 d3 ≥ 200) (hr : lf ∉ reason)
    (hfs : ∀ f ∈ fs, LineField f.1 f.2) (hnd : (fs.map fun kv => lower kv.1).Nodup)
    (hne : clv ≠ []) (hhead : isWs (clv.headD 0) = false) (hplus : clv.head? ≠ some 43)
    (htrim : trimRightWs clv = clv) (hclv : lf ∉ clv) (hnum : strtoI64 clv = some body.length)
    (hbody : body ≠ []) (hsize : (clHead d1 d2 d3 reason fs clv).length ≤ 65535) (hcount : fs.length + 2 < 8190) :
    parseHeaders cfg (fuel + 1) { hbuf := clHead d1 d2 d3 reason fs clv ++ body } =
      (clState d1 d2 d3 reason fs clv body, .goOn) := by
  unfold clState
  have hw := clLines_wf d1 d2 d3 reason fs clv hd hr hfs hclv
  have hlen : (clLines d1 d2 d3 reason fs clv).length < 8190 := by simp [clLines]; omega
  have hb : clHead d1 d2 d3 reason fs clv ++ body
      = (clLines d1 d2 d3 reason fs clv).flatten ++ [cr, lf] ++ body := by simp [clHead]
  have hhoff := hoff_head (clLines d1 d2 d3 reason fs clv) body hw hlen
  have hheadlen : (clHead d1 d2 d3 reason fs clv).length = (clLines d1 d2 d3 reason fs clv).flatten.length + 2 := by
    simp [clHead]
  have hsl : clHead d1 d2 d3 reason fs clv ++ body
      = statusLineBytes d1 d2 d3 reason ++
        (((fs.map fun f => fieldLine f.1 f.2) ++ [fieldLine (ofString "Content-Length") clv]).flatten ++ [cr, lf] ++ body) := by
    simp [clHead, clLines]
  have hfirst : firstLine (clHead d1 d2 d3 reason fs clv ++ body) = some (statusLineBytes d1 d2 d3 reason) := by
    rw [hsl]; exact firstLine_line (statusLine_wf d1 d2 d3 reason hd hr) _
  have htake5 : (clHead d1 d2 d3 reason fs clv ++ body).take 5 = ofString "HTTP/" := by
    rw [hsl]; simp [statusLineBytes, ofString]
  have hsll : (statusLineBytes d1 d2 d3 reason).length ≥ 12 := by simp [statusLineBytes]
  have hdropb : (clHead d1 d2 d3 reason fs clv ++ body).drop ((clLines d1 d2 d3 reason fs clv).flatten.length + 2) = body := by
    rw [← hheadlen]; simp
  have hproc := processHeaders_cl cfg ({ hbuf := clHead d1 d2 d3 reason fs clv ++ body } : St) d1 d2 d3 reason
    (((fs.map fun f => fieldLine f.1 f.2) ++ [fieldLine (ofString "Content-Length") clv]).flatten ++ [cr, lf] ++ body)
    fs clv body.length hd (by omega) (fun f hf => (hfs f hf).toPlainField) hnd hne hhead hplus htrim hnum rfl rfl
  rw [← hsl] at hproc
  have hbl : body.length > 0 := by cases body <;> simp_all
  have hbe : body.isEmpty = false := by cases body <;> simp_all
  rw [hb] at hfirst htake5 hdropb hproc ⊢
  have h1 : ¬ ((clLines d1 d2 d3 reason fs clv).flatten.length + 2 = 0) := by omega
  have h2 : ¬ ((clLines d1 d2 d3 reason fs clv).flatten.length + 2 > Extracted.maxHttpResponseFieldSize) := by
    have : Extracted.maxHttpResponseFieldSize = 65535 := by decide
    omega
  have h3 : ¬ (codeOf d1 d2 d3 < 200) := by omega
  unfold parseHeaders
  simp only [hhoff, hfirst, htake5, hsll, decide_true, Bool.and_self, Bool.not_true, Bool.false_and,
    Bool.false_eq_true, if_false, hdropb, hproc, h1, h2, h3, ne_eq, not_false_eq_true, if_true, decide_false,
    Bool.not_false, hbe]
  simp [appendMem, hbl, chunkAppend, hbe]


theorem hasHdr_cl_appended (fs : List (Bytes × Bytes)) (clv : Bytes) (hne : clv ≠ [])
    (hfs : ∀ f ∈ fs, PlainField f.1 f.2) :
    hasHdr (fs ++ [(ofString "Content-Length", clv)]) nContentLength = true := by
  have hno : hdrFind fs nContentLength = none := by
    apply hdrFind_none_of_not_mem
    intro hmem
    simp only [List.mem_map] at hmem
    obtain ⟨f, hf, he⟩ := hmem
    have := (hfs f hf).kspecial
    simp only [specialNames, List.mem_cons, List.not_mem_nil, or_false, not_or] at this
    exact this.2.2.2.2.1 he
  have hl : lower (ofString "Content-Length") = nContentLength := by decide
  have hv : clv.isEmpty = false := by cases clv <;> simp_all
  simp [hasHdr, hdrFind_append_none fs nContentLength _ clv hno, hl, hv]

/-- write-prepare leaves a finished response with Content-Length from a live handler alone -/
theorem writePrepare_cl_id (cfg : Cfg) (st : St) (hh : cfg.head = false) (hhd : st.handler = true)
    (hf : st.finished = true) (hdc : st.dc = none)
    (hcode : st.status ≠ 204 ∧ st.status ≠ 205 ∧ st.status ≠ 304)
    (hcl : hasHdr st.headers nContentLength = true) : writePrepare cfg st = st := by
  have hs : wpStatus st = st := by
    unfold wpStatus
    simp only [hcode.1, hcode.2.1, hcode.2.2, decide_false, Bool.or_self, Bool.false_eq_true, if_false]
    split
    · rfl
    · split
      · simp [staticErrdoc, hhd]
      · rfl
  unfold writePrepare
  rw [hs, mergeTrailers_dc_none cfg st hdc]
  have hl : wpLength cfg st = st := by
    simp [wpLength, hf, wpSetLength, noLen, hcl]
  rw [hl]
  simp [wpHead, hh]

/-- **One-shot relay of a Content-Length response (HTTP/1.1 client, HTTP backend).** -/
theorem relay_cl_exact (cfg : Cfg) (d1 d2 d3 : UInt8) (reason : Bytes)
    (fs : List (Bytes × Bytes)) (clv body : Bytes) (e : End)
    (hbe : cfg.be = .proxy) (hv : cfg.ver = 1) (hh : cfg.head = false)
    (hd : isDigit d1 ∧ isDigit d2 ∧ isDigit d3) (hc : codeOf d1 d2 d3 ≥ 200) (hr : lf ∉ reason)
    (hcode : codeOf d1 d2 d3 ≠ 204 ∧ codeOf d1 d2 d3 ≠ 205 ∧ codeOf d1 d2 d3 ≠ 304)
    (hfs : ∀ f ∈ fs, LineField f.1 f.2) (hnd : (fs.map fun kv => lower kv.1).Nodup)
    (hne : clv ≠ []) (hhead : isWs (clv.headD 0) = false) (hplus : clv.head? ≠ some 43)
    (htrim : trimRightWs clv = clv) (hclv : lf ∉ clv) (hnum : strtoI64 clv = some body.length)
    (hbody : body ≠ []) (hsize : (clHead d1 d2 d3 reason fs clv).length ≤ 65535) (hcount : fs.length + 2 < 8190) :
    (relay cfg [clHead d1 d2 d3 reason fs clv ++ body] e).evs =
      [.w (h1StatusLine cfg (codeOf d1 d2 d3) ++ h1FieldLines (fs ++ [(ofString "Content-Length", clv)]) ++
           crlf ++ crlf ++ body)] ∧
    (relay cfg [clHead d1 d2 d3 reason fs clv ++ body] e).keepAlive = true ∧
    (relay cfg [clHead d1 d2 d3 reason fs clv ++ body] e).cstate = .done ∧
    (relay cfg [clHead d1 d2 d3 reason fs clv ++ body] e).status = codeOf d1 d2 d3 := by
  have hbe' : cfg.be ≠ .fcgi := by rw [hbe]; decide
  have hseg : (clHead d1 d2 d3 reason fs clv ++ body).isEmpty = false := by cases body <;> simp_all
  have hparse := parseHeaders_cl cfg d1 d2 d3 reason fs clv body (clHead d1 d2 d3 reason fs clv ++ body).length
    hd hc hr hfs hnd hne hhead hplus htrim hclv hnum hbody hsize hcount
  -- the state after the read
  generalize hst1 : clState d1 d2 d3 reason fs clv body = st1 at hparse
  unfold clState at hst1
  have hhs : headerStep cfg {} (clHead d1 d2 d3 reason fs clv ++ body) = (st1, .goOn) := by
    unfold headerStep
    simpa using hparse
  have hread : readPlain cfg {} (clHead d1 d2 d3 reason fs clv ++ body) = ({ st1 with hbuf := [] }, .finished) := by
    unfold readPlain
    rw [if_pos (by rfl), hhs]
    subst hst1
    simp
  have hrecv : gwRecvData cfg {} (clHead d1 d2 d3 reason fs clv ++ body) = { st1 with hbuf := [], open_ := false } := by
    unfold gwRecvData
    rw [if_neg hbe', hread]
    subst hst1
    simp [gwClose, backendDone]
  generalize hst2 : ({ st1 with hbuf := [], open_ := false } : St) = st2 at hrecv
  have f1 : st2.status = codeOf d1 d2 d3 := by subst hst2 hst1; rfl
  have f2 : st2.finished = true := by subst hst2 hst1; rfl
  have f3 : st2.handler = true := by subst hst2 hst1; rfl
  have f4 : st2.dc = none := by subst hst2 hst1; rfl
  have f5 : st2.headers = fs ++ [(ofString "Content-Length", clv)] := by subst hst2 hst1; rfl
  have f6 : st2.wq = body := by subst hst2 hst1; rfl
  have f7 : st2.keepAlive = true := by subst hst2 hst1; rfl
  have f8 : st2.cstate = .handle := by subst hst2 hst1; rfl
  have f9 : st2.open_ = false := by subst hst2 hst1; rfl
  have f10 : st2.evs = [] := by subst hst2 hst1; rfl
  have hwp : writePrepare cfg st2 = st2 :=
    writePrepare_cl_id cfg st2 hh f3 f2 f4 (by rw [f1]; exact hcode)
      (by rw [f5]; exact hasHdr_cl_appended fs clv hne (fun f hf => (hfs f hf).toPlainField))
  have hset : h1HeaderSet cfg st2 = st2.headers := by
    have h0 : ¬ (cfg.ver = 0) := by omega
    simp [h1HeaderSet, f7, h0, f1, hcode.2.2]
  have hcon : conStep cfg st2 =
      { (h1SendHeaders cfg st2) with cstate := .done, wq := [], evs := [.w (h1SendHeaders cfg st2).wq] } := by
    have hv2 : ¬ (cfg.ver ≥ 2) := by omega
    have hs0 : ¬ (st2.status = 0) := by rw [f1]; omega
    have hwne : (h1SendHeaders cfg st2).wq.isEmpty = false := by
      simp [h1SendHeaders, h1StatusLine, hv, ofString]
    unfold conStep
    simp only [f8, handlerStarts, subrequestWaits, f9, Bool.false_eq_true, if_false, if_true]
    unfold startResponse
    simp only [hs0, if_false, hwp, hv2]
    have hpw : pushW [] (h1SendHeaders cfg st2).wq = [.w (h1SendHeaders cfg st2).wq] := by
      simp [pushW, hwne]
    have hev : (h1SendHeaders cfg st2).evs = [] := by simp [h1SendHeaders, f10]
    have hfin : (h1SendHeaders cfg st2).finished = true := by simp [h1SendHeaders, f2]
    simp only [h1Progress, flush, hev, hpw, hfin, if_true]
  have hdata : onData cfg {} (clHead d1 d2 d3 reason fs clv ++ body) = conStep cfg st2 := by
    unfold onData
    rw [if_neg (by simp [hseg]), if_neg (by simp [lostHandler]), hrecv]
  have hrel : relay cfg [clHead d1 d2 d3 reason fs clv ++ body] e = conStep cfg st2 := by
    unfold relay
    simp only [List.foldl_cons, List.foldl_nil, hdata]
    unfold onEnd
    rw [if_pos (by rw [hcon]; simp)]
  rw [hrel, hcon]
  refine ⟨?_, ?_, rfl, ?_⟩
  · simp [h1SendHeaders, hset, f5, f6, f1]
  · simp [h1SendHeaders, f7]
  · simp [h1SendHeaders, f1]


/-! ## failure / truncation of the backend stream (repaired code) -/

/-- response start for a state lighttpd answers itself with an error document (HTTP/1.x) -/
theorem conStep_errdoc (cfg : Cfg) (st1 : St) (hv : cfg.ver ≤ 1) (hc : st1.cstate = .handle)
    (ho : st1.open_ = false) (hh : st1.handler = false) (h4 : 400 ≤ st1.status) (h6 : st1.status < 600) :
    (conStep cfg st1).status = st1.status ∧ (conStep cfg st1).cstate = .done ∧
    (conStep cfg st1).keepAlive = st1.keepAlive ∧
    ∃ fields, (conStep cfg st1).evs = pushW st1.evs
      (h1StatusLine cfg st1.status ++ fields ++ crlf ++ crlf ++ (if cfg.head then [] else errorPage st1.status)) := by
  obtain ⟨w1, w2, w3, w4, w5, w6, w7⟩ := writePrepare_errdoc cfg st1 hh h4 h6
  have hstart : conStep cfg st1 = startResponse cfg st1 := by
    unfold conStep
    simp [hc, handlerStarts, subrequestWaits, ho]
  rw [hstart]
  obtain ⟨r1, r2, r3, r4⟩ := startResponse_h1_finished cfg st1 hv (by omega) w7
  refine ⟨by rw [r2, w1], r1, by rw [r3, w2], ⟨h1FieldLines (h1HeaderSet cfg (writePrepare cfg st1)), ?_⟩⟩
  rw [r4, w1, w3, w4]

theorem backendIncomplete_proj (st : St) :
    (backendIncomplete st).status = 502 ∧ (backendIncomplete st).handler = false ∧
    (backendIncomplete st).cstate = st.cstate ∧ (backendIncomplete st).keepAlive = st.keepAlive ∧
    (backendIncomplete st).evs = st.evs ∧ (backendIncomplete st).open_ = st.open_ := by
  simp [backendIncomplete, bodyClear]

/-- a backend failure event: reset / socket error, or FastCGI end of stream without END_REQUEST -/
def FailEnd (cfg : Cfg) (st : St) (e : End) : Prop :=
  e = .rst ∨ e = .err ∨ (cfg.be = .fcgi ∧ (e = .eof ∨ e = .hup) ∧ st.fcgi.ended = false)

theorem FailEnd.ne_none {cfg : Cfg} {st : St} {e : End} (h : FailEnd cfg st e) : e ≠ .none := by
  rcases h with h | h | ⟨_, h | h, _⟩ <;> simp [h]

theorem gwRecvEnd_fail (cfg : Cfg) (st : St) (e : End) (hs : st.started = true) (he : FailEnd cfg st e) :
    gwRecvEnd cfg st e = gwBackendError cfg st := by
  rcases he with h | h | ⟨hb, h | h, hfe⟩
  · subst h; rfl
  · subst h; rfl
  · subst h; simp [gwRecvEnd, hb, hfe]
  · subst h; simp [gwRecvEnd, hb, hfe, hs]

theorem gwBackendError_unsent (cfg : Cfg) (st : St) (hs : st.started = true) (hn : st.hdrSent = false)
    (hb : bodiless cfg st = false) :
    gwBackendError cfg st = { (backendIncomplete st) with open_ := false } := by
  simp [gwBackendError, backendError, hs, hn, hb, gwClose, backendIncomplete]

theorem gwBackendError_sent (cfg : Cfg) (st : St) (hs : st.started = true) (hn : st.hdrSent = true)
    (hb : bodiless cfg st = false) :
    gwBackendError cfg st =
      { st with open_ := false, handler := false, keepAlive := false, finished := true,
                cerr := st.cerr || decide (cfg.ver ≥ 2) } := by
  simp [gwBackendError, backendError, hs, hn, hb, gwClose, backendAbort]


theorem chunkClose_noappend (st : St) (h : st.sendChunked = true → st.dc.isSome = true) :
    (chunkClose st).wq = st.wq ∧ (chunkClose st).evs = st.evs ∧ (chunkClose st).cstate = st.cstate ∧
    (chunkClose st).open_ = st.open_ ∧ (chunkClose st).cerr = st.cerr ∧
    ((chunkClose st).keepAlive = true → st.keepAlive = true) := by
  unfold chunkClose
  by_cases hs : st.sendChunked = true
  · have := h hs
    simp only [hs, Bool.not_true, Bool.false_eq_true, if_false, this, if_true]
    split <;> simp
  · simp [hs]


theorem backendDone_truncated_unsent (cfg : Cfg) (st : St) (hc : st.cstate = .handle) (hs : st.started = true)
    (hf : st.finished = false) (hsent : st.hdrSent = false) (ht : bodyTruncated cfg st = true) :
    backendDone cfg st = backendIncomplete st := by
  unfold backendDone
  rw [if_neg (by simp [hc]), if_neg (by simp [hs]), if_pos (by simp [hf]), if_pos (by simp [ht, hsent])]

theorem backendDone_truncated_sent (cfg : Cfg) (st : St) (hc : st.cstate = .write)
    (hf : st.finished = false) (hsent : st.hdrSent = true) (ht : bodyTruncated cfg st = true) :
    backendDone cfg st =
      { (if cfg.ver = 1 then chunkClose (backendAbort cfg st) else backendAbort cfg st) with finished := true } := by
  unfold backendDone
  rw [if_neg (by simp [hc]), if_neg (by simp [hc]), if_pos (by simp [hf]), if_neg (by simp [hsent])]
  simp only [ht, if_true]

theorem gwClose_handler (cfg : Cfg) (st : St) (hh : st.handler = true) :
    gwClose cfg st = backendDone cfg { st with open_ := false } := by
  unfold gwClose
  simp only [hh, if_true]

/-! ## the client-side frame: what reading from the backend never touches -/

/-- `b` has the client-side state of `a`, and the same `started` flag -/
def Fr0 (a b : St) : Prop := b.cstate = a.cstate ∧ b.hdrSent = a.hdrSent ∧ b.started = a.started ∧ b.cerr = a.cerr
/-- ... `started` may have become true -/
def Fr1 (a b : St) : Prop :=
  b.cstate = a.cstate ∧ b.hdrSent = a.hdrSent ∧ (a.started = true → b.started = true) ∧ b.cerr = a.cerr
/-- ... `started` survives once the response head is out -/
def Fr2 (a b : St) : Prop :=
  b.cstate = a.cstate ∧ b.hdrSent = a.hdrSent ∧ (a.started = true → a.hdrSent = true → b.started = true) ∧
  (b.cerr = true → a.cerr = true ∨ a.hdrSent = true)

theorem Fr0.refl (a : St) : Fr0 a a := ⟨rfl, rfl, rfl, rfl⟩
theorem Fr0.trans {a b c : St} (h1 : Fr0 a b) (h2 : Fr0 b c) : Fr0 a c :=
  ⟨h2.1.trans h1.1, h2.2.1.trans h1.2.1, h2.2.2.1.trans h1.2.2.1, h2.2.2.2.trans h1.2.2.2⟩
theorem Fr0.to1 {a b : St} (h : Fr0 a b) : Fr1 a b := ⟨h.1, h.2.1, fun hs => h.2.2.1.trans hs, h.2.2.2⟩
theorem Fr1.refl (a : St) : Fr1 a a := ⟨rfl, rfl, id, rfl⟩
theorem Fr1.trans {a b c : St} (h1 : Fr1 a b) (h2 : Fr1 b c) : Fr1 a c :=
  ⟨h2.1.trans h1.1, h2.2.1.trans h1.2.1, fun hs => h2.2.2.1 (h1.2.2.1 hs), h2.2.2.2.trans h1.2.2.2⟩
theorem Fr1.to2 {a b : St} (h : Fr1 a b) : Fr2 a b :=
  ⟨h.1, h.2.1, fun hs _ => h.2.2.1 hs, fun hc => Or.inl (h.2.2.2 ▸ hc)⟩
theorem Fr2.refl (a : St) : Fr2 a a := ⟨rfl, rfl, fun h _ => h, fun h => Or.inl h⟩
theorem Fr2.trans {a b c : St} (h1 : Fr2 a b) (h2 : Fr2 b c) : Fr2 a c :=
  ⟨h2.1.trans h1.1, h2.2.1.trans h1.2.1, fun hs hh => h2.2.2.1 (h1.2.2.1 hs hh) (h1.2.1.trans hh),
   fun hc => (h2.2.2.2 hc).elim (fun h => h1.2.2.2 h) (fun h => Or.inr (h1.2.1 ▸ h))⟩

theorem fr0_chunkAppend (st : St) (d : Bytes) : Fr0 st (chunkAppend st d) := by
  unfold chunkAppend Fr0; repeat' split
  all_goals simp

theorem fr0_dechunkAppend (st : St) (d : Bytes) : Fr0 st (dechunkAppend st d).1 := by
  unfold dechunkAppend Fr0; dsimp only; repeat' split
  all_goals simp

theorem fr0_of_eq {a b c : St} (h : Fr0 b c) (h1 : b.cstate = a.cstate) (h2 : b.hdrSent = a.hdrSent)
    (h3 : b.started = a.started) (h4 : b.cerr = a.cerr := by rfl) : Fr0 a c := Fr0.trans ⟨h1, h2, h3, h4⟩ h

theorem fr0_appendMem (st : St) (d : Bytes) : Fr0 st (appendMem st d).1 := by
  unfold appendMem; dsimp only; repeat' split
  · exact fr0_dechunkAppend st d
  · exact fr0_of_eq (fr0_chunkAppend _ _) rfl rfl rfl
  · exact fr0_of_eq (fr0_chunkAppend _ _) rfl rfl rfl
  · exact Fr0.refl st
  · exact fr0_chunkAppend st d

theorem fr0_transferCqlen (st : St) (d : Bytes) : Fr0 st (transferCqlen st d).1 := by
  unfold transferCqlen; dsimp only; repeat' split
  · exact Fr0.refl st
  · exact fr0_dechunkAppend st d
  · exact fr0_of_eq (fr0_chunkAppend _ _) rfl rfl rfl
  · exact fr0_of_eq (fr0_chunkAppend _ _) rfl rfl rfl
  · exact fr0_chunkAppend st d

theorem fr0_applyField (cfg : Cfg) (st : St) (k v : Bytes) : Fr0 st (applyField cfg st k v) := by
  unfold applyField Fr0; dsimp only; repeat' split
  all_goals simp

theorem fr0_applyLine (cfg : Cfg) (st : St) (l : Bytes) : Fr0 st (applyLine cfg st l) := by
  unfold applyLine; split
  · exact Fr0.refl st
  · exact fr0_applyField cfg st _ _

theorem fr0_foldl_applyLine (cfg : Cfg) (ls : List Bytes) : ∀ st : St, Fr0 st (ls.foldl (applyLine cfg) st) := by
  induction ls with
  | nil => intro st; exact Fr0.refl st
  | cons l rest ih => intro st; exact Fr0.trans (fr0_applyLine cfg st l) (ih _)

theorem fr0_applyLines (cfg : Cfg) (st : St) (ls : List Bytes) : Fr0 st (applyLines cfg st ls) := by
  unfold applyLines; dsimp only; split
  · exact Fr0.trans (fr0_foldl_applyLine cfg ls st) ⟨rfl, rfl, rfl, rfl⟩
  · exact fr0_foldl_applyLine cfg ls st

theorem fr0_processHeaders (cfg : Cfg) (st : St) (buf : Bytes) (ls : List Bytes) (nph : Bool) :
    Fr0 st (processHeaders cfg st buf ls nph) := by
  unfold processHeaders; repeat' split
  · exact fr0_of_eq (fr0_applyLines cfg _ _) rfl rfl rfl
  · exact ⟨rfl, rfl, rfl, rfl⟩
  · exact fr0_applyLines cfg st ls
  · exact ⟨rfl, rfl, rfl, rfl⟩
  · exact fr0_applyLines cfg st ls

theorem fr0_send1xx (cfg : Cfg) (st : St) : Fr0 st (send1xx cfg st) := by
  unfold send1xx Fr0; dsimp only; repeat' split
  all_goals simp

/-- NPH detection of http_response_parse_headers() -/
def isNphBuf (b : Bytes) : Bool :=
  match firstLine b with
  | some l => l.length ≥ 12 && b.take 5 = ofString "HTTP/"
  | none => false

/-- the early exits of http_response_parse_headers() (first line without colon) -/
def phEarly (cfg : Cfg) (st : St) : Option (St × Rc) :=
  let b := st.hbuf
  match firstLine b with
  | some l =>
    if !isNphBuf b && !(l.dropLast).contains colon then
      if l.length ≤ 2 && (l.length = 1 || b.head? = some cr) then none
      else if cfg.be = .cgi then
        some ({ (chunkAppend st b) with status := 200, started := true }, .goOn)
      else some ({ st with status := 502, handler := false }, .finished)
    else none
  | none => none

/-- ... the tail of the regular path: the header block is complete and processed (`st1`) -/
def phTail (cfg : Cfg) (rec_ : St → St × Rc) (st1 : St) (rest : Bytes) : St × Rc :=
  if st1.status < 200 && st1.status ≠ 0 && st1.status ≠ 101 then
    rec_ { (send1xx cfg st1) with hbuf := rest }
  else
    let st2 : St := { st1 with started := true }
    if !st2.handler then (st2, .finished)
    else if rest.isEmpty then (st2, .goOn)
    else
      let (st3, ok) := appendMem st2 rest
      (st3, if ok then .goOn else .error)

/-- ... the regular path -/
def phRest (cfg : Cfg) (rec_ : St → St × Rc) (st : St) : St × Rc :=
  if (hoff st.hbuf).2 = 0 then (st, .goOn)
  else phTail cfg rec_ (processHeaders cfg st st.hbuf (hoff st.hbuf).1 (isNphBuf st.hbuf)) (st.hbuf.drop (hoff st.hbuf).2)

theorem parseHeaders_succ (cfg : Cfg) (n : Nat) (st : St) :
    parseHeaders cfg (n + 1) st =
      if (if (hoff st.hbuf).2 ≠ 0 then (hoff st.hbuf).2 else st.hbuf.length) > Extracted.maxHttpResponseFieldSize then
        ({ st with status := 502, handler := false }, .finished)
      else match phEarly cfg st with
        | some r => r
        | none => phRest cfg (parseHeaders cfg n) st := by
  unfold parseHeaders phEarly phRest phTail isNphBuf
  dsimp only
  split
  · rfl
  · cases hfl : firstLine st.hbuf <;> simp only [] <;> rfl

theorem fr1_phEarly (cfg : Cfg) (st : St) (r : St × Rc) (h : phEarly cfg st = some r) : Fr1 st r.1 := by
  unfold phEarly at h
  dsimp only at h
  repeat' (split at h)
  all_goals first
    | (cases h; done)
    | (cases h; exact ⟨(fr0_chunkAppend st st.hbuf).1, (fr0_chunkAppend st st.hbuf).2.1, fun _ => rfl, (fr0_chunkAppend st st.hbuf).2.2.2⟩)
    | (cases h; exact ⟨rfl, rfl, fun hs => hs, rfl⟩)

theorem fr1_phTail (cfg : Cfg) (rec_ : St → St × Rc) (hrec : ∀ s, Fr1 s (rec_ s).1) (st1 : St) (rest : Bytes) :
    Fr1 st1 (phTail cfg rec_ st1 rest).1 := by
  unfold phTail
  split
  · have := fr0_send1xx cfg st1
    exact Fr1.trans (b := { (send1xx cfg st1) with hbuf := rest }) ⟨this.1, this.2.1, fun hs => this.2.2.1.trans hs, this.2.2.2⟩ (hrec _)
  · dsimp only
    have h2 : Fr1 st1 { st1 with started := true } := ⟨rfl, rfl, fun _ => rfl, rfl⟩
    split
    · exact h2
    · split
      · exact h2
      · exact Fr1.trans h2 (fr0_appendMem _ _).to1

theorem fr1_phRest (cfg : Cfg) (rec_ : St → St × Rc) (hrec : ∀ s, Fr1 s (rec_ s).1) (st : St) :
    Fr1 st (phRest cfg rec_ st).1 := by
  unfold phRest
  split
  · exact Fr1.refl st
  · exact Fr1.trans (fr0_processHeaders cfg st _ _ _).to1 (fr1_phTail cfg rec_ hrec _ _)

theorem fr1_parseHeaders (cfg : Cfg) : ∀ (fuel : Nat) (st : St), Fr1 st (parseHeaders cfg fuel st).1 := by
  intro fuel
  induction fuel with
  | zero => intro st; exact Fr1.refl st
  | succ n ih =>
    intro st
    rw [parseHeaders_succ]
    by_cases hsz : (if (hoff st.hbuf).2 ≠ 0 then (hoff st.hbuf).2 else st.hbuf.length) > Extracted.maxHttpResponseFieldSize
    · rw [if_pos hsz]; exact ⟨rfl, rfl, fun hs => hs, rfl⟩
    · rw [if_neg hsz]
      cases he : phEarly cfg st with
      | some r => exact fr1_phEarly cfg st r he
      | none => exact fr1_phRest cfg _ ih st

theorem fr1_headerStep (cfg : Cfg) (st : St) (d : Bytes) : Fr1 st (headerStep cfg st d).1 := by
  unfold headerStep
  exact Fr1.trans (b := { st with hbuf := st.hbuf ++ d }) ⟨rfl, rfl, fun h => h, rfl⟩ (fr1_parseHeaders cfg _ _)

theorem fr1_readPlain (cfg : Cfg) (st : St) (seg : Bytes) : Fr1 st (readPlain cfg st seg).1 := by
  unfold readPlain
  have hh := fr1_headerStep cfg st seg
  split
  · dsimp only
    split
    · exact hh
    · split
      · split
        · exact Fr1.trans hh ⟨rfl, rfl, fun h => h, rfl⟩
        · exact Fr1.trans hh ⟨rfl, rfl, fun h => h, rfl⟩
      · exact hh
  · dsimp only
    split
    · exact (fr0_appendMem st seg).to1
    · exact (fr0_appendMem st seg).to1

theorem fr1_fcgiDispatch (cfg : Cfg) : ∀ (evs : List FrEv) (st : St), Fr1 st (fcgiDispatch cfg evs st).1 := by
  intro evs
  induction evs with
  | nil => intro st; exact Fr1.refl st
  | cons ev rest ih =>
    intro st
    unfold fcgiDispatch
    split
    · split
      · exact ih st
      · split
        · dsimp only
          have hh := fr1_headerStep cfg st ‹Bytes›
          split
          · exact Fr1.trans hh ⟨rfl, rfl, fun h => h, rfl⟩
          · exact Fr1.trans hh (ih _)
        · split
          · dsimp only
            have ht := (fr0_transferCqlen st ‹Bytes›).to1
            split
            · exact Fr1.trans ht ⟨rfl, rfl, fun h => h, rfl⟩
            · exact Fr1.trans ht (ih _)
          · exact ih st
    · exact ih st
    · exact Fr1.refl st
    · exact ih st

theorem fr1_readFcgi (cfg : Cfg) (st : St) (seg : Bytes) : Fr1 st (readFcgi cfg st seg).1 := by
  unfold readFcgi
  dsimp only
  exact Fr1.trans (b := { st with fcgi := { (frFeed { st.fcgi with evs := [] } seg) with evs := [] } })
    ⟨rfl, rfl, fun h => h, rfl⟩ (fr1_fcgiDispatch cfg _ _)

theorem fr0_chunkClose (st : St) : Fr0 st (chunkClose st) := by
  unfold chunkClose Fr0; repeat' split
  all_goals simp

theorem fr2_backendIncomplete (st : St) (h : st.hdrSent = false) : Fr2 st (backendIncomplete st) := by
  refine ⟨by simp [backendIncomplete, bodyClear], by simp [backendIncomplete, bodyClear], ?_,
          fun hc => Or.inl (by simpa [backendIncomplete, bodyClear] using hc)⟩
  intro _ hh; rw [h] at hh; cases hh

theorem fr2_backendDone (cfg : Cfg) (st : St) : Fr2 st (backendDone cfg st) := by
  unfold backendDone
  split
  · exact Fr2.refl st
  · split
    · exact ⟨rfl, rfl, fun h _ => h, fun h => Or.inl h⟩
    · split
      · split
        · rename_i h
          have : st.hdrSent = false := by
            cases hh : st.hdrSent <;> simp [hh] at h ⊢
          exact fr2_backendIncomplete st this
        · rename_i hnt
          dsimp only
          have h1 : Fr2 st (if bodyTruncated cfg st = true then backendAbort cfg st else st) := by
            split
            · rename_i ht
              have hsent : st.hdrSent = true := by
                cases hh : st.hdrSent <;> simp [hh, ht] at hnt ⊢
              exact ⟨rfl, rfl, fun h _ => h, fun _ => Or.inr hsent⟩
            · exact Fr2.refl st
          split
          · exact Fr2.trans h1 (Fr2.trans (fr0_chunkClose _).to1.to2 ⟨rfl, rfl, fun h _ => h, fun h => Or.inl h⟩)
          · exact Fr2.trans h1 ⟨rfl, rfl, fun h _ => h, fun h => Or.inl h⟩
      · exact Fr2.refl st

theorem fr2_backendError (cfg : Cfg) (st : St) : Fr2 st (backendError cfg st) := by
  unfold backendError
  split
  · exact Fr2.refl st
  · split
    · rename_i h
      have : st.hdrSent = false := by
        cases hh : st.hdrSent <;> simp [hh] at h ⊢
      exact fr2_backendIncomplete st this
    · rename_i hns
      split
      · rename_i hst
        have hsent : st.hdrSent = true := by
          cases hh : st.hdrSent <;> simp [hh, hst] at hns ⊢
        exact ⟨rfl, rfl, fun h _ => h, fun _ => Or.inr hsent⟩
      · exact Fr2.refl st

theorem fr2_gwClose (cfg : Cfg) (st : St) : Fr2 st (gwClose cfg st) := by
  unfold gwClose
  dsimp only
  split
  · exact Fr2.trans (b := { st with open_ := false }) ⟨rfl, rfl, fun h _ => h, fun h => Or.inl h⟩ (fr2_backendDone cfg _)
  · exact ⟨rfl, rfl, fun h _ => h, fun h => Or.inl h⟩

theorem fr2_gwBackendError (cfg : Cfg) (st : St) : Fr2 st (gwBackendError cfg st) :=
  Fr2.trans (fr2_backendError cfg st) (fr2_gwClose cfg _)

theorem fr2_gwRecvData (cfg : Cfg) (st : St) (seg : Bytes) : Fr2 st (gwRecvData cfg st seg) := by
  unfold gwRecvData
  have h1 : Fr2 st (if cfg.be = .fcgi then readFcgi cfg st seg else readPlain cfg st seg).1 := by
    split
    · exact (fr1_readFcgi cfg st seg).to2
    · exact (fr1_readPlain cfg st seg).to2
  generalize (if cfg.be = .fcgi then readFcgi cfg st seg else readPlain cfg st seg) = r at h1
  obtain ⟨st1, rc⟩ := r
  cases rc
  · exact h1
  · exact Fr2.trans h1 (fr2_gwClose cfg st1)
  · exact Fr2.trans h1 (fr2_gwBackendError cfg st1)

theorem fr2_gwRecvEnd (cfg : Cfg) (st : St) (e : End) : Fr2 st (gwRecvEnd cfg st e) := by
  unfold gwRecvEnd
  repeat' split
  all_goals first
    | exact Fr2.refl st
    | exact fr2_gwClose cfg st
    | exact fr2_gwBackendError cfg st

/-! ## the reachability invariant of the relay -/

/-- What every state of a relay satisfies (`inv_init`, `inv_onData`): the client-side state machine and
    the "response head sent" flag agree; a response that is being written while the backend is
    still there has started and is unfinished. -/
structure Inv (st : St) : Prop where
  handle : st.cstate = .handle → st.hdrSent = false
  write : st.cstate = .write → st.hdrSent = true
  wstarted : st.cstate = .write → st.open_ = true → st.started = true
  unfinished : st.open_ = true → (st.cstate = .handle ∨ st.cstate = .write) → st.finished = false
  cerrSent : st.cerr = true → st.hdrSent = true

theorem inv_init : Inv ({} : St) :=
  ⟨fun _ => rfl, fun h => (by cases h), fun h => (by cases h), fun _ _ => rfl, fun h => (by cases h)⟩

/-- write-prepare keeps the backend/client bookkeeping; while it leaves the response unfinished it
    does not touch `started` either -/
def WpRel (a b : St) : Prop :=
  b.open_ = a.open_ ∧ b.cstate = a.cstate ∧ b.hdrSent = a.hdrSent ∧ b.cerr = a.cerr ∧
  (b.finished = false → b.started = a.started ∧ a.finished = false)

theorem WpRel.refl (a : St) : WpRel a a := ⟨rfl, rfl, rfl, rfl, fun h => ⟨rfl, h⟩⟩
theorem WpRel.trans {a b c : St} (h1 : WpRel a b) (h2 : WpRel b c) : WpRel a c :=
  ⟨h2.1.trans h1.1, h2.2.1.trans h1.2.1, h2.2.2.1.trans h1.2.2.1, h2.2.2.2.1.trans h1.2.2.2.1,
   fun hf => ⟨((h2.2.2.2.2 hf).1).trans (h1.2.2.2.2 (h2.2.2.2.2 hf).2).1, (h1.2.2.2.2 (h2.2.2.2.2 hf).2).2⟩⟩

theorem wprel_wpStatus (st : St) : WpRel st (wpStatus st) := by
  unfold wpStatus
  repeat' split
  · exact ⟨by simp [bodyClear], by simp [bodyClear], by simp [bodyClear], by simp [bodyClear], fun h => by simp at h⟩
  · exact ⟨by simp [bodyClear], by simp [bodyClear], by simp [bodyClear], by simp [bodyClear], fun h => by simp at h⟩
  · exact WpRel.refl st
  · unfold staticErrdoc
    split
    · exact WpRel.refl st
    · dsimp only
      split <;> exact ⟨by simp [bodyClear], by simp [bodyClear], by simp [bodyClear], by simp [bodyClear], fun h => by simp at h⟩
  · exact WpRel.refl st

theorem wprel_mergeTrailers (cfg : Cfg) (st : St) : WpRel st (mergeTrailers cfg st) := by
  unfold mergeTrailers
  repeat' split
  all_goals exact ⟨rfl, rfl, rfl, rfl, fun h => ⟨rfl, h⟩⟩

theorem wprel_wpLength (cfg : Cfg) (st : St) : WpRel st (wpLength cfg st) := by
  unfold wpLength wpSetLength wpStartStreaming
  dsimp only
  repeat' split
  all_goals exact ⟨rfl, rfl, rfl, rfl, fun h => ⟨rfl, h⟩⟩

theorem wprel_wpHead (cfg : Cfg) (st : St) : WpRel st (wpHead cfg st) := by
  unfold wpHead
  split
  · exact ⟨by simp [bodyClear], by simp [bodyClear], by simp [bodyClear], by simp [bodyClear], fun h => by simp at h⟩
  · exact WpRel.refl st

theorem wprel_writePrepare (cfg : Cfg) (st : St) : WpRel st (writePrepare cfg st) :=
  WpRel.trans (WpRel.trans (WpRel.trans (wprel_wpStatus st) (wprel_mergeTrailers cfg _)) (wprel_wpLength cfg _))
    (wprel_wpHead cfg _)

theorem h1Progress_proj (st : St) :
    (h1Progress st).hdrSent = st.hdrSent ∧ (h1Progress st).open_ = st.open_ ∧ (h1Progress st).started = st.started ∧
    (h1Progress st).finished = st.finished ∧
    ((st.finished = true ∧ (h1Progress st).cstate = .done) ∨ (st.finished = false ∧ (h1Progress st).cstate = st.cstate)) := by
  unfold h1Progress flush
  dsimp only
  cases hf : st.finished <;> simp [hf]

theorem h2Progress_proj (cfg : Cfg) (st : St) :
    (h2Progress cfg st).hdrSent = st.hdrSent ∧ (h2Progress cfg st).open_ = st.open_ ∧
    (h2Progress cfg st).started = st.started ∧ (h2Progress cfg st).finished = st.finished ∧
    ((h2Progress cfg st).cstate = .done ∨ (st.finished = false ∧ (h2Progress cfg st).cstate = st.cstate)) := by
  unfold h2Progress flush
  dsimp only
  cases hc : st.cerr <;> cases hf : st.finished <;> cases hs : cfg.streaming <;> simp [hc, hf, hs]

/-- the write state: progress keeps the invariant -/
theorem inv_progress (cfg : Cfg) (g : St) (hc : g.cstate = .write) (hsent : g.hdrSent = true)
    (hst : g.open_ = true → g.finished = false → g.started = true) :
    Inv (if cfg.ver ≥ 2 then h2Progress cfg g else h1Progress g) := by
  split
  · obtain ⟨p1, p2, p3, p4, p5⟩ := h2Progress_proj cfg g
    refine ⟨fun h => ?_, fun _ => by rw [p1, hsent], fun hw ho => ?_, fun _ h => ?_, fun _ => by rw [p1, hsent]⟩
    · rcases p5 with p | ⟨_, p⟩ <;> rw [p] at h
      · cases h
      · rw [hc] at h; cases h
    · rcases p5 with p | ⟨pf, _⟩
      · rw [p] at hw; cases hw
      · rw [p3]; exact hst (p2 ▸ ho) pf
    · rcases p5 with p | ⟨pf, _⟩
      · rw [p] at h; rcases h with h | h <;> cases h
      · rw [p4, pf]
  · obtain ⟨p1, p2, p3, p4, p5⟩ := h1Progress_proj g
    refine ⟨fun h => ?_, fun _ => by rw [p1, hsent], fun hw ho => ?_, fun _ h => ?_, fun _ => by rw [p1, hsent]⟩
    · rcases p5 with ⟨_, p⟩ | ⟨_, p⟩ <;> rw [p] at h
      · cases h
      · rw [hc] at h; cases h
    · rcases p5 with ⟨_, p⟩ | ⟨pf, _⟩
      · rw [p] at hw; cases hw
      · rw [p3]; exact hst (p2 ▸ ho) pf
    · rcases p5 with ⟨_, p⟩ | ⟨pf, _⟩
      · rw [p] at h; rcases h with h | h <;> cases h
      · rw [p4, pf]

theorem inv_startResponse (cfg : Cfg) (g : St) (hs : g.open_ = true → g.finished = false → g.started = true) :
    Inv (startResponse cfg g) := by
  unfold startResponse
  dsimp only
  generalize hg1 : (if g.status = 0 then { g with status := 200 } else g) = g1
  have e1 : g1.open_ = g.open_ ∧ g1.finished = g.finished ∧ g1.started = g.started := by
    rw [← hg1]; split <;> simp
  obtain ⟨w1, _, _, _, w5⟩ := wprel_writePrepare cfg g1
  have hst : (writePrepare cfg g1).open_ = true → (writePrepare cfg g1).finished = false →
      (writePrepare cfg g1).started = true := by
    intro ho hf
    obtain ⟨a, b⟩ := w5 hf
    rw [a, e1.2.2]
    exact hs (by rw [← e1.1, ← w1]; exact ho) (by rw [← e1.2.1]; exact b)
  by_cases hv : cfg.ver ≥ 2
  · rw [if_pos hv]
    have := inv_progress cfg
      { (writePrepare cfg g1) with evs := (writePrepare cfg g1).evs ++ [.hdrs (writePrepare cfg g1).status (renderHdrs (writePrepare cfg g1).headers)],
                                   hdrSent := true, cstate := .write } rfl rfl hst
    rw [if_pos hv] at this
    exact this
  · rw [if_neg hv]
    have := inv_progress cfg { (h1SendHeaders cfg (writePrepare cfg g1)) with cstate := .write } rfl
      (by simp [h1SendHeaders]) (by simpa [h1SendHeaders] using hst)
    rw [if_neg hv] at this
    exact this

theorem inv_conStep (cfg : Cfg) (st g : St) (hi : Inv st) (hf : Fr2 st g) (ho : st.open_ = true)
    (hc : st.cstate = .handle ∨ st.cstate = .write) : Inv (conStep cfg g) := by
  unfold conStep
  rcases hc with hc | hc
  · have gc : g.cstate = .handle := hf.1.trans hc
    rw [gc]
    dsimp only
    split
    · rename_i hstart
      refine inv_startResponse cfg g ?_
      intro go gf
      have : g.started = true ∧ cfg.streaming = true := by
        simpa [handlerStarts, subrequestWaits, go, gf] using hstart
      exact this.1
    · rename_i hstart
      refine ⟨fun _ => hf.2.1.trans (hi.handle hc), fun h => (by rw [gc] at h; cases h),
              fun h => (by rw [gc] at h; cases h), fun go _ => ?_,
              fun hce => hf.2.1.trans ((hf.2.2.2 hce).elim hi.cerrSent id)⟩
      cases gf : g.finished
      · rfl
      · simp [handlerStarts, subrequestWaits, go, gf] at hstart
  · have gc : g.cstate = .write := hf.1.trans hc
    rw [gc]
    refine inv_progress cfg g gc (hf.2.1.trans (hi.write hc)) ?_
    intro _ _
    exact hf.2.2.1 (hi.wstarted hc ho) (hi.write hc)

/-- **the invariant is kept by every backend read** -/
theorem inv_onData (cfg : Cfg) (st : St) (seg : Bytes) (hi : Inv st) : Inv (onData cfg st seg) := by
  unfold onData
  split
  · exact hi
  · rename_i h
    split
    · exact ⟨fun h => (by cases h), fun h => (by cases h), fun h => (by cases h),
             fun _ h => (by rcases h with h | h <;> cases h), hi.cerrSent⟩
    · have ho : st.open_ = true := by
        cases hh : st.open_ <;> simp [hh] at h ⊢
      have hc : st.cstate = .handle ∨ st.cstate = .write := by
        cases hh : st.cstate <;> simp [hh] at h ⊢
      exact inv_conStep cfg st _ hi (fr2_gwRecvData cfg st seg) ho hc

/-- ... and by the event that ends the backend stream -/
theorem inv_onEnd (cfg : Cfg) (st : St) (e : End) (hi : Inv st) : Inv (onEnd cfg st e) := by
  unfold onEnd
  split
  · exact hi
  · rename_i h
    split
    · exact ⟨fun h => (by cases h), fun h => (by cases h), fun h => (by cases h),
             fun _ h => (by rcases h with h | h <;> cases h), hi.cerrSent⟩
    · have ho : st.open_ = true := by
        cases hh : st.open_ <;> simp [hh] at h ⊢
      have hc : st.cstate = .handle ∨ st.cstate = .write := by
        cases hh : st.cstate <;> simp [hh] at h ⊢
      exact inv_conStep cfg st _ hi (fr2_gwRecvEnd cfg st e) ho hc

/-- every state a relay reaches satisfies the invariant -/
theorem inv_reach (cfg : Cfg) (segs : List Bytes) : ∀ st : St, Inv st → Inv (segs.foldl (onData cfg) st) := by
  induction segs with
  | nil => intro st h; exact h
  | cons s rest ih => intro st h; exact ih _ (inv_onData cfg st s h)


/-! ## the error document, completely -/

theorem wpSetLength_dc (cfg : Cfg) (st : St) : (wpSetLength cfg st).dc = st.dc ∧ (wpSetLength cfg st).dcDone = st.dcDone := by
  unfold wpSetLength
  (repeat' split) <;> simp

theorem writePrepare_errdoc_dc (cfg : Cfg) (st : St) (hh : st.handler = false)
    (h4 : 400 ≤ st.status) (h6 : st.status < 600) : (writePrepare cfg st).dc = none := by
  obtain ⟨_, _, _, _, _, _, _, e8, e9⟩ := staticErrdoc_proj st hh
  unfold writePrepare
  rw [wpStatus_errdoc st h4 h6, mergeTrailers_dc_none cfg _ e9]
  have hl : wpLength cfg (staticErrdoc st) = wpSetLength cfg (staticErrdoc st) := by simp [wpLength, e8]
  rw [hl]
  unfold wpHead
  split
  · simp [bodyClear, (wpSetLength_dc cfg (staticErrdoc st)).1, e9]
  · rw [(wpSetLength_dc cfg (staticErrdoc st)).1, e9]

theorem hdrUnset_nil (k : Bytes) : hdrUnset [] k = [] := by simp [hdrUnset, hasHdr, hdrFind]
theorem hdrSet_nil (k v : Bytes) : hdrSet [] k v = [(k, v)] := by simp [hdrSet, hdrFind]

def ctHtml : List (Bytes × Bytes) := [(ofString "Content-Type", ofString "text/html")]

theorem ctHtml_noLen : hasHdr ctHtml nContentLength = false ∧ hasHdr ctHtml nTransferEncoding = false := by decide

theorem ctHtml_setCl (v : Bytes) :
    hdrSet ctHtml (ofString "Content-Length") v = ctHtml ++ [(ofString "Content-Length", v)] := by
  have h : hdrFind ctHtml (lower (ofString "Content-Length")) = none := by decide
  simp [hdrSet, h]

/-- the error document lighttpd answers with: exactly Content-Type and the Content-Length of the page -/
theorem writePrepare_errdoc_headers (cfg : Cfg) (st : St) (hh : st.handler = false)
    (h4 : 400 ≤ st.status) (h6 : st.status < 600) (h401 : st.status ≠ 401) (hhead : cfg.head = false) :
    (writePrepare cfg st).headers = ctHtml ++ [(ofString "Content-Length", decBytes (errorPage st.status).length)] := by
  obtain ⟨_, _, _, _, _, _, _, e8, e9⟩ := staticErrdoc_proj st hh
  unfold writePrepare
  rw [wpStatus_errdoc st h4 h6, mergeTrailers_dc_none cfg _ e9]
  have hl : wpLength cfg (staticErrdoc st) = wpSetLength cfg (staticErrdoc st) := by simp [wpLength, e8]
  rw [hl]
  have hw : wpHead cfg (wpSetLength cfg (staticErrdoc st)) = wpSetLength cfg (staticErrdoc st) := by
    simp [wpHead, hhead]
  rw [hw]
  have hs : (staticErrdoc st).headers = ctHtml ∧ (staticErrdoc st).wq = errorPage st.status := by
    unfold staticErrdoc
    simp only [hh, Bool.false_eq_true, if_false, h401]
    simp [bodyClear, hdrUnset_nil, hdrSet_nil, ctHtml]
  have hpos : (errorPage st.status).length > 0 := by
    unfold errorPage; simp [ofString]
  unfold wpSetLength
  simp [noLen, hs.1, hs.2, ctHtml_noLen.1, ctHtml_noLen.2, hpos, ctHtml_setCl]


/-! ## small facts about single functions (helpers, not property theorems) -/

/-- a chunk-size line must start with a hex digit -/
theorem dcParseLine_needs_hex (l : Bytes) (h : (l.head?.bind hexVal) = none) : dcParseLine l = none := by
  unfold dcParseLine
  cases l with
  | nil => simp [ckHex]
  | cons b rest =>
    simp only [List.head?_cons, Option.bind_some] at h
    simp [ckHex, h]

/-- **Hop-by-hop fields of the backend connection are not relayed**: Upgrade (upgrade not
    enabled) and HTTP2-Settings from any backend, Connection from a proxy backend or towards an
    HTTP/2 client never reach the client-side field list; Transfer-Encoding is consumed (it turns
    on the chunked decoder and removes a Content-Length received before it). -/
theorem applyField_hop_by_hop (cfg : Cfg) (st : St) (k v : Bytes) :
    (lower k = nUpgrade → applyField cfg st k v = st) ∧
    (lower k = nHttp2Settings → applyField cfg st k v = st) ∧
    (lower k = nConnection → (cfg.be = .proxy ∨ cfg.ver ≥ 2) → applyField cfg st k v = st) ∧
    (lower k = nTransferEncoding → (applyField cfg st k v).decodeChunked = true ∧
       (applyField cfg st k v).headers =
         (if hasHdr st.headers nContentLength then hdrUnset st.headers nContentLength else st.headers) ∧
       (applyField cfg st k v).scratch = (if hasHdr st.headers nContentLength then -1 else st.scratch)) := by
  refine ⟨?_, ?_, ?_, ?_⟩
  · intro h
    have : ¬ (nUpgrade = nStatus) := by decide
    simp [applyField, h, this]
  · intro h
    have h1 : ¬ (nHttp2Settings = nStatus) := by decide
    have h2 : ¬ (nHttp2Settings = nUpgrade) := by decide
    have h3 : ¬ (nHttp2Settings = nConnection) := by decide
    have h4 : ¬ (nHttp2Settings = nContentType) := by decide
    have h5 : ¬ (nHttp2Settings = nContentLength) := by decide
    have h6 : ¬ (nHttp2Settings = nTransferEncoding) := by decide
    simp [applyField, h, h1, h2, h3, h4, h5, h6]
  · intro h hc
    have h1 : ¬ (nConnection = nStatus) := by decide
    have h2 : ¬ (nConnection = nUpgrade) := by decide
    rcases hc with hc | hc
    · simp [applyField, h, h1, h2, hc]
    · by_cases hp : cfg.be = .proxy
      · simp [applyField, h, h1, h2, hp]
      · simp [applyField, h, h1, h2, hp, hc]
  · intro h
    have h1 : ¬ (nTransferEncoding = nStatus) := by decide
    have h2 : ¬ (nTransferEncoding = nUpgrade) := by decide
    have h3 : ¬ (nTransferEncoding = nConnection) := by decide
    have h4 : ¬ (nTransferEncoding = nContentType) := by decide
    have h5 : ¬ (nTransferEncoding = nContentLength) := by decide
    unfold applyField
    simp only [h, h1, h2, h3, h4, h5, if_false, if_true]
    by_cases hcl : hasHdr st.headers nContentLength = true <;> simp [hcl]



/-- the field lines of the client-side head are the stored fields verbatim (`CRLF name ": " value`),
    plus a Date line when the backend sent none -/
theorem h1FieldLines_verbatim (hs : List (Bytes × Bytes))
    (h : ∀ kv ∈ hs, kv.1 ≠ [] ∧ kv.2 ≠ [] ∧ omitHeader kv.1 = false) :
    h1FieldLines hs = (hs.flatMap fun kv => crlf ++ kv.1 ++ [colon, sp] ++ kv.2) ++
      (if hasHdr hs nDate then [] else dateLine) := by
  unfold h1FieldLines
  congr 1
  induction hs with
  | nil => rfl
  | cons kv rest ih =>
    have hk := h kv (by simp)
    have e1 : kv.1.isEmpty = false := by cases hkv : kv.1 <;> simp_all
    have e2 : kv.2.isEmpty = false := by cases hkv : kv.2 <;> simp_all
    simp only [List.flatMap_cons, e1, e2, hk.2.2, Bool.or_self, Bool.false_eq_true, if_false]
    rw [ih (fun x hx => h x (by simp [hx]))]


/-- the field lines of lighttpd's own error response: Content-Type, the Content-Length of the
    error page, Connection as the keep-alive decision demands, Date -/
def errFields (cfg : Cfg) (status : Nat) (ka : Bool) : Bytes :=
  h1FieldLines (h1HeaderSet cfg
    { status := status, keepAlive := ka,
      headers := ctHtml ++ [(ofString "Content-Length", decBytes (errorPage status).length)] })

theorem h1HeaderSet_congr (cfg : Cfg) (a b : St) (h1 : a.headers = b.headers) (h2 : a.keepAlive = b.keepAlive)
    (h3 : a.status = b.status) : h1HeaderSet cfg a = h1HeaderSet cfg b := by
  unfold h1HeaderSet; rw [h1, h2, h3]

theorem conStep_errdoc_fields (cfg : Cfg) (st1 : St) (hv : cfg.ver ≤ 1) (hc : st1.cstate = .handle)
    (ho : st1.open_ = false) (hh : st1.handler = false) (h4 : 400 ≤ st1.status) (h6 : st1.status < 600)
    (h401 : st1.status ≠ 401) (hhead : cfg.head = false) :
    (conStep cfg st1).evs = pushW st1.evs
      (h1StatusLine cfg st1.status ++ errFields cfg st1.status st1.keepAlive ++ crlf ++ crlf ++ errorPage st1.status) := by
  obtain ⟨w1, w2, w3, w4, w5, w6, w7⟩ := writePrepare_errdoc cfg st1 hh h4 h6
  have hstart : conStep cfg st1 = startResponse cfg st1 := by
    unfold conStep
    simp [hc, handlerStarts, subrequestWaits, ho]
  rw [hstart]
  obtain ⟨r1, r2, r3, r4⟩ := startResponse_h1_finished cfg st1 hv (by omega) w7
  rw [r4, w1, w3, w4]
  have : h1HeaderSet cfg (writePrepare cfg st1) = h1HeaderSet cfg
      { status := st1.status, keepAlive := st1.keepAlive,
        headers := ctHtml ++ [(ofString "Content-Length", decBytes (errorPage st1.status).length)] } :=
    h1HeaderSet_congr cfg _ _ (writePrepare_errdoc_headers cfg st1 hh h4 h6 h401 hhead) w2 w1
  unfold errFields
  rw [this]
  simp [hhead]

/-- hang-up on a started response of a backend without record layer is handled as end of file -/
theorem gwRecvEnd_hup_started (cfg : Cfg) (st : St) (hs : st.started = true) :
    gwRecvEnd cfg st .hup = gwRecvEnd cfg st .eof := by
  simp [gwRecvEnd, hs]

theorem gwRecvEnd_eofHup (cfg : Cfg) (st : St) (e : End) (hbe : cfg.be ≠ .fcgi) (hs : st.started = true)
    (he : e = .eof ∨ e = .hup) : gwRecvEnd cfg st e = gwClose cfg st := by
  rcases he with h | h <;> subst h <;> simp [gwRecvEnd, hbe, hs]

theorem backendError_bodiless (cfg : Cfg) (st : St) (hs : st.started = true) (hb : bodiless cfg st = true) :
    gwBackendError cfg st = gwClose cfg st := by
  simp [gwBackendError, backendError, hs, hb]


/-! ## what lighttpd does when the backend stream breaks: shared cores of the C10 theorems -/

/-- what http_chunk_close() may add: the last-chunk of a body that lighttpd chunk-encodes itself -/
def ownLastChunk (st : St) : Bytes := if st.sendChunked && st.dc.isNone then ofString "0\r\n\r\n" else []

theorem chunkClose_proj (st : St) :
    (chunkClose st).wq = st.wq ++ ownLastChunk st ∧ (chunkClose st).evs = st.evs ∧
    (chunkClose st).cstate = st.cstate ∧ (chunkClose st).open_ = st.open_ ∧ (chunkClose st).cerr = st.cerr ∧
    ((chunkClose st).keepAlive = true → st.keepAlive = true) := by
  unfold chunkClose ownLastChunk
  cases hs : st.sendChunked <;> cases hd : st.dc <;> simp [hs, hd]
  split <;> simp


theorem ownLastChunk_nil (st : St) (h : st.sendChunked = true → st.dc.isSome = true) : ownLastChunk st = [] := by
  unfold ownLastChunk
  cases hs : st.sendChunked <;> cases hd : st.dc <;> simp_all

/-- lighttpd answered with its own complete error response of that status (HTTP/1.x): status
    line, fields, empty line, the error page (nothing for HEAD), keep-alive as negotiated; for a
    request other than HEAD the fields are exactly Content-Type, the Content-Length of the page,
    Connection / Date (`errFields`) -/
def OwnError (cfg : Cfg) (st st' : St) (status : Nat) : Prop :=
  st'.status = status ∧ st'.cstate = .done ∧ st'.keepAlive = st.keepAlive ∧
  (∃ fields, st'.evs = pushW st.evs
      (h1StatusLine cfg status ++ fields ++ crlf ++ crlf ++ (if cfg.head then [] else errorPage status))) ∧
  (cfg.head = false → st'.evs = pushW st.evs
      (h1StatusLine cfg status ++ errFields cfg status st.keepAlive ++ crlf ++ crlf ++ errorPage status))

theorem ownError_conStep (cfg : Cfg) (st st1 : St) (status : Nat) (hv : cfg.ver ≤ 1) (hc : st1.cstate = .handle)
    (ho : st1.open_ = false) (hh : st1.handler = false) (hs : st1.status = status)
    (h5 : status = 500 ∨ status = 502) (hk : st1.keepAlive = st.keepAlive) (he : st1.evs = st.evs) :
    OwnError cfg st (conStep cfg st1) status := by
  have h4 : 400 ≤ st1.status := by rcases h5 with h | h <;> omega
  have h6 : st1.status < 600 := by rcases h5 with h | h <;> omega
  have h401 : st1.status ≠ 401 := by rcases h5 with h | h <;> omega
  obtain ⟨c1, c2, c3, ⟨f, c4⟩⟩ := conStep_errdoc cfg st1 hv hc ho hh h4 h6
  refine ⟨by rw [c1, hs], c2, by rw [c3, hk], ⟨f, by rw [c4, hs, he]⟩, fun hhead => ?_⟩
  rw [conStep_errdoc_fields cfg st1 hv hc ho hh h4 h6 h401 hhead, hs, he, hk]

/-- closing the backend context of a response whose head is out and whose body is short of its
    announced end: abort (the core of `c10_truncated_after_head_closes`) -/
theorem abort_of_gwClose_truncated (cfg : Cfg) (st : St) (hv : cfg.ver ≤ 1) (hc : st.cstate = .write)
    (hh : st.handler = true) (hf : st.finished = false) (hsent : st.hdrSent = true)
    (ht : bodyTruncated cfg st = true) :
    (conStep cfg (gwClose cfg st)).keepAlive = false ∧ (conStep cfg (gwClose cfg st)).cstate = .done ∧
    (conStep cfg (gwClose cfg st)).evs = pushW st.evs (st.wq ++ (if cfg.ver = 1 then ownLastChunk st else [])) := by
  have hv2 : ¬ (cfg.ver ≥ 2) := by omega
  rw [gwClose_handler cfg st hh, backendDone_truncated_sent cfg { st with open_ := false } hc hf hsent ht]
  generalize hst2 : ({ st with open_ := false } : St) = st2
  obtain ⟨k1, k2, k3, _, _, k6⟩ := chunkClose_proj (backendAbort cfg st2)
  have hka : (BeResp.chunkClose (backendAbort cfg st2)).keepAlive = false := by
    cases hk : (BeResp.chunkClose (backendAbort cfg st2)).keepAlive
    · rfl
    · have := k6 hk; simp [backendAbort] at this
  have e1 : st2.cstate = .write := by rw [← hst2]; exact hc
  have e2 : st2.wq = st.wq := by rw [← hst2]
  have e3 : st2.evs = st.evs := by rw [← hst2]
  have e4 : ownLastChunk (backendAbort cfg st2) = ownLastChunk st := by rw [← hst2]; rfl
  by_cases h1 : cfg.ver = 1
  · simp only [h1, if_true]
    have c1 : (BeResp.chunkClose (backendAbort cfg st2)).cstate = .write := by rw [k3]; simp [backendAbort, e1]
    have c2 : (BeResp.chunkClose (backendAbort cfg st2)).wq = st.wq ++ ownLastChunk st := by
      rw [k1, e4]; simp [backendAbort, e2]
    have c3 : (BeResp.chunkClose (backendAbort cfg st2)).evs = st.evs := by rw [k2]; simp [backendAbort, e3]
    simp [conStep, c1, h1Progress, flush, c2, c3, hka, h1]
  · simp [h1, conStep, e1, e2, e3, backendAbort, hv2, h1Progress, flush]

/-- the response state after a read in which the chunked decoder met a framing error: what was
    decoded before the error is queued (nothing in pass-through mode) -/
def dechunkErrSt (st : St) (d : DcSt) (data : Bytes) : St :=
  { st with
    wq := st.wq ++ (if st.sendChunked then [] else (dcFeed { d with out := [] } data).out),
    dc := some { (dcFeed { d with out := [] } data) with out := [] } }

/-- the backend read that hits a chunked framing error, on a started response of a backend without
    record layer: what was decoded before the error is queued (nothing in pass-through mode), then
    the error path of gw_backend_error() -/
theorem gwRecvData_dechunk_err (cfg : Cfg) (st : St) (d : DcSt) (data : Bytes) (hbe : cfg.be ≠ .fcgi)
    (hs : st.started = true) (hdec : st.decodeChunked = true) (hd : st.dc = some d) (hdd : st.dcDone = 0)
    (herr : (dcFeed { d with out := [] } data).mode = .err) :
    gwRecvData cfg st data = gwBackendError cfg (dechunkErrSt st d data) := by
  unfold dechunkErrSt
  cases st with
  | mk status started finished handler keepAlive headers scratch decodeChunked sendChunked dc dcDone trailerBuf wq
       hbuf fcgi fcgiSend open_ cstate hdrSent cerr evs =>
    simp only at hs hdec hd hdd herr
    subst hs hdec hd hdd
    unfold gwRecvData
    simp only [hbe, if_false]
    unfold readPlain
    simp only [Bool.not_true, Bool.false_eq_true, if_false]
    unfold appendMem
    simp only [if_true]
    unfold dechunkAppend
    simp only [ne_eq, not_true_eq_false, if_false, herr]
    cases sendChunked <;> simp


end LtVerif.BeResp
