/-
  Helper lemmas for the C10 models: the backend chunked decoder (Model/HttpChunkDecode.lean),
  FastCGI record reassembly (Model/FcgiRecv.lean) and the relay composite (Model/BackendResp.lean).
-/
import LtVerif.Model.BackendResp
namespace LtVerif.BeResp
open LtVerif B

/-! ## backend chunked decoder -/

theorem dcFeed_nil (s : DcSt) : dcFeed s [] = s := rfl
theorem dcFeed_cons (s : DcSt) (b : UInt8) (bs : Bytes) : dcFeed s (b :: bs) = dcFeed (dcStep s b) bs := rfl
theorem dcFeed_append (s : DcSt) (a b : Bytes) : dcFeed s (a ++ b) = dcFeed (dcFeed s a) b := by
  simp [dcFeed, List.foldl_append]

/-- a chunk-size line (with its LF) that the decoder accepts for a chunk of `n` bytes: any
    spelling (leading zeros, upper/lower-case hex, BWS, chunk extensions) -/
structure DcGoodLine (l : Bytes) (n : Nat) : Prop where
  parse : dcParseLine l = some n
  pre : ∃ p, l = p ++ [lf] ∧ lf ∉ p
  short : l.length ≤ 1024

/-- `t` is what follows the last-chunk line `l` up to and including the first empty line -/
structure DcTrailerEnd (l t : Bytes) : Prop where
  nonempty : t ≠ []
  ends : endsCrlfCrlf (l ++ t) = true
  first : ∀ q r, t = q ++ r → r ≠ [] → q ≠ [] → endsCrlfCrlf (l ++ q) = false

theorem dcFeed_hdr_pre (p : Bytes) : ∀ (acc out : Bytes),
    lf ∉ p → acc.length + p.length < 1024 →
    dcFeed { mode := .hdr acc, out := out } p = { mode := .hdr (acc ++ p), out := out } := by
  induction p with
  | nil => intro acc out _ _; simp [dcFeed_nil]
  | cons b rest ih =>
    intro acc out hlf hlen
    have hb : b ≠ lf := fun e => hlf (by simp [e])
    have hrest : lf ∉ rest := fun e => hlf (by simp [e])
    simp only [List.length_cons] at hlen
    rw [dcFeed_cons]
    have hstep : dcStep { mode := .hdr acc, out := out } b = { mode := .hdr (acc ++ [b]), out := out } := by
      simp [dcStep, hb]
      omega
    rw [hstep, ih (acc ++ [b]) out hrest (by simp; omega)]
    simp

theorem dcFeed_goodline {l : Bytes} {n : Nat} (h : DcGoodLine l n) (hn : n ≠ 0) (out : Bytes) :
    dcFeed { mode := .hdr [], out := out } l = { mode := .data n, out := out } := by
  obtain ⟨p, hl, hlf⟩ := h.pre
  have hshort := h.short
  have hp := h.parse
  subst hl
  simp only [List.length_append, List.length_singleton] at hshort
  rw [dcFeed_append, dcFeed_hdr_pre p [] out hlf (by simp; omega)]
  simp only [List.nil_append, dcFeed_cons, dcFeed_nil]
  cases n with
  | zero => exact absurd rfl hn
  | succ k => simp [dcStep, hp]

theorem dcFeed_lastline {l : Bytes} (h : DcGoodLine l 0) (out : Bytes) :
    dcFeed { mode := .hdr [], out := out } l = { mode := .trailer l, out := out } := by
  obtain ⟨p, hl, hlf⟩ := h.pre
  have hshort := h.short
  have hp := h.parse
  subst hl
  simp only [List.length_append, List.length_singleton] at hshort
  rw [dcFeed_append, dcFeed_hdr_pre p [] out hlf (by simp; omega)]
  simp only [List.nil_append, dcFeed_cons, dcFeed_nil]
  simp [dcStep, hp]

theorem dcFeed_data (d : Bytes) : ∀ (n : Nat) (out : Bytes), d ≠ [] → d.length = n →
    dcFeed { mode := .data n, out := out } d = { mode := .cr, out := out ++ d } := by
  induction d with
  | nil => intro n out h; exact absurd rfl h
  | cons b rest ih =>
    intro n out _ hlen
    rw [dcFeed_cons]
    cases rest with
    | nil =>
      simp only [List.length_cons, List.length_nil] at hlen
      subst hlen
      simp [dcStep, dcFeed_nil]
    | cons c rest' =>
      simp only [List.length_cons] at hlen
      have hn : ¬ n ≤ 1 := by omega
      have hstep : dcStep { mode := .data n, out := out } b = { mode := .data (n - 1), out := out ++ [b] } := by
        simp [dcStep, hn]
      rw [hstep, ih (n - 1) (out ++ [b]) (by simp) (by simp; omega)]
      simp

theorem dcFeed_crlf (out : Bytes) :
    dcFeed { mode := .cr, out := out } [cr, lf] = { mode := .hdr [], out := out } := by
  simp [dcFeed_cons, dcFeed_nil, dcStep]

theorem dcFeed_chunk {l d : Bytes} (h : DcGoodLine l d.length) (hd : d ≠ []) (out : Bytes) :
    dcFeed { mode := .hdr [], out := out } (l ++ d ++ [cr, lf]) = { mode := .hdr [], out := out ++ d } := by
  have hn : d.length ≠ 0 := fun e => hd (List.length_eq_zero_iff.mp e)
  rw [dcFeed_append, dcFeed_append, dcFeed_goodline h hn, dcFeed_data d d.length out hd rfl, dcFeed_crlf]

/-- the trailer section is consumed up to its first empty line -/
theorem dcFeed_trailer (out : Bytes) : ∀ (t acc : Bytes), t ≠ [] →
    endsCrlfCrlf (acc ++ t) = true →
    (∀ q r, t = q ++ r → r ≠ [] → q ≠ [] → endsCrlfCrlf (acc ++ q) = false) →
    dcFeed { mode := .trailer acc, out := out } t = { mode := .done (acc ++ t), out := out } := by
  intro t
  induction t with
  | nil => intro acc h; exact absurd rfl h
  | cons b rest ih =>
    intro acc _ hend hfirst
    rw [dcFeed_cons]
    cases rest with
    | nil => simp [dcStep, dcFeed_nil, hend]
    | cons c rest' =>
      have hq : endsCrlfCrlf (acc ++ [b]) = false := hfirst [b] (c :: rest') rfl (by simp) (by simp)
      have hstep : dcStep { mode := .trailer acc, out := out } b
          = { mode := .trailer (acc ++ [b]), out := out } := by
        simp [dcStep, hq]
      rw [hstep, ih (acc ++ [b]) (by simp) (by simpa using hend)]
      · simp
      · intro q r hqr hr _
        have := hfirst (b :: q) r (by simp [hqr]) hr (by simp)
        simpa using this

theorem dcFeed_final {l t : Bytes} (hl : DcGoodLine l 0) (ht : DcTrailerEnd l t) (out : Bytes) :
    dcFeed { mode := .hdr [], out := out } (l ++ t) = { mode := .done (l ++ t), out := out } := by
  rw [dcFeed_append, dcFeed_lastline hl]
  exact dcFeed_trailer out t l ht.nonempty ht.ends ht.first

theorem dcFeed_err (bs : Bytes) (out : Bytes) : dcFeed { mode := .err, out := out } bs = { mode := .err, out := out } := by
  induction bs with
  | nil => rfl
  | cons b rest ih => rw [dcFeed_cons]; simpa [dcStep] using ih

theorem dcFeed_done_excess (acc out : Bytes) (bs : Bytes) (h : bs ≠ []) :
    dcFeed { mode := .done acc, out := out } bs = { mode := .err, out := out } := by
  cases bs with
  | nil => exact absurd rfl h
  | cons b rest => rw [dcFeed_cons]; simpa [dcStep] using dcFeed_err rest out


/-! ## FastCGI record reassembly -/

theorem frFeed_nil (s : FrSt) : frFeed s [] = s := rfl
theorem frFeed_cons (s : FrSt) (b : UInt8) (bs : Bytes) : frFeed s (b :: bs) = frFeed (frStep s b) bs := rfl
theorem frFeed_append (s : FrSt) (a b : Bytes) : frFeed s (a ++ b) = frFeed (frFeed s a) b := by
  simp [frFeed, List.foldl_append]

/-- between records: no partial record pending, request not ended -/
def FrIdle (s : FrSt) : Prop :=
  s.hdr = [] ∧ s.inRec = false ∧ s.ended = false ∧ s.got = 0 ∧ s.acc = [] ∧ s.need = 0 ∧ s.pad = 0 ∧ s.typ = 0

theorem toUInt8_toNat_of_lt {n : Nat} (h : n < 256) : n.toUInt8.toNat = n := by
  simp [Nat.toUInt8, UInt8.toNat, UInt8.ofNat]
  omega

/-- content bytes are collected (most recent first) as long as the record is not complete -/
theorem frFeed_content (c : Bytes) : ∀ (s : FrSt), s.ended = false → s.inRec = true →
    c.length < s.need ∨ (c.length = s.need ∧ s.pad > 0) →
    frFeed s c = { s with need := s.need - c.length, acc := c.reverse ++ s.acc, got := s.got + c.length } := by
  induction c with
  | nil => intro s _ _ _; simp [frFeed_nil]
  | cons b rest ih =>
    intro s he hi hn
    rw [frFeed_cons]
    simp only [List.length_cons] at hn
    have hstep : frStep s b = { s with need := s.need - 1, acc := b :: s.acc, got := s.got + 1 } := by
      unfold frStep
      simp only [he, hi]
      rcases hn with hn | ⟨hn, hp⟩
      · have h1 : s.need > 0 := by omega
        have h2 : ¬ (s.need = 1) := by omega
        simp [h1, h2]
      · have h1 : s.need > 0 := by omega
        have : ¬ (s.pad = 0) := by omega
        simp [h1, this]
    rw [hstep, ih]
    · simp; constructor <;> omega
    · exact he
    · exact hi
    · rcases hn with hn | ⟨hn, hp⟩
      · left; simp; omega
      · right; simp; constructor <;> omega

/-- padding bytes are skipped as long as the record is not complete -/
theorem frFeed_pad (p : Bytes) : ∀ (s : FrSt), s.ended = false → s.inRec = true → s.need = 0 →
    p.length < s.pad →
    frFeed s p = { s with pad := s.pad - p.length, got := s.got + p.length } := by
  induction p with
  | nil => intro s _ _ _ _; simp [frFeed_nil]
  | cons b rest ih =>
    intro s he hi hn hp
    rw [frFeed_cons]
    simp only [List.length_cons] at hp
    have hstep : frStep s b = { s with pad := s.pad - 1, got := s.got + 1 } := by
      unfold frStep
      have : ¬ (s.pad ≤ 1) := by omega
      simp [he, hi, hn, this]
    rw [hstep, ih]
    · simp; constructor <;> omega
    · exact he
    · exact hi
    · exact hn
    · simp; omega

/-- the state after a completed record -/
def frAfter (s : FrSt) (t : UInt8) (content : Bytes) : FrSt :=
  { hdr := [], inRec := false, typ := 0, need := 0, pad := 0, acc := [], got := 0,
    ended := frEvent t content = .endRequest, evs := s.evs ++ [frEvent t content] }

theorem frFeed_header (s : FrSt) (t : UInt8) (rid clen plen : Nat) (x : UInt8)
    (h0 : s.hdr = []) (hi : s.inRec = false) (he : s.ended = false)
    (hc : clen < 65536) (hp : plen < 256) :
    frFeed s [1, t, (rid / 256).toUInt8, (rid % 256).toUInt8, (clen / 256).toUInt8, (clen % 256).toUInt8,
              plen.toUInt8, x]
      = if clen + plen = 0 then frAfter s t []
        else { s with hdr := [], inRec := true, typ := t, need := clen, pad := plen, acc := [], got := s.got + 8 } := by
  have h1 : (clen / 256).toUInt8.toNat = clen / 256 := toUInt8_toNat_of_lt (by omega)
  have h2 : (clen % 256).toUInt8.toNat = clen % 256 := toUInt8_toNat_of_lt (by omega)
  have h3 : plen.toUInt8.toNat = plen := toUInt8_toNat_of_lt hp
  have h4 : clen / 256 * 256 + clen % 256 = clen := by omega
  simp only [frFeed_cons, frFeed_nil]
  simp [frStep, h0, hi, he, h1, h2, h3, h4, frEmit, frAfter]


theorem frFeed_record (s : FrSt) (t : UInt8) (rid : Nat) (content pad : Bytes)
    (h0 : s.hdr = []) (hi : s.inRec = false) (he : s.ended = false)
    (hc : content.length < 65536) (hp : pad.length < 256) :
    frFeed s (frEncode t rid content pad) = frAfter s t content := by
  unfold frEncode
  rw [frFeed_append, frFeed_append, frFeed_header s t rid content.length pad.length 0 h0 hi he hc hp]
  rcases List.eq_nil_or_concat pad with hpad | ⟨pinit, plast, hpad⟩
  · -- no padding
    subst hpad
    rcases List.eq_nil_or_concat content with hcon | ⟨cinit, clast, hcon⟩
    · subst hcon; simp [frFeed_nil]
    · rw [List.concat_eq_append] at hcon
      subst hcon
      have hne : ¬ ((cinit ++ [clast]).length + ([] : Bytes).length = 0) := by simp
      rw [if_neg hne, frFeed_append, frFeed_content cinit _ (by simpa using he) (by simp) (by left; simp)]
      simp [frFeed_cons, frFeed_nil, frStep, he, frEmit, frAfter]
  · rw [List.concat_eq_append] at hpad
    subst hpad
    have hne : ¬ (content.length + (pinit ++ [plast]).length = 0) := by simp
    rw [if_neg hne, frFeed_content content _ (by simpa using he) (by simp) (by right; simp),
        frFeed_append, frFeed_pad pinit _ (by simpa using he) (by simp) (by simp) (by simp)]
    simp [frFeed_cons, frFeed_nil, frStep, he, frEmit, frAfter]

theorem frAfter_idle (s : FrSt) (t : UInt8) (c : Bytes) (h : frEvent t c ≠ .endRequest) :
    (frAfter s t c).hdr = [] ∧ (frAfter s t c).inRec = false ∧ (frAfter s t c).ended = false := by
  simp [frAfter, h]

/-- after END_REQUEST nothing is parsed any more -/
theorem frFeed_ended (bs : Bytes) (s : FrSt) (h : s.ended = true) : frFeed s bs = s := by
  induction bs with
  | nil => rfl
  | cons b rest ih => rw [frFeed_cons]; simp [frStep, h, ih]


/-- fewer than 8 header bytes: nothing happens yet -/
theorem frFeed_hdr_partial (r : Bytes) : ∀ (s : FrSt), s.inRec = false → s.ended = false →
    s.hdr.length + r.length < 8 →
    frFeed s r = { s with hdr := s.hdr ++ r, got := s.got + r.length } := by
  induction r with
  | nil => intro s _ _ _; simp [frFeed_nil]
  | cons b rest ih =>
    intro s hi he hl
    rw [frFeed_cons]
    simp only [List.length_cons] at hl
    have hstep : frStep s b = { s with hdr := s.hdr ++ [b], got := s.got + 1 } := by
      unfold frStep
      have : s.hdr.length + 1 < 8 := by omega
      simp [hi, he, this]
    rw [hstep, ih]
    · simp; omega
    · exact hi
    · exact he
    · simp; omega

/-- a record that is not yet complete produces no event and does not end the request -/
theorem frFeed_partial_record (s : FrSt) (t : UInt8) (rid : Nat) (content pad : Bytes) (k : Nat)
    (h0 : s.hdr = []) (hi : s.inRec = false) (he : s.ended = false)
    (hc : content.length < 65536) (hp : pad.length < 256)
    (hk : k < (frEncode t rid content pad).length) :
    (frFeed s ((frEncode t rid content pad).take k)).ended = false ∧
    (frFeed s ((frEncode t rid content pad).take k)).evs = s.evs := by
  unfold frEncode at hk ⊢
  simp only [List.length_append, List.length_cons, List.length_nil] at hk
  by_cases hk8 : k < 8
  · -- inside the header
    rw [List.append_assoc, List.take_append_of_le_length (by simp; omega)]
    rw [frFeed_hdr_partial _ s hi he (by simp [h0]; omega)]
    simp [he]
  · have hk8' : 8 ≤ k := by omega
    rw [List.append_assoc, List.take_append, List.take_of_length_le (by simp; omega), frFeed_append,
        frFeed_header s t rid content.length pad.length 0 h0 hi he hc hp]
    have hne : ¬ (content.length + pad.length = 0) := by omega
    rw [if_neg hne]
    simp only [List.length_cons, List.length_nil]
    generalize hj : k - (0 + 1 + 1 + 1 + 1 + 1 + 1 + 1 + 1) = j
    have hjlt : j < content.length + pad.length := by omega
    generalize hs1 : ({ s with hdr := [], inRec := true, typ := t, need := content.length, pad := pad.length,
                               acc := [], got := s.got + 8 } : FrSt) = s1
    have e1 : s1.ended = false := by rw [← hs1]; exact he
    have i1 : s1.inRec = true := by rw [← hs1]
    have n1 : s1.need = content.length := by rw [← hs1]
    have p1 : s1.pad = pad.length := by rw [← hs1]
    have v1 : s1.evs = s.evs := by rw [← hs1]
    by_cases hjc : j ≤ content.length
    · rw [List.take_append_of_le_length hjc]
      rw [frFeed_content _ s1 e1 i1 (by
        simp only [List.length_take]
        by_cases hj2 : j < content.length
        · left; omega
        · right; omega)]
      simp [e1, v1]
    · rw [List.take_append, List.take_of_length_le (by omega), frFeed_append]
      rw [frFeed_content _ s1 e1 i1 (by right; omega)]
      rw [frFeed_pad _ _ (by simpa using e1) (by simpa using i1) (by simp; omega) (by simp; omega)]
      simp [e1, v1]


/-- a FastCGI record as the backend writes it -/
structure FrRec where
  typ : UInt8
  rid : Nat
  content : Bytes
  pad : Bytes

def FrRec.ok (r : FrRec) : Prop := r.content.length < 65536 ∧ r.pad.length < 256
def FrRec.enc (r : FrRec) : Bytes := frEncode r.typ r.rid r.content r.pad
def FrRec.ev (r : FrRec) : FrEv := frEvent r.typ r.content

theorem frFeed_records (rs : List FrRec) : ∀ (s : FrSt), s.hdr = [] → s.inRec = false → s.ended = false →
    (∀ r ∈ rs, r.ok ∧ r.ev ≠ .endRequest) →
    (frFeed s (rs.flatMap FrRec.enc)).hdr = [] ∧ (frFeed s (rs.flatMap FrRec.enc)).inRec = false ∧
    (frFeed s (rs.flatMap FrRec.enc)).ended = false ∧
    (frFeed s (rs.flatMap FrRec.enc)).evs = s.evs ++ rs.map FrRec.ev := by
  induction rs with
  | nil => intro s h0 hi he _; simp [frFeed_nil, h0, hi, he]
  | cons r rest ih =>
    intro s h0 hi he hall
    have hr := hall r (by simp)
    have hrest : ∀ x ∈ rest, x.ok ∧ x.ev ≠ .endRequest := fun x hx => hall x (by simp [hx])
    simp only [List.flatMap_cons, frFeed_append]
    have hrec : frFeed s r.enc = frAfter s r.typ r.content :=
      frFeed_record s r.typ r.rid r.content r.pad h0 hi he hr.1.1 hr.1.2
    rw [hrec]
    obtain ⟨a, b, c⟩ := frAfter_idle s r.typ r.content hr.2
    obtain ⟨i1, i2, i3, i4⟩ := ih (frAfter s r.typ r.content) a b c hrest
    refine ⟨i1, i2, i3, ?_⟩
    rw [i4]
    simp [frAfter, FrRec.ev]


end LtVerif.BeResp
